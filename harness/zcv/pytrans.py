"""pytrans — a small typed compiler from the Python AST of ZConfig's pure string functions to Lean 4.

The generated definitions (`lean/ZCV/Gen/CodeDatatypes.lean`, `CodeSubstitution.lean`, namespace `ZCV.Gen.Code`)
are regenerated from the working tree on every run, like the data in the other `Gen` files; `ZCV/Lemmas/CodeEq*.lean`
prove each of them extensionally equal to the hand-written model function the property theorems are about.

Subset (anything else raises `Untranslatable` naming function and construct — never a silent approximation):
  statements   assignment (names, tuple unpacking, `self.x = …` inside `__init__`), `+=`, if/elif/else, return, raise Cls(...),
               `while` (fuel), `for x in <list>` / `for k, v in d.items()` (structural), `try: <one assignment> except Cls:`,
               docstrings, `import socket`
  expressions  str/int/bool/None constants, names, tuples, ==, !=, <, >, <=, >=, in / not in (tuple of strings; one-character
               literal in a string), and/or/not, `is None` / `is not None`, truthiness of str / Optional / match objects,
               + on str and int, - and * on int, slices with constant or computed (also negative) bounds, tuple[i], len, int, str,
               str methods lower strip split() split(None,1) rsplit(c,1) startswith(x[,pos]) endswith(x) find(c),
               match-object methods group() group(0) end(), calls of other translated functions and of the instances built from
               them, mapping.get, os.getenv, self._x, rx.match(s[,pos]), getattr(socket, "AF_UNIX", None), os.sep
Second round (timedelta, cmdline.py, url.py, parser prefixes): chained assignment of a constant, float(x) and datetime.timedelta
as PARAMETERS, s[i], `try: return f() except Cls as e`, exception objects (e = Cls(msg, *pos); e.attr = v; raise e), s.split(c[,1]),
`"" in list`, named groups m.group('a', 'b'), module-global compiled patterns, `self.meth(msg)` inlined when meth is one `raise`,
the PURE PREFIX of a method (Spec.cut_markers / cut_result), `self.lst.append(x)` as the result (Spec.appends), urllib functions
as parameters.
Typing: every function has an explicit signature in SPECS below; locals are typed by inference along each control path
(continuations are duplicated into the branches, so a variable may have a different type on different paths:
`p = None` after `host, p = s.rsplit(":", 1)`); Optional values are narrowed by `if x:`, `if not x:`, `is None`, `is not None`.
Exceptions: only the class is kept (`SubstitutionReplacementError` keeps its two arguments); the arguments of `raise` are not
evaluated (messages are not observables).
Loops: `while` becomes a recursive helper with a fuel argument taken from SPECS; when the fuel runs out the helper leaves the
loop as if its condition were false (what the model's loop does at fuel 0).  `for` over a list is structural recursion.
"""
import ast
import inspect
import re
import textwrap

from .extract import Untranslatable, _import_repo

# ------------------------------------------------------------------ types
STR = ("Str",)
INT = ("Int",)
BOOL = ("Bool",)
NONE = ("None",)
MATCH = ("Match",)
FAM = ("Fam",)
RX = ("RE",)
MAPPING = ("Mapping",)
NUM = ("Num",)              # a Python number: int, or float kept symbolic as `float(<literal>)`
TDELTA = ("Timedelta",)     # datetime.timedelta, kept symbolic as its five constructor arguments
FLOATACC = ("FloatAcc",)    # which texts `float()` accepts (a trusted parameter)
EXC = ("Exc",)              # an exception object bound by `except … as e` (only usable inside raise arguments)


def Opt(t):
    return ("Opt", t)


def Tup(*ts):
    return ("Tup", tuple(ts))


def Lst(t):
    return ("List", t)


def Fn(args, ret):
    return ("Fn", tuple(args), ret)


def Union(*ts):
    return ("Union", tuple(ts))


def Dict(k, v):
    return ("Dict", k, v)


def lean_ty(t, atom=False):
    k = t[0]
    if k == "Str":
        return "Str"
    if k == "Int":
        return "Int"
    if k == "Bool":
        return "Bool"
    if k == "None":
        return "Unit"
    if k == "Match":
        return "Py.Match"
    if k == "Fam":
        return "Py.SockFamily"
    if k == "RE":
        return "Rx.RE"
    if k == "Match":
        return "Py.Match"
    if k == "Num":
        return "Py.Num"
    if k == "Timedelta":
        return "Py.Timedelta"
    if k == "FloatAcc":
        return "(Str → Bool)" if atom else "Str → Bool"
    if k == "Mapping":
        r = "Str → Option Str"
    elif k == "Opt":
        r = "Option " + lean_ty(t[1], True)
    elif k == "Tup":
        return "(" + " × ".join(lean_ty(x, True) for x in t[1]) + ")"
    elif k == "List":
        r = "List " + lean_ty(t[1], True)
    elif k == "Dict":
        r = "List (%s × %s)" % (lean_ty(t[1], True), lean_ty(t[2], True))
    elif k == "Union":
        if len(t[1]) != 2:
            raise Untranslatable("union of %d types" % len(t[1]))
        r = "Sum %s %s" % (lean_ty(t[1][0], True), lean_ty(t[1][1], True))
    elif k == "Fn":
        r = " → ".join([lean_ty(a, True) for a in t[1]] + ["Except PyExc " + lean_ty(t[2], True)])
    else:
        raise Untranslatable("type %r" % (t,))
    return "(" + r + ")" if atom else r


def lean_char(c):
    o = ord(c)
    if c == "'":
        return "'\\''"
    if c == "\\":
        return "'\\\\'"
    if 32 <= o < 127:
        return "'%s'" % c
    return "(Char.ofNat %d)" % o


def lean_str(s):
    if not s:
        return "([] : Str)"
    return "[" + ", ".join(lean_char(c) for c in s) + "]"


# ------------------------------------------------------------------ output tree
class Raw:
    def __init__(self, text):
        self.text = text


class Let:
    def __init__(self, name, val, body):
        self.name, self.val, self.body = name, val, body


class If:
    def __init__(self, cond, then, els):
        self.cond, self.then, self.els = cond, then, els


class Mat:
    def __init__(self, scrut, arms):
        self.scrut, self.arms = scrut, arms      # scrut: text or node; arms: [(pattern text, node)]


def pp(n, ind):
    """lines of node n at indentation ind"""
    pad = " " * ind
    if isinstance(n, Raw):
        return [pad + n.text]
    if isinstance(n, Let):
        return [pad + "let %s := %s" % (n.name, n.val)] + pp(n.body, ind)
    if isinstance(n, If):
        return [pad + "if %s then" % n.cond] + pp_sub(n.then, ind + 2) + [pad + "else"] + pp_sub(n.els, ind + 2)
    if isinstance(n, Mat):
        if isinstance(n.scrut, str):
            out = [pad + "match %s with" % n.scrut]
        else:
            inner = pp(n.scrut, ind + 4)
            out = [pad + "match ("] + inner[:-1] + [inner[-1] + ") with"]
        for pat, body in n.arms:
            out += [pad + "| %s =>" % pat] + pp_sub(body, ind + 4)
        return out
    raise TypeError(n)


def pp_sub(n, ind):
    """a node in a branch position: compound nodes are parenthesised (a nested `match` must not swallow the outer arms)"""
    if isinstance(n, Raw):
        return pp(n, ind)
    lines = pp(n, ind + 1)
    lines[0] = " " * ind + "(" + lines[0][ind + 1:]
    lines[-1] += ")"
    return lines


# ------------------------------------------------------------------ specifications
class Spec:
    def __init__(self, module, qual, lean, params, ret, attrs=(), externals=(), fuel=(), init=None, doc="", nested=None, appends=None,
                 cut_markers=(), cut_result=()):
        self.module, self.qual, self.lean = module, qual, lean
        self.params, self.ret = list(params), ret
        self.attrs = list(attrs)          # (python attribute of self, type) -> leading parameters
        self.externals = list(externals)  # ("env", type): implicit parameters (os.getenv)
        self.fuel = list(fuel)            # Lean text per while loop, in source order
        self.init = init                  # for __init__: attribute names whose final values are the result
        self.nested = nested or {}
        self.cut_markers = list(cut_markers)   # the translation stops before the first statement mentioning one of these …
        self.cut_result = list(cut_result)     # … and returns these locals (the "pure prefix" of a method)
        self.appends = appends            # `self.<appends>.append(x)` as last statement: the function is rendered as returning x        # signatures of functions defined inside: name -> (params, ret)
        self.doc = doc


HOSTPORT = Tup(STR, Opt(INT))
ENV = ("env", MAPPING)

SPECS_DATATYPES = [
    Spec("ZConfig.datatypes", "asBoolean", "asBoolean", [("s", STR)], BOOL),
    Spec("ZConfig.datatypes", "integer", "integer", [("value", STR)], INT),
    Spec("ZConfig.datatypes", "null_conversion", "null_conversion", [("value", STR)], STR),
    Spec("ZConfig.datatypes", "string_list", "string_list", [("s", STR)], Lst(STR)),
    Spec("ZConfig.datatypes", "RangeCheckedConversion.__call__", "RangeCheckedConversion_call", [("value", STR)], INT,
         attrs=[("_min", Opt(INT)), ("_max", Opt(INT)), ("_conversion", Fn([STR], INT))]),
    Spec("ZConfig.datatypes", "SuffixMultiplier.__call__", "SuffixMultiplier_call", [("v", STR)], INT,
         attrs=[("_d", Dict(STR, INT)), ("_keysz", INT), ("_default", INT)]),
    Spec("ZConfig.datatypes", "SuffixMultiplier.__init__", "SuffixMultiplier_init", [("d", Dict(STR, INT)), ("default", INT)],
         Tup(Dict(STR, INT), INT, INT), init=("_d", "_default", "_keysz"), nested={"check": ([("a", STR), ("b", STR)], STR)}),
    Spec("ZConfig.datatypes", "timedelta", "timedelta", [("s", STR)], TDELTA,
         externals=[("float", FLOATACC), ("timedelta", Fn([NUM] * 5, TDELTA))]),
    Spec("ZConfig.datatypes", "RegularExpressionConversion.__call__", "RegularExpressionConversion_call", [("value", STR)], STR,
         attrs=[("_rx", RX)]),
    Spec("ZConfig.datatypes", "BasicKeyConversion.__call__", "BasicKeyConversion_call", [("value", STR)], STR,
         attrs=[("_rx", RX)]),
    Spec("ZConfig.datatypes", "InetAddress.__call__", "InetAddress_call", [("s", STR)], HOSTPORT,
         attrs=[("DEFAULT_HOST", STR)]),
    Spec("ZConfig.datatypes", "SocketAddress._parse_address", "SocketAddress_parse_address", [("s", STR)], HOSTPORT),
    Spec("ZConfig.datatypes", "SocketBindingAddress._parse_address", "SocketBindingAddress_parse_address", [("s", STR)], HOSTPORT),
    Spec("ZConfig.datatypes", "SocketConnectionAddress._parse_address", "SocketConnectionAddress_parse_address", [("s", STR)], HOSTPORT),
    Spec("ZConfig.datatypes", "SocketAddress.__init__", "SocketAddress_init", [("s", STR)], Tup(FAM, Union(STR, HOSTPORT)),
         attrs=[("_parse_address", Fn([STR], HOSTPORT))], init=("family", "address")),
]

SPECS_SUBSTITUTION = [
    Spec("ZConfig.substitution", "isname", "isname", [("s", STR)], BOOL),
    Spec("ZConfig.substitution", "_split", "_split", [("s", STR)], Tup(STR, Opt(STR), Opt(STR), Opt(STR), Opt(STR))),
    Spec("ZConfig.substitution", "substitute", "substitute", [("s", STR), ("mapping", MAPPING)], STR,
         externals=[ENV], fuel=["s.length + 1"]),
]

POS = Tup(STR, INT, INT)
SPECS_CMDLINE = [
    Spec("ZConfig.cmdline", "ExtendedConfigLoader.addOption", "addOption", [("spec", STR), ("pos", Opt(POS))],
         Tup(Lst(STR), STR, POS), appends="clopts"),
    Spec("ZConfig.cmdline", "OptionBag.basic_key", "OptionBag_basic_key", [("s", STR), ("pos", POS)], STR,
         attrs=[("_basic_key", Fn([STR], STR))]),
    Spec("ZConfig.cmdline", "OptionBag._normalize_case", "OptionBag_normalize_case", [("string", STR)], STR),
]

PARSER_ATTRS = [("url", Opt(STR)), ("lineno", INT)]
SPECS_CFGPARSER = [
    Spec("ZConfig.cfgparser", "ZConfigParser.handle_key_value", "handle_key_value_prefix", [("section", NONE), ("rest", STR)],
         Tup(Opt(STR), Opt(STR)), attrs=PARSER_ATTRS, cut_markers=["self.replace", "section."], cut_result=["key", "value"]),
    Spec("ZConfig.cfgparser", "ZConfigParser.handle_directive", "handle_directive_prefix", [("section", NONE), ("rest", STR)],
         Tup(Opt(STR), STR), attrs=PARSER_ATTRS, cut_markers=["getattr(self"], cut_result=["name", "arg"]),
]

SPECS_URL = [
    Spec("ZConfig.url", "urlnormalize", "urlnormalize", [("url", STR)], STR),
    Spec("ZConfig.url", "urldefrag", "urldefrag", [("url", STR)], Tup(STR, STR), externals=[("urldefrag", Fn([STR], Tup(STR, STR)))]),
    Spec("ZConfig.url", "urljoin", "urljoin", [("base", STR), ("relurl", STR)], STR, externals=[("urljoin", Fn([STR, STR], STR))]),
]

# compiled patterns reachable as module globals: (module, global name) -> Lean term of the GENERATED pattern
PATTERN_GLOBALS = {("ZConfig.cfgparser", "_keyvalue_rx"): "Gen.keyvalueRx",
                   ("ZConfig.cfgparser", "_section_start_rx"): "Gen.sectionStartRx"}
REGEX_GLOBALS = {("ZConfig.substitution", "_name_match"): "Gen.nameRx"}

# constructors of the standard library that stay PARAMETERS: (module, name) -> (external key, keyword order, types, result)
EXTERNAL_CTORS = {("datetime", "timedelta"): ("timedelta", ["weeks", "days", "hours", "minutes", "seconds"], [NUM] * 5, TDELTA)}

EXC_CLASSES = {"ValueError", "TypeError", "OverflowError", "IndexError", "ConfigurationSyntaxError", "SubstitutionSyntaxError", "SubstitutionReplacementError"}


# ------------------------------------------------------------------ the compiler
class Var:
    def __init__(self, lean, ty):
        self.lean, self.ty = lean, ty


class ExcObj:
    """an exception object held in a local variable (`e = ZConfig.ConfigurationSyntaxError(msg, *pos)`; `e.specifier = spec`;
    `raise e`): a compile-time record of the Lean texts of its fields, not a Lean variable"""
    ty = ("ExcObj",)

    def __init__(self, cls, fields):
        self.cls, self.fields = cls, dict(fields)
        self.lean = "<exception object>"

    def lean_term(self):
        if self.cls == "ConfigurationSyntaxError":
            f = self.fields
            return "(.ConfigurationSyntaxError %s %s %s %s)" % (f["url"], f["lineno"], f["colno"], f["specifier"])
        return "." + self.cls


class Ctx:
    """translation of one function"""

    def __init__(self, unit, spec, fn):
        self.unit, self.spec, self.fn = unit, spec, fn
        self.counter = {}
        self.helpers = []          # Lean text of loop helpers, in order
        self.nloop = 0
        self.notes = []

    def bad(self, node, what):
        line = getattr(node, "lineno", "?")
        raise Untranslatable("%s (line %s of the function): %s" % (self.spec.qual, line, what))

    def fresh(self, base):
        base = re.sub(r"[^A-Za-z0-9_]", "_", base)
        if base in LEAN_RESERVED:
            base += "_"
        n = self.counter.get(base, 0)
        self.counter[base] = n + 1
        return base if n == 0 else "%s_%d" % (base, n)


LEAN_RESERVED = {"end", "at", "from", "to", "fun", "let", "match", "with", "then", "else", "if", "do", "in", "def", "theorem",
                 "open", "namespace", "section", "variable", "universe", "instance", "structure", "class", "inductive",
                 "where", "have", "show", "by", "Type", "Prop", "Sort", "e", "fuel", "some", "none", "env", "defs", "rest_", "k_", "r_", "x_",
                 "lower", "strip", "splitWS", "splitWS1", "startsWith", "endsWith", "decide", "true", "false", "not", "or", "and",
                 "List", "Option", "Except", "Int", "Nat", "Str", "Bool", "Sum", "Unit", "Py", "Gen", "Rx", "PyExc",
                 "prefix", "infix", "infixl", "infixr", "postfix", "notation", "macro", "syntax", "import", "export", "private",
                 "protected", "mutual", "axiom", "example", "abbrev", "opaque", "attribute", "deriving", "extends", "for", "unless",
                 "return", "try", "catch", "finally", "mut", "using", "calc", "suffices", "obtain", "nomatch", "nofun", "partial",
                 "unsafe", "noncomputable", "local", "scoped", "set_option", "termination_by", "decreasing_by", "macro_rules",
                 "elab", "elab_rules", "initialize", "builtin_initialize", "omit", "include", "hiding", "renaming", "exposing"}


def join_ty(a, b):
    """least type holding both, or None"""
    if a == b:
        return a
    if {a, b} == {INT, NUM}:
        return NUM
    if a == NONE:
        return b if b[0] == "Opt" else Opt(b)
    if b == NONE:
        return a if a[0] == "Opt" else Opt(a)
    if a[0] == "Opt" and b[0] == "Opt":
        j = join_ty(a[1], b[1])
        return Opt(j) if j else None
    if a[0] == "Opt":
        j = join_ty(a[1], b)
        return Opt(j) if j and j[0] != "Opt" else None
    if b[0] == "Opt":
        return join_ty(b, a)
    return None


def coerce(cx, node, text, frm, to):
    """Lean text of `text : frm` seen at type `to` (only re-tagging: none / some / Sum.inl / Sum.inr / tuples componentwise)"""
    if frm == to:
        return text
    if frm == INT and to == NUM:
        return "(Py.Num.int %s)" % text
    if to[0] == "Opt":
        if frm == NONE:
            return "none"
        if frm[0] == "Opt":
            cx.bad(node, "cannot re-tag %s as %s" % (lean_ty(frm), lean_ty(to)))
        return "(some %s)" % coerce(cx, node, text, frm, to[1])
    if to[0] == "Union":
        for i, alt in enumerate(to[1]):
            if alt == frm:
                return "(%s %s)" % ("Sum.inl" if i == 0 else "Sum.inr", text)
        cx.bad(node, "%s is not an alternative of %s" % (lean_ty(frm), lean_ty(to)))
    cx.bad(node, "cannot use %s as %s" % (lean_ty(frm), lean_ty(to)))


def coerce_tuple(cx, node, items, to):
    """items: [(text, ty)] of a tuple display, to: Tup"""
    if to[0] != "Tup" or len(to[1]) != len(items):
        cx.bad(node, "tuple of %d items used as %s" % (len(items), lean_ty(to)))
    return "(" + ", ".join(coerce(cx, node, t, ty, want) for (t, ty), want in zip(items, to[1])) + ")"


def assigned_names(stmts):
    out = []

    def tgt(t):
        if isinstance(t, ast.Name):
            if t.id not in out:
                out.append(t.id)
        elif isinstance(t, (ast.Tuple, ast.List)):
            for e in t.elts:
                tgt(e)
        elif isinstance(t, ast.Attribute) and isinstance(t.value, ast.Name) and t.value.id == "self":
            k = "self." + t.attr
            if k not in out:
                out.append(k)
    for s in stmts:
        for n in ast.walk(s):
            if isinstance(n, ast.Assign):
                for t in n.targets:
                    tgt(t)
            elif isinstance(n, (ast.AugAssign, ast.AnnAssign)):
                tgt(n.target)
            elif isinstance(n, ast.For):
                tgt(n.target)
    return out


class FnTrans:
    def __init__(self, unit, spec):
        self.unit, self.spec = unit, spec
        self.fn = unit.resolve_qual(spec.qual)
        self.mod = unit.module(spec.module)
        src = textwrap.dedent(inspect.getsource(self.fn))
        tree = ast.parse(src)
        if len(tree.body) != 1 or not isinstance(tree.body[0], ast.FunctionDef):
            raise Untranslatable("%s: not a plain function definition" % spec.qual)
        self.node = tree.body[0]
        self.cx = Ctx(unit, spec, self.fn)
        self.is_method = "." in spec.qual
        self.local_modules = {}
        self.ret = spec.ret

    # ---------------------------------------------------------------- entry
    def translate(self):
        cx, spec, fd = self.cx, self.spec, self.node
        a = fd.args
        if a.vararg or a.kwarg or a.kwonlyargs or a.posonlyargs or a.kw_defaults:
            cx.bad(fd, "parameter list beyond plain positional parameters")
        # (default values only matter to callers: the translation takes every parameter explicitly)
        if fd.decorator_list:
            cx.bad(fd, "decorators")
        names = [x.arg for x in a.args]
        if self.is_method:
            if not names or names[0] != "self":
                cx.bad(fd, "method without self")
            names = names[1:]
        if names != [p for p, _ in spec.params]:
            cx.bad(fd, "parameters %r differ from the signature table %r" % (names, [p for p, _ in spec.params]))
        env = {}
        self.attr_vars = {}
        header = []
        for an, ty in spec.attrs:
            v = Var(cx.fresh(an), ty)
            self.attr_vars[an] = v
            header.append(v)
        for en, ty in spec.externals:
            v = Var(cx.fresh(en + "_"), ty)
            env["$" + en] = v
            header.append(v)
        for pn, ty in spec.params:
            v = Var(cx.fresh(pn), ty)
            env[pn] = v
            header.append(v)
        self.header = header
        body = self.block(fd.body, env, self.fall_off)
        sig = " ".join("(%s : %s)" % (v.lean, lean_ty(v.ty)) for v in header)
        out = []
        for h in cx.helpers:
            out.append(h)
        doc = "/-- `%s.%s`" % (spec.module.split(".")[-1], spec.qual)
        if spec.attrs:
            doc += "; attributes of `self` as parameters: " + ", ".join("`self.%s`" % a for a, _ in spec.attrs)
        if spec.externals:
            names = {"env": "os.getenv", "float": "what `float()` accepts", "timedelta": "datetime.timedelta",
                     "urljoin": "urllib.parse.urljoin", "urldefrag": "urllib.parse.urldefrag"}
            doc += "; " + ", ".join("%s as parameter `%s`" % (names.get(en, en), header[len(spec.attrs) + i].lean)
                                    for i, (en, _) in enumerate(spec.externals))
        if spec.cut_markers:
            doc += "; PURE PREFIX only: up to the first statement mentioning %s, result = the locals (%s)" % (
                " / ".join("`%s`" % m for m in spec.cut_markers), ", ".join(spec.cut_result))
        if spec.appends:
            doc += "; rendered as the function returning the item it appends to `self.%s`" % spec.appends
        doc += " -/"
        out.append(doc + "\ndef %s %s : Except PyExc %s :=\n%s\n" % (spec.lean, sig, lean_ty(self.ret, True), "\n".join(pp(body, 2))))
        return "\n".join(out)

    def fall_off(self, env):
        """end of the function body reached without `return`"""
        if self.spec.init:
            return self.state_result(self.node, env)
        if self.ret != NONE:
            self.cx.bad(self.node, "a path ends without return but the result type is %s" % lean_ty(self.ret))
        return Raw(".ok ()")

    def state_result(self, node, env):
        items = []
        for a in self.spec.init:
            v = env.get("self." + a)
            if v is None:
                self.cx.bad(node, "self.%s is not assigned on every path of __init__" % a)
            items.append((v.lean, v.ty))
        return Raw(".ok " + coerce_tuple(self.cx, node, items, self.ret))

    # ---------------------------------------------------------------- statements
    def block(self, stmts, env, k):
        if not stmts:
            return k(env)
        s, rest = stmts[0], stmts[1:]
        if self.spec.cut_markers and not (isinstance(s, ast.Expr) and isinstance(s.value, ast.Constant)):
            src = ast.unparse(s)
            if any(m in src for m in self.spec.cut_markers):
                # the pure prefix of the method ends here: its result is the tuple of the named locals
                items = []
                for n in self.spec.cut_result:
                    if n not in env or isinstance(env[n], ExcObj):
                        self.cx.bad(s, "local %s is not defined where the pure prefix ends" % n)
                    items.append((env[n].lean, env[n].ty))
                return Raw(".ok " + coerce_tuple(self.cx, s, items, self.ret))
        return self.stmt(s, env, lambda e: self.block(rest, e, k))

    def wrap(self, fx, body):
        for tmp, call in reversed(fx):
            body = Mat(call, [(".error e", Raw(".error e")), (".ok %s" % tmp, body)])
        return body

    def bind_name(self, fx, text, base):
        """value `text` is to be bound to a new variable `base`: reuse the binder of the last effect if `text` is just that"""
        name = self.cx.fresh(base)
        if fx and fx[-1][0] == text:
            fx[-1] = (name, fx[-1][1])
            return name, False
        return name, True

    def stmt(self, s, env, k):
        cx = self.cx
        if isinstance(s, ast.Expr):
            if isinstance(s.value, ast.Constant) and isinstance(s.value.value, str):
                return k(env)        # docstring
            ap = self.spec.appends
            v = s.value
            r = self.inline_raiser(v, env)
            if r is not None:
                return r
            if ap and isinstance(v, ast.Call) and isinstance(v.func, ast.Attribute) and v.func.attr == "append" and len(v.args) == 1 \
                    and not v.keywords and isinstance(v.func.value, ast.Attribute) and isinstance(v.func.value.value, ast.Name) \
                    and v.func.value.value.id == "self" and v.func.value.attr == ap:
                if s is not self.node.body[-1]:
                    cx.bad(s, "self.%s.append(...) that is not the last statement of the function" % ap)
                return self.stmt(ast.Return(value=v.args[0], lineno=s.lineno), env, k)
            cx.bad(s, "expression statement")
        if isinstance(s, ast.Import):
            for al in s.names:
                if al.name not in ("socket",) or al.asname:
                    cx.bad(s, "import %s" % al.name)
                self.local_modules[al.name] = __import__(al.name)
            return k(env)
        if isinstance(s, ast.Return):
            if self.spec.init:
                if s.value is not None:
                    cx.bad(s, "return with a value inside __init__")
                return self.state_result(s, env)
            if s.value is None:
                if self.ret != NONE:
                    cx.bad(s, "bare return but the result type is %s" % lean_ty(self.ret))
                return Raw(".ok ()")
            fx = []
            if isinstance(s.value, ast.Tuple):
                items = [self.expr(e, env, fx) for e in s.value.elts]
                text = coerce_tuple(cx, s, items, self.ret)
            else:
                t, ty = self.expr(s.value, env, fx)
                if len(fx) == 1 and fx[0][0] == t and ty == self.ret:
                    return Raw(fx[0][1])                # `return f(x)`: the call itself
                text = coerce(cx, s, t, ty, self.ret)
            return self.wrap(fx, Raw(".ok %s" % text))
        if isinstance(s, ast.Raise):
            if s.cause is not None or s.exc is None:
                cx.bad(s, "raise without a class / with a cause")
            return self.raise_(s, env)
        if isinstance(s, ast.Assign):
            if len(s.targets) != 1:
                # a = b = … = <constant>: the constant is evaluated once and bound to every name
                if not (isinstance(s.value, ast.Constant) and all(isinstance(t, ast.Name) for t in s.targets)):
                    cx.bad(s, "chained assignment other than of a constant to names")
                def chain(ts, e):
                    if not ts:
                        return k(e)
                    return self.assign(s, ts[0], s.value, e, lambda e2: chain(ts[1:], e2))
                return chain(list(s.targets), env)
            return self.assign(s, s.targets[0], s.value, env, k)
        if isinstance(s, ast.AugAssign):
            if not isinstance(s.op, ast.Add):
                cx.bad(s, "augmented assignment other than +=")
            return self.assign(s, s.target, ast.BinOp(left=self.load_of(s.target), op=ast.Add(), right=s.value, lineno=s.lineno), env, k)
        if isinstance(s, ast.If):
            return self.test(s.test, env,
                             lambda e: self.block(s.body, e, k),
                             lambda e: self.block(s.orelse, e, k))
        if isinstance(s, ast.While):
            return self.while_(s, env, k)
        if isinstance(s, ast.For):
            return self.for_(s, env, k)
        if isinstance(s, ast.Try):
            return self.try_(s, env, k)
        if isinstance(s, ast.Pass):
            return k(env)
        if isinstance(s, ast.FunctionDef):
            return self.nested_def(s, env, k)
        cx.bad(s, "statement %s" % type(s).__name__)

    def nested_def(self, s, env, k):
        """a function defined inside: translated as a separate top-level definition (it must not use the enclosing locals)"""
        cx = self.cx
        if s.name not in self.spec.nested:
            cx.bad(s, "nested function %s without a signature" % s.name)
        params, ret = self.spec.nested[s.name]
        a = s.args
        if a.vararg or a.kwarg or a.kwonlyargs or a.posonlyargs or a.defaults or a.kw_defaults or s.decorator_list \
                or [x.arg for x in a.args] != [p for p, _ in params]:
            cx.bad(s, "parameters of the nested function %s" % s.name)
        sub = FnTrans.__new__(FnTrans)
        sub.unit, sub.mod, sub.node, sub.is_method, sub.local_modules = self.unit, self.mod, s, False, dict(self.local_modules)
        sub.spec = Spec(self.spec.module, self.spec.qual + "." + s.name, self.spec.lean + "_" + s.name, params, ret)
        sub.fn, sub.ret, sub.attr_vars = None, ret, {}
        sub.cx = Ctx(self.unit, sub.spec, None)
        env2 = {}
        header = []
        for pn, ty in params:
            v = Var(sub.cx.fresh(pn), ty)
            env2[pn] = v
            header.append(v)
        body = sub.block(s.body, env2, sub.fall_off)      # names of the enclosing function are not in env2: using one is an error
        sig = " ".join("(%s : %s)" % (v.lean, lean_ty(v.ty)) for v in header)
        cx.helpers += sub.cx.helpers
        cx.helpers.append("/-- `%s`, defined inside `%s` -/\ndef %s %s : Except PyExc %s :=\n%s\n" % (
            s.name, self.spec.qual, sub.spec.lean, sig, lean_ty(ret, True), "\n".join(pp(body, 2))))
        e2 = dict(env)
        e2[s.name] = Var(sub.spec.lean, Fn([t for _, t in params], ret))
        return k(e2)

    def inline_raiser(self, v, env):
        """`self.meth(args)` as a statement, where `meth` of the same class consists of one `raise`: that raise, inlined
        (its message argument is dropped like every message; `self.x` inside it are this function's attribute parameters)"""
        if not (isinstance(v, ast.Call) and isinstance(v.func, ast.Attribute) and isinstance(v.func.value, ast.Name)
                and v.func.value.id == "self" and "." in self.spec.qual):
            return None
        owner = getattr(self.mod, self.spec.qual.split(".")[0], None)
        meth = getattr(owner, v.func.attr, None) if inspect.isclass(owner) else None
        if not inspect.isfunction(meth):
            return None
        fd = ast.parse(textwrap.dedent(inspect.getsource(meth))).body[0]
        body = [b for b in fd.body if not (isinstance(b, ast.Expr) and isinstance(b.value, ast.Constant))]
        if len(body) != 1 or not isinstance(body[0], ast.Raise):
            return None
        params = [a.arg for a in fd.args.args][1:]
        if len(params) != len(v.args) or v.keywords:
            self.cx.bad(v, "arguments of self.%s" % v.func.attr)
        env2 = {kk: vv for kk, vv in env.items() if kk.startswith("$")}
        for pn in params:
            env2[pn] = Var("<message>", ("Unevaluated",))
        return self.raise_(body[0], env2)

    def load_of(self, t):
        if isinstance(t, ast.Name):
            return ast.Name(id=t.id, ctx=ast.Load(), lineno=t.lineno)
        self.cx.bad(t, "augmented assignment to %s" % type(t).__name__)

    def raise_(self, s, env):
        cx = self.cx
        e = s.exc
        args = []
        if isinstance(e, ast.Name) and isinstance(env.get(e.id), ExcObj):
            return Raw(".error %s" % env[e.id].lean_term())
        if isinstance(e, ast.Call):
            obj = self.exc_object(e, env)
            if obj is not None and obj.cls == "ConfigurationSyntaxError":
                return Raw(".error %s" % obj.lean_term())
            if e.keywords:
                cx.bad(s, "keyword arguments of an exception")
            args = e.args
            e = e.func
        if isinstance(e, ast.Name):
            cls = e.id
        elif isinstance(e, ast.Attribute) and isinstance(e.value, ast.Name) and e.value.id == "ZConfig":
            cls = e.attr
        else:
            cx.bad(s, "raise of something that is not an exception class by name")
        if cls not in EXC_CLASSES:
            cx.bad(s, "exception class %s" % cls)
        if cls == "SubstitutionReplacementError":
            if len(args) != 2:
                cx.bad(s, "SubstitutionReplacementError needs (source, name)")
            fx = []
            (t0, y0), (t1, y1) = [self.expr(a, env, fx) for a in args]
            if fx:
                cx.bad(s, "effects inside raise arguments")
            return Raw(".error (.SubstitutionReplacementError %s %s)" % (coerce(cx, s, t0, y0, STR),
                                                                        coerce(cx, s, t1, y1, Opt(STR)) if y1 != Opt(STR) else t1))
        return Raw(".error .%s" % cls)

    def exc_class_of(self, f):
        if isinstance(f, ast.Name) and f.id in EXC_CLASSES:
            return f.id
        if isinstance(f, ast.Attribute) and isinstance(f.value, ast.Name) and f.value.id == "ZConfig" and f.attr in EXC_CLASSES:
            return f.attr
        return None

    def exc_object(self, call, env):
        """`Cls(msg, …)` as a compile-time exception record; the message is dropped, `ConfigurationSyntaxError` keeps
        (url, lineno, colno) — given positionally, possibly through `*pos` — and the attribute `specifier`"""
        cx = self.cx
        if not isinstance(call, ast.Call):
            return None
        cls = self.exc_class_of(call.func)
        if cls is None or cls == "SubstitutionReplacementError":
            return None
        if cls != "ConfigurationSyntaxError":
            return ExcObj(cls, {})
        if call.keywords or not call.args:
            cx.bad(call, "ConfigurationSyntaxError with keywords / without message")
        items = []
        for a in call.args[1:]:
            fx = []
            if isinstance(a, ast.Starred):
                t, ty = self.expr(a.value, env, fx)
                if ty[0] != "Tup":
                    cx.bad(call, "*%s of type %s" % (ast.unparse(a.value), lean_ty(ty)))
                n = len(ty[1])
                for i, y in enumerate(ty[1]):
                    items.append(("%s%s" % (t, ".2" * i + (".1" if i < n - 1 else "")), y))
            else:
                items.append(self.expr(a, env, fx))
            if fx:
                cx.bad(call, "a call that may raise inside exception arguments")
        if not 2 <= len(items) <= 3:
            cx.bad(call, "ConfigurationSyntaxError needs (msg, url, lineno[, colno])")
        want = [Opt(STR), Opt(INT), Opt(INT)]
        vals = [coerce(cx, call, t, ty, w) if ty != w else t for (t, ty), w in zip(items, want)]
        if len(vals) == 2:
            vals.append("none")
        return ExcObj(cls, {"url": vals[0], "lineno": vals[1], "colno": vals[2], "specifier": "none"})

    def assign(self, s, target, value, env, k):
        cx = self.cx
        fx = []
        # exception objects: e = Cls(...), e.attr = value
        if isinstance(target, ast.Name):
            obj = self.exc_object(value, env)
            if obj is not None:
                env2 = dict(env)
                env2[target.id] = obj
                return k(env2)
        if isinstance(target, ast.Attribute) and isinstance(target.value, ast.Name) and isinstance(env.get(target.value.id), ExcObj):
            obj = env[target.value.id]
            if obj.cls != "ConfigurationSyntaxError" or target.attr != "specifier":
                cx.bad(s, "attribute %s of a %s object" % (target.attr, obj.cls))
            t, ty = self.expr(value, env, fx)
            if fx:
                cx.bad(s, "a call that may raise in an exception attribute")
            new = ExcObj(obj.cls, obj.fields)
            new.fields["specifier"] = coerce(cx, s, t, ty, Opt(STR)) if ty != Opt(STR) else t
            env2 = dict(env)
            env2[target.value.id] = new
            return k(env2)
        if isinstance(target, (ast.Tuple, ast.List)):
            t, ty = self.expr(value, env, fx)
            names = []
            for e in target.elts:
                if not isinstance(e, ast.Name):
                    cx.bad(s, "nested unpacking target")
                names.append(e.id)
            env2 = dict(env)
            if ty[0] == "Tup":
                if len(ty[1]) != len(names):
                    cx.bad(s, "unpacking %d values into %d names" % (len(ty[1]), len(names)))
                vs = [Var(cx.fresh(n), y) for n, y in zip(names, ty[1])]
                for n, v in zip(names, vs):
                    env2[n] = v
                pat = "(" + ", ".join(v.lean for v in vs) + ")"
                if fx and fx[-1][0] == t:
                    fx[-1] = (pat, fx[-1][1])
                    return self.wrap(fx, k(env2))
                return self.wrap(fx, Mat(t, [(pat, k(env2))]))
            if ty == Lst(STR):
                vs = [Var(cx.fresh(n), STR) for n in names]
                for n, v in zip(names, vs):
                    env2[n] = v
                pat = "[" + ", ".join(v.lean for v in vs) + "]"
                # a list of the wrong length: Python raises ValueError (too many / not enough values to unpack)
                return self.wrap(fx, Mat(t, [(pat, k(env2)), ("_", Raw(".error .ValueError"))]))
            cx.bad(s, "unpacking a value of type %s" % lean_ty(ty))
        if isinstance(target, ast.Name):
            key = target.id
        elif isinstance(target, ast.Attribute) and isinstance(target.value, ast.Name) and target.value.id == "self" and self.spec.init:
            if target.attr not in self.spec.init:
                cx.bad(s, "assignment to self.%s (not part of the declared result)" % target.attr)
            key = "self." + target.attr
        else:
            cx.bad(s, "assignment target %s" % type(target).__name__)
        t, ty = self.expr(value, env, fx)
        name, need_let = self.bind_name(fx, t, key.replace("self.", "self_"))
        env2 = dict(env)
        env2[key] = Var(name, ty)
        body = k(env2)
        if need_let and ty != NONE:
            body = Let(name, t, body)
        return self.wrap(fx, body)

    def try_(self, s, env, k):
        cx = self.cx
        if s.orelse or s.finalbody or len(s.handlers) != 1:
            cx.bad(s, "try with else/finally or several handlers")
        h = s.handlers[0]
        if not isinstance(h.type, ast.Name) or h.type.id not in EXC_CLASSES:
            cx.bad(s, "except clause other than `except <known class> [as e]:`")
        if h.name:
            env = dict(env)
            henv = dict(env)
            henv[h.name] = Var("e", EXC)         # usable only inside raise arguments (which are not evaluated)
        else:
            henv = env
        if len(s.body) == 1 and isinstance(s.body[0], ast.Return) and s.body[0].value is not None and not self.spec.init:
            fx = []
            t, ty = self.expr(s.body[0].value, env, fx)
            handler = self.block(h.body, henv, k)
            inner = self.wrap(fx, Raw(".ok %s" % coerce(cx, s, t, ty, self.ret)))
            if len(fx) == 1 and fx[0][0] == t and ty == self.ret:
                inner = fx[0][1]
            return Mat(inner, [(".ok r_", Raw(".ok r_")), (".error .%s" % h.type.id, handler), (".error e", Raw(".error e"))])
        if len(s.body) != 1 or not isinstance(s.body[0], ast.Assign) or len(s.body[0].targets) != 1 \
                or not isinstance(s.body[0].targets[0], ast.Name):
            cx.bad(s, "try body other than one assignment to a name")
        a = s.body[0]
        fx = []
        t, ty = self.expr(a.value, env, fx)
        name, need_let = self.bind_name(fx, t, a.targets[0].id)
        env2 = dict(env)
        env2[a.targets[0].id] = Var(name, ty)
        handler = self.block(h.body, henv, k)
        if len(fx) == 1 and not need_let:
            return Mat(fx[0][1], [(".ok %s" % name, k(env2)), (".error .%s" % h.type.id, handler), (".error e", Raw(".error e"))])
        inner = self.wrap(fx, Raw(".ok %s" % t))
        return Mat(inner, [(".ok %s" % name, k(env2)), (".error .%s" % h.type.id, handler), (".error e", Raw(".error e"))])

    # ---------------------------------------------------------------- loops
    def loop_types(self, carried, env, run_body):
        """fixpoint of the carried variables' types over the loop body; run_body(env_head, record) translates the body once"""
        cx = self.cx
        types = {v: env[v].ty for v in carried}
        for _ in range(6):
            snap = (dict(cx.counter), list(cx.helpers), cx.nloop)
            seen = []
            envh = dict(env)
            for v in carried:
                envh[v] = Var(env[v].lean, types[v])
            run_body(envh, lambda e: (seen.append({v: e[v].ty for v in carried}), Raw("_"))[1])
            cx.counter, cx.helpers, cx.nloop = snap[0], snap[1], snap[2]
            new = dict(types)
            for rec in seen:
                for v in carried:
                    j = join_ty(new[v], rec[v])
                    if j is None:
                        cx.bad(self.node, "loop variable %s changes type (%s / %s)" % (v, lean_ty(new[v]), lean_ty(rec[v])))
                    new[v] = j
            if new == types:
                return types
            types = new
        cx.bad(self.node, "loop variable types do not stabilise")

    def loop_helper(self, s, env, k, kind, scrut_ty=None):
        """common part of while / for: returns (helper name, fixed params, carried vars, env at loop head, typed)"""
        cx = self.cx
        if s.orelse:
            cx.bad(s, "loop with else")
        for n in ast.walk(s):
            if isinstance(n, (ast.Break, ast.Continue)):
                cx.bad(n, "break/continue")
        assigned = sorted(assigned_names(s.body))      # alphabetical: the helper's signature does not depend on statement order
        if kind == "for":
            tnames = assigned_names([ast.Assign(targets=[s.target], value=ast.Constant(value=None))])
            for t in tnames:
                if t in env:
                    cx.bad(s, "for target %s shadows an earlier variable" % t)
            assigned = [a for a in assigned if a not in tnames]
        carried = [a for a in assigned if a in env]
        return carried

    @staticmethod
    def order_carried(carried, types):
        """order of the carried variables in a helper's signature: by type, then by name — independent of statement order and,
        where the types differ, of the names"""
        return sorted(carried, key=lambda c: (lean_ty(types[c]), c))

    def used_only(self, fixed, lines):
        """the fixed parameters a helper's text actually mentions (the recursive calls pass all of them: drop those first)"""
        text = "\n".join(lines)
        names = [v.lean for _, v in fixed]
        text = re.sub(r"'(?:\\.|[^'\\])'", "", text)          # character literals are not identifiers
        text = re.sub(r"\b\w+_(?:loop|for)\d*\b(?: (?:%s)\b)*" % "|".join(map(re.escape, names)), "", text) if names else text
        return [(k_, v) for k_, v in fixed if re.search(r"(?<![\w.])%s(?![\w])" % re.escape(v.lean), text)]

    def while_(self, s, env, k):
        cx = self.cx
        carried = self.loop_helper(s, env, k, "while")
        idx = cx.nloop
        if idx >= len(self.spec.fuel):
            cx.bad(s, "while loop without an entry in the fuel table")
        types = self.loop_types(carried, env, lambda eh, rec: self.test(s.test, eh, lambda e: self.block(s.body, e, rec), lambda e: Raw("_")))
        cx.nloop += 1
        carried = self.order_carried(carried, types)
        hname = "%s_loop%s" % (self.spec.lean, "" if idx == 0 else str(idx))
        fixed = [("self." + a, v) for a, v in self.attr_vars.items()] + [(key, v) for key, v in env.items() if key not in carried]
        # helper parameters get the current Lean names; carried ones fresh names at their loop type
        envh = dict(env)
        cvars = []
        for c in carried:
            v = Var(cx.fresh(c.replace("self.", "self_")), types[c])
            envh[c] = v
            cvars.append(v)

        def again(e):
            args = [coerce(cx, s, e[c].lean, e[c].ty, types[c]) for c in carried]
            return Raw(" ".join([hname] + [v.lean for _, v in fixed] + ["fuel"] + args))
        after = k(envh)
        snap = dict(cx.counter)
        step = self.test(s.test, envh, lambda e: self.block(s.body, e, again), lambda e: k(e))
        cx.counter = snap
        fixed[:] = self.used_only(fixed, pp(after, 4) + pp(step, 4))
        step = self.test(s.test, envh, lambda e: self.block(s.body, e, again), lambda e: k(e))
        sig = " ".join("(%s : %s)" % (v.lean, lean_ty(v.ty)) for _, v in fixed)
        tys = " → ".join(["Nat"] + [lean_ty(v.ty, True) for v in cvars] + ["Except PyExc " + lean_ty(self.ret, True)])
        pats = ", ".join(v.lean for v in cvars)
        text = ("/-- the `while` loop of `%s` (line %d of the function) as a recursive helper; first explicit argument = fuel.\n"
                "    When the fuel runs out the loop is left as if its condition were false. -/\n"
                "def %s %s : %s\n  | 0%s =>\n%s\n  | fuel + 1%s =>\n%s\n") % (
            self.spec.qual, s.lineno, hname, sig, tys, ", " + pats if pats else "", "\n".join(pp(after, 4)),
            ", " + pats if pats else "", "\n".join(pp(step, 4)))
        cx.helpers.append(text)
        init = [coerce(cx, s, env[c].lean, env[c].ty, types[c]) for c in carried]
        fuel = self.spec.fuel[idx]
        return Raw(" ".join([hname] + [v.lean for _, v in fixed] + ["(%s)" % fuel] + init))

    def for_(self, s, env, k):
        cx = self.cx
        carried = self.loop_helper(s, env, k, "for")
        fx = []
        it, ity = self.expr(s.iter, env, fx)
        if ity[0] == "List":
            ety = ity[1]
        elif ity[0] == "Dict":
            cx.bad(s, "iteration over a dict (use .items())")
        else:
            cx.bad(s, "iteration over %s" % lean_ty(ity))

        def bind_target(e):
            e2 = dict(e)
            if isinstance(s.target, ast.Name):
                v = Var(cx.fresh(s.target.id), ety)
                e2[s.target.id] = v
                return e2, v.lean
            if isinstance(s.target, ast.Tuple) and ety[0] == "Tup" and len(ety[1]) == len(s.target.elts) \
                    and all(isinstance(x, ast.Name) for x in s.target.elts):
                vs = [Var(cx.fresh(x.id), y) for x, y in zip(s.target.elts, ety[1])]
                for x, v in zip(s.target.elts, vs):
                    e2[x.id] = v
                return e2, "(" + ", ".join(v.lean for v in vs) + ")"
            cx.bad(s, "for target")
        types = self.loop_types(carried, env, lambda eh, rec: self.block(s.body, bind_target(eh)[0], rec))
        idx = cx.nloop
        cx.nloop += 1
        carried = self.order_carried(carried, types)
        hname = "%s_for%s" % (self.spec.lean, "" if idx == 0 else str(idx))
        fixed = [("self." + a, v) for a, v in self.attr_vars.items()] + [(key, v) for key, v in env.items() if key not in carried]
        envh = dict(env)
        cvars = []
        for c in carried:
            v = Var(cx.fresh(c.replace("self.", "self_")), types[c])
            envh[c] = v
            cvars.append(v)

        def again(e):
            args = [coerce(cx, s, e[c].lean, e[c].ty, types[c]) for c in carried]
            return Raw(" ".join([hname] + [v.lean for _, v in fixed] + ["rest_"] + args))
        after = k(envh)
        envb, pat = bind_target(envh)
        snap = dict(cx.counter)
        step = self.block(s.body, envb, again)
        fixed[:] = self.used_only(fixed, pp(after, 4) + pp(step, 4))
        cx.counter = snap
        step = self.block(s.body, envb, again)
        sig = " ".join("(%s : %s)" % (v.lean, lean_ty(v.ty)) for _, v in fixed)
        tys = " → ".join([lean_ty(Lst(ety), True)] + [lean_ty(v.ty, True) for v in cvars] + ["Except PyExc " + lean_ty(self.ret, True)])
        pats = "".join(", " + v.lean for v in cvars)
        text = ("/-- the `for` loop of `%s` (line %d of the function): structural recursion over the list iterated -/\n"
                "def %s %s : %s\n  | []%s =>\n%s\n  | %s :: rest_%s =>\n%s\n") % (
            self.spec.qual, s.lineno, hname, sig, tys, pats, "\n".join(pp(after, 4)), pat, pats, "\n".join(pp(step, 4)))
        cx.helpers.append(text)
        init = [coerce(cx, s, env[c].lean, env[c].ty, types[c]) for c in carried]
        return self.wrap(fx, Raw(" ".join([hname] + [v.lean for _, v in fixed] + [it] + init)))

    # ---------------------------------------------------------------- tests (with narrowing)
    def narrowable(self, node, env):
        """(key, Var) when node is a local name or a self attribute"""
        if isinstance(node, ast.Name) and node.id in env:
            return node.id, env[node.id]
        if isinstance(node, ast.Attribute) and isinstance(node.value, ast.Name) and node.value.id == "self":
            key = "self." + node.attr
            if key in env:
                return key, env[key]
            if node.attr in self.attr_vars:
                return key, self.attr_vars[node.attr]
        return None

    def test(self, node, env, kt, kf):
        """code for `if node: kt else: kf`; kt/kf receive the environment with narrowed types"""
        cx = self.cx
        if isinstance(node, ast.UnaryOp) and isinstance(node.op, ast.Not):
            return self.test(node.operand, env, kf, kt)
        if isinstance(node, ast.BoolOp):
            vals = node.values
            # all operands plain booleans (nothing to narrow): one condition, no duplication of the branches
            snap = dict(cx.counter)
            try:
                fx0 = []
                t, ty = self.expr(node, env, fx0)
                if ty == BOOL and not fx0:
                    return If(t, kt(env), kf(env))
            except Untranslatable:
                pass
            cx.counter = snap
            if isinstance(node.op, ast.And):
                if len(vals) == 1:
                    return self.test(vals[0], env, kt, kf)
                rest = ast.BoolOp(op=ast.And(), values=vals[1:], lineno=node.lineno)
                return self.test(vals[0], env, lambda e: self.test(rest, e, kt, kf), kf)
            if len(vals) == 1:
                return self.test(vals[0], env, kt, kf)
            rest = ast.BoolOp(op=ast.Or(), values=vals[1:], lineno=node.lineno)
            return self.test(vals[0], env, kt, lambda e: self.test(rest, e, kt, kf))
        # x is None / x is not None
        if isinstance(node, ast.Compare) and len(node.ops) == 1 and isinstance(node.ops[0], (ast.Is, ast.IsNot)) \
                and isinstance(node.comparators[0], ast.Constant) and node.comparators[0].value is None:
            neg = isinstance(node.ops[0], ast.IsNot)
            k_none, k_some = (kf, kt) if neg else (kt, kf)
            nv = self.narrowable(node.left, env)
            if nv is None:
                cx.bad(node, "`is None` on something that is not a variable or self attribute")
            key, v = nv
            if v.ty == NONE:
                return k_none(env)
            if v.ty[0] != "Opt":
                return k_some(env)
            nn = cx.fresh(v.lean.rstrip("_") + "_v")
            e2 = dict(env)
            e2[key] = Var(nn, v.ty[1])
            return Mat(v.lean, [("none", k_none(env)), ("some %s" % nn, k_some(e2))])
        # truthiness of a variable
        nv = self.narrowable(node, env)
        if nv is not None:
            key, v = nv
            if v.ty == NONE:
                return kf(env)
            if v.ty == BOOL:
                return If(v.lean, kt(env), kf(env))
            if v.ty == STR:
                return If("%s != []" % v.lean, kt(env), kf(env))
            if v.ty[0] == "Match":
                return kt(env)
            if v.ty[0] == "Opt" and (v.ty[1] == STR or v.ty[1][0] == "Match"):
                nn = cx.fresh(v.lean.rstrip("_") + "_v")
                e2 = dict(env)
                e2[key] = Var(nn, v.ty[1])
                inner = kt(e2) if v.ty[1][0] == "Match" else If("%s != []" % nn, kt(e2), kf(env))
                return Mat(v.lean, [("none", kf(env)), ("some %s" % nn, inner)])
            cx.bad(node, "truthiness of a value of type %s" % lean_ty(v.ty))
        fx = []
        t, ty = self.expr(node, env, fx)
        if fx:
            cx.bad(node, "a call that may raise inside a condition")
        if ty == BOOL:
            return If(t, kt(env), kf(env))
        if ty == STR:
            return If("%s != []" % t, kt(env), kf(env))
        cx.bad(node, "condition of type %s" % lean_ty(ty))

    # ---------------------------------------------------------------- expressions
    def const_int(self, node):
        if isinstance(node, ast.Constant) and isinstance(node.value, int) and not isinstance(node.value, bool):
            return node.value
        if isinstance(node, ast.UnaryOp) and isinstance(node.op, ast.USub):
            v = self.const_int(node.operand)
            return None if v is None else -v
        return None

    def module_of(self, node):
        if isinstance(node, ast.Name):
            if node.id in self.local_modules:
                return self.local_modules[node.id]
            obj = getattr(self.mod, node.id, None)
            if inspect.ismodule(obj):
                return obj
        if isinstance(node, ast.Attribute):          # urllib.parse, urllib.request
            m = self.module_of(node.value)
            obj = getattr(m, node.attr, None) if m is not None else None
            if inspect.ismodule(obj):
                return obj
        return None

    def expr(self, node, env, fx):
        """(Lean text — atomic or parenthesised —, type); calls that may raise are appended to fx as (binder, call text)"""
        cx = self.cx
        if isinstance(node, ast.Constant):
            v = node.value
            if isinstance(v, bool):
                return ("true" if v else "false"), BOOL
            if isinstance(v, int):
                return "(%d : Int)" % v, INT
            if isinstance(v, str):
                return lean_str(v), STR
            if v is None:
                return "()", NONE
            cx.bad(node, "constant %r" % (v,))
        if isinstance(node, ast.Name):
            if node.id in env:
                v = env[node.id]
                if isinstance(v, ExcObj):
                    cx.bad(node, "use of the exception object %s other than `raise`" % node.id)
                return v.lean, v.ty
            key = (self.spec.module, node.id)
            if key in PATTERN_GLOBALS:
                pat = getattr(self.mod, node.id, None)
                if not isinstance(pat, re.Pattern):
                    cx.bad(node, "%s is no longer a compiled pattern" % node.id)
                self.unit.rx_groups[PATTERN_GLOBALS[key]] = dict(pat.groupindex)
                return PATTERN_GLOBALS[key], ("RE", PATTERN_GLOBALS[key])
            cx.bad(node, "name %s is not a local variable" % node.id)
        if isinstance(node, ast.Attribute):
            nv = self.narrowable(node, env)
            if nv is not None:
                return nv[1].lean, nv[1].ty
            m = self.module_of(node.value)
            if m is not None:
                val = getattr(m, node.attr, None)
                if m.__name__ == "socket" and node.attr in ("AF_INET", "AF_INET6", "AF_UNIX") and val is not None:
                    return "Py.SockFamily.%s" % node.attr, FAM
                if m.__name__ == "os" and node.attr == "sep" and isinstance(val, str):
                    cx.notes.append("`os.sep` is %r on this platform" % val)
                    return lean_str(val), STR
            cx.bad(node, "attribute %s" % ast.unparse(node))
        if isinstance(node, ast.Tuple):
            items = [self.expr(e, env, fx) for e in node.elts]
            return "(" + ", ".join(t for t, _ in items) + ")", Tup(*[y for _, y in items])
        if isinstance(node, ast.UnaryOp):
            if isinstance(node.op, ast.USub):
                t, ty = self.expr(node.operand, env, fx)
                if ty != INT:
                    cx.bad(node, "unary minus on %s" % lean_ty(ty))
                return "(-%s)" % t, INT
            if isinstance(node.op, ast.Not):
                t, ty = self.expr(node.operand, env, fx)
                if ty == BOOL:
                    return "(!%s)" % t, BOOL
                if ty == STR:
                    return "(%s == [])" % t, BOOL
            cx.bad(node, "unary operator")
        if isinstance(node, ast.BinOp):
            l, lt = self.expr(node.left, env, fx)
            r, rt = self.expr(node.right, env, fx)
            if isinstance(node.op, ast.Add) and lt == rt == STR:
                return "(%s ++ %s)" % (l, r), STR
            if lt == rt == INT:
                for cls, sym in ((ast.Add, "+"), (ast.Sub, "-"), (ast.Mult, "*")):
                    if isinstance(node.op, cls):
                        return "(%s %s %s)" % (l, sym, r), INT
            cx.bad(node, "operator %s on %s, %s" % (type(node.op).__name__, lean_ty(lt), lean_ty(rt)))
        if isinstance(node, ast.BoolOp):
            n0 = len(fx)
            items = [self.expr(v, env, fx) for v in node.values]
            if len(fx) != n0:
                cx.bad(node, "a call that may raise inside and/or")
            if not all(y == BOOL for _, y in items):
                cx.bad(node, "and/or on non-boolean values outside a condition")
            return "(" + (" && " if isinstance(node.op, ast.And) else " || ").join(t for t, _ in items) + ")", BOOL
        if isinstance(node, ast.Compare):
            return self.compare(node, env, fx)
        if isinstance(node, ast.Subscript):
            return self.subscript(node, env, fx)
        if isinstance(node, ast.Call):
            return self.call(node, env, fx)
        cx.bad(node, "expression %s" % type(node).__name__)

    def peek_type(self, node, env):
        """type of a simple expression, without emitting anything (None if it is not simple)"""
        if isinstance(node, ast.Name) and node.id in env and not isinstance(env[node.id], ExcObj):
            return env[node.id].ty
        return None

    def compare(self, node, env, fx):
        cx = self.cx
        if len(node.ops) != 1:
            cx.bad(node, "chained comparison")
        op, rn = node.ops[0], node.comparators[0]
        if isinstance(op, (ast.In, ast.NotIn)):
            neg = isinstance(op, ast.NotIn)
            l, lt = self.expr(node.left, env, fx)
            if isinstance(rn, ast.Tuple):
                items = [self.expr(e, env, fx) for e in rn.elts]
                if lt == Opt(STR) and all(y == STR for _, y in items):
                    # None is in no tuple of strings
                    t = "(match %s with | none => false | some x_ => List.contains [%s] x_)" % (l, ", ".join(x for x, _ in items))
                elif lt != STR or not all(y == STR for _, y in items):
                    cx.bad(node, "`in` on a tuple that is not of strings")
                else:
                    t = "(List.contains [%s] %s)" % (", ".join(x for x, _ in items), l)
            elif self.peek_type(rn, env) == Lst(STR):
                r, rt = self.expr(rn, env, fx)
                if lt != STR:
                    cx.bad(node, "`in` on a list of strings with a %s" % lean_ty(lt))
                t = "(List.contains %s %s)" % (r, l)
            else:
                r, rt = self.expr(rn, env, fx)
                if rt != STR or not (isinstance(node.left, ast.Constant) and isinstance(node.left.value, str) and len(node.left.value) == 1):
                    cx.bad(node, "`in` other than <one-character literal> in <str> / <str> in <tuple of str>")
                t = "(List.contains %s %s)" % (r, lean_char(node.left.value))
            return ("(!%s)" % t if neg else t), BOOL
        if isinstance(op, (ast.Is, ast.IsNot)):
            cx.bad(node, "`is` outside a condition")
        l, lt = self.expr(node.left, env, fx)
        r, rt = self.expr(rn, env, fx)
        if isinstance(op, (ast.Eq, ast.NotEq)):
            sym = "==" if isinstance(op, ast.Eq) else "!="
            if lt == rt and lt in (STR, INT, BOOL):
                return "(%s %s %s)" % (l, sym, r), BOOL
            if lt == Opt(rt) and rt in (STR, INT):
                return "(%s %s some %s)" % (l, sym, r), BOOL
            if rt == Opt(lt) and lt in (STR, INT):
                return "(some %s %s %s)" % (l, sym, r), BOOL
            if NONE in (lt, rt) and (lt in (STR, INT) or rt in (STR, INT)):
                return ("false" if isinstance(op, ast.Eq) else "true"), BOOL
            cx.bad(node, "== between %s and %s" % (lean_ty(lt), lean_ty(rt)))
        for cls, sym in ((ast.Lt, "<"), (ast.Gt, ">"), (ast.LtE, "≤"), (ast.GtE, "≥")):
            if isinstance(op, cls):
                if lt == rt == INT:
                    return "(decide (%s %s %s))" % (l, sym, r), BOOL
                cx.bad(node, "ordering between %s and %s" % (lean_ty(lt), lean_ty(rt)))
        cx.bad(node, "comparison operator")

    def subscript(self, node, env, fx):
        cx = self.cx
        b, bt = self.expr(node.value, env, fx)
        sl = node.slice
        if isinstance(sl, ast.Slice):
            if sl.step is not None or bt != STR:
                cx.bad(node, "slice with step / of a non-string")
            parts = []
            for bound in (sl.lower, sl.upper):
                if bound is None:
                    parts.append("none")
                else:
                    t, ty = self.expr(bound, env, fx)
                    if ty != INT:
                        cx.bad(node, "slice bound of type %s" % lean_ty(ty))
                    parts.append("(some %s)" % t)
            return "(Py.slice %s %s %s)" % (b, parts[0], parts[1]), STR
        i = self.const_int(sl)
        if bt == STR and i is not None:
            return self.effect(fx, "Py.index %s (%d : Int)" % (b, i), "t"), STR       # may raise IndexError
        if bt[0] == "Tup" and i is not None and 0 <= i < len(bt[1]):
            n = len(bt[1])
            proj = ".2" * i + (".1" if i < n - 1 else "")
            return "%s%s" % (b, proj), bt[1][i]
        cx.bad(node, "subscript of %s" % lean_ty(bt))

    def str_method(self, node, recv, args, env, fx):
        cx = self.cx
        name = node.func.attr
        consts = [a.value if isinstance(a, ast.Constant) else Ellipsis for a in args]
        if name == "lower" and not args:
            return "(lower %s)" % recv, STR
        if name == "strip" and not args:
            return "(strip %s)" % recv, STR
        if name == "split":
            if not args:
                return "(splitWS %s)" % recv, Lst(STR)
            if consts == [None, 1]:
                return "(splitWS1 %s)" % recv, Lst(STR)
        if name == "split" and len(args) == 2 and isinstance(consts[0], str) and len(consts[0]) == 1 and consts[1] == 1:
            return "(Py.split1 %s %s)" % (recv, lean_char(consts[0])), Lst(STR)
        if name == "split" and len(args) == 1 and isinstance(consts[0], str) and len(consts[0]) == 1:
            return "(Py.splitOn %s %s)" % (recv, lean_char(consts[0])), Lst(STR)
        if name == "rsplit" and len(args) == 2 and isinstance(consts[0], str) and len(consts[0]) == 1 and consts[1] == 1:
            return "(Py.rsplit1 %s %s)" % (recv, lean_char(consts[0])), Lst(STR)
        if name in ("startswith", "endswith") and 1 <= len(args) <= 2:
            p, pt = self.expr(args[0], env, fx)
            if pt != STR:
                cx.bad(node, "%s with a %s argument" % (name, lean_ty(pt)))
            if len(args) == 1:
                return "(%s %s %s)" % ("startsWith" if name == "startswith" else "endsWith", recv, p), BOOL
            if name == "startswith":
                q, qt = self.expr(args[1], env, fx)
                if qt != INT:
                    cx.bad(node, "startswith position of type %s" % lean_ty(qt))
                return "(Py.startsWithAt %s %s %s)" % (recv, p, q), BOOL
        if name == "find" and len(args) == 1:
            if isinstance(consts[0], str) and len(consts[0]) == 1:
                return "(Py.find1 %s %s)" % (recv, lean_char(consts[0])), INT
            # a non-literal argument that is a one-character platform constant (os.sep)
            p, pt = self.expr(args[0], env, [])
            m = re.fullmatch(r"\[('(?:\\.|[^'\\])')\]", p)
            if pt == STR and m:
                return "(Py.find1 %s %s)" % (recv, m.group(1)), INT
        cx.bad(node, "str method %s with these arguments" % name)

    def call(self, node, env, fx):
        cx = self.cx
        f, args = node.func, node.args
        if isinstance(f, ast.Attribute) and isinstance(f.value, ast.Name) and f.value.id not in env:
            m0 = self.module_of(f.value)
            if m0 is not None and (m0.__name__, f.attr) in EXTERNAL_CTORS:
                key, order, ptys, rty = EXTERNAL_CTORS[(m0.__name__, f.attr)]
                ctor = env.get("$" + key)
                if ctor is None:
                    cx.bad(node, "%s.%s in a function whose signature has no `%s` parameter" % (m0.__name__, f.attr, key))
                if args or sorted(kw.arg or "" for kw in node.keywords) != sorted(order):
                    cx.bad(node, "%s.%s must be called with exactly the keywords %s" % (m0.__name__, f.attr, ", ".join(order)))
                vals = {}
                for kw in node.keywords:            # evaluated in the order written
                    t, ty = self.expr(kw.value, env, fx)
                    vals[kw.arg] = coerce(cx, node, t, ty, ptys[order.index(kw.arg)])
                return self.effect(fx, " ".join([ctor.lean] + [vals[n] for n in order]), "t"), rty
        if node.keywords:
            cx.bad(node, "keyword arguments")
        if isinstance(f, ast.Attribute):
            m1 = self.module_of(f.value)
            if m1 is not None:
                import urllib.parse
                obj = getattr(m1, f.attr, None)
                for key, (live, ptys, rty) in {"urljoin": (urllib.parse.urljoin, [STR, STR], STR),
                                               "urldefrag": (urllib.parse.urldefrag, [STR], Tup(STR, STR))}.items():
                    if obj is live:
                        fn = env.get("$" + key)
                        if fn is None:
                            cx.bad(node, "urllib's %s in a function whose signature has no `%s` parameter" % (key, key))
                        return self.apply(node, fn.lean, ptys, rty, args, env, fx), rty
        if any(isinstance(a, ast.Starred) for a in args):
            cx.bad(node, "starred argument")
        # builtins
        if isinstance(f, ast.Name) and f.id not in env:
            if f.id == "len" and len(args) == 1:
                t, ty = self.expr(args[0], env, fx)
                if ty == STR or ty[0] == "List":
                    return "(Py.len %s)" % t, INT
                cx.bad(node, "len of %s" % lean_ty(ty))
            if f.id == "int" and len(args) == 1:
                t, ty = self.expr(args[0], env, fx)
                if ty == INT:
                    return t, INT
                if ty == STR:
                    return self.effect(fx, "Py.int %s" % t, "t"), INT
                cx.bad(node, "int() of %s" % lean_ty(ty))
            if f.id == "float" and len(args) == 1:
                acc = env.get("$float")
                if acc is None:
                    cx.bad(node, "float() in a function whose signature has no `float` parameter")
                t, ty = self.expr(args[0], env, fx)
                if ty != STR:
                    cx.bad(node, "float() of %s" % lean_ty(ty))
                return self.effect(fx, "Py.float %s %s" % (acc.lean, t), "t"), NUM
            if f.id == "str" and len(args) == 1:
                t, ty = self.expr(args[0], env, fx)
                if ty == STR:
                    return t, STR
                cx.bad(node, "str() of %s" % lean_ty(ty))
            if f.id == "getattr" and len(args) == 3:
                m = self.module_of(args[0])
                if m is not None and m.__name__ == "socket" and isinstance(args[1], ast.Constant) and args[1].value == "AF_UNIX" \
                        and isinstance(args[2], ast.Constant) and args[2].value is None:
                    if getattr(m, "AF_UNIX", None) is None:
                        cx.bad(node, "socket.AF_UNIX does not exist on this platform")
                    cx.notes.append("`getattr(socket, \"AF_UNIX\", None)` is `socket.AF_UNIX` on this platform")
                    return "Py.SockFamily.AF_UNIX", FAM
                cx.bad(node, "getattr")
            return self.global_call(node, f.id, args, env, fx)
        if isinstance(f, ast.Attribute):
            # Cls.__call__(self, …): an explicit call of a translated method
            if isinstance(f.value, ast.Name) and f.value.id not in env and args and isinstance(args[0], ast.Name) and args[0].id == "self":
                owner = getattr(self.mod, f.value.id, None)
                if inspect.isclass(owner):
                    target = self.unit.spec_of(getattr(owner, f.attr, None))
                    if target is None:
                        cx.bad(node, "call of %s.%s, which is not a translated function" % (f.value.id, f.attr))
                    return self.call_spec(node, target, args[1:], env, fx, via_self=True)
            m = self.module_of(f.value)
            if m is not None:
                if m.__name__ == "os" and f.attr == "getenv" and len(args) == 1:
                    envv = env.get("$env")
                    if envv is None:
                        cx.bad(node, "os.getenv in a function whose signature has no `env` parameter")
                    t, ty = self.expr(args[0], env, fx)
                    if ty == STR:
                        return "(%s %s)" % (envv.lean, t), Opt(STR)
                    if ty == Opt(STR):
                        # os.getenv(None) raises TypeError
                        return self.effect(fx, "(match %s with | none => .error .TypeError | some k_ => .ok (%s k_) : Except PyExc (Option Str))" % (t, envv.lean), "t"), Opt(STR)
                    cx.bad(node, "os.getenv of %s" % lean_ty(ty))
                cx.bad(node, "call of %s.%s" % (m.__name__, f.attr))
            # self.attr(...) : a function-valued attribute
            nv = self.narrowable(f, env)
            if nv is not None and nv[1].ty[0] == "Fn":
                fty = nv[1].ty
                return self.apply(node, nv[1].lean, fty[1], fty[2], args, env, fx), fty[2]
            recv, rt = self.expr(f.value, env, fx)
            if rt == STR:
                return self.str_method(node, recv, args, env, fx)
            if rt[0] == "Match":
                names = [a.value for a in args if isinstance(a, ast.Constant) and isinstance(a.value, str)]
                if f.attr == "group" and args and len(names) == len(args):
                    # named groups: None when the group did not take part in the match
                    rxl = rt[1] if len(rt) > 1 else None
                    gi = self.unit.rx_groups.get(rxl)
                    if gi is None or any(n not in gi for n in names):
                        cx.bad(node, "group name(s) %r unknown for this pattern" % (names,))
                    items = ["(Py.Match.groupN %s %s_%s)" % (recv, rxl, n) for n in names]
                    if len(items) == 1:
                        return items[0], Opt(STR)
                    return "(" + ", ".join(items) + ")", Tup(*[Opt(STR)] * len(items))
                if f.attr == "group" and (not args or (len(args) == 1 and self.const_int(args[0]) == 0)):
                    return "(Py.Match.group %s)" % recv, STR
                if f.attr == "end" and not args:
                    return "(Py.Match.end_ %s)" % recv, INT
                cx.bad(node, "match-object method %s" % f.attr)
            if rt == MAPPING and f.attr == "get" and len(args) == 1:
                t, ty = self.expr(args[0], env, fx)
                if ty != STR:
                    cx.bad(node, "mapping.get of %s" % lean_ty(ty))
                return "(%s %s)" % (recv, t), Opt(STR)
            if rt[0] == "Dict" and f.attr == "items" and not args:
                return recv, Lst(Tup(rt[1], rt[2]))
            if rt[0] == "RE" and f.attr == "match" and 1 <= len(args) <= 2:
                return self.rx_match(node, recv, args, env, fx)
            cx.bad(node, "method %s of a value of type %s" % (f.attr, lean_ty(rt)))
        cx.bad(node, "call of %s" % ast.unparse(f))

    def rx_match(self, node, rx, args, env, fx):
        cx = self.cx
        s, st = self.expr(args[0], env, fx)
        if st != STR:
            cx.bad(node, "match on %s" % lean_ty(st))
        mty = ("Match", rx) if rx in self.unit.rx_groups else MATCH
        if len(args) == 1:
            return "(Py.reMatch %s %s)" % (rx, s), Opt(mty)
        p, pt = self.expr(args[1], env, fx)
        if pt != INT:
            cx.bad(node, "match position of type %s" % lean_ty(pt))
        return "(Py.reMatchAt %s %s %s)" % (rx, s, p), Opt(mty)

    def effect(self, fx, call, base):
        tmp = self.cx.fresh(base)
        fx.append((tmp, call))
        return tmp

    def apply(self, node, ftext, ptys, rty, args, env, fx):
        cx = self.cx
        if len(args) != len(ptys):
            cx.bad(node, "%d arguments for %d parameters" % (len(args), len(ptys)))
        ts = []
        for a, want in zip(args, ptys):
            t, ty = self.expr(a, env, fx)
            ts.append(coerce(cx, node, t, ty, want))
        return self.effect(fx, " ".join([ftext] + ts), "t")

    def call_spec(self, node, target, args, env, fx, via_self=False):
        """call of another translated function; its self attributes / externals are passed through from ours"""
        cx = self.cx
        pre = []
        for an, ty in target.attrs:
            if not via_self or an not in self.attr_vars or self.attr_vars[an].ty != ty:
                cx.bad(node, "callee %s needs self.%s, which this function's signature does not provide" % (target.qual, an))
            pre.append(self.attr_vars[an].lean)
        for en, ty in target.externals:
            v = env.get("$" + en)
            if v is None:
                cx.bad(node, "callee %s needs the external %s" % (target.qual, en))
            pre.append(v.lean)
        return self.apply(node, " ".join([target.lean] + pre), [t for _, t in target.params], target.ret, args, env, fx), target.ret

    def global_call(self, node, name, args, env, fx):
        cx = self.cx
        if not hasattr(self.mod, name):
            cx.bad(node, "call of %s, which is not a module global" % name)
        obj = getattr(self.mod, name)
        key = (self.spec.module, name)
        if key in REGEX_GLOBALS:
            pat = getattr(obj, "__self__", None)
            if not isinstance(pat, re.Pattern) or getattr(obj, "__name__", "") != "match":
                cx.bad(node, "%s is no longer the match method of a compiled pattern" % name)
            if not 1 <= len(args) <= 2:
                cx.bad(node, "arguments of %s" % name)
            return self.rx_match(node, REGEX_GLOBALS[key], args, env, fx)
        inst = self.unit.instance_of(obj)
        if inst is not None:
            return self.apply(node, inst.lean, inst.ptys, inst.ret, args, env, fx), inst.ret
        import functools
        if obj is functools.reduce and len(args) == 2 and isinstance(args[0], ast.Name) and args[0].id in env \
                and env[args[0].id].ty[0] == "Fn":
            fv = env[args[0].id]
            it, ity = self.expr(args[1], env, fx)
            if ity[0] == "Dict":
                it, ity = "(List.map Prod.fst %s)" % it, Lst(ity[1])      # iterating a dict: its keys, in insertion order
            if ity[0] != "List" or fv.ty[1] != (ity[1], ity[1]) or fv.ty[2] != ity[1]:
                cx.bad(node, "reduce of a %s over %s" % (lean_ty(fv.ty), lean_ty(ity)))
            return self.effect(fx, "Py.reduce1 %s %s" % (fv.lean, it), "t"), ity[1]
        target = self.unit.spec_of(obj) if inspect.isfunction(obj) else None
        if target is not None:
            if target.attrs:
                cx.bad(node, "call of the method %s through a global" % target.qual)
            return self.call_spec(node, target, args, env, fx)
        cx.bad(node, "call of %s, which is neither a translated function nor a known instance" % name)


# ------------------------------------------------------------------ instances
class Instance:
    """a live callable object built from a translated method: `lean` := method applied to the object's attribute values"""

    def __init__(self, lean, obj, spec, attr_text, ptys, ret, doc):
        self.lean, self.obj, self.spec, self.attr_text, self.ptys, self.ret, self.doc = lean, obj, spec, attr_text, ptys, ret, doc

    def text(self):
        return "/-- %s -/\ndef %s : %s :=\n  %s\n" % (self.doc, self.lean, lean_ty(Fn(self.ptys, self.ret)),
                                                    " ".join([self.spec.lean] + self.attr_text))


class Unit:
    """one generated file"""

    def __init__(self, specs):
        self.specs = specs
        self.instances = []
        self._mods = {}
        self.rx_groups = {}       # Lean name of a generated pattern -> its named groups

    def module(self, name):
        if name not in self._mods:
            _import_repo()
            self._mods[name] = __import__(name, fromlist=["x"])
        return self._mods[name]

    def resolve_qual(self, spec_or_qual, module=None):
        raise NotImplementedError

    def spec_of(self, obj):
        obj = getattr(obj, "__func__", obj)
        for s in self.specs:
            if self.resolve(s) is obj:
                return s
        return None

    def resolve(self, spec):
        o = self.module(spec.module)
        for part in spec.qual.split("."):
            if not hasattr(o, part) and not (inspect.isclass(o) and part in vars(o)):
                raise Untranslatable("%s.%s no longer exists" % (spec.module, spec.qual))
            o = vars(o)[part] if inspect.isclass(o) and part in vars(o) else getattr(o, part)
        if not inspect.isfunction(o):
            raise Untranslatable("%s.%s is not a Python function" % (spec.module, spec.qual))
        return o

    def instance_of(self, obj):
        for i in self.instances:
            if i.obj is obj or (getattr(obj, "__self__", None) is not None and getattr(obj, "__self__", None) is getattr(i.obj, "__self__", 0)
                                and getattr(obj, "__func__", 1) is getattr(i.obj, "__func__", 2)):
                return i
        return None


def _unit_for(specs):
    u = Unit(specs)
    u.resolve_qual = lambda qual: u.resolve(next(s for s in specs if s.qual == qual))
    return u


HEADER = """-- GENERATED by harness/zcv/pytrans.py (through extract.py) from %(src)s — do not edit
%(imports)s
/-!
Translation of the Python source of %(what)s into Lean, regenerated on every run.
`ZCV/Lemmas/%(eqfile)s.lean` proves every definition here equal to the hand-written model function.

Trusted (parameters or fixed primitives, not translated):
%(trusted)s
Exceptions: only the class is kept (`SubstitutionReplacementError` keeps `(source, name)`); `raise` arguments are not evaluated.
Loops: a `while` loop is a helper with a fuel argument; out of fuel = leave the loop as if its condition were false.
-/
set_option linter.unusedVariables false
namespace ZCV.Gen.Code
open ZCV ZCV.Py

"""


def _emit(unit, order, instances_after):
    """translate specs in order; instances_after: lean name of spec -> [functions building Instance objects]"""
    out = []
    notes = []
    for spec in order:
        ft = FnTrans(unit, spec)
        out.append(ft.translate())
        notes += ft.cx.notes
        for mk in instances_after.get(spec.lean, []):
            inst = mk(unit)
            unit.instances.append(inst)
            out.append(inst.text())
    return "\n".join(out), sorted(set(notes))


def _int_lit(n):
    return "(%d : Int)" % n


def gen_code_datatypes():
    unit = _unit_for(SPECS_DATATYPES)
    d = unit.module("ZConfig.datatypes")
    st = d.stock_datatypes
    by = {s.lean: s for s in SPECS_DATATYPES}

    def call_is(obj, spec, what):
        f = getattr(type(obj), "__call__", None)
        if f is not unit.resolve(spec):
            raise Untranslatable("%s: its __call__ is no longer %s" % (what, spec.qual))

    def port_number(u):
        pn = d.port_number
        obj = getattr(pn, "__self__", None)
        if getattr(pn, "__func__", None) is not u.resolve(by["RangeCheckedConversion_call"]):
            raise Untranslatable("port_number is no longer RangeCheckedConversion(...).__call__")
        if obj._conversion is not d.integer:
            raise Untranslatable("port_number: conversion is no longer `integer`")
        for b in (obj._min, obj._max):
            if not (b is None or type(b) is int):
                raise Untranslatable("port_number: bound %r" % (b,))
        return Instance("port_number", pn, by["RangeCheckedConversion_call"], ["Gen.portMin", "Gen.portMax", "integer"], [STR], INT,
                        "`port_number = RangeCheckedConversion(integer, min=%r, max=%r).__call__` (bounds: `Gen.portMin`, `Gen.portMax`)" % (obj._min, obj._max))

    def suffix(key, lean, gen):
        def mk(u):
            obj = st[key]
            call_is(obj, by["SuffixMultiplier_call"], key)
            items = list(obj._d.items())
            if not all(type(k) is str and type(v) is int for k, v in items) or type(obj._keysz) is not int or type(obj._default) is not int:
                raise Untranslatable("%s: table types" % key)
            tbl = "[%s]" % ", ".join("(%s, %s)" % (lean_str(k), _int_lit(v)) for k, v in items)
            i = Instance(lean, obj, by["SuffixMultiplier_call"], ["%s_d" % lean, "(Gen.%sKeysz : Int)" % gen, "Gen.%sDefault" % gen], [STR], INT,
                         "`stock_datatypes[%r]`: `SuffixMultiplier.__call__` on the live object's `_d` (insertion order, `%s_d`), `_keysz`, `_default`" % (key, lean))
            pre = "/-- `stock_datatypes[%r]._d.items()` in the dictionary's own (insertion) order -/\ndef %s_d : List (Str × Int) :=\n  %s\n\n" % (key, lean, tbl)
            old = i.text
            i.text = lambda: pre + old()
            return i
        return mk

    def regex(key, lean, gen, spec_lean):
        def mk(u):
            obj = st[key]
            call_is(obj, by[spec_lean], key)
            if not isinstance(getattr(obj, "_rx", None), re.Pattern):
                raise Untranslatable("%s: _rx is not a compiled pattern" % key)
            return Instance(lean, obj, by[spec_lean], ["Gen.%s" % gen], [STR], STR,
                            "`stock_datatypes[%r]`: `%s` on the live pattern `Gen.%s`" % (key, by[spec_lean].qual, gen))
        return mk

    def ipaddr_rx(u):
        obj = st["ipaddr-or-hostname"]
        if not isinstance(obj, d.RegularExpressionConversion) or not isinstance(getattr(obj, "_rx", None), re.Pattern):
            raise Untranslatable("ipaddr-or-hostname is no longer a RegularExpressionConversion")
        return Instance("ipaddr_or_hostname_rx", object(), by["RegularExpressionConversion_call"], ["Gen.ipaddrRx"], [STR], STR,
                        "the `RegularExpressionConversion.__call__(self, value)` step of `stock_datatypes['ipaddr-or-hostname']` "
                        "(the rest of `IpaddrOrHostname.__call__` calls `socket.inet_pton` and is not translated)")

    def inet(name, gen):
        def mk(u):
            obj = getattr(d, name)
            call_is(obj, by["InetAddress_call"], name)
            if type(obj.DEFAULT_HOST) is not str:
                raise Untranslatable("%s.DEFAULT_HOST" % name)
            return Instance(name, obj, by["InetAddress_call"], ["Gen.%s" % gen], [STR], HOSTPORT,
                            "`%s = InetAddress(%r)` (default host: `Gen.%s`)" % (name, obj.DEFAULT_HOST, gen))
        return mk

    def sock(key, lean, cls, pa):
        def mk(u):
            c = st[key]
            if c is not getattr(d, cls) or c.__init__ is not u.resolve(by["SocketAddress_init"]):
                raise Untranslatable("%s: no longer %s with SocketAddress.__init__" % (key, cls))
            if c._parse_address is not u.resolve(by[pa]):
                raise Untranslatable("%s._parse_address moved" % cls)
            return Instance(lean, c, by["SocketAddress_init"], [pa], [STR], by["SocketAddress_init"].ret,
                            "`stock_datatypes[%r]` = `%s`: the attributes `(family, address)` its `__init__` sets, with this class's `_parse_address`" % (key, cls))
        return mk

    after = {
        "RangeCheckedConversion_call": [port_number],
        "SuffixMultiplier_call": [suffix("byte-size", "byte_size", "byteSize"), suffix("time-interval", "time_interval", "timeInterval")],
        "RegularExpressionConversion_call": [regex("identifier", "identifier", "identifierRx", "RegularExpressionConversion_call"),
                                             regex("dotted-name", "dotted_name", "dottedNameRx", "RegularExpressionConversion_call"),
                                             regex("dotted-suffix", "dotted_suffix", "dottedSuffixRx", "RegularExpressionConversion_call"),
                                             ipaddr_rx],
        "BasicKeyConversion_call": [regex("basic-key", "basic_key", "basicKeyRx", "BasicKeyConversion_call")],
        "InetAddress_call": [inet("inet_address", "inetHost"), inet("inet_binding_address", "inetBindingHost"),
                             inet("inet_connection_address", "inetConnectionHost")],
        "SocketAddress_init": [sock("socket-address", "socket_address", "SocketAddress", "SocketAddress_parse_address"),
                               sock("socket-binding-address", "socket_binding_address", "SocketBindingAddress", "SocketBindingAddress_parse_address"),
                               sock("socket-connection-address", "socket_connection_address", "SocketConnectionAddress", "SocketConnectionAddress_parse_address")],
    }
    body, notes = _emit(unit, SPECS_DATATYPES, after)
    trusted = ["* string primitives of `ZCV/Base.lean` / `ZCV/Py.lean` (`lower`, `splitWS`, `Py.slice`, `Py.rsplit1`, `Py.int` = `int()` on str, …)",
               "* `self._conversion`, `self._min`, `self._max`, `self._d`, `self._keysz`, `self._default`, `self._rx`, `self.DEFAULT_HOST`,",
               "  `self._parse_address` are PARAMETERS; the instances apply the functions to the live objects' values (`Gen/Datatypes.lean`)",
               "* `rx.match` is `Py.reMatch` over the generated `RE` term (regex semantics of `ZCV/Model/Regex.lean`)",
               "* `SocketAddress.__init__` is rendered as the function returning `(self.family, self.address)`"]
    trusted += ["* " + n for n in notes]
    head = HEADER % {"src": "src/ZConfig/datatypes.py", "imports": "import ZCV.Py\nimport ZCV.Gen.Datatypes",
                     "what": "the stock conversions of `ZConfig/datatypes.py`", "eqfile": "CodeEqDatatypes",
                     "trusted": "\n".join(trusted)}
    return head + body + "\nend ZCV.Gen.Code\n"


def gen_code_substitution():
    unit = _unit_for(SPECS_SUBSTITUTION)
    body, notes = _emit(unit, SPECS_SUBSTITUTION, {})
    trusted = ["* `mapping.get` is the parameter `mapping : Str → Option Str`; `os.getenv` is the parameter `env_ : Str → Option Str`",
               "* `_name_match(s, pos)` is `Py.reMatchAt Gen.nameRx s pos` over the GENERATED pattern (`Gen/Substitution.lean`)",
               "* string primitives of `ZCV/Base.lean` / `ZCV/Py.lean` (`Py.find1`, `Py.slice`, `Py.startsWithAt`, `lower`)",
               "* fuel of the `while` loop of `substitute`: `len(s) + 1`"]
    trusted += ["* " + n for n in notes]
    head = HEADER % {"src": "src/ZConfig/substitution.py", "imports": "import ZCV.Py\nimport ZCV.Gen.Substitution",
                     "what": "`ZConfig/substitution.py` (`isname`, `_split`, `substitute`)", "eqfile": "CodeEqSubst",
                     "trusted": "\n".join(trusted)}
    return head + body + "\nend ZCV.Gen.Code\n"


def gen_code_url():
    unit = _unit_for(SPECS_URL)
    body, notes = _emit(unit, SPECS_URL, {})
    trusted = ["* `urllib.parse.urljoin` (= `urllib.request.urljoin`) and `urllib.parse.urldefrag` are PARAMETERS (`urljoin_`, `urldefrag_`);",
               "  the equality theorems instantiate them with the models `UrlPath.join` / `UrlPath.defrag` of `ZCV/Model/UrlPath.lean`",
               "* string primitives of `ZCV/Base.lean` / `ZCV/Py.lean` (`lower`, `startsWith`, `Py.slice`)",
               "* not translated: `urlunsplit` (it edits a list in place: `parts.insert(3, '')`)"]
    trusted += ["* " + n for n in notes]
    head = HEADER % {"src": "src/ZConfig/url.py", "imports": "import ZCV.Py",
                     "what": "`ZConfig/url.py` (`urlnormalize`, `urldefrag`, `urljoin`)", "eqfile": "CodeEqUrl",
                     "trusted": "\n".join(trusted)}
    return head + body + "\nend ZCV.Gen.Code\n"


def gen_code_cfgparser():
    unit = _unit_for(SPECS_CFGPARSER)
    body, notes = _emit(unit, SPECS_CFGPARSER, {})
    trusted = ["* only the PURE PREFIX of each method is translated: the statements before the first one that touches the parser's",
               "  context, the section object or `self.replace`; the result is the tuple of locals the rest of the method goes on with",
               "* `_keyvalue_rx.match` is `Py.reMatch` over the GENERATED pattern `Gen.keyvalueRx`; `m.group('key', 'value')` reads its named groups",
               "* `self.error(msg)` is inlined as its one statement `raise ZConfig.ConfigurationSyntaxError(msg, self.url, self.lineno)`;",
               "  `self.url`, `self.lineno` are PARAMETERS; the `section` argument is not used by the prefix (type `Unit`)"]
    trusted += ["* " + n for n in notes]
    head = HEADER % {"src": "src/ZConfig/cfgparser.py", "imports": "import ZCV.Py\nimport ZCV.Gen.Cfgparser",
                     "what": "the pure prefixes of `ZConfigParser.handle_key_value` and `handle_directive` (`ZConfig/cfgparser.py`)",
                     "eqfile": "CodeEqCfgparser", "trusted": "\n".join(trusted)}
    return head + body + "\nend ZCV.Gen.Code\n"


def gen_code_cmdline():
    unit = _unit_for(SPECS_CMDLINE)
    body, notes = _emit(unit, SPECS_CMDLINE, {})
    trusted = ["* `ExtendedConfigLoader.addOption` is rendered as the function returning the item `(optpath, val, pos)` it appends to `self.clopts`",
               "* `ZConfig.ConfigurationSyntaxError(msg, *pos)`: class, `(url, lineno, colno)` and the attribute `specifier` are kept, the message is dropped",
               "* `OptionBag.basic_key`: `self._basic_key` (the registry's `basic-key` conversion) is a PARAMETER",
               "* string primitives of `ZCV/Py.lean` (`Py.split1` = `s.split(c, 1)`, `Py.splitOn` = `s.split(c)`)"]
    trusted += ["* " + n for n in notes]
    head = HEADER % {"src": "src/ZConfig/cmdline.py", "imports": "import ZCV.Py",
                     "what": "`ZConfig/cmdline.py` (`ExtendedConfigLoader.addOption`, `OptionBag.basic_key`, `OptionBag._normalize_case`)",
                     "eqfile": "CodeEqCmdline", "trusted": "\n".join(trusted)}
    return head + body + "\nend ZCV.Gen.Code\n"


if __name__ == "__main__":
    import sys
    which = sys.argv[1:] or ["datatypes", "substitution"]
    for w in which:
        print({"datatypes": gen_code_datatypes, "substitution": gen_code_substitution, "cmdline": gen_code_cmdline, "url": gen_code_url, "cfgparser": gen_code_cfgparser}[w]())
