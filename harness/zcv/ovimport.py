"""'%import' lines AND command-line overrides (AND handlers) in one load — the stream shared by C12, C14 and C16.

What the general theorems say (C14_text_override_eq_edit_imports, C01_load_accept_iff / C02_load_value_eq,
C16_handlers_postorder_general): the load with overrides returns what the text EDITED BY HAND returns — configuration and
composite handler — where the edit consults the schema the load STARTED with: a path into a section whose type the text
itself '%import's cannot be applied, and the load is refused (known finding C14-override-into-imported-type: the edited text
is accepted).

Worlds: an abstract type with a '*' multisection slot (handler), a top-level key 'plain' (handler), a schema-level handler,
one or two STATIC implementers with a key 'k' (handler), a generated component package with one or two implementers with a
key 'k' (handler).  Texts: '%import' first or between the sections, 1..4 named sections of static and imported types, some
'plain' lines at the end.  Overrides: 1..3 of  plain=…,  <name>/k=…,  <type>/k=…  in mixed case, for sections of static and
of imported types.  For every load: real (fresh loader) vs model, real vs real on the hand-edited text (value and handler
log), and the verdict the theorem predicts."""
import copy

from . import cfggen, cfgrun, cfgstream, core, pkggen, schemafam as F

SIG_KNOWN = "C14:override-into-imported-type:rejected"


def _handler_log(h, hnames):
    import ZConfig
    rec = cfgrun.Recorder()
    try:
        h({n: rec.fn(n) for n in hnames})
    except ZConfig.ConfigurationError:
        return (len(h), "refused")
    except Exception as e:
        return (len(h), "raised " + type(e).__name__)
    return (len(h), [[n, cfgrun.describe(v)] for n, v in rec.calls])


def gen_world(rng, pk, handlers=True):
    def h(n):
        return n if handlers and rng.random() < 0.85 else None
    static = ["st%d" % i for i in range(rng.randint(1, 2))]
    imported = ["pt%d" % i for i in range(rng.randint(1, 2))]
    types = [F.AbsD("ab0")] + [F.TypeD(n, [F.KeyD("k", "string", handler=h("on-k-" + n))], implements="ab0") for n in static]
    children = [F.SectD("ab0", "*", True, False, "s_ab0", handler=h("on-slot")), F.KeyD("plain", "string", handler=h("on-plain"))]
    sd = F.SchemaD(children, types, handler=h("on-schema"))
    ptypes = [F.TypeD(n, [F.KeyD("k", "string", handler=h("on-k-" + n))], implements="ab0") for n in imported]
    name = pk.add_component(ptypes)
    return sd, static, imported, ptypes, name


def gen_text(rng, static, imported, pkg):
    """top-level list: ["import", pkg] and section / key items; the import precedes the first section of an imported type
    (mostly) and 'plain' lines come last"""
    n = rng.randint(1, 4)
    secs = []
    for i in range(n):
        ty = rng.choice(imported if rng.random() < 0.5 else static)
        secs.append(["sect", ty, "n%d" % i, [["kv", "k", "v%d" % i]], False])
    first_imp = next((i for i, s in enumerate(secs) if s[1] in imported), None)
    r = rng.random()
    if first_imp is None:
        pos = rng.randint(0, n) if r < 0.8 else None
    elif r < 0.9:
        pos = rng.randint(0, first_imp)
    else:
        pos = rng.randint(first_imp + 1, n)       # too late: the text is refused with or without overrides
    tops = list(secs)
    if pos is not None:
        tops.insert(pos, ["import", pkg])
    if rng.random() < 0.4:
        tops.append(["kv", "plain", "p0"])
    return tops


def gen_specs(rng, tops, static, imported):
    secs = [t for t in tops if t[0] == "sect"]
    specs = []
    for _ in range(rng.randint(1, 3)):
        r = rng.random()
        if r < 0.3 or not secs:
            specs.append("plain=ov%d" % len(specs))
            continue
        st = [x for x in secs if x[1] in static]
        s = rng.choice(st) if st and rng.random() < 0.6 else rng.choice(secs)
        comp = s[2] if rng.random() < 0.6 else s[1]
        if rng.random() < 0.25:
            comp = comp.upper()
        key = "K" if rng.random() < 0.2 else "k"
        specs.append("%s/%s=ov%d" % (comp, key, len(specs)))
    return specs


def addressed_imported(tops, specs, imported):
    """does a path of one of the specifiers select (first match in file order, by name or by type) a section whose type is
    defined by the imported component?"""
    secs = [t for t in tops if t[0] == "sect"]
    for spec in specs:
        path = spec.split("=", 1)[0].split("/")
        if len(path) < 2:
            continue
        c = path[0].lower()
        for s in secs:
            if (s[2] and s[2].lower() == c) or s[1].lower() == c:
                if s[1] in imported:
                    return True
                break
    return False


def hand_edit(elab_full, tops, specs, edit):
    """the text edited by hand with full knowledge of the vocabulary: '%import' lines stay before the section they preceded,
    supplied top-level lines go to the end"""
    items = [t for t in tops if t[0] != "import"]
    e = edit(elab_full, items, specs)
    if e is None:
        return None
    before = {}
    nsec = 0
    for t in tops:
        if t[0] == "import":
            before.setdefault(nsec, []).append(t)
        elif t[0] == "sect":
            nsec += 1
    out, j = [], 0
    for t in e:
        if t[0] == "sect":
            out.extend(before.pop(j, []))
            j += 1
        out.append(t)
    # imports that stood after the last section: before the supplied top-level lines does no harm, keep them last among sections
    tail = [x for k in sorted(before) for x in before[k]]
    if tail:
        idx = max([i for i, t in enumerate(out) if t[0] == "sect"], default=-1) + 1
        out[idx:idx] = tail
    return out


def run_stream(ctx, prop, nworlds=None):
    """prop in ("C12", "C14", "C16"): which half of the comparison is reported under which signature prefix"""
    from .props import c14
    import time
    t0 = time.time()
    rng = ctx.rng
    nworlds = nworlds or (200 if ctx.thorough() else 40)
    pk = pkggen.PkgRoot()
    n_known = 0
    try:
        for _ in range(nworlds):
            sd, static, imported, ptypes, pkg = gen_world(rng, pk, handlers=(prop != "C12" or rng.random() < 0.5))
            real_schema = lambda: F.load_real(sd)
            elab0 = F.elaborate(sd)
            elab_full = F.elaborate(F.SchemaD(sd.children, list(sd.types) + list(ptypes), sd.keytype, sd.datatype, sd.handler))
            hnames = cfgrun.handler_names(elab_full)
            mp = [pkggen.model_pkg(pkg, ptypes, elab0)]
            loads = []
            for _ in range(5):
                tops = gen_text(rng, static, imported, pkg)
                specs = gen_specs(rng, tops, static, imported)
                loads.append((tops, specs, cfggen.render_lines(rng, tops, plain=True)))
            ans = [None] * len(loads)
            if ctx.driver_ok:
                ans = core.driver_batch([cfgrun.model_load_request(elab0, lines, cfgstream.URL, overrides=specs, pkgs=mp)
                                         for _, specs, lines in loads])
            for (tops, specs, lines), a in zip(loads, ans):
                text = "\n".join(lines) + "\n"
                out, cfg, hh = cfgrun.real_load(real_schema(), text, cfgstream.URL, specs, reuse=False)
                base, _, _ = cfgrun.real_load(real_schema(), text, cfgstream.URL, (), reuse=False)
                ctx.evaluations += 1
                has_imp = any(t[0] == "import" for t in tops)
                into_imp = addressed_imported(tops, specs, imported)
                below = any("/" in s.split("=", 1)[0] for s in specs)
                ctx.count("import+override loads")
                ctx.count("import+override:%s%s%s" % ("import" if has_imp else "no-import", ":below-top" if below else ":top-only",
                                                     ":into-imported-type" if into_imp else ""))
                ctx.count("import+override outcome:" + out[0])
                if has_imp and below:
                    ctx.nontriv((id(sd), tuple(lines), tuple(specs)))
                rep = {"schema_xml": F.render_xml(sd), "component": F.render_xml(F.SchemaD([], ptypes), "component"), "package": pkg,
                       "lines": lines, "overrides": list(specs), "with_overrides": out[:3], "without_overrides": base[:3]}
                # (1) model vs real (a fresh loader, as the model is)
                if a is not None:
                    m = cfgrun.canon_model(a)
                    why = cfgrun.compare_load(m, out, cfg, hh, hnames)
                    if why:
                        ctx.disagree("import+override-load", rep, [out[:3], why], m[:6])
                if out[0] == "internal":
                    continue
                # (2) real with overrides vs real on the hand-edited text
                e = hand_edit(elab_full, tops, specs, c14.edit)
                if e is None:
                    if out[0] == "ok":
                        ctx.violate("override addressing a section that is not in the text was accepted: %r" % (specs,), rep,
                                    signature=prop + ":import+override:missing-section-accepted")
                    continue
                elines = cfggen.render_lines(rng, e, plain=True)
                eout, ecfg, eh = cfgrun.real_load(real_schema(), "\n".join(elines) + "\n", cfgstream.URL, (), reuse=False)
                rep = dict(rep, edited_lines=elines, edited=eout[:3])
                if eout[0] == "internal":
                    continue
                if into_imp:
                    # the theorem: the edit against the schema the load starts with is impossible, the load is refused
                    if out[0] == "ok":
                        ctx.violate("an override path into a section of a '%%import'-ed type was applied (%r): the model and the theorem say "
                                    "such a load is refused" % (specs,), rep, signature=prop + ":import+override:into-imported-type-accepted")
                    elif eout[0] == "ok":
                        n_known += 1
                        if prop == "C14":
                            # registered as a finding of C14 (known_findings.json is read per property): reported there only
                            ctx.violate("override %r into a section whose type the text itself imports is refused (%s), the hand-edited "
                                        "text is accepted" % (specs, out[1] if len(out) > 1 else out[0]), rep, signature=SIG_KNOWN)
                    continue
                same = out[0] == eout[0] and (out[0] != "ok" or cfgrun.describe(cfg) == cfgrun.describe(ecfg))
                if not same:
                    ctx.violate("with '%%import' lines: loading with overrides %r gives %s, the hand-edited text gives %s"
                                % (specs, out[:2], eout[:2]),
                                dict(rep, value_with_overrides=cfgrun.describe(cfg) if cfg is not None else None,
                                     value_edited=cfgrun.describe(ecfg) if ecfg is not None else None),
                                signature=prop + ":import+override:%s-vs-edited-%s" % (out[0], eout[0]))
                elif out[0] == "ok":
                    ctx.count("import+override: value = hand-edited text")
                    la, lb = _handler_log(hh, hnames), _handler_log(eh, hnames)
                    if hnames:
                        ctx.count("import+override: handler logs compared (entries %d)" % min(lb[0], 10))
                    if la != lb:
                        ctx.violate("with '%%import' lines and overrides %r the composite handler delivers %r; the hand-edited text %r"
                                    % (specs, la, lb), dict(rep, handlers_with_overrides=list(la), handlers_edited=list(lb)),
                                    signature=prop + ":import+override:handlers-differ-from-edited")
        # the reused loader (history dependence of the finding): noted, not judged
        ctx.count("import+override: known finding witnessed", n_known)
    finally:
        pk.close()
    ctx.notes.append("'%%import' + overrides stream: %d loads in %.1f s" % (ctx.cov.get("distribution", {}).get("import+override loads", 0),
                                                                         time.time() - t0))
