"""Case streams over the generated schema family, evaluated on the model (driver) and on the real loader."""
import copy
import os
import urllib.request

from .sexp import Atom

from . import cfggen, cfgrun, core, schemafam as F

URL = "file:///zcvroot/main.conf"
ENV = [["ZCV_HOME", "/h"], ["ZCV_Mixed", "m"]]


class Case:
    __slots__ = ("sd", "real", "elab", "hnames", "lines", "faults", "overrides", "meta", "model", "out", "cfg", "handler",
                 "files", "url", "spec")

    def __init__(self):
        self.spec = None
        self.files = None      # {relative path: [lines]} for %include targets (real files in a scratch tree)
        self.url = None
        self.meta = {}
        self.overrides = ()
        self.faults = []

    def replay(self):
        return {"schema_xml": F.render_xml(self.sd), "lines": self.lines, "overrides": list(self.overrides),
                "faults": self.faults, "url": self.url or URL, "files": self.files}


_schema_cache = {}


def make_schema(rng, handlers, phandler=0.5, schema_hook=None):
    sd = cfggen.gen_schema(rng, handlers=handlers, phandler=phandler)
    if schema_hook is not None:
        schema_hook(rng, sd)       # extends the description in place (e.g. cfggen.add_keytype_override)
    # every fifth schema is delivered as a chain of three documents (schema-level extends): same schema object expected
    real = F.load_real_chain(sd, rng) if rng.random() < 0.2 else F.load_real(sd)
    elab = F.elaborate(sd)
    return sd, real, elab, cfgrun.handler_names(elab)


def check_digest(ctx, sd, real, elab):
    """the model's schema must be what the real schema loader built (else the tie on the schema side is broken)"""
    from .sexp import enc
    if enc(elab) != enc(F.digest(real)):
        ctx.disagree("schema-digest", {"schema_xml": F.render_xml(sd)}, "digest of real schema object", "expected elaboration")
        return False
    return True


def gen_cases(ctx, n_schemas, n_texts, handlers=False, nfaults=(0, 0, 1, 1, 2, 3), faults=None, plain=False, systematic=True,
              phandler=0.5, pempty=0.0, schema_hook=None):
    """pempty > 0: keys whose datatype converts the empty string are given WITH the empty value (alone on their line, or
    through a reference to a name defined as nothing) in that share of their occurrences in the random texts, and every schema
    gets two further fault-free texts in which most such keys are (one literal, one through references)"""
    rng = ctx.rng
    cases = []
    for _ in range(n_schemas):
        sd, real, elab, hn = make_schema(rng, handlers, phandler, schema_hook)
        # a digest mismatch is recorded as a broken tie; the texts still run against the EXPECTED elaboration so that a
        # schema-loading regression surfaces as a concrete (schema, text) on which the loader's result is wrong
        check_digest(ctx, sd, real, elab)
        for _ in range(n_texts):
            items = cfggen.gen_items(rng, elab, None, 3, pempty=pempty)
            fl = []
            for _ in range(rng.choice(nfaults)):
                f = cfggen.apply_fault(rng, elab, items, rng.choice(faults or cfggen.FAULTS))
                if f:
                    fl.append(f)
            c = Case()
            c.sd, c.real, c.elab, c.hnames = sd, real, elab, hn
            c.lines = cfggen.render_lines(rng, items, plain=plain)
            c.faults = fl
            c.overrides = ()
            c.meta = {"items": items}
            cases.append(c)
        if pempty:
            for by_ref in (False, True):
                items = cfggen.gen_items(rng, elab, None, 3, pfill=0.9, pempty=0.8)
                if by_ref and not cfggen.empty_by_reference(rng, items, 0.7):
                    continue
                if not by_ref and not cfggen.empty_given(elab, items):
                    continue
                c = Case()
                c.sd, c.real, c.elab, c.hnames = sd, real, elab, hn
                c.lines = cfggen.render_lines(rng, items, plain=plain)
                c.faults = []
                c.overrides = ()
                c.meta = {"items": items}
                cases.append(c)
                ctx.count("systematic:given-empty" + ("-by-reference" if by_ref else ""))
        if systematic:
            # one text per fault kind with exactly that fault (when the schema offers a place for it)
            for fk in (faults or cfggen.FAULTS):
                items = cfggen.gen_items(rng, elab, None, 3)
                f = cfggen.apply_fault(rng, elab, items, fk)
                if not f:
                    continue
                c = Case()
                c.sd, c.real, c.elab, c.hnames = sd, real, elab, hn
                c.lines = cfggen.render_lines(rng, items, plain=plain)
                c.faults = [f]
                c.overrides = ()
                c.meta = {"items": items}
                cases.append(c)
                ctx.count("systematic:" + fk)
    return cases


def _scratch_root():
    import tempfile
    base = "/dev/shm" if os.path.isdir("/dev/shm") else None
    return tempfile.mkdtemp(prefix="zcv-", dir=base)


def _resolve_table(root_url, main_rel, files, all_lines):
    """(includer url, argument) -> normalised url, for every %include argument occurring anywhere; computed with the
    standard library only (urllib), never with ZConfig.url"""
    import re
    import urllib.parse
    urls = {rel: urllib.parse.urljoin(root_url, urllib.request.pathname2url(rel)) for rel in files}
    urls[main_rel] = urllib.parse.urljoin(root_url, urllib.request.pathname2url(main_rel))
    args = set()
    defs = {}
    for ls in all_lines:
        for l in ls:
            m = re.match(r"\s*%define\s+(\S+)\s+(.*?)\s*$", l)
            if m and "$" not in m.group(2):
                defs.setdefault(m.group(1).lower(), m.group(2))
    for ls in all_lines:
        for l in ls:
            m = re.match(r"\s*%include\s+(\S.*?)\s*$", l)
            if m:
                a = m.group(1)
                if "$" in a:
                    # the loader resolves the argument AFTER $-substitution: enter the substituted form
                    a = re.sub(r"\$\{(\w+)\}|\$(\w+)", lambda k: defs.get((k.group(1) or k.group(2)).lower(), k.group(0)), a)
                args.add(a)
    table = []
    for rel, u in urls.items():
        for a in args:
            if "$" in a:
                continue
            j = urllib.parse.urljoin(u, a)
            d, frag = urllib.parse.urldefrag(j)
            if frag:
                table.append([u, a, Atom("fragment")])
            else:
                table.append([u, a, [Atom("url"), d]])
    return urls, table


def evaluate(ctx, cases, fresh_schema=False, with_spec=False):
    """fills c.model / c.out / c.cfg / c.handler"""
    import shutil
    for k, v in ENV:
        os.environ[k] = v
    os.environ.pop("NOSUCHENV_ZCV", None)
    root = None
    reqs = []
    sreqs = []
    plans = []
    try:
        for i, c in enumerate(cases):
            if c.files is None:
                c.url = URL
                table = []
                if any("%include" in l for l in c.lines):
                    _, table = _resolve_table("file:///zcvroot/", "main.conf", {}, [c.lines])
                reqs.append(cfgrun.model_load_request(c.elab, c.lines, URL, c.overrides, env=ENV, resolve=table))
                if with_spec:
                    sreqs.append(cfgrun.spec_load_request(c.elab, c.lines, URL, resolve=table, env=ENV))
                plans.append(None)
            else:
                if root is None:
                    root = _scratch_root()
                # (every fourth scratch directory has URL-special characters in its name: a path is not a URL, so
                #  '?', '#', '%' and a space in it must be harmless however the resource is named)
                uses_path_placeholder = any("@ZCVROOT@" in l for ls in [c.lines] + list(c.files.values()) for l in ls)
                plain_dir = i % 4 or uses_path_placeholder or c.meta.get("entry") == "fileobj-pathurl"   # (a path used AS a URL must be URL-neutral)
                d = os.path.join(root, ("c%d" if plain_dir else "c%d q?x#y%%41 z") % i)
                main_rel = c.meta.get("main", "main.conf")
                root_url = "file://" + urllib.request.pathname2url(d) + "/"

                def fill(ls, d=d, root_url=root_url):
                    return [l.replace("@ZCVROOTURL@", root_url.rstrip("/")).replace("@ZCVROOT@", d) for l in ls]
                c_lines = fill(c.lines)
                c_files = {rel: fill(ls) for rel, ls in c.files.items()}
                urls, table = _resolve_table(root_url, main_rel, c_files, [c_lines] + list(c_files.values()))
                for rel, ls in list(c_files.items()) + [(main_rel, c_lines)]:
                    p = os.path.join(d, rel)
                    os.makedirs(os.path.dirname(p), exist_ok=True)
                    with open(p, "w", encoding="utf-8", newline="") as f:
                        f.write("".join(l + "\n" for l in ls))
                c.url = urls[main_rel]
                res = [[urls[rel], ls] for rel, ls in c_files.items()]
                reqs.append(cfgrun.model_load_request(c.elab, c_lines, c.url, c.overrides, env=ENV,
                                                      resources=res, resolve=table))
                if with_spec:
                    sreqs.append(cfgrun.spec_load_request(c.elab, c_lines, c.url, resources=res, resolve=table, env=ENV))
                plans.append(os.path.join(d, main_rel))
        ans = core.driver_batch(reqs, chunk=5000) if ctx.driver_ok else [None] * len(cases)
        if with_spec and ctx.driver_ok:
            for c, sa in zip(cases, core.driver_batch(sreqs, chunk=5000)):
                c.spec = sa
        for c, a, plan in zip(cases, ans, plans):
            c.model = cfgrun.canon_model(a) if a is not None else None
            real = F.load_real(c.sd) if fresh_schema else c.real
            if plan is None:
                c.out, c.cfg, c.handler = cfgrun.real_load(real, "\n".join(c.lines) + "\n", URL, c.overrides)
            else:
                c.out, c.cfg, c.handler = cfgrun.real_load_entry(real, plan, c.overrides, c.meta.get("entry", "abs"),
                                                                 c.meta.get("main", "main.conf"))
            ctx.evaluations += 1
    finally:
        if root is not None:
            shutil.rmtree(root, ignore_errors=True)
    return cases


def shrink_lines(ctx, c, still_fails, with_spec=False):
    """delta-debug the text of a failing case; still_fails(list_of_cases)->list of bool"""
    from . import util

    def fails(cands):
        cs = []
        for ls in cands:
            d = Case()
            d.sd, d.real, d.elab, d.hnames = c.sd, c.real, c.elab, c.hnames
            d.lines, d.faults, d.overrides, d.meta, d.files = ls, c.faults, c.overrides, c.meta, c.files
            cs.append(d)
        evaluate(ctx, cs, with_spec=with_spec)
        return still_fails(cs)
    return util.shrink_seq(list(c.lines), fails)
