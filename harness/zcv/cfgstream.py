"""Case streams over the generated schema family, evaluated on the model (driver) and on the real loader."""
import copy

from . import cfggen, cfgrun, core, schemafam as F

URL = "file:///zcvroot/main.conf"
ENV = [["ZCV_HOME", "/h"], ["ZCV_Mixed", "m"]]


class Case:
    __slots__ = ("sd", "real", "elab", "hnames", "lines", "faults", "overrides", "meta", "model", "out", "cfg", "handler")

    def replay(self):
        return {"schema_xml": F.render_xml(self.sd), "lines": self.lines, "overrides": list(self.overrides),
                "faults": self.faults, "url": URL}


_schema_cache = {}


def make_schema(rng, handlers):
    sd = cfggen.gen_schema(rng, handlers=handlers)
    real = F.load_real(sd)
    elab = F.elaborate(sd)
    return sd, real, elab, cfgrun.handler_names(elab)


def check_digest(ctx, sd, real, elab):
    """the model's schema must be what the real schema loader built (else the tie on the schema side is broken)"""
    from .sexp import enc
    if enc(elab) != enc(F.digest(real)):
        ctx.disagree("schema-digest", {"schema_xml": F.render_xml(sd)}, "digest of real schema object", "expected elaboration")
        return False
    return True


def gen_cases(ctx, n_schemas, n_texts, handlers=False, nfaults=(0, 0, 1, 1, 2, 3), faults=None, plain=False):
    rng = ctx.rng
    cases = []
    for _ in range(n_schemas):
        sd, real, elab, hn = make_schema(rng, handlers)
        if not check_digest(ctx, sd, real, elab):
            continue
        for _ in range(n_texts):
            items = cfggen.gen_items(rng, elab, None, 3)
            fl = []
            for _ in range(rng.choice(nfaults)):
                f = cfggen.apply_fault(rng, elab, items, rng.choice(faults or cfggen.FAULTS))
                if f:
                    fl.append(f)
            c = Case()
            c.sd, c.real, c.elab, c.hnames = sd, real, elab, hn
            c.lines = cfggen.render_lines(rng, items, plain=plain)
            c.faults = fl
            c.overrides = ()
            c.meta = {}
            cases.append(c)
    return cases


def evaluate(ctx, cases, fresh_schema=False):
    """fills c.model / c.out / c.cfg / c.handler"""
    import os
    for k, v in ENV:
        os.environ[k] = v
    os.environ.pop("NOSUCHENV_ZCV", None)
    if ctx.driver_ok:
        reqs = [cfgrun.model_load_request(c.elab, c.lines, URL, c.overrides, env=ENV) for c in cases]
        ans = core.driver_batch(reqs, chunk=5000)
    else:
        ans = [None] * len(cases)
    for c, a in zip(cases, ans):
        c.model = cfgrun.canon_model(a) if a is not None else None
        real = F.load_real(c.sd) if fresh_schema else c.real
        c.out, c.cfg, c.handler = cfgrun.real_load(real, "\n".join(c.lines) + "\n", URL, c.overrides)
        ctx.evaluations += 1
    return cases


def shrink_lines(ctx, c, still_fails):
    """delta-debug the text of a failing case; still_fails(list_of_cases)->list of bool"""
    from . import util

    def fails(cands):
        cs = []
        for ls in cands:
            d = Case()
            d.sd, d.real, d.elab, d.hnames = c.sd, c.real, c.elab, c.hnames
            d.lines, d.faults, d.overrides, d.meta = ls, c.faults, c.overrides, c.meta
            cs.append(d)
        evaluate(ctx, cs)
        return still_fails(cs)
    return util.shrink_seq(list(c.lines), fails)
