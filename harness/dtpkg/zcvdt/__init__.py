"""helper datatypes importable by generated schemas (datatype="zcvdt.wrap" …)"""


class Wrapped:
    def __init__(self, tag, inner):
        self.tag = tag
        self.inner = inner

    def __repr__(self):
        return "Wrapped(%r, %r)" % (self.tag, self.inner)


def wrap(section):
    return Wrapped("wrap", section)


def marker(value):
    """value datatype: ValueError on '!bad', KeyError on '!exc'"""
    if "!exc" in value:
        raise KeyError("zcvdt")
    if "!bad" in value:
        raise ValueError("marked bad: %r" % value)
    return value


def sectmarker(section):
    """section datatype: looks at the section's own string attributes"""
    vals = [getattr(section, a) for a in section.getSectionAttributes()]
    strs = [v for v in vals if isinstance(v, str)]
    if any("!sexc" in v for v in strs):
        raise KeyError("zcvdt")
    if any("!sbad" in v for v in strs):
        raise ValueError("section marked bad")
    return Wrapped("checked", section)


def nested(v):
    """a datatype that is itself implemented with ZConfig: on the marker it raises a DataConversionError (a ValueError
    subclass carrying its OWN position and text), as a nested loadConfig would"""
    if "!nested" in v:
        import ZConfig
        raise ZConfig.DataConversionError(ValueError("inner failure"), "inner-text", (2, 1, "file:///zcv/inner.conf"))
    return v


def interrupt(v):
    """a value datatype during which the process is interrupted: "!kbd" -> KeyboardInterrupt, "!exit" -> SystemExit
    (neither is an Exception); anything else is returned unchanged"""
    if "!kbd" in v:
        raise KeyboardInterrupt()
    if "!exit" in v:
        raise SystemExit(3)
    return v
