import ZCV.Base
import ZCV.Model.Regex
import ZCV.Model.Subst
import ZCV.Spec.Subst
import ZCV.Props.C04
