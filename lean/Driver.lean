import ZCV.SExp
import ZCV.Model.Subst
import ZCV.Spec.Subst
/-! Line-protocol driver: one request per line, one answer per line. Imports Spec + Model + Gen only. -/
open ZCV ZCV.SExp

def assocFn (kvs : List SExp) : Str → Option Str := fun k =>
  kvs.findSome? fun
    | .list [.str a, .str b] => if a == k then some b else none
    | _ => none

def substErr : Subst.Err → SExp
  | .syntax c => .list [.atom "syntax", ofNat c]
  | .missing s n => .list [.atom "missing", .str s, .str n]
def specErr : SubstSpec.Err → SExp
  | .syntax c => .list [.atom "syntax", ofNat c]
  | .missing s n => .list [.atom "missing", .str s, .str n]
def exc {ε} (f : ε → SExp) : Except ε Str → SExp
  | .ok v => .list [.atom "ok", .str v]
  | .error e => .list [.atom "err", f e]

structure DState where
  defs : List SExp := []
  env : List SExp := []

def handle (st : DState) : SExp → DState × SExp
  | .list [.atom "setdefs", .list defs] => ({ st with defs := defs }, .atom "ok")
  | .list [.atom "setenv", .list env] => ({ st with env := env }, .atom "ok")
  -- (subst "text") with the tables set before → (model spec)
  | .list [.atom "subst", .str s] =>
    (st, .list [exc substErr (Subst.substitute (assocFn st.defs) (assocFn st.env) s),
           exc specErr (SubstSpec.substituteSpec (assocFn st.defs) (assocFn st.env) s)])
  | .list [.atom "subst", .list defs, .list env, .str s] =>
    (st, .list [exc substErr (Subst.substitute (assocFn defs) (assocFn env) s),
           exc specErr (SubstSpec.substituteSpec (assocFn defs) (assocFn env) s)])
  | .list [.atom "isname", .str s] =>
    (st, .list [ofBool (Subst.isname s), ofBool (SubstSpec.isnameSpec s)])
  | .list [.atom "ping"] => (st, .atom "pong")
  | _ => (st, .list [.atom "bad-request"])

partial def loop (h : IO.FS.Stream) (out : IO.FS.Stream) (st : DState) : IO Unit := do
  let line ← h.getLine
  if line.isEmpty then return
  let l := (line.dropEndWhile (· == '\n')).toString
  let (st', ans) := match SExp.parse l with
    | some r => handle st r
    | none => (st, .list [.atom "parse-error"])
  out.putStrLn ans.render
  loop h out st'

def main : IO Unit := do
  let out ← IO.getStdout
  loop (← IO.getStdin) out {}
  out.flush
