import ZCV.Lemmas.HandlersCall
import ZCV.Model.LogTemplate
import ZCV.Model.LogStrFormat
import ZCV.Model.Resources2
import ZCV.Model.Validator
import ZCV.SExp
import ZCV.Model.Subst
import ZCV.Spec.Subst
import ZCV.Codec
import ZCV.Model.Conv
import ZCV.Model.Schemaless
import ZCV.Spec.Grammar
import ZCV.Spec.Registry
import ZCV.Spec.Tree
import ZCV.Model.TreeLoad
import ZCV.Model.Url
import ZCV.Spec.Url
import ZCV.Model.Resources
import ZCV.Model.Logger
import ZCV.Spec.Logger
import ZCV.CodecElab
import ZCV.Model.LoggerSetup
import ZCV.Model.UrlPath
import ZCV.Model.Timedelta
import ZCV.Model.LogFormat
import ZCV.CodecHost
import ZCV.Model.History
/-! Line-protocol driver: one request per line, one answer per line. Imports Spec + Model + Gen only (plus the lemma files that
    hold executable definitions the models are stated with: `HandlersCall`, and through `Model/History` the `LoadReq` / `addStep` /
    `runLines` definitions of `Lemmas/Slots*`, `IncludeAux`). -/
open ZCV ZCV.SExp ZCV.Codec ZCV.Cfg

def assocFn (kvs : List SExp) : Str → Option Str := fun k =>
  kvs.findSome? fun
    | .list [.str a, .str b] => if a == k then some b else none
    | _ => none

def substErr : Subst.Err → SExp
  | .syntax c => .list [.atom "syntax", ofNat c]
  | .missing s n => .list [.atom "missing", .str s, .str n]
def specErr : SubstSpec.Err → SExp
  | .syntax c => .list [.atom "syntax", ofNat c]
  | .missing s n => .list [.atom "missing", .str s, .str n]
def exc {ε} (f : ε → SExp) : Except ε Str → SExp
  | .ok v => .list [.atom "ok", .str v]
  | .error e => .list [.atom "err", f e]

def encLineShape : LineShape → SExp
  | .skip => .atom "skip"
  | .open_ t n e => .list [.atom "open", .str t, ofOpt .str n, ofBool e]
  | .close t => .list [.atom "close", .str t]
  | .define a => .list [.atom "define", .str a]
  | .import_ a => .list [.atom "import", .str a]
  | .include_ a => .list [.atom "include", .str a]
  | .kv k v => .list [.atom "kv", .str k, .str v]
  | .bad _ => .atom "bad"
  | .internal e => .list [.atom "internal", .atom e]
def encShape : Grammar.Shape → SExp
  | .skip => .atom "skip"
  | .open_ t n e => .list [.atom "open", .str t, ofOpt .str n, ofBool e]
  | .close t => .list [.atom "close", .str t]
  | .define a => .list [.atom "define", .str a]
  | .import_ a => .list [.atom "import", .str a]
  | .include_ a => .list [.atom "include", .str a]
  | .kv k v => .list [.atom "kv", .str k, .str v]
  | .bad => .atom "bad"
def encEv : Ev → SExp
  | .start t n => .list [.atom "start", .str t, ofOpt .str n]
  | .stop t n => .list [.atom "stop", .str t, ofOpt .str n]
  | .value k v l => .list [.atom "value", .str k, .str v, ofInt l]
  | .imp p => .list [.atom "imp", .str p]
partial def encSec : Sec → SExp
  | .mk t n kvs ss => .list [.atom "sec", .str t, ofOpt .str n,
      .list (kvs.map fun (k, vs) => .list [.str k, ofStrs vs]), .list (ss.map encSec)]

def encConv : Except ConvErr Val → SExp
  | .ok v => .list [.atom "ok", encVal v]
  | .error .valueError => .list [.atom "err", .atom "ValueError"]
  | .error .typeError => .list [.atom "err", .atom "TypeError"]
  | .error (.other n) => .list [.atom "err", .str n]

partial def decSteps : List SExp → Option (List Res.Step)
  | [] => some []
  | .atom "work" :: r => (decSteps r).map (Res.Step.work :: ·)
  | .list [.atom "sub", id, .list ss] :: r => do
    let i ← getNat? id
    let sub ← decSteps ss
    let rest ← decSteps r
    pure (Res.Step.sub i sub :: rest)
  | _ => none
def decPt : SExp → Option Res.Pt
  | .list [.atom "urlopen", r] => (getNat? r).map .urlopen
  | .list [.atom "read", r] => (getNat? r).map .read
  | .list [.atom "decode", r] => (getNat? r).map .decode
  | .list [.atom "step", r, k] => do let a ← getNat? r; let b ← getNat? k; pure (.step a b)
  | _ => none
def encResEv : Res.Ev → SExp
  | .sopen r => .list [.atom "sopen", ofNat r] | .sclose r => .list [.atom "sclose", ofNat r]
  | .ropen r => .list [.atom "ropen", ofNat r] | .rclose r => .list [.atom "rclose", ofNat r]

def decCStep : SExp → Option Res2.CStep
  | .atom "work" => some .work
  | .list [.atom "incl", r] => (getNat? r).map .incl
  | .list [.atom "imp", c] => (getNat? c).map .imp
  | _ => none
def decSStep : SExp → Option Res2.SStep
  | .atom "work" => some .work
  | .list [.atom "importsrc", r] => (getNat? r).map .importSrc
  | .list [.atom "importpkg", c] => (getNat? c).map .importPkg
  | _ => none
def decDoc : SExp → Option (Nat × Res2.Doc)
  | .list [id, .list [.atom "cfg", .list ls]] => do pure (← getNat? id, .cfg (← ls.mapM decCStep))
  | .list [id, .list [.atom "schema", .list bs, .list body]] => do pure (← getNat? id, .schema (← bs.mapM getNat?) (← body.mapM decSStep))
  | .list [id, .list [.atom "comp", .list body]] => do pure (← getNat? id, .comp (← body.mapM decSStep))
  | _ => none
def decEntry : SExp → Option Res2.Entry
  | .list [.atom "cfgurl", r] => (getNat? r).map .cfgURL
  | .list [.atom "cfgfile", r] => (getNat? r).map .cfgFile
  | .list [.atom "schemaurl", r] => (getNat? r).map .schemaURL
  | .list [.atom "schemafile", r] => (getNat? r).map .schemaFile
  | _ => none

/-- one load of a history: (url (lines…) (overrides…)) -/
def decLoadReq : SExp → Option LoadReq
  | .list [url, .list lines, .list ovs] => do
    let ls ← lines.mapM getStr?
    let ov ← decOverrides ovs
    pure { url := optStr url, lines := ls, specs := ov }
  | _ => none

def encStop (x : Stop) : SExp :=
  .list [.list (x.regs.map fun (c, a) => .list [.str c, .str a]), ofStrs x.imports, ofOpt .str x.broken]

/-- (histapp schema pkgs resources resolve env ((url (lines…) (overrides…)) …)) → one entry per load, in order:
    (outcome application-schema-after (addsubtype-calls components-read component-broken-off)) with outcome as for `load`
    (without the abstract tables) and the schema as `encSchema` writes it: `runHistoryApp` / `historySchemas` / `historyStops`
    of ZCV/Model/History.lean -/
def histappOp (sch : SExp) (pkgs res rsv env hist : List SExp) : SExp :=
  match decSchema sch, decPkgs pkgs, decResources res, decResolve rsv, hist.mapM decLoadReq with
  | some sc, some pk, some rs, some rv, some hs =>
    let e : Env := { res := rs, resolve := rv, getenv := decEnv env }
    let outs := (runHistoryApp stockConv e pk sc hs).1
    let schemas := historySchemas stockConv e pk sc hs
    let stops := historyStops stockConv e pk sc hs
    .list (((outs.zip schemas).zip stops).map fun ((o, s'), x) =>
      .list [(match o with
              | .ok r => .list [.atom "ok", encVal r.value, .list (r.handlers.map fun (h, v) => .list [.str h, encVal v])]
              | .error f => encFail f),
             encSchema s', encStop x])
  | _, _, _, _, _ => .list [.atom "bad-request", .atom "histapp"]

structure DState where
  defs : List SExp := []
  env : List SExp := []

def handle (st : DState) : SExp → DState × SExp
  | .list [.atom "setdefs", .list defs] => ({ st with defs := defs }, .atom "ok")
  | .list [.atom "setenv", .list env] => ({ st with env := env }, .atom "ok")
  -- (subst "text") with the tables set before → (model spec)
  | .list [.atom "subst", .str s] =>
    (st, .list [exc substErr (Subst.substitute (assocFn st.defs) (assocFn st.env) s),
           exc specErr (SubstSpec.substituteSpec (assocFn st.defs) (assocFn st.env) s)])
  | .list [.atom "subst", .list defs, .list env, .str s] =>
    (st, .list [exc substErr (Subst.substitute (assocFn defs) (assocFn env) s),
           exc specErr (SubstSpec.substituteSpec (assocFn defs) (assocFn env) s)])
  | .list [.atom "isname", .str s] =>
    (st, .list [ofBool (Subst.isname s), ofBool (SubstSpec.isnameSpec s)])
  -- (load schema pkgs resources resolve env topurl (lines…) overrides)
  | .list [.atom "load", sch, .list pkgs, .list res, .list rsv, .list env, url, .list lines, .list ovs] =>
    (st, match decSchema sch, decPkgs pkgs, decResources res, decResolve rsv, lines.mapM getStr?, decOverrides ovs with
      | some sc, some pk, some rs, some rv, some ls, some ov =>
        let e : Env := { res := rs, resolve := rv, getenv := decEnv env }
        match load stockConv e pk sc (optStr url) ls ov with
        | .ok r => .list [.atom "ok", encVal r.value,
                          .list (r.handlers.map fun (h, v) => .list [.str h, encVal v]), encAbstract r.schemaAfter]
        | .error f => encFail f
      | _, _, _, _, _, _ => .list [.atom "bad-request", .atom "load"])
  -- (loadspec schema resources resolve env topurl (lines…)) → (parse-reject) | (reject) | (accept val) | (unsupported)
  | .list [.atom "loadspec", sch, .list res, .list rsv, .list env, url, .list lines] =>
    (st, match decSchema sch, decResources res, decResolve rsv, lines.mapM getStr? with
      | some sc, some rs, some rv, some ls =>
        let e : Env := { res := rs, resolve := rv, getenv := decEnv env }
        match Conf.treeOf e (optStr url) ls with
        | .error (.cfg _) => .list [.atom "parse-reject"]
        | .error _ => .list [.atom "unsupported"]
        | .ok items =>
          match Conf.denote stockConv sc items with
          | some v => .list [.atom "accept", encVal v]
          | none => .list [.atom "reject"]
      | _, _, _, _ => .list [.atom "bad-request", .atom "loadspec"])
  -- (resrun (faults…) id (steps…)) → (ok? wb? (events…))
  | .list [.atom "resrun", .list fs, id, .list steps] =>
    (st, match fs.mapM decPt, getNat? id, decSteps steps with
      | some pts, some i, some ss =>
        let r := Res.runRes (fun p => pts.contains p) i ss
        .list [ofBool r.2, ofBool (Res.wb r.1 []), .list (r.1.map encResEv)]
      | _, _, _ => .atom "bad-request")
  -- (loglevel "s") → (model spec)
  | .list [.atom "loglevel", .str v] =>
    (st, .list [encConv ((Log.loggingLevel v).map Val.int), encConv ((LogSpec.loggingLevel v).map Val.int)])
  -- (filekind "path" max old when interval enc delay)
  | .list [.atom "filekind", .str p, mx, old, wh, iv, enc, dl] =>
    (st, match getNat? mx, getNat? old, getNat? iv with
      | some a, some b, some c =>
        (match Log.fileHandlerKind { path := p, maxBytes := a, oldFiles := b, when := optStr wh, interval := c, encoding := optStr enc, delay := getBool dl } with
         | .ok .stderr => .atom "stderr" | .ok .stdout => .atom "stdout" | .ok .plainFile => .atom "file"
         | .ok .rotating => .atom "rotating" | .ok (.timedRotating i) => .list [.atom "timed", ofNat i]
         | .error _ => .atom "ValueError")
      | _, _, _ => .atom "bad-request")
  -- (regrun op…) with op = create | (drop i) | (close i) | reopen | closeall → ((registry…) ((id alive closed reopened)…))
  | .list (.atom "regrun" :: ops) =>
    (st, match ops.mapM (fun o => match o with
          | .atom "create" => some Log.Op.create | .atom "reopen" => some Log.Op.reopenFiles | .atom "closeall" => some Log.Op.closeFiles
          | .list [.atom "drop", i] => (getNat? i).map Log.Op.drop | .list [.atom "close", i] => (getNat? i).map Log.Op.close
          | _ => none) with
      | some os =>
        let r := Log.runReg os
        .list [.list (r.registry.map ofNat), .list (r.handlers.map fun h => .list [ofNat h.id, ofBool h.alive, ofBool h.closed, ofNat h.reopened])]
      | none => .atom "bad-request")
  -- (url "s") → (isPath-model isPath-spec "urlnormalize" normalForm-of-result)
  | .list [.atom "url", .str u] =>
    (st, .list [ofBool (Url.isPath u), ofBool (UrlSpec.isPath u), .str (Url.urlnormalize u), ofBool (UrlSpec.normalForm (Url.urlnormalize u))])
  -- (schemaok schema) → t/f
  | .list [.atom "schemaok", sch] =>
    (st, match decSchema sch with | some sc => ofBool (Conf.schemaOK sc) | none => .atom "bad-request")
  -- (treeload schema env (lines…)) → (tycanon loadTree-outcome denote-outcome)   [no includes, no imports]
  | .list [.atom "treeload", sch, .list env, .list lines] =>
    (st, match decSchema sch, lines.mapM getStr? with
      | some sc, some ls =>
        let e : Env := { noEnv with getenv := decEnv env }
        (match Conf.treeOf e none ls with
         | .ok items => .list [ofBool (Conf.tyCanon sc items),
                               (match Conf.loadTree stockConv sc items with | .ok v => .list [.atom "ok", encVal v] | .error f => encFail f),
                               (match Conf.denote stockConv sc items with | some v => .list [.atom "some", encVal v] | none => .atom "none")]
         | .error _ => .atom "parse-reject")
      | _, _ => .atom "bad-request")
  -- (conv "datatype" "text") → (ok val) | (err kind)
  | .list [.atom "conv", .str dt, .str s] =>
    (st, .list [encConv (stockVal dt s), match DTSpec.byName dt s with | some r => encConv r | none => .atom "nospec"])
  -- (classify "line") → (model-shape spec-shape)
  | .list [.atom "classify", .str l] =>
    (st, .list [encLineShape (lineShape (strip l)), encShape (Grammar.classify l)])
  -- (parse-rec url (lines…)) → (ok events) | failure
  | .list [.atom "parse-rec", url, .list lines] =>
    (st, match lines.mapM getStr? with
      | some ls => (match recParse (assocFn st.env) (optStr url) ls with
        | .ok evs => .list [.atom "ok", .list (evs.map encEv)]
        | .error f => encFail f)
      | none => .list [.atom "bad-request"])
  -- (schemaless url (lines…)) → (ok tree imports "str") | failure
  | .list [.atom "schemaless", url, .list lines] =>
    (st, match lines.mapM getStr? with
      | some ls => (match slLoad (assocFn st.env) (optStr url) ls with
        | .ok (top, imps) => .list [.atom "ok", encSec top, ofStrs imps, .str (slStr top imps)]
        | .error f => encFail f)
      | none => .list [.atom "bad-request"])
  -- (elab tree (dotted…) (comps…) (bases…)) → (ok schema schemaOK?) | (err kind "tag")
  | .list [.atom "elab", tree, .list dotted, .list comps, .list bases] =>
    (st, match decNode tree, decElabEnv dotted comps bases with
      | some t, some env =>
        (match Elab.elabSchema env 64 t with
         | .ok sc => .list [.atom "ok", encSchema sc, ofBool (Conf.schemaOK sc)]
         | .error f => encEFail f)
      | _, _ => .list [.atom "bad-request", .atom "elab"])
  -- (logsetup ((eventlog|logger name|none level t|f ((fmt level)…))…) (i j …)) → ((names of the loggers returned…) ((key level prop ((id fmt|none level)…))…))
  | .list [.atom "logsetup", .list facs, .list calls] =>
    (st, match facs.mapM (fun (f : SExp) => match f with
          | .list [.atom kind, nm, lv, pr, .list hs] => do
            let level ← getInt? lv
            let hcfgs ← hs.mapM fun (h : SExp) => match h with
              | .list [.str fmt, hl] => (getInt? hl).map fun l => ({ cls := [], level := l, format := fmt, style := [], dateformat := none } : LogSetup.HandlerCfg)
              | _ => none
            pure (if kind == "eventlog" then LogSetup.eventLogFactoryOf level hcfgs
                  else LogSetup.loggerFactoryOf (optStr nm) level (getBool pr) hcfgs)
          | _ => none), calls.mapM getNat? with
      | some fs, some cs =>
        let step := fun (acc : List LogSetup.LoggerFactory × LogSetup.World × List Str) (i : Nat) =>
          match acc.1[i]? with
          | some f =>
            match f.call acc.2.1 with
            | (nm, f', w') => (acc.1.set i f', w', acc.2.2 ++ [nm])
          | none => acc
        let r := cs.foldl step (fs, ({ loggers := [], nextId := 0 } : LogSetup.World), [])
        .list [.list (r.2.2.map .str),
               .list (r.2.1.loggers.map fun (k, ls) => .list [.str k, ofInt ls.level, ofBool ls.propagate,
                 .list (ls.handlers.map fun h => .list [ofNat h.id, (match h.cfg with | some c => .str c.format | none => .atom "none"),
                                                       (match h.cfg with | some c => ofInt c.level | none => .atom "none")])])]
      | _, _ => .list [.atom "bad-request", .atom "logsetup"])
  -- (urlpath "base" "s") → (quote unquote pathToUrl urlToPath join(base,s) defragUrl defragFrag zjoin(base,s) znormalize zdefragUrl joinInDomain defragInDomain)
  | .list [.atom "urlpath", .str base, .str u] =>
    (st, .list [.str (UrlPath.quote u), .str (UrlPath.unquote u), .str (UrlPath.pathToUrl u), .str (UrlPath.urlToPath u),
                .str (UrlPath.join base u), .str (UrlPath.defragUrl u), .str (UrlPath.defragFrag u), .str (UrlPath.zjoin base u),
                .str (UrlPath.znormalize u), .str (UrlPath.zdefragUrl u), ofBool (UrlPath.joinInDomain base u), ofBool (UrlPath.defragInDomain u)])
  -- (timedelta "s") → (ok (w d h m s)) with each component none | "float literal"   |  (err ValueError|TypeError)
  | .list [.atom "timedelta", .str v] =>
    (st, match DT.timedelta v with
      | .ok t => .list [.atom "ok", .list [ofOpt .str t.weeks, ofOpt .str t.days, ofOpt .str t.hours, ofOpt .str t.minutes, ofOpt .str t.seconds]]
      | .error .valueError => .list [.atom "err", .atom "ValueError"]
      | .error .typeError => .list [.atom "err", .atom "TypeError"]
      | .error (.other n) => .list [.atom "err", .str n])
  -- (logfmt "configured format text") → (acceptsConfigured loadCheck-of-the-rewritten-text) : t|f  ok|ValueError|TypeError|KeyError|OverflowError
  | .list [.atom "logfmt", .str raw] =>
    (st, .list [ofBool (LogFormat.acceptsConfigured raw),
                match LogFormat.loadCheck (LogFormat.ctrlCharInsert raw) with
                | .ok _ => .atom "ok"
                | .error .valueError => .atom "ValueError" | .error .typeError => .atom "TypeError"
                | .error .keyError => .atom "KeyError" | .error .overflowError => .atom "OverflowError"])
  -- (validator (valid | (cfg "msg") | (internal "Exc") …)) → (exit status ("msg"…)) | (escaped "Exc" ("msg"…))
  | .list [.atom "validator", .list outs] =>
    (st, match outs.mapM (fun (o : SExp) => match o with
          | .atom "valid" => some Validator.Outcome.valid
          | .list [.atom "cfg", .str m] => some (Validator.Outcome.cfgError m)
          | .list [.atom "internal", .str e] => some (Validator.Outcome.internal e)
          | _ => none) with
      | some os => (match Validator.run os with
          | .exit stt ms => .list [.atom "exit", ofNat stt, .list (ms.map .str)]
          | .escaped e ms => .list [.atom "escaped", .str e, .list (ms.map .str)])
      | none => .list [.atom "bad-request", .atom "validator"])
  -- (res2run (faults…) (docs…) entry limit (active…) (comps…) (cache…)) → (ok? wb? (active…) (comps…) (cache…) (io events…))
  | .list [.atom "res2run", .list fs, .list docs, entry, limit, .list act, .list comps, .list cache] =>
    (st, match fs.mapM decPt, docs.mapM decDoc, decEntry entry, getNat? limit, act.mapM getNat?, comps.mapM getNat?, cache.mapM getNat? with
      | some pts, some ds, some e, some lim, some a, some c, some k =>
        let r := Res2.run pts { docs := ds, entry := e, limit := lim } { active := a, comps := c, cache := k }
        .list [ofBool r.ok, ofBool (Res2.wb r.evs []), .list (r.st.active.map ofNat), .list (r.st.comps.map ofNat), .list (r.st.cache.map ofNat),
               .list ((Res2.ioTrace r.evs).map encResEv)]
      | _, _, _, _, _, _, _ => .list [.atom "bad-request", .atom "res2run"])
  -- (logtpl "configured format text") → (acceptsTemplate acceptsSafeTemplate) of the text rewritten by ctrl_char_insert : t|f t|f
  | .list [.atom "logtpl", .str raw] =>
    (st, .list [ofBool (LogTemplate.acceptsTemplate (LogFormat.ctrlCharInsert raw)),
                ofBool (LogTemplate.acceptsSafeTemplate (LogFormat.ctrlCharInsert raw))])
  -- (hcall ("handler name of entry 0" …) (("supplied name" id|none) …)) → (ok (id …)) | (err notunique "name") | (err undefined ("n" …)) | (err badname "name")
  | .list [.atom "hcall", .list entries, .list items] =>
    (st, match entries.mapM (fun (e : SExp) => match e with | .str n => some n | _ => none),
               items.mapM (fun (i : SExp) => match i with
                 | .list [.str n, .atom "none"] => some (n, (none : Option Nat))
                 | .list [.str n, k] => (getNat? k).map fun j => (n, some j)
                 | _ => none) with
      | some es, some hm =>
        let r := Call.callHandlers (es.zipIdx.map fun (n, i) => (n, Val.int i)) hm
        (match r.err with
         | none => .list [.atom "ok", .list (r.log.map fun (f, _) => ofNat f)]
         | some (.notUnique n) => .list [.atom "err", .atom "notunique", .str n]
         | some (.undefined ns) => .list [.atom "err", .atom "undefined", .list (ns.map .str)]
         | some (.badName n _) => .list [.atom "err", .atom "badname", .str n])
      | _, _ => .list [.atom "bad-request", .atom "hcall"])
  -- (logsfmt "configured format text") → (acceptsStrFormat loadCheckStrFormat) of the text rewritten by ctrl_char_insert, style `format`:
  --   t|f  ok|ValueError|TypeError|KeyError|IndexError|AttributeError|OverflowError|unmodelled
  --   (IndexError never appears: FormatterFactory turns it into ValueError; unmodelled = the model abstains, reported with f)
  | .list [.atom "logsfmt", .str raw] =>
    (st, .list [ofBool (LogStrFormat.acceptsStrFormatConfigured raw),
                match LogStrFormat.loadCheckStrFormat (LogFormat.ctrlCharInsert raw) with
                | .ok _ => .atom "ok"
                | .error .valueError => .atom "ValueError" | .error .typeError => .atom "TypeError"
                | .error .keyError => .atom "KeyError" | .error .indexError => .atom "IndexError"
                | .error .attributeError => .atom "AttributeError" | .error .overflowError => .atom "OverflowError"
                | .error .unmodelled => .atom "unmodelled"])
  | .list [.atom "histapp", sch, .list pkgs, .list res, .list rsv, .list env, .list hist] =>
    (st, histappOp sch pkgs res rsv env hist)
  | .list [.atom "ping"] => (st, .atom "pong")
  -- host-parameterised datatypes (ZCV/CodecHost.lean): hostdt, dirname, memolocale, memoseq
  | other => (st, match CodecHost.handle other with | some a => a | none => .list [.atom "bad-request"])

partial def loop (h : IO.FS.Stream) (out : IO.FS.Stream) (st : DState) : IO Unit := do
  let line ← h.getLine
  if line.isEmpty then return
  let l := (line.dropEndWhile (· == '\n')).toString
  let (st', ans) := match SExp.parse l with
    | some r => handle st r
    | none => (st, .list [.atom "parse-error"])
  out.putStrLn ans.render
  loop h out st'

def main : IO Unit := do
  let out ← IO.getStdout
  loop (← IO.getStdin) out {}
  out.flush
