import ZCV.SExp
import ZCV.Gen.CodeDatatypes
import ZCV.Gen.CodeSubstitution
import ZCV.Gen.CodeCmdline
import ZCV.Gen.CodeUrl
import ZCV.Gen.CodeCfgparser
import ZCV.Model.Datatypes
/-!
Second line-protocol driver: runs the GENERATED code (`ZCV/Gen/Code*.lean`, the translation of the Python source by
`harness/zcv/pytrans.py`) so that the checks can compare it with the real functions — this validates the translator and
the primitives of `ZCV/Py.lean`, which are part of the trusted base.  It is a separate executable on purpose: a function
that leaves the translatable subset must not take the main driver (`zcdrv`, models and specs of all properties) down.
Imports the generated code (plus `ZCV.Model.Datatypes` for ONE definition, `DT.floatOk`, the acceptance of `float()` that the
generated `timedelta` takes as a parameter); no lemma.  Same S-expression conventions as `Driver.lean`.

  (setdefs (("k" "v") …))  (setenv (("K" "v") …))   tables for `substitute`                → ok
  (code "<datatype name>" "text")                    the stock conversion's translation     → (ok <value>) | (err <Class>)
  (code "substitute" "text")                         with the tables set before             → (ok "text") | (err (syntax)) | (err (missing "source" "name"|none))
  (code "timedelta" "text")                         constructor accepting everything              → (ok (w d h m s)), each none | "float literal"  | (err <Class>)
  (code "addOption" "spec") / (code "addOption-pos" "spec")   without / with pos = ("u", 3, 4)    → (ok (tup (list (s "a") …) (s "val") (tup (s url) (i l) (i c)))) | (err (cfgsyntax url line col specifier))
  (code "bag-basic-key" "text")  (code "bag-normalize-case" "text")   OptionBag.basic_key(text, ("u", 3, 4)), _normalize_case
  (code "handle-key-value" "text") / (code "handle-directive" "text")   pure prefixes of the parser methods at url "u", line 7 → (ok (tup …)) | (err (cfgsyntax "u" 7 none none))
  (code "urlnormalize" "url")                        ZConfig.url.urlnormalize
  (urlwrap urljoin "base" "rel" (ok "u")|(err Class))   ZConfig.url.urljoin, the answer of urllib's urljoin given   → (ok (s "…")) | (err Class)
  (urlwrap urldefrag "url" (ok "u" "frag")|(err Class))  ZConfig.url.urldefrag, the answer of urllib's urldefrag given → (ok (tup (s "…") (s "…"))) | (err Class)
  (code "isname" "text")                                                                    → (ok (b t|f))
  (code "_split" "text")                                                                    → (ok (tup p name namecase suffix vtype)) | (err (syntax))
values: (s "…") (i n) (b t|f) none (list …) (tup …), as `Codec.encVal` writes them.
-/
open ZCV ZCV.SExp ZCV.Py

def assocFn (kvs : List SExp) : Str → Option Str := fun k =>
  kvs.findSome? fun
    | .list [.str a, .str b] => if a == k then some b else none
    | _ => none

def excName : PyExc → SExp
  | .ValueError => .atom "ValueError"
  | .TypeError => .atom "TypeError"
  | .OverflowError => .atom "OverflowError"
  | .IndexError => .atom "IndexError"
  | .SubstitutionSyntaxError => .list [.atom "syntax"]
  | .SubstitutionReplacementError s n => .list [.atom "missing", .str s, ofOpt .str n]
  | .ConfigurationSyntaxError u l c sp => .list [.atom "cfgsyntax", ofOpt .str u, ofOpt ofInt l, ofOpt ofInt c, ofOpt .str sp]
  | .Other n => .str n

def excOf (c : String) : PyExc :=
  match c with
  | "ValueError" => .ValueError | "TypeError" => .TypeError | "OverflowError" => .OverflowError | "IndexError" => .IndexError
  | _ => .Other c.toList

def res {α} (f : α → SExp) : Except PyExc α → SExp
  | .ok v => .list [.atom "ok", f v]
  | .error e => .list [.atom "err", excName e]

def vStr (s : Str) : SExp := .list [.atom "s", .str s]
def vInt (i : Int) : SExp := .list [.atom "i", ofInt i]
def vBool (b : Bool) : SExp := .list [.atom "b", ofBool b]
def vOptStr (o : Option Str) : SExp := match o with | some s => vStr s | none => .atom "none"
def vHostPort (a : Str × Option Int) : SExp :=
  .list [.atom "tup", vStr a.1, match a.2 with | some p => vInt p | none => .atom "none"]
def famStr : SockFamily → Str
  | .AF_UNIX => "AF_UNIX".toList | .AF_INET => "AF_INET".toList | .AF_INET6 => "AF_INET6".toList
def vSock (a : SockFamily × Sum Str (Str × Option Int)) : SExp :=
  .list [.atom "tup", vStr (famStr a.1), match a.2 with | .inl p => vStr p | .inr hp => vHostPort hp]

def vItem (t : List Str × Str × (Str × Int × Int)) : SExp :=
  .list [.atom "tup", .list (.atom "list" :: t.1.map vStr), vStr t.2.1, .list [.atom "tup", vStr t.2.2.1, vInt t.2.2.2.1, vInt t.2.2.2.2]]

structure DState where
  defs : List SExp := []
  env : List SExp := []

def handle (st : DState) : SExp → DState × SExp
  | .list [.atom "setdefs", .list defs] => ({ st with defs := defs }, .atom "ok")
  | .list [.atom "setenv", .list env] => ({ st with env := env }, .atom "ok")
  | .list [.atom "code", .str fn, .str s] =>
    (st, match String.ofList fn with
      | "boolean" => res vBool (Gen.Code.asBoolean s)
      | "integer" => res vInt (Gen.Code.integer s)
      | "null" => res vStr (Gen.Code.null_conversion s)
      | "string-list" => res (fun ws => .list (.atom "list" :: ws.map vStr)) (Gen.Code.string_list s)
      | "port-number" => res vInt (Gen.Code.port_number s)
      | "byte-size" => res vInt (Gen.Code.byte_size s)
      | "time-interval" => res vInt (Gen.Code.time_interval s)
      | "identifier" => res vStr (Gen.Code.identifier s)
      | "dotted-name" => res vStr (Gen.Code.dotted_name s)
      | "dotted-suffix" => res vStr (Gen.Code.dotted_suffix s)
      | "basic-key" => res vStr (Gen.Code.basic_key s)
      | "ipaddr-or-hostname-rx" => res vStr (Gen.Code.ipaddr_or_hostname_rx s)
      | "inet-address" => res vHostPort (Gen.Code.inet_address s)
      | "inet-binding-address" => res vHostPort (Gen.Code.inet_binding_address s)
      | "inet-connection-address" => res vHostPort (Gen.Code.inet_connection_address s)
      | "socket-address" => res vSock (Gen.Code.socket_address s)
      | "socket-binding-address" => res vSock (Gen.Code.socket_binding_address s)
      | "socket-connection-address" => res vSock (Gen.Code.socket_connection_address s)
      -- timedelta: float() accepts what the model's grammar `DT.floatOk` accepts (the one definition taken from a model file:
      -- the generated code has it as a parameter); the constructor accepts everything and the answer lists its arguments
      | "timedelta" =>
        let num : Num → SExp := fun n => match n with | .int 0 => .atom "none" | .int i => vInt i | .float l => .str l
        res (fun t => .list [num t.weeks, num t.days, num t.hours, num t.minutes, num t.seconds])
          (Gen.Code.timedelta DT.floatOk (fun w d h m s => .ok ⟨w, d, h, m, s⟩) s)
      -- cmdline.py: addOption without / with the position ("u", 3, 4); OptionBag.basic_key at that position; _normalize_case
      | "addOption" => res vItem (Gen.Code.addOption s none)
      | "addOption-pos" => res vItem (Gen.Code.addOption s (some ("u".toList, 3, 4)))
      | "bag-basic-key" => res vStr (Gen.Code.OptionBag_basic_key Gen.Code.basic_key s ("u".toList, 3, 4))
      | "bag-normalize-case" => res vStr (Gen.Code.OptionBag_normalize_case s)
      -- cfgparser.py: the pure prefixes of handle_key_value / handle_directive for a parser at url "u", line 7
      | "handle-key-value" => res (fun t => .list [.atom "tup", vOptStr t.1, vOptStr t.2]) (Gen.Code.handle_key_value_prefix (some "u".toList) 7 () s)
      | "handle-directive" => res (fun t => .list [.atom "tup", vOptStr t.1, vStr t.2]) (Gen.Code.handle_directive_prefix (some "u".toList) 7 () s)
      | "urlnormalize" => res vStr (Gen.Code.urlnormalize s)
      | "substitute" => res .str (Gen.Code.substitute (assocFn st.env) s (assocFn st.defs))
      | "isname" => res vBool (Gen.Code.isname s)
      | "_split" => res (fun t => .list [.atom "tup", vStr t.1, vOptStr t.2.1, vOptStr t.2.2.1, vOptStr t.2.2.2.1, vOptStr t.2.2.2.2])
                      (Gen.Code._split s)
      | _ => .list [.atom "bad-request", .atom "unknown-function"])
  -- url.py wrappers: the answer of the urllib function (computed by the harness with the real urllib) is the parameter
  | .list [.atom "urlwrap", .atom "urljoin", .str b, .str r, given] =>
    (st, match given with
      | .list [.atom "ok", .str u] => res vStr (Gen.Code.urljoin (fun _ _ => .ok u) b r)
      | .list [.atom "err", .atom c] => res vStr (Gen.Code.urljoin (fun _ _ => .error (excOf c)) b r)
      | _ => .list [.atom "bad-request", .atom "urlwrap"])
  | .list [.atom "urlwrap", .atom "urldefrag", .str u, given] =>
    (st, match given with
      | .list [.atom "ok", .str v, .str f] => res (fun t => .list [.atom "tup", vStr t.1, vStr t.2]) (Gen.Code.urldefrag (fun _ => .ok (v, f)) u)
      | .list [.atom "err", .atom c] => res (fun t => .list [.atom "tup", vStr t.1, vStr t.2]) (Gen.Code.urldefrag (fun _ => .error (excOf c)) u)
      | _ => .list [.atom "bad-request", .atom "urlwrap"])
  | .list [.atom "ping"] => (st, .atom "pong")
  | _ => (st, .list [.atom "bad-request"])

partial def loop (h : IO.FS.Stream) (out : IO.FS.Stream) (st : DState) : IO Unit := do
  let line ← h.getLine
  if line.isEmpty then return
  let l := (line.dropEndWhile (· == '\n')).toString
  let (st', ans) := match SExp.parse l with
    | some r => handle st r
    | none => (st, .list [.atom "parse-error"])
  out.putStrLn ans.render
  loop h out st'

def main : IO Unit := do
  let out ← IO.getStdout
  loop (← IO.getStdin) out {}
  out.flush
