import ZCV.Lemmas.Misc
import ZCV.Model.Matcher
namespace ZCV.Props.C15
open ZCV ZCV.Cfg

/-- indentation and trailing whitespace (any characters `str.isspace` accepts) never change how a line is read -/
theorem C15_strip_invariant (ws l ws' : Str) (h1 : ws.all pySpace = true) (h2 : ws'.all pySpace = true) :
    Grammar.classify (ws ++ l ++ ws') = Grammar.classify l := classify_pad ws l ws' h1 h2

theorem C15_strip_invariant_model (ws l ws' : Str) (h1 : ws.all pySpace = true) (h2 : ws'.all pySpace = true) :
    lineShape (strip (ws ++ l ++ ws')) = lineShape (strip l) := by rw [strip_pad ws l ws' h1 h2]

/-- `<t/>` does exactly what `<t>` followed by `</t>` does, for every context the parser can drive -/
theorem C15_empty_form_equiv {σ} (c : PCtx σ) (url : Option Str) (line line2 : Nat) (ty : Str) (nm : Option Str) (st st' : PS σ) :
    openSection c url line ty nm true st = .ok st' ↔
      ∃ st1, openSection c url line ty nm false st = .ok st1 ∧ closeSection c url line2 ty st1 = .ok st' :=
  empty_form_equiv c url line line2 ty nm st st'

end ZCV.Props.C15
