import ZCV.Model.Matcher
namespace ZCV.Props.C15
open ZCV ZCV.Cfg
end ZCV.Props.C15
