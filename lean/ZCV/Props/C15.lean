import ZCV.Lemmas.Misc
import ZCV.Model.Matcher
import ZCV.Lemmas.LayoutSkip
import ZCV.Lemmas.LayoutCase
import ZCV.Lemmas.LayoutPerm
import ZCV.Lemmas.DefinesFold
import ZCV.Lemmas.LayoutRel
import ZCV.Lemmas.LayoutErase
import ZCV.Lemmas.LayoutLoad
import ZCV.Lemmas.LayoutSwapText
import ZCV.Lemmas.Datatypes
import ZCV.Lemmas.NoInternalLower
import ZCV.Lemmas.DischargeElab
import ZCV.Lemmas.DischargeExDoc
import ZCV.Props.C10
namespace ZCV.Props.C15
open ZCV ZCV.Cfg ZCV.Conf ZCV.Grammar

/-- indentation and trailing whitespace (any characters `str.isspace` accepts) never change how a line is read -/
theorem C15_strip_invariant (ws l ws' : Str) (h1 : ws.all pySpace = true) (h2 : ws'.all pySpace = true) :
    Grammar.classify (ws ++ l ++ ws') = Grammar.classify l := classify_pad ws l ws' h1 h2

/-- the same for the parser model: the classification of a line ignores surrounding whitespace -/
theorem C15_strip_invariant_model (ws l ws' : Str) (h1 : ws.all pySpace = true) (h2 : ws'.all pySpace = true) :
    lineShape (strip (ws ++ l ++ ws')) = lineShape (strip l) := by rw [strip_pad ws l ws' h1 h2]

/-- `<t/>` does exactly what `<t>` followed by `</t>` does, for every context the parser can drive -/
theorem C15_empty_form_equiv {σ} (c : PCtx σ) (url : Option Str) (line line2 : Nat) (ty : Str) (nm : Option Str) (st st' : PS σ) :
    openSection c url line ty nm true st = .ok st' ↔
      ∃ st1, openSection c url line ty nm false st = .ok st1 ∧ closeSection c url line2 ty st1 = .ok st' :=
  empty_form_equiv c url line line2 ty nm st st'

/-! ## Blank and comment lines -/

/-- **Inserting a blank or comment line anywhere in a text changes nothing but line numbers.**  For every context
    whose `addValue` does not look at the position it is handed (`PosBlind`: the event recorder, any context that
    only builds values), every resource table and nesting of `%include`s: the text with the extra line is accepted iff
    the text without it is, and then the parser ends in the SAME state (same context state, same definitions, same
    open sections).  Only the line numbers handed to the context and quoted in errors can differ. -/
theorem C15_blank_comment_invariant {σ} (fuel : Nat) (env : Env) (c : PCtx σ) (hc : PosBlind c) (active : List Str)
    (url : Option Str) (A B : List Str) (l : Str) (n : Nat) (st : PS σ) (hl : lineShape (strip l) = .skip) :
    (parseLines fuel env c active url (A ++ l :: B) n st).toOption =
      (parseLines fuel env c active url (A ++ B) n st).toOption :=
  insert_skip_line fuel env c hc active url A B l n st hl

/-- the same for the stream of events the parser delivers (start / stop / value / import, positions dropped) -/
theorem C15_blank_comment_invariant_events (fuel : Nat) (env : Env) (active : List Str)
    (url : Option Str) (A B : List Str) (l : Str) (n : Nat) (st : PS (List Ev0)) (hl : lineShape (strip l) = .skip) :
    outcome (parseLines fuel env rec0 active url (A ++ l :: B) n st) =
      outcome (parseLines fuel env rec0 active url (A ++ B) n st) := by
  rw [outcome_eq, outcome_eq, insert_skip_line fuel env rec0 rec0_posBlind active url A B l n st hl]

/-- which lines these are: the empty line, whitespace only, or `#…` after optional indentation -/
theorem C15_skip_lines (l : Str) : lineShape (strip l) = .skip ↔ (strip l = [] ∨ (strip l).head? = some '#') :=
  lineShape_skip_iff (strip l)


/-- **The same for contexts that record positions** (tree builder, schema loader …): if the context operations
    respect a relation `R` between context states whatever positions `addValue` is handed (`PosSim`; think "equal up to
    recorded positions"), then the text with the extra blank/comment line and the text without it are both rejected, or
    both accepted with `R`-related context states, the same definitions and the same open sections. -/
theorem C15_blank_comment_invariant_rel {σ} (c : PCtx σ) (R : σ → σ → Prop) (hc : PosSim c R) (env : Env) (fuel : Nat)
    (active : List Str) (url : Option Str) (A B : List Str) (l : Str) (n : Nat) (st st' : PS σ)
    (hl : lineShape (strip l) = .skip) (h : RS R st st') :
    relM (RS R) (parseLines fuel env c active url (A ++ l :: B) n st) (parseLines fuel env c active url (A ++ B) n st') :=
  insert_skip_rel c R hc env fuel active url A B l n st st' hl h

/-- the trees the parser builds for the two texts are equal up to positions (or both texts are rejected) -/
theorem C15_blank_comment_invariant_tree (env : Env) (url : Option Str) (A B : List Str) (l : Str)
    (hl : lineShape (strip l) = .skip) :
    relM (fun x y => eraseItems x = eraseItems y) (treeOf env url (A ++ l :: B)) (treeOf env url (A ++ B)) :=
  treeOf_insert_skip env url A B l hl

/-- positions recorded in the tree do not influence the value the schema defines, nor conformance -/
theorem C15_positions_irrelevant (conv : Conv) (s : Schema) (items : List Item) :
    denote conv s (eraseItems items) = denote conv s items :=
  denote_erase conv s items

/-- **The loader itself**: for every schema the schema loader produces, every datatype family, every resource table
    (`%include`s of any depth, `%define`s), texts without `%import`, loaded without overrides: inserting a blank or
    comment line anywhere leaves the configuration returned by `load` unchanged, or both texts are rejected.
    (`hlow`, `hkeys`: lower-casing is idempotent and the schema's type table is keyed by lower-cased names — facts about
    generated tables, as in C01.) -/
theorem C15_blank_comment_invariant_load (conv : Conv) (env : Env) (pkgs : Str → Pkg) (s : Schema) (url : Option Str)
    (A B : List Str) (l : Str) (hs : schemaOK s = true) (hlow : ∀ x : Str, lower (lower x) = lower x)
    (hkeys : ∀ p ∈ s.types, lower p.1 = p.1)
    (hni : ∀ x ∈ A ++ B, NoImportLine x) (hres : ∀ u ls, env.res u = some ls → ∀ x ∈ ls, NoImportLine x)
    (hl : lineShape (strip l) = .skip) :
    (load conv env pkgs s url (A ++ l :: B) []).toOption.map (·.value) =
      (load conv env pkgs s url (A ++ B) []).toOption.map (·.value) :=
  load_insert_skip conv env pkgs s url A B l hs hlow hkeys hni hres hl

/-! ## Whole texts: a line matters only through its classification -/

/-- replacing a line by any line that is classified in the same way changes NOTHING (same result, same errors, same
    positions), for every context, fuel, resource table: the parser never looks at the raw line again -/
theorem C15_same_shape_same_parse {σ} (fuel : Nat) (env : Env) (c : PCtx σ) (active : List Str) (url : Option Str)
    (A B : List Str) (l l' : Str) (n : Nat) (st : PS σ) (h : lineShape (strip l) = lineShape (strip l')) :
    parseLines fuel env c active url (A ++ l :: B) n st = parseLines fuel env c active url (A ++ l' :: B) n st :=
  parse_congr_line fuel env c active url A B l l' n st h

/-- in particular: changing indentation or trailing whitespace of any line of a text -/
theorem C15_strip_invariant_text {σ} (fuel : Nat) (env : Env) (c : PCtx σ) (active : List Str) (url : Option Str)
    (A B : List Str) (ws l ws' : Str) (n : Nat) (st : PS σ) (h1 : ws.all pySpace = true) (h2 : ws'.all pySpace = true) :
    parseLines fuel env c active url (A ++ (ws ++ l ++ ws') :: B) n st = parseLines fuel env c active url (A ++ l :: B) n st :=
  parse_congr_line fuel env c active url A B _ _ n st (by rw [strip_pad ws l ws' h1 h2])

/-! ## Letter case -/

/-- **Section headers: only the lower-cased type and name matter.**  `<type name>` and `<TYPE Name>` (any spellings
    that agree after lower-casing; also `<… />`) are classified identically by the documented grammar … -/
theorem C15_case_invariant (ty ty' ws nm nm' : Str) (e : Bool)
    (hty : Word ty) (hty' : Word ty') (hnm : Word nm) (hnm' : Word nm')
    (hws : ws ≠ []) (hsp : ws.all pySpace = true)
    (hs : ty.head? ≠ some '/') (hs' : ty'.head? ≠ some '/')
    (hl : nm.getLast? ≠ some '/') (hl' : nm'.getLast? ≠ some '/')
    (hct : lower ty' = lower ty) (hcn : lower nm' = lower nm) :
    Grammar.classify (hdrLine ty' ws nm' e) = Grammar.classify (hdrLine ty ws nm e) := by
  rw [classify_hdrLine ty ws nm e hty hnm hws hsp hs hl, classify_hdrLine ty' ws nm' e hty' hnm' hws hsp hs' hl', hct, hcn]

/-- … and by the parser model (through the generated section-header pattern) -/
theorem C15_case_invariant_model (ty ty' ws nm nm' : Str) (e : Bool)
    (hty : Word ty) (hty' : Word ty') (hnm : Word nm) (hnm' : Word nm')
    (hws : ws ≠ []) (hsp : ws.all pySpace = true) (hnl : '\n' ∉ ws)
    (hs : ty.head? ≠ some '/') (hs' : ty'.head? ≠ some '/')
    (hl : nm.getLast? ≠ some '/') (hl' : nm'.getLast? ≠ some '/')
    (hct : lower ty' = lower ty) (hcn : lower nm' = lower nm) :
    lineShape (strip (hdrLine ty' ws nm' e)) = lineShape (strip (hdrLine ty ws nm e)) := by
  rw [lineShape_hdrLine ty ws nm e hty hnm hws hsp hnl hs hl, lineShape_hdrLine ty' ws nm' e hty' hnm' hws hsp hnl hs' hl',
    hct, hcn]


/-- … hence a text in which a section header is respelled in another letter case is parsed identically (every context) -/
theorem C15_case_invariant_text {σ} (fuel : Nat) (env : Env) (c : PCtx σ) (active : List Str) (url : Option Str)
    (A B : List Str) (n : Nat) (st : PS σ) (ty ty' ws nm nm' : Str) (e : Bool)
    (hty : Word ty) (hty' : Word ty') (hnm : Word nm) (hnm' : Word nm')
    (hws : ws ≠ []) (hsp : ws.all pySpace = true) (hnl : '\n' ∉ ws)
    (hs : ty.head? ≠ some '/') (hs' : ty'.head? ≠ some '/')
    (hl : nm.getLast? ≠ some '/') (hl' : nm'.getLast? ≠ some '/')
    (hct : lower ty' = lower ty) (hcn : lower nm' = lower nm) :
    parseLines fuel env c active url (A ++ hdrLine ty' ws nm' e :: B) n st =
      parseLines fuel env c active url (A ++ hdrLine ty ws nm e :: B) n st :=
  parse_congr_line fuel env c active url A B _ _ n st
    (C15_case_invariant_model ty ty' ws nm nm' e hty hty' hnm hnm' hws hsp hnl hs hs' hl hl' hct hcn)

/-- what the header denotes: the lower-cased type and name -/
theorem C15_header_reads (ty ws nm : Str) (e : Bool) (hty : Word ty) (hnm : Word nm)
    (hws : ws ≠ []) (hsp : ws.all pySpace = true) (hnl : '\n' ∉ ws)
    (hs : ty.head? ≠ some '/') (hl : nm.getLast? ≠ some '/') :
    lineShape (strip (hdrLine ty ws nm e)) = .open_ (lower ty) (some (lower nm)) e :=
  lineShape_hdrLine ty ws nm e hty hnm hws hsp hnl hs hl

/-- nameless headers `<type>` / `<type/>` -/
theorem C15_case_invariant_nameless (ty ty' : Str) (e : Bool) (hty : Word ty) (hty' : Word ty')
    (hs : ty.head? ≠ some '/') (hs' : ty'.head? ≠ some '/')
    (hl : ty.getLast? ≠ some '/') (hl' : ty'.getLast? ≠ some '/') (hct : lower ty' = lower ty) :
    lineShape (strip (hdrLine1 ty' e)) = lineShape (strip (hdrLine1 ty e)) := by
  rw [lineShape_hdrLine1 ty e hty hs hl, lineShape_hdrLine1 ty' e hty' hs' hl', hct]

/-- section ends `</type>` -/
theorem C15_case_invariant_close (ty ty' : Str) (hty : Word ty) (hty' : Word ty') (hct : lower ty' = lower ty) :
    lineShape (strip (closeLine ty')) = lineShape (strip (closeLine ty)) := by
  rw [lineShape_closeLine ty hty, lineShape_closeLine ty' hty', hct]

/-- `%define` names: only the lower-cased name matters -/
theorem C15_case_invariant_define (env : Env) (url : Option Str) (line : Nat) (rest rest' n n' : Str) (more : List Str)
    (defs : List (Str × Str)) (hs : splitWS1 rest = n :: more) (hs' : splitWS1 rest' = n' :: more)
    (hc : lower n' = lower n) :
    define env url line rest' defs = define env url line rest defs := by
  unfold define
  rw [hs, hs']
  simp only [hc]

/-- `$name` / `${name}` references: changing their letter case changes neither the expansion nor whether the text is
    accepted (`DefSpec.RefCase`) -/
theorem C15_case_invariant_reference (env : Env) (defs : List (Str × Str)) (url : Option Str) (line : Nat) (s s' : Str)
    (h : DefSpec.RefCase s s') :
    (replace env defs url line s').toOption = (replace env defs url line s).toOption := by
  rw [replace_eq_expand, replace_eq_expand]
  unfold DefSpec.expand SubstSpec.substituteSpec
  have := SubstSpec.spec_refCase (DefSpec.get defs) env.getenv h s s'
  cases h1 : SubstSpec.spec (DefSpec.get defs) env.getenv s s <;>
    cases h2 : SubstSpec.spec (DefSpec.get defs) env.getenv s' s' <;> simp_all [liftE]


/-- **Keys**: respelling the key of a key line — anywhere in the tree — with a key that the enclosing section's key type
    normalises to the same thing does not change the value the schema defines … -/
theorem C15_key_spelling_invariant (conv : Conv) (s : Schema) (items items' : List Item)
    (h : RekeyIn conv s s.top items items') : denote conv s items = denote conv s items' :=
  denote_rekeyIn conv s h

/-- … and under the case-insensitive key type `basic-key` (the default) two spellings of a key that differ only in
    letter case normalise to the same thing -/
theorem C15_key_case_basic_key (k k' : Str) (hk : DTSpec.isBasicKey k = true) (hk' : DTSpec.isBasicKey k' = true)
    (hc : asciiLower k' = asciiLower k) : DT.basicKey k' = DT.basicKey k := by
  rw [DT.basicKey_eq_spec, DT.basicKey_eq_spec]
  unfold DTSpec.basicKey
  simp only [hk, hk', ↓reduceIte, hc]

/-! ## Order of lines -/

/-- **Swapping two neighbouring lines of one section** — two key lines that end up in different attributes (e.g. two
    differently named declared keys), or a key line and a sub-section — anywhere in the tree (`SwapIn`: at top level or
    inside any nest of sections) **does not change the value the schema defines for the text, nor whether it
    conforms.**  (Two lines of one multikey, two sub-sections, and two keys collected by the same `+` key keep their
    order: it is the order of the resulting list / mapping.) -/
theorem C15_permutation_invariant (conv : Conv) (s : Schema) (items items' : List Item)
    (h : SwapIn conv s s.top items items') : denote conv s items = denote conv s items' :=
  denote_swapIn conv s h

/-- any sequence of such swaps -/
theorem C15_permutation_invariant_general (conv : Conv) (s : Schema) (items items' : List Item)
    (h : Reorder conv s items items') : denote conv s items = denote conv s items' :=
  denote_reorder conv s h

/-- hence the loader returns the same configuration, or rejects both texts (every schema the schema loader produces) -/
theorem C15_permutation_invariant_load (conv : Conv) (s : Schema) (items items' : List Item)
    (hs : schemaOK s = true) (ht : tyCanon s items = true) (h : Reorder conv s items items') :
    (loadTree conv s items).toOption = (loadTree conv s items').toOption :=
  loadTree_reorder conv s hs ht h

/-- the instance one usually has in mind: two adjacent key lines `k1 v1` / `k2 v2` at top level whose keys are routed
    to different attributes -/
theorem C15_swap_two_keys (conv : Conv) (s : Schema) (A B : List Item) (k1 v1 k2 v2 : Str) (p1 p2 : Pos)
    (h : target conv s.top k1 ≠ target conv s.top k2) :
    denote conv s (A ++ .kv k1 v1 p1 :: .kv k2 v2 p2 :: B) = denote conv s (A ++ .kv k2 v2 p2 :: .kv k1 v1 p1 :: B) :=
  denote_swapIn conv s (.here A B _ _ h)

/-- **The same on TEXT, for the tree the parser builds**: swapping two neighbouring key lines `l1`, `l2` of a text
    (anywhere: any prefix `A` with sections, `%define`s, `%include`s; any rest `B`) whose keys go to different
    attributes of the section that is open at that point (`KeysIndepAt`, read off the tree builder's state after `A`)
    yields trees that differ by that swap, up to positions — or the parser rejects both texts (e.g. an undefined
    `$`-reference in either value). -/
theorem C15_permutation_invariant_text_tree (conv : Conv) (s : Schema) (env : Env) (url : Option Str) (A B : List Str)
    (l1 l2 k1 raw1 k2 raw2 : Str)
    (h1 : lineShape (strip l1) = .kv k1 raw1) (h2 : lineShape (strip l2) = .kv k2 raw2)
    (hi : ∀ sA, runLines 64 env treeCtx (activeOf url) url A 0
        { ctx := { stack := [([], none, [])] }, stack := [], defs := [] } = .ok sA → KeysIndepAt conv s sA.ctx k1 k2) :
    relM (fun x y => SwJ conv s s.top (eraseItems x) (eraseItems y))
      (treeOf env url (A ++ l1 :: l2 :: B)) (treeOf env url (A ++ l2 :: l1 :: B)) :=
  treeOf_swap_lines conv s env url A B l1 l2 k1 raw1 k2 raw2 h1 h2 hi

/-- **… and for the loader**: the two texts yield the same configuration, or both are rejected (every schema the schema
    loader produces, every datatype family, texts without `%import`, no overrides; `hlow`, `hkeys` as in C01). -/
theorem C15_permutation_invariant_text_load (conv : Conv) (env : Env) (pkgs : Str → Pkg) (s : Schema) (url : Option Str)
    (A B : List Str) (l1 l2 k1 raw1 k2 raw2 : Str)
    (hs : schemaOK s = true) (hlow : ∀ x : Str, lower (lower x) = lower x)
    (hkeys : ∀ p ∈ s.types, lower p.1 = p.1)
    (hni : ∀ x ∈ A ++ B, NoImportLine x) (hres : ∀ u ls, env.res u = some ls → ∀ x ∈ ls, NoImportLine x)
    (h1 : lineShape (strip l1) = .kv k1 raw1) (h2 : lineShape (strip l2) = .kv k2 raw2)
    (hi : ∀ sA, runLines 64 env treeCtx (activeOf url) url A 0
        { ctx := { stack := [([], none, [])] }, stack := [], defs := [] } = .ok sA → KeysIndepAt conv s sA.ctx k1 k2) :
    (load conv env pkgs s url (A ++ l1 :: l2 :: B) []).toOption.map (·.value) =
      (load conv env pkgs s url (A ++ l2 :: l1 :: B) []).toOption.map (·.value) :=
  load_swap_lines conv env pkgs s url A B l1 l2 k1 raw1 k2 raw2 hs hlow hkeys hni hres h1 h2 hi

/-- a condition on the schema alone that implies `KeysIndepAt` at every point of every text -/
theorem C15_keysIndepAt_of_schema (conv : Conv) (s : Schema) (st : TB) (k1 k2 : Str)
    (htop : target conv s.top k1 ≠ target conv s.top k2)
    (hall : ∀ ty t, s.gettype ty = some (.concrete t) → target conv t k1 ≠ target conv t k2) :
    KeysIndepAt conv s st k1 k2 :=
  keysIndepAt_of_schema conv s st k1 k2 htop hall

/-! ### the hypotheses are satisfiable -/

example : lineShape (strip "   # a comment ".toList) = .skip :=
  (C15_skip_lines _).mpr (Or.inr (by decide +kernel))

example : lineShape (strip "    ".toList) = .skip :=
  (C15_skip_lines _).mpr (Or.inl (by decide +kernel))

/-- `<SECT Name>` is read like `<sect name>` -/
example : lineShape (strip (hdrLine "SECT".toList " ".toList "Name".toList false)) =
    lineShape (strip (hdrLine "sect".toList " ".toList "name".toList false)) :=
  C15_case_invariant_model "sect".toList "SECT".toList " ".toList "name".toList "Name".toList false
    (by decide +kernel) (by decide +kernel) (by decide +kernel) (by decide +kernel) (by decide) (by decide +kernel)
    (by decide) (by decide) (by decide) (by decide) (by decide) (by decide +kernel) (by decide +kernel)

example : hdrLine "SECT".toList " ".toList "Name".toList false = "<SECT Name>".toList := by decide

/-- `$NAME-x ${Name} $$ $(HOME)` ~ `$name-x ${name} $$ $(HOME)` -/
example : DefSpec.RefCase "$AB-x${Ab}$$$(HOME)".toList "$ab-x${ab}$$$(HOME)".toList :=
  .bare "AB".toList "ab".toList (t := "-x${Ab}$$$(HOME)".toList) (t' := "-x${ab}$$$(HOME)".toList)
    (by decide) (by decide) (by decide +kernel) (by intro c hc; simp at hc; subst hc; decide)
    (.lit '-' (by decide) (.lit 'x' (by decide)
      (.brace "Ab".toList "ab".toList (t := "$$$(HOME)".toList) (t' := "$$$(HOME)".toList)
        (by decide) (by decide) (by decide +kernel)
        (.esc (.env "HOME".toList (t := []) (t' := []) (by decide) .nil)))))

/-- a schema with two keys `a`, `b`; a datatype family that accepts everything -/
private def exT : SType :=
  { name := none, keytype := [], datatype := [],
    children := [(some ['a'], .key { name := ['a'], attr := ['a'], multi := false, minOccurs := 0, dt := [], dflt := .none, handler := none }),
                 (some ['b'], .key { name := ['b'], attr := ['b'], multi := false, minOccurs := 0, dt := [], dflt := .none, handler := none })] }
private def exS : Schema := { types := [], top := exT, handler := none, components := [] }
private def exConv : Conv := { key := fun _ s => .ok s, val := fun _ s => .ok (.str s), sect := fun _ v => .ok v }

/-- `a 1` / `b 2` may change places -/
example : SwapIn exConv exS exS.top ([] ++ .kv ['a'] ['1'] ⟨1, none⟩ :: .kv ['b'] ['2'] ⟨2, none⟩ :: [])
    ([] ++ .kv ['b'] ['2'] ⟨2, none⟩ :: .kv ['a'] ['1'] ⟨1, none⟩ :: []) :=
  .here [] [] _ _ (by show target exConv exT ['a'] ≠ target exConv exT ['b']; decide)

/-- for the two-key schema above, `a` and `b` are independent at every point of every text -/
example (st : TB) : KeysIndepAt exConv exS st ['a'] ['b'] :=
  C15_keysIndepAt_of_schema exConv exS st ['a'] ['b'] (by show target exConv exT ['a'] ≠ target exConv exT ['b']; decide)
    (by intro ty t h; simp [exS, Schema.gettype] at h)

/-! ### the table hypotheses discharged -/

/-- `C15_blank_comment_invariant_load` without the table hypothesis: `hlow` is discharged by the proved `lower_idem` -/
theorem C15_blank_comment_invariant_load' (conv : Conv) (env : Env) (pkgs : Str → Pkg) (s : Schema) (url : Option Str)
    (A B : List Str) (l : Str) (hs : schemaOK s = true) (hkeys : ∀ p ∈ s.types, lower p.1 = p.1)
    (hni : ∀ x ∈ A ++ B, NoImportLine x) (hres : ∀ u ls, env.res u = some ls → ∀ x ∈ ls, NoImportLine x)
    (hl : lineShape (strip l) = .skip) :
    (load conv env pkgs s url (A ++ l :: B) []).toOption.map (·.value) =
      (load conv env pkgs s url (A ++ B) []).toOption.map (·.value) :=
  C15_blank_comment_invariant_load conv env pkgs s url A B l hs ZCV.lower_idem hkeys hni hres hl

/-- `C15_permutation_invariant_text_load` without the table hypothesis (`hlow` discharged by `lower_idem`) -/
theorem C15_permutation_invariant_text_load' (conv : Conv) (env : Env) (pkgs : Str → Pkg) (s : Schema) (url : Option Str)
    (A B : List Str) (l1 l2 k1 raw1 k2 raw2 : Str)
    (hs : schemaOK s = true) (hkeys : ∀ p ∈ s.types, lower p.1 = p.1)
    (hni : ∀ x ∈ A ++ B, NoImportLine x) (hres : ∀ u ls, env.res u = some ls → ∀ x ∈ ls, NoImportLine x)
    (h1 : lineShape (strip l1) = .kv k1 raw1) (h2 : lineShape (strip l2) = .kv k2 raw2)
    (hi : ∀ sA, runLines 64 env treeCtx (activeOf url) url A 0
        { ctx := { stack := [([], none, [])] }, stack := [], defs := [] } = .ok sA → KeysIndepAt conv s sA.ctx k1 k2) :
    (load conv env pkgs s url (A ++ l1 :: l2 :: B) []).toOption.map (·.value) =
      (load conv env pkgs s url (A ++ l2 :: l1 :: B) []).toOption.map (·.value) :=
  C15_permutation_invariant_text_load conv env pkgs s url A B l1 l2 k1 raw1 k2 raw2 hs ZCV.lower_idem hkeys hni hres h1 h2 hi

/-- **End to end (blank and comment lines).**  For the schema object `S` of ANY schema document the schema loader
    accepts (`hkey`: its key types never turn a non-empty name into the empty string — true of the stock key types),
    every datatype family, every text without `%import`, no overrides: inserting a blank or comment line anywhere
    leaves the configuration unchanged, or both texts are rejected.  `schemaOK`, `hlow`, `hkeys` are discharged. -/
theorem C15_blank_comment_end_to_end (eenv : Elab.Env) (fuel : Nat) (doc : Elab.Node) (S : Schema)
    (hkey : ∀ (kt s r : Str), s ≠ [] → eenv.conv.key kt s = .ok r → r ≠ [])
    (hS : Elab.elabSchema eenv fuel doc = .ok S)
    (conv : Conv) (env : Env) (pkgs : Str → Pkg) (url : Option Str) (A B : List Str) (l : Str)
    (hni : ∀ x ∈ A ++ B, NoImportLine x) (hres : ∀ u ls, env.res u = some ls → ∀ x ∈ ls, NoImportLine x)
    (hl : lineShape (strip l) = .skip) :
    (load conv env pkgs S url (A ++ l :: B) []).toOption.map (·.value) =
      (load conv env pkgs S url (A ++ B) []).toOption.map (·.value) :=
  C15_blank_comment_invariant_load' conv env pkgs S url A B l
    (ZCV.Props.C10.C10_elab_schemaOK eenv fuel doc S hkey hS) (Elab.elab_types_keys_lower hS) hni hres hl

/-- **End to end (swapping independent key lines)**, for the schema object of any accepted schema document -/
theorem C15_permutation_end_to_end (eenv : Elab.Env) (fuel : Nat) (doc : Elab.Node) (S : Schema)
    (hkey : ∀ (kt s r : Str), s ≠ [] → eenv.conv.key kt s = .ok r → r ≠ [])
    (hS : Elab.elabSchema eenv fuel doc = .ok S)
    (conv : Conv) (env : Env) (pkgs : Str → Pkg) (url : Option Str)
    (A B : List Str) (l1 l2 k1 raw1 k2 raw2 : Str)
    (hni : ∀ x ∈ A ++ B, NoImportLine x) (hres : ∀ u ls, env.res u = some ls → ∀ x ∈ ls, NoImportLine x)
    (h1 : lineShape (strip l1) = .kv k1 raw1) (h2 : lineShape (strip l2) = .kv k2 raw2)
    (hi : ∀ sA, runLines 64 env treeCtx (activeOf url) url A 0
        { ctx := { stack := [([], none, [])] }, stack := [], defs := [] } = .ok sA → KeysIndepAt conv S sA.ctx k1 k2) :
    (load conv env pkgs S url (A ++ l1 :: l2 :: B) []).toOption.map (·.value) =
      (load conv env pkgs S url (A ++ l2 :: l1 :: B) []).toOption.map (·.value) :=
  C15_permutation_invariant_text_load' conv env pkgs S url A B l1 l2 k1 raw1 k2 raw2
    (ZCV.Props.C10.C10_elab_schemaOK eenv fuel doc S hkey hS) (Elab.elab_types_keys_lower hS) hni hres h1 h2 hi

/-- no includable resource, no environment variable -/
private def exEnv0 : Env := { res := fun _ => none, resolve := fun _ _ => .unknown, getenv := fun _ => none }

/-- the hypotheses of the end-to-end statement are satisfiable: accepted schema document (base schema + component,
    stock key types); a comment line inserted between two lines of an import-free text -/
example : ∃ S, Elab.elabSchema Elab.Example.env 1 Elab.Example.doc = .ok S ∧
    (load exConv exEnv0 (fun _ => .notImportable) S none
        (["# a".toList] ++ "   # a comment ".toList :: ["".toList]) []).toOption.map (·.value) =
      (load exConv exEnv0 (fun _ => .notImportable) S none (["# a".toList] ++ ["".toList]) []).toOption.map (·.value) := by
  obtain ⟨S, hS⟩ := DischargeEx.dis_ex_doc_accepted
  refine ⟨S, hS, C15_blank_comment_end_to_end Elab.Example.env 1 _ S
    (by intro kt s r hs hr; exact Elab.stockConv_key_ne_nil kt s r hs hr) hS _ _ _ _ _ _ _ ?_
    (by intro u ls h; cases h) ((C15_skip_lines _).mpr (Or.inr (by decide +kernel)))⟩
  intro x hx a
  simp only [List.cons_append, List.nil_append, List.mem_cons, List.mem_nil_iff, or_false] at hx
  rcases hx with rfl | rfl
  · rw [(C15_skip_lines _).mpr (Or.inr (by decide +kernel))]; simp
  · rw [(C15_skip_lines _).mpr (Or.inl (by decide +kernel))]; simp

end ZCV.Props.C15
