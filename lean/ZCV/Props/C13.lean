import ZCV.Lemmas.Misc
import ZCV.Lemmas.Include
namespace ZCV.Props.C13
open ZCV ZCV.Cfg

/-- of the four things a configuration text can make the loader do, three never touch the schema:
    opening a section, closing a section and adding a value leave it exactly as it was (only `%import` extends it) -/
theorem C13_start_keeps_schema (st st' : LS) (ty : Str) (nm : Option Str) (h : lsStart st ty nm = .ok st') :
    st'.schema = st.schema := lsStart_schema st st' ty nm h
theorem C13_stop_keeps_schema (st st' : LS) (ty : Str) (nm : Option Str) (h : lsStop st ty nm = .ok st') :
    st'.schema = st.schema := lsStop_schema st st' ty nm h
theorem C13_value_keeps_schema (st st' : LS) (k v : Str) (p : Pos) (h : lsValue st k v p = .ok st') :
    st'.schema = st.schema := lsValue_schema st st' k v p h

/-- **A whole parse without `%import` leaves the schema untouched**: if neither the text nor any resource it can
    include contains an `%import` line, then after any successful parse — any length, any nesting, any include depth —
    the loader's schema is exactly the one it started with (in particular no abstract type gained an implementer) -/
theorem C13_parse_without_import_keeps_schema (env : Env)
    (hres : ∀ u ls, env.res u = some ls → ∀ l ∈ ls, NoImportLine l)
    (fuel : Nat) (active : List Str) (url : Option Str) (lines : List Str) (n : Nat) (st st' : PS LS)
    (hl : ∀ l ∈ lines, NoImportLine l)
    (h : parseLines fuel env loaderCtx active url lines n st = .ok st') : st'.ctx.schema = st.ctx.schema :=
  parse_without_import_keeps_schema env hres fuel active url lines n st st' hl h

end ZCV.Props.C13
