import ZCV.Lemmas.Misc
import ZCV.Lemmas.Include
import ZCV.Lemmas.SlotsLoad
import ZCV.Lemmas.SlotsEx
namespace ZCV.Props.C13
open ZCV ZCV.Cfg

/-- of the four things a configuration text can make the loader do, three never touch the schema:
    opening a section, closing a section and adding a value leave it exactly as it was (only `%import` extends it) -/
theorem C13_start_keeps_schema (st st' : LS) (ty : Str) (nm : Option Str) (h : lsStart st ty nm = .ok st') :
    st'.schema = st.schema := lsStart_schema st st' ty nm h
/-- closing a section leaves the schema as it was -/
theorem C13_stop_keeps_schema (st st' : LS) (ty : Str) (nm : Option Str) (h : lsStop st ty nm = .ok st') :
    st'.schema = st.schema := lsStop_schema st st' ty nm h
/-- adding a key's value leaves the schema as it was -/
theorem C13_value_keeps_schema (st st' : LS) (k v : Str) (p : Pos) (h : lsValue st k v p = .ok st') :
    st'.schema = st.schema := lsValue_schema st st' k v p h

/-- **A whole parse without `%import` leaves the schema untouched**: if neither the text nor any resource it can
    include contains an `%import` line, then after any successful parse — any length, any nesting, any include depth —
    the loader's schema is exactly the one it started with (in particular no abstract type gained an implementer) -/
theorem C13_parse_without_import_keeps_schema (env : Env)
    (hres : ∀ u ls, env.res u = some ls → ∀ l ∈ ls, NoImportLine l)
    (fuel : Nat) (active : List Str) (url : Option Str) (lines : List Str) (n : Nat) (st st' : PS LS)
    (hl : ∀ l ∈ lines, NoImportLine l)
    (h : parseLines fuel env loaderCtx active url lines n st = .ok st') : st'.ctx.schema = st.ctx.schema :=
  parse_without_import_keeps_schema env hres fuel active url lines n st st' hl h

/-- … and so does every PREFIX of such a text: when an import-free load fails at some line, the schema it held up to
    that line was still exactly the one it started with (the model reports no schema for a failed load; this is the
    statement that covers them) -/
theorem C13_prefix_without_import_keeps_schema (env : Env)
    (hres : ∀ u ls, env.res u = some ls → ∀ l ∈ ls, NoImportLine l)
    (fuel : Nat) (active : List Str) (url : Option Str) (lines : List Str) (n : Nat) (st st' : PS LS)
    (hl : ∀ l ∈ lines, NoImportLine l)
    (h : runLines fuel env loaderCtx active url lines n st = .ok st') : st'.ctx.schema = st.ctx.schema :=
  run_without_import_keeps_schema env hres fuel active url lines n st st' hl h

/-- **A load without `%import` returns the schema it was given.**  If no line of the text and no line of any resource
    the text could `%include` is an `%import` line, then after a successful `load` — with or without command-line
    overrides, whatever the datatypes do — the application's schema (`schemaAfter`: types, children, defaults,
    implementers of every abstract type, components) is exactly the schema passed in. -/
theorem C13_load_without_import_keeps_schema (conv : Conv) (env : Env) (pkgs : Str → Pkg) (s : Schema) (url : Option Str)
    (lines specs : List Str) (r : LoadResult)
    (hres : ∀ u ls, env.res u = some ls → ∀ l ∈ ls, NoImportLine l) (hl : ∀ l ∈ lines, NoImportLine l)
    (h : load conv env pkgs s url lines specs = .ok r) : r.schemaAfter = s :=
  load_without_import_keeps_schema conv env pkgs s url lines specs r hres hl h

/-- the same for a text that has neither `%import` nor `%include` lines, with NO assumption on the resources around -/
theorem C13_load_plain_keeps_schema (conv : Conv) (env : Env) (pkgs : Str → Pkg) (s : Schema) (url : Option Str)
    (lines specs : List Str) (r : LoadResult) (hl : ∀ l ∈ lines, PlainLine l)
    (h : load conv env pkgs s url lines specs = .ok r) : r.schemaAfter = s :=
  load_plain_keeps_schema conv env pkgs s url lines specs r hl h

/-- the outcome of a load is a function of the schema's description (and of the text, overrides, resources, packages and
    datatypes) and of nothing else — there is no hidden state in the model: a later load against the schema object a
    first load left behind is the load against the original schema as soon as that first load left the description
    unchanged -/
theorem C13_outcome_function_of_schema (conv : Conv) (env : Env) (pkgs : Str → Pkg) (s : Schema) (r : LoadResult)
    (url : Option Str) (lines specs : List Str) (h1 : r.schemaAfter = s) :
    load conv env pkgs r.schemaAfter url lines specs = load conv env pkgs s url lines specs := by rw [h1]

/-- **History independence (import-free histories).**  Run any sequence of loads — successful or failing, with or
    without overrides — one after the other against ONE schema object (`runHistory`: each load starts from what the
    previous one left behind).  If none of the texts, and none of the resources they can include, has an `%import` line,
    then every load of the sequence gives exactly what the same load gives against the fresh schema, and the schema
    object at the end is the schema at the start. -/
theorem C13_history_independent (conv : Conv) (env : Env) (pkgs : Str → Pkg)
    (hres : ∀ u ls, env.res u = some ls → ∀ l ∈ ls, NoImportLine l) (s : Schema) (hist : List LoadReq)
    (hh : ∀ q ∈ hist, ∀ l ∈ q.lines, NoImportLine l) :
    runHistory conv env pkgs s hist = (hist.map fun q => load conv env pkgs s q.url q.lines q.specs, s) :=
  runHistory_without_import conv env pkgs hres s hist hh

/-- in particular the load that comes after any import-free history gives what it gives on a fresh schema -/
theorem C13_load_after_history (conv : Conv) (env : Env) (pkgs : Str → Pkg)
    (hres : ∀ u ls, env.res u = some ls → ∀ l ∈ ls, NoImportLine l) (s : Schema) (hist : List LoadReq)
    (hh : ∀ q ∈ hist, ∀ l ∈ q.lines, NoImportLine l) (url : Option Str) (lines specs : List Str) :
    load conv env pkgs (runHistory conv env pkgs s hist).2 url lines specs = load conv env pkgs s url lines specs := by
  rw [runHistory_without_import conv env pkgs hres s hist hh]

/-! ### closed instances: the hypotheses are satisfiable, and with `%import` the statement is FALSE -/

/-- the import-free hypotheses of the theorems above hold for ordinary texts: comment, key line, section lines -/
example : ∀ l ∈ ["# c".toList, "k v".toList, "<leak x>".toList, "</leak>".toList], NoImportLine l := by
  intro l hl a
  simp only [List.mem_cons, List.mem_nil_iff, or_false] at hl
  rcases hl with rfl | rfl | rfl | rfl
  · rw [shape_of_classify "# c".toList (by decide) .skip (by simp) (by decide)]; simp
  · rw [shape_of_classify "k v".toList (by decide) (.kv "k".toList "v".toList) (by simp) (by decide)]; simp
  · rw [shape_of_classify "<leak x>".toList (by decide) (.open_ "leak".toList (some "x".toList) false) (by simp) (by decide)]
    simp
  · rw [shape_of_classify "</leak>".toList (by decide) (.close "leak".toList) (by simp) (by decide)]; simp

/-- `C13_load_without_import_keeps_schema` at work: the one-line text `# c` loads, and leaves the schema as it was -/
example : ∃ r, load Ex.conv Ex.env Ex.pkgs Ex.schema none ["# c".toList] [] = .ok r ∧ r.schemaAfter = Ex.schema := by
  obtain ⟨r, hr⟩ := Ex.load_comment
  refine ⟨r, hr, C13_load_without_import_keeps_schema _ _ _ _ _ _ _ r (fun _ _ h => by cases h) ?_ hr⟩
  intro l hl a
  simp only [List.mem_cons, List.mem_nil_iff, or_false] at hl
  subst hl
  rw [shape_of_classify "# c".toList (by decide) .skip (by simp) (by decide)]; simp

/-- **Counter-fact (known finding C13-implementers-leak).**  With `%import` the conclusion of
    `C13_load_without_import_keeps_schema` FAILS in the model, as it does in ZConfig: loading the one-line text
    `%import p` against a schema with an abstract type `ab` and no implementers succeeds, and the application's schema
    afterwards lists the imported type `leak` among the implementers of `ab` (the abstract-type tables are shared between
    the application's schema and the load's private copy). -/
theorem C13_import_alters_schema_counterexample :
    ∃ r, load Ex.conv Ex.env Ex.pkgs Ex.schema none ["%import p".toList] [] = .ok r ∧
      Conf.implementers Ex.schema "ab".toList = [] ∧
      Conf.implementers r.schemaAfter "ab".toList = ["leak".toList] ∧ r.schemaAfter ≠ Ex.schema := by
  obtain ⟨r, hr, hs⟩ := Ex.load_import_p
  refine ⟨r, hr, by decide, by rw [hs]; decide, ?_⟩
  intro h
  rw [hs] at h
  have : Conf.implementers Ex.schema' "ab".toList = Conf.implementers Ex.schema "ab".toList := by rw [h]
  exact absurd this (by decide)

/-- … and therefore a history containing such a load does not end on the schema it started with -/
theorem C13_history_with_import_counterexample :
    Conf.implementers (runHistory Ex.conv Ex.env Ex.pkgs Ex.schema [⟨none, ["%import p".toList], []⟩]).2 "ab".toList
      = ["leak".toList] := by
  obtain ⟨r, hr, _, h2, _⟩ := C13_import_alters_schema_counterexample
  rw [runHistory_cons]
  simp only [hr]
  exact h2

/-- REMARK on the model, stated as a fact so that it is not overlooked: `schemaAfter` is the load's whole private schema.
    After `%import p` it also contains the imported concrete type and the component's URL.  In ZConfig only the
    abstract-type implementer tables are shared with the application's schema (`createDerivedSchema` copies the type
    and component tables), so of `schemaAfter` only the abstract entries describe the application's schema — which is
    what the driver reports (`encAbstract`).  For import-free loads the distinction disappears (`schemaAfter = s`). -/
theorem C13_model_schemaAfter_is_private_schema :
    ∃ r, load Ex.conv Ex.env Ex.pkgs Ex.schema none ["%import p".toList] [] = .ok r ∧
      r.schemaAfter.components = ["u".toList] ∧ r.schemaAfter.gettype "leak".toList = some (.concrete Ex.leak) := by
  obtain ⟨r, hr, hs⟩ := Ex.load_import_p
  exact ⟨r, hr, by rw [hs]; rfl, by rw [hs]; rfl⟩

end ZCV.Props.C13
