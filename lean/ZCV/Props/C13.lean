import ZCV.Lemmas.Misc
namespace ZCV.Props.C13
open ZCV ZCV.Cfg

/-- of the four things a configuration text can make the loader do, three never touch the schema:
    opening a section, closing a section and adding a value leave it exactly as it was (only `%import` extends it) -/
theorem C13_start_keeps_schema (st st' : LS) (ty : Str) (nm : Option Str) (h : lsStart st ty nm = .ok st') :
    st'.schema = st.schema := lsStart_schema st st' ty nm h
theorem C13_stop_keeps_schema (st st' : LS) (ty : Str) (nm : Option Str) (h : lsStop st ty nm = .ok st') :
    st'.schema = st.schema := lsStop_schema st st' ty nm h
theorem C13_value_keeps_schema (st st' : LS) (k v : Str) (p : Pos) (h : lsValue st k v p = .ok st') :
    st'.schema = st.schema := lsValue_schema st st' k v p h

end ZCV.Props.C13
