import ZCV.Lemmas.Misc
import ZCV.Lemmas.Include
import ZCV.Lemmas.SlotsLoad
import ZCV.Lemmas.SlotsEx
import ZCV.Lemmas.HistoryEx
import ZCV.Lemmas.HistoryAbsorb
namespace ZCV.Props.C13
open ZCV ZCV.Cfg

/-- of the four things a configuration text can make the loader do, three never touch the schema:
    opening a section, closing a section and adding a value leave it exactly as it was (only `%import` extends it) -/
theorem C13_start_keeps_schema (st st' : LS) (ty : Str) (nm : Option Str) (h : lsStart st ty nm = .ok st') :
    st'.schema = st.schema := lsStart_schema st st' ty nm h
/-- closing a section leaves the schema as it was -/
theorem C13_stop_keeps_schema (st st' : LS) (ty : Str) (nm : Option Str) (h : lsStop st ty nm = .ok st') :
    st'.schema = st.schema := lsStop_schema st st' ty nm h
/-- adding a key's value leaves the schema as it was -/
theorem C13_value_keeps_schema (st st' : LS) (k v : Str) (p : Pos) (h : lsValue st k v p = .ok st') :
    st'.schema = st.schema := lsValue_schema st st' k v p h

/-- **A whole parse without `%import` leaves the schema untouched**: if neither the text nor any resource it can
    include contains an `%import` line, then after any successful parse — any length, any nesting, any include depth —
    the loader's schema is exactly the one it started with (in particular no abstract type gained an implementer) -/
theorem C13_parse_without_import_keeps_schema (env : Env)
    (hres : ∀ u ls, env.res u = some ls → ∀ l ∈ ls, NoImportLine l)
    (fuel : Nat) (active : List Str) (url : Option Str) (lines : List Str) (n : Nat) (st st' : PS LS)
    (hl : ∀ l ∈ lines, NoImportLine l)
    (h : parseLines fuel env loaderCtx active url lines n st = .ok st') : st'.ctx.schema = st.ctx.schema :=
  parse_without_import_keeps_schema env hres fuel active url lines n st st' hl h

/-- … and so does every PREFIX of such a text: when an import-free load fails at some line, the schema it held up to
    that line was still exactly the one it started with (the model reports no schema for a failed load; this is the
    statement that covers them) -/
theorem C13_prefix_without_import_keeps_schema (env : Env)
    (hres : ∀ u ls, env.res u = some ls → ∀ l ∈ ls, NoImportLine l)
    (fuel : Nat) (active : List Str) (url : Option Str) (lines : List Str) (n : Nat) (st st' : PS LS)
    (hl : ∀ l ∈ lines, NoImportLine l)
    (h : runLines fuel env loaderCtx active url lines n st = .ok st') : st'.ctx.schema = st.ctx.schema :=
  run_without_import_keeps_schema env hres fuel active url lines n st st' hl h

/-- **A load without `%import` returns the schema it was given.**  If no line of the text and no line of any resource
    the text could `%include` is an `%import` line, then after a successful `load` — with or without command-line
    overrides, whatever the datatypes do — the application's schema (`schemaAfter`: types, children, defaults,
    implementers of every abstract type, components) is exactly the schema passed in. -/
theorem C13_load_without_import_keeps_schema (conv : Conv) (env : Env) (pkgs : Str → Pkg) (s : Schema) (url : Option Str)
    (lines specs : List Str) (r : LoadResult)
    (hres : ∀ u ls, env.res u = some ls → ∀ l ∈ ls, NoImportLine l) (hl : ∀ l ∈ lines, NoImportLine l)
    (h : load conv env pkgs s url lines specs = .ok r) : r.schemaAfter = s :=
  load_without_import_keeps_schema conv env pkgs s url lines specs r hres hl h

/-- the same for a text that has neither `%import` nor `%include` lines, with NO assumption on the resources around -/
theorem C13_load_plain_keeps_schema (conv : Conv) (env : Env) (pkgs : Str → Pkg) (s : Schema) (url : Option Str)
    (lines specs : List Str) (r : LoadResult) (hl : ∀ l ∈ lines, PlainLine l)
    (h : load conv env pkgs s url lines specs = .ok r) : r.schemaAfter = s :=
  load_plain_keeps_schema conv env pkgs s url lines specs r hl h

/-- the outcome of a load is a function of the schema's description (and of the text, overrides, resources, packages and
    datatypes) and of nothing else — there is no hidden state in the model: a later load against the schema object a
    first load left behind is the load against the original schema as soon as that first load left the description
    unchanged -/
theorem C13_outcome_function_of_schema (conv : Conv) (env : Env) (pkgs : Str → Pkg) (s : Schema) (r : LoadResult)
    (url : Option Str) (lines specs : List Str) (h1 : r.schemaAfter = s) :
    load conv env pkgs r.schemaAfter url lines specs = load conv env pkgs s url lines specs := by rw [h1]

/-- **History independence (import-free histories).**  Run any sequence of loads — successful or failing, with or
    without overrides — one after the other against ONE schema object (`runHistory`: each load starts from what the
    previous one left behind).  If none of the texts, and none of the resources they can include, has an `%import` line,
    then every load of the sequence gives exactly what the same load gives against the fresh schema, and the schema
    object at the end is the schema at the start. -/
theorem C13_history_independent (conv : Conv) (env : Env) (pkgs : Str → Pkg)
    (hres : ∀ u ls, env.res u = some ls → ∀ l ∈ ls, NoImportLine l) (s : Schema) (hist : List LoadReq)
    (hh : ∀ q ∈ hist, ∀ l ∈ q.lines, NoImportLine l) :
    runHistory conv env pkgs s hist = (hist.map fun q => load conv env pkgs s q.url q.lines q.specs, s) :=
  runHistory_without_import conv env pkgs hres s hist hh

/-- in particular the load that comes after any import-free history gives what it gives on a fresh schema -/
theorem C13_load_after_history (conv : Conv) (env : Env) (pkgs : Str → Pkg)
    (hres : ∀ u ls, env.res u = some ls → ∀ l ∈ ls, NoImportLine l) (s : Schema) (hist : List LoadReq)
    (hh : ∀ q ∈ hist, ∀ l ∈ q.lines, NoImportLine l) (url : Option Str) (lines specs : List Str) :
    load conv env pkgs (runHistory conv env pkgs s hist).2 url lines specs = load conv env pkgs s url lines specs := by
  rw [runHistory_without_import conv env pkgs hres s hist hh]

/-! ### closed instances: the hypotheses are satisfiable, and with `%import` the statement is FALSE -/

/-- the import-free hypotheses of the theorems above hold for ordinary texts: comment, key line, section lines -/
example : ∀ l ∈ ["# c".toList, "k v".toList, "<leak x>".toList, "</leak>".toList], NoImportLine l := by
  intro l hl a
  simp only [List.mem_cons, List.mem_nil_iff, or_false] at hl
  rcases hl with rfl | rfl | rfl | rfl
  · rw [shape_of_classify "# c".toList (by decide) .skip (by simp) (by decide)]; simp
  · rw [shape_of_classify "k v".toList (by decide) (.kv "k".toList "v".toList) (by simp) (by decide)]; simp
  · rw [shape_of_classify "<leak x>".toList (by decide) (.open_ "leak".toList (some "x".toList) false) (by simp) (by decide)]
    simp
  · rw [shape_of_classify "</leak>".toList (by decide) (.close "leak".toList) (by simp) (by decide)]; simp

/-- `C13_load_without_import_keeps_schema` at work: the one-line text `# c` loads, and leaves the schema as it was -/
example : ∃ r, load Ex.conv Ex.env Ex.pkgs Ex.schema none ["# c".toList] [] = .ok r ∧ r.schemaAfter = Ex.schema := by
  obtain ⟨r, hr⟩ := Ex.load_comment
  refine ⟨r, hr, C13_load_without_import_keeps_schema _ _ _ _ _ _ _ r (fun _ _ h => by cases h) ?_ hr⟩
  intro l hl a
  simp only [List.mem_cons, List.mem_nil_iff, or_false] at hl
  subst hl
  rw [shape_of_classify "# c".toList (by decide) .skip (by simp) (by decide)]; simp

/-- **Counter-fact (known finding C13-implementers-leak).**  With `%import` the conclusion of
    `C13_load_without_import_keeps_schema` FAILS in the model, as it does in ZConfig: loading the one-line text
    `%import p` against a schema with an abstract type `ab` and no implementers succeeds, and the application's schema
    afterwards lists the imported type `leak` among the implementers of `ab` (the abstract-type tables are shared between
    the application's schema and the load's private copy). -/
theorem C13_import_alters_schema_counterexample :
    ∃ r, load Ex.conv Ex.env Ex.pkgs Ex.schema none ["%import p".toList] [] = .ok r ∧
      Conf.implementers Ex.schema "ab".toList = [] ∧
      Conf.implementers r.schemaAfter "ab".toList = ["leak".toList] ∧ r.schemaAfter ≠ Ex.schema := by
  obtain ⟨r, hr, hs⟩ := Ex.load_import_p
  refine ⟨r, hr, by decide, by rw [hs]; decide, ?_⟩
  intro h
  rw [hs] at h
  have : Conf.implementers Ex.schema' "ab".toList = Conf.implementers Ex.schema "ab".toList := by rw [h]
  exact absurd this (by decide)

/-- … and therefore a history containing such a load does not end on the schema it started with -/
theorem C13_history_with_import_counterexample :
    Conf.implementers (runHistory Ex.conv Ex.env Ex.pkgs Ex.schema [⟨none, ["%import p".toList], []⟩]).2 "ab".toList
      = ["leak".toList] := by
  obtain ⟨r, hr, _, h2, _⟩ := C13_import_alters_schema_counterexample
  rw [runHistory_cons]
  simp only [hr]
  exact h2

/-- REMARK on the model, stated as a fact so that it is not overlooked: `schemaAfter` is the load's whole private schema.
    After `%import p` it also contains the imported concrete type and the component's URL.  In ZConfig only the
    abstract-type implementer tables are shared with the application's schema (`createDerivedSchema` copies the type
    and component tables), so of `schemaAfter` only the abstract entries describe the application's schema — which is
    what the driver reports (`encAbstract`).  For import-free loads the distinction disappears (`schemaAfter = s`). -/
theorem C13_model_schemaAfter_is_private_schema :
    ∃ r, load Ex.conv Ex.env Ex.pkgs Ex.schema none ["%import p".toList] [] = .ok r ∧
      r.schemaAfter.components = ["u".toList] ∧ r.schemaAfter.gettype "leak".toList = some (.concrete Ex.leak) := by
  obtain ⟨r, hr, hs⟩ := Ex.load_import_p
  exact ⟨r, hr, by rw [hs]; rfl, by rw [hs]; rfl⟩

/-! ## FAITHFUL histories (ZCV/Model/History.lean): what a history with `%import` can change, exactly

`runHistory` above feeds a load's whole private schema into the next load (see the REMARK).  ZConfig does not: the next
load starts from the application's schema object, of which a load can only have written the implementer tables of the
abstract types it holds (`AbstractType.addsubtype` on objects `createDerivedSchema` shares).  `runHistoryApp` threads
exactly that (`appAfter` for a successful load, `appAfterLoad` in general: a load that fails – even inside a component
that breaks off half-way – leaves the `addsubtype` calls it made before).  The theorems below hold for EVERY history:
any texts, `%import` and `%include` anywhere, successful and failing loads, overrides, any datatypes. -/

/-- **After one load, successful or not, the application's schema object is the schema it was with the load's
    `addsubtype` calls applied** (`loadStop … .regs`: (concrete type name, key of the abstract type), in order) – nothing
    else of the load's private schema (imported types, component marks) reaches it. -/
theorem C13_load_changes_only_implementers (conv : Conv) (env : Env) (pkgs : Str → Pkg) (s : Schema) (q : LoadReq) :
    appAfterLoad conv env pkgs s q = s.withImplementers (loadStop conv env pkgs s q.url q.lines q.specs).regs :=
  appAfterLoad_eq conv env pkgs s q

/-- … for a successful load that is `appAfter s r`, computed from the result alone -/
theorem C13_appAfter_of_ok (conv : Conv) (env : Env) (pkgs : Str → Pkg) (s : Schema) (q : LoadReq) (r : LoadResult)
    (h : load conv env pkgs s q.url q.lines q.specs = .ok r) :
    appAfter s r = s.withImplementers (loadStop conv env pkgs s q.url q.lines q.specs).regs := by
  rw [← appAfterLoad_ok conv env pkgs s q r h, appAfterLoad_eq]

/-- **After a whole history** the application's schema object is the schema it was with every `addsubtype` call of the
    history applied, in order. -/
theorem C13_history_exact (conv : Conv) (env : Env) (pkgs : Str → Pkg) (s : Schema) (hist : List LoadReq) :
    (runHistoryApp conv env pkgs s hist).2 = s.withImplementers (historyRegs conv env pkgs s hist) :=
  runHistoryApp_schema conv env pkgs hist s

/-- two entries of a type table that differ at most in the implementer table of an abstract type -/
def SameButTable (p q : Str × TypeEntry) : Prop :=
  q.1 = p.1 ∧
    match p.2 with
    | .concrete t => q.2 = .concrete t
    | .abstract_ n _ => ∃ subs, q.2 = .abstract_ n subs

theorem sameButTable_regEntries (regs : List (Str × Str)) (p : Str × TypeEntry) : SameButTable p (regEntries regs p) := by
  obtain ⟨k, te⟩ := p
  cases te with
  | concrete t => rw [regEntries_concrete]; exact ⟨rfl, rfl⟩
  | abstract_ n subs =>
    obtain ⟨add, he, _⟩ := regEntries_abstract regs k n subs
    rw [he]
    exact ⟨rfl, _, rfl⟩

/-- **A history changes nothing but implementer tables.**  For EVERY history the application's schema object afterwards
    has the same top-level type (keys, sections, defaults, datatypes), the same handler, the same components, a type
    table of the same length with the same names at the same places, every concrete type exactly as it was (children,
    keys, defaults, key type, datatype), every abstract type still abstract under the same name; looked up by name:
    the same concrete types and the same set of abstract type names. -/
theorem C13_history_changes_only_implementers (conv : Conv) (env : Env) (pkgs : Str → Pkg) (s : Schema)
    (hist : List LoadReq) :
    let s' := (runHistoryApp conv env pkgs s hist).2
    s'.top = s.top ∧ s'.handler = s.handler ∧ s'.components = s.components ∧
      s'.types.map (·.1) = s.types.map (·.1) ∧
      (∀ (i : Nat) p, s.types[i]? = some p → ∃ q, s'.types[i]? = some q ∧ SameButTable p q) ∧
      (∀ x t, s'.gettype x = some (.concrete t) ↔ s.gettype x = some (.concrete t)) ∧
      (∀ x, isAbstract s' x = isAbstract s x) := by
  intro s'
  have hs : s' = s.withImplementers (historyRegs conv env pkgs s hist) := runHistoryApp_schema conv env pkgs hist s
  rw [hs]
  refine ⟨withImplementers_top _ _, withImplementers_handler _ _, withImplementers_components _ _,
    withImplementers_keys _ _, ?_, fun x t => gettype_concrete_withImplementers _ _ x t,
    fun x => isAbstract_withImplementers _ _ x⟩
  intro i p hp
  rw [withImplementers_types, List.getElem?_map, hp]
  exact ⟨_, rfl, sameButTable_regEntries _ p⟩

/-- **Implementer tables only grow, and only by what imported components declare.**  For every history and every name
    `x`: the implementers of `x` afterwards are the implementers before, followed by new names (each once); every new name
    `c` was not listed, `x` is an abstract type of the schema, and `c` is a type defined, with `implements` naming `x`'s
    key, by a component (`pkgs p = component …`) that some load of the history imported – read to its end
    (`historyImports`) or up to where it broke off (`historyBroken`). -/
theorem C13_implementers_only_grow (conv : Conv) (env : Env) (pkgs : Str → Pkg) (s : Schema) (hist : List LoadReq) (x : Str) :
    ∃ add, Conf.implementers (runHistoryApp conv env pkgs s hist).2 x = Conf.implementers s x ++ add ∧ add.Nodup ∧
      ∀ c ∈ add, c ∉ Conf.implementers s x ∧ isAbstract s x = true ∧
        ∃ p ∈ historyImports conv env pkgs s hist ++ historyBroken conv env pkgs s hist,
          ∃ url types impls, pkgs p = .component url types impls ∧ (c, lower x) ∈ impls ∧ c ∈ types.map (·.1) := by
  rw [runHistoryApp_schema]
  obtain ⟨add, he, h1, h2⟩ := implementers_withImplementers s (historyRegs conv env pkgs s hist) x
  refine ⟨add, he, h2, ?_⟩
  intro c hc
  obtain ⟨hn, hm, ha⟩ := h1 c hc
  obtain ⟨p, hp, url, types, impls, hpk, hi, ht⟩ := historyRegs_source conv env pkgs s hist _ hm
  exact ⟨hn, ha, p, hp, url, types, impls, hpk, hi, ht⟩

/-- … and membership exactly: a name is listed afterwards iff it was listed before or some load of the history made an
    `addsubtype` call for it on this abstract type -/
theorem C13_implementers_after_history (conv : Conv) (env : Env) (pkgs : Str → Pkg) (s : Schema) (hist : List LoadReq)
    (x c : Str) :
    c ∈ Conf.implementers (runHistoryApp conv env pkgs s hist).2 x ↔
      c ∈ Conf.implementers s x ∨ (isAbstract s x = true ∧ (c, lower x) ∈ historyRegs conv env pkgs s hist) := by
  rw [runHistoryApp_schema]
  exact mem_implementers_withImplementers s _ x c

/-- a call that would change the schema: an abstract type stored under the call's key does not list the name yet -/
def CallLeaks (s : Schema) (ia : Str × Str) : Prop :=
  ∃ n subs, (ia.2, TypeEntry.abstract_ n subs) ∈ s.types ∧ ia.1 ∉ subs

/-- a component that declares (for a type it defines) an implementer of an abstract type of `s` which `s` does not list -/
def PkgLeaks (s : Schema) : Pkg → Prop
  | .component _ types impls => ∃ ia ∈ impls, ia.1 ∈ types.map (·.1) ∧ CallLeaks s ia
  | _ => False

theorem not_callLeaks_iff (s : Schema) (ia : Str × Str) : ¬ CallLeaks s ia ↔ regImpl s ia = s := by
  rw [regImpl_eq_self_iff]
  unfold CallLeaks
  constructor
  · intro h n subs hm
    exact Classical.byContradiction fun hn => h ⟨n, subs, hm, hn⟩
  · rintro h ⟨n, subs, hm, hn⟩
    exact hn (h n subs hm)

/-- **History independence, exactly** (every history): the schema object is unchanged IFF no load of the history made
    an `addsubtype` call that adds something – a call for an abstract type of the application's schema with a name it did
    not list. -/
theorem C13_history_independent_iff_no_leak (conv : Conv) (env : Env) (pkgs : Str → Pkg) (s : Schema) (hist : List LoadReq) :
    (runHistoryApp conv env pkgs s hist).2 = s ↔ ∀ ia ∈ historyRegs conv env pkgs s hist, ¬ CallLeaks s ia := by
  rw [runHistoryApp_schema, withImplementers_eq_self_iff]
  constructor
  · intro h ia hia; exact (not_callLeaks_iff s ia).mpr (h ia hia)
  · intro h ia hia; exact (not_callLeaks_iff s ia).mp (h ia hia)

theorem pkgLeaks_iff (s : Schema) (pk : Pkg) : PkgLeaks s pk ↔ ∃ ia ∈ pkgRegs pk, CallLeaks s ia := by
  cases pk with
  | component url types impls =>
    simp only [PkgLeaks, pkgRegs]
    constructor
    · rintro ⟨ia, hi, ht, hl⟩; exact ⟨ia, (mem_compRegs types impls ia).mpr ⟨hi, ht⟩, hl⟩
    · rintro ⟨ia, hm, hl⟩
      obtain ⟨hi, ht⟩ := (mem_compRegs types impls ia).mp hm
      exact ⟨ia, hi, ht, hl⟩
  | notImportable => simp [PkgLeaks, pkgRegs]
  | notPackage => simp [PkgLeaks, pkgRegs]
  | noComponent => simp [PkgLeaks, pkgRegs]
  | illegalName => simp [PkgLeaks, pkgRegs]

/-- **History independence in terms of the imported components** (every history in which no component broke off – in
    particular every history of successful loads, `C13_all_ok_no_broken`): the schema object is unchanged IFF none of the
    components some load imported declares an implementer, of one of the application schema's abstract types, that was not
    already listed. -/
theorem C13_history_independent_iff_no_leaking_import (conv : Conv) (env : Env) (pkgs : Str → Pkg) (s : Schema)
    (hist : List LoadReq) (hb : historyBroken conv env pkgs s hist = []) :
    (runHistoryApp conv env pkgs s hist).2 = s ↔ ∀ p ∈ historyImports conv env pkgs s hist, ¬ PkgLeaks s (pkgs p) := by
  rw [C13_history_independent_iff_no_leak, historyRegs_complete conv env pkgs s hist hb]
  constructor
  · intro h p hp hl
    obtain ⟨ia, hia, hleak⟩ := (pkgLeaks_iff s _).mp hl
    exact h ia (List.mem_flatMap.mpr ⟨p, hp, hia⟩) hleak
  · intro h ia hia hleak
    obtain ⟨p, hp, hpi⟩ := List.mem_flatMap.mp hia
    exact h p hp ((pkgLeaks_iff s _).mpr ⟨ia, hpi, hleak⟩)

theorem C13_all_ok_no_broken (conv : Conv) (env : Env) (pkgs : Str → Pkg) (s : Schema) (hist : List LoadReq)
    (h : ∀ o ∈ (runHistoryApp conv env pkgs s hist).1, ∃ r, o = .ok r) : historyBroken conv env pkgs s hist = [] :=
  historyBroken_of_all_ok conv env pkgs hist s h

/-- **One direction holds for every history**, components that break off included: if no component that a load of the
    history imported – completely or in part – declares a missing implementer, the schema object is unchanged … -/
theorem C13_no_leaking_import_keeps_schema (conv : Conv) (env : Env) (pkgs : Str → Pkg) (s : Schema) (hist : List LoadReq)
    (h : ∀ p ∈ historyImports conv env pkgs s hist ++ historyBroken conv env pkgs s hist, ¬ PkgLeaks s (pkgs p)) :
    (runHistoryApp conv env pkgs s hist).2 = s := by
  rw [C13_history_independent_iff_no_leak]
  intro ia hia hleak
  obtain ⟨p, hp, url, types, impls, hpk, hi, ht⟩ := historyRegs_source conv env pkgs s hist ia hia
  apply h p hp
  rw [hpk]
  exact ⟨ia, hi, ht, hleak⟩

/-- … and then every load of the history gave what it gives on the fresh schema (history independence for histories WITH
    `%import`, as long as nothing leaks: components that implement nothing of the application's, or only what is listed) -/
theorem C13_history_independent_when_nothing_leaks (conv : Conv) (env : Env) (pkgs : Str → Pkg) (s : Schema) :
    ∀ (hist : List LoadReq), (∀ ia ∈ historyRegs conv env pkgs s hist, ¬ CallLeaks s ia) →
      runHistoryApp conv env pkgs s hist = (hist.map fun q => load conv env pkgs s q.url q.lines q.specs, s) := by
  intro hist
  induction hist with
  | nil => intro _; rfl
  | cons q rest ih =>
    intro h
    rw [historyRegs_cons] at h
    have h1 : appAfterLoad conv env pkgs s q = s := by
      rw [appAfterLoad_eq, withImplementers_eq_self_iff]
      intro ia hia
      exact (not_callLeaks_iff s ia).mp (h ia (List.mem_append_left _ hia))
    rw [h1] at h
    rw [runHistoryApp_cons, h1, ih (fun ia hia => h ia (List.mem_append_right _ hia))]
    rfl

/-- **A later load depends on the history through the leaked implementers only.**  The load that comes after any history
    gives exactly what the same load gives on the FRESH schema with the history's `addsubtype` calls applied
    (`s.withImplementers …`: same types, same children, same components – only the listed names added to the tables). -/
theorem C13_later_load_depends_only_on_leak (conv : Conv) (env : Env) (pkgs : Str → Pkg) (s : Schema) (hist : List LoadReq)
    (url : Option Str) (lines specs : List Str) :
    load conv env pkgs (runHistoryApp conv env pkgs s hist).2 url lines specs =
      load conv env pkgs (s.withImplementers (historyRegs conv env pkgs s hist)) url lines specs := by
  rw [runHistoryApp_schema]

/-- every outcome of a history is the load against the fresh schema with the leak of the loads before it -/
theorem C13_outcomes_depend_only_on_leak (conv : Conv) (env : Env) (pkgs : Str → Pkg) (s : Schema)
    (pre : List LoadReq) (q : LoadReq) (post : List LoadReq) :
    (runHistoryApp conv env pkgs s (pre ++ q :: post)).1[pre.length]? =
      some (load conv env pkgs (s.withImplementers (historyRegs conv env pkgs s pre)) q.url q.lines q.specs) := by
  induction pre generalizing s with
  | nil => rfl
  | cons q0 rest ih =>
    rw [List.cons_append, runHistoryApp_cons, historyRegs_cons, withImplementers_append, ← appAfterLoad_eq]
    simp only [List.length_cons, List.getElem?_cons_succ]
    exact ih _

/-! ### closed instances for the faithful history function -/

/-- **Counter-fact (known finding C13-implementers-leak), restated for the faithful history.**  One load `%import p`: the
    application's schema object afterwards lists `leak` among the implementers of `ab`, so it is not the schema it was – and
    that is ALL: the imported concrete type and the component mark are not in it. -/
theorem C13_faithful_history_with_import_counterexample :
    let s' := (runHistoryApp Ex.conv Ex.env Ex.pkgs Ex.schema [HEx.qP]).2
    Conf.implementers s' "ab".toList = ["leak".toList] ∧ s' ≠ Ex.schema ∧
      s'.gettype "leak".toList = none ∧ s'.components = [] ∧ s' = HEx.schemaL := by
  intro s'
  have hs : s' = HEx.schemaL := by
    show (runHistoryApp Ex.conv Ex.env Ex.pkgs Ex.schema [HEx.qP]).2 = _
    rw [runHistoryApp_cons, HEx.appAfterLoad_p]
    rfl
  rw [hs]
  refine ⟨by decide, ?_, by decide, rfl, rfl⟩
  intro h
  have : Conf.implementers HEx.schemaL "ab".toList = Conf.implementers Ex.schema "ab".toList := by rw [h]
  exact absurd this (by decide)

/-- the trace of that history: one call, one component read to its end, nothing broke off – the hypotheses and the
    right-hand sides of the theorems above, computed -/
theorem C13_faithful_history_trace :
    historyRegs Ex.conv Ex.env Ex.pkgs Ex.schema [HEx.qP] = [("leak".toList, "ab".toList)] ∧
      historyImports Ex.conv Ex.env Ex.pkgs Ex.schema [HEx.qP] = ["p".toList] ∧
      historyBroken Ex.conv Ex.env Ex.pkgs Ex.schema [HEx.qP] = [] := by
  unfold historyRegs historyImports historyBroken
  rw [show HEx.qP = ⟨none, ["%import p".toList], []⟩ from rfl, historyStops_cons, HEx.loadStop_p]
  exact ⟨rfl, rfl, rfl⟩

/-- `C13_history_independent_iff_no_leak` / `…_iff_no_leaking_import` at work, both sides false: the history `%import p`
    changes the schema object, its one call leaks, its one component leaks -/
example : (runHistoryApp Ex.conv Ex.env Ex.pkgs Ex.schema [HEx.qP]).2 ≠ Ex.schema ∧
    CallLeaks Ex.schema ("leak".toList, "ab".toList) ∧ PkgLeaks Ex.schema (Ex.pkgs "p".toList) := by
  refine ⟨C13_faithful_history_with_import_counterexample.2.1, ⟨_, _, List.mem_cons_self, by decide⟩, ?_⟩
  exact ⟨("leak".toList, "ab".toList), List.mem_cons_self, by decide, ⟨_, _, List.mem_cons_self, by decide⟩⟩

/-- … and both sides true: the import-free history `# c` -/
example : (runHistoryApp Ex.conv Ex.env Ex.pkgs Ex.schema [⟨none, ["# c".toList], []⟩]).2 = Ex.schema := by
  obtain ⟨r, hr⟩ := Ex.load_comment
  rw [runHistoryApp_cons, appAfterLoad_ok Ex.conv Ex.env Ex.pkgs Ex.schema ⟨none, ["# c".toList], []⟩ r hr]
  show appAfter Ex.schema r = Ex.schema
  have hk : r.schemaAfter = Ex.schema := by
    refine C13_load_without_import_keeps_schema _ _ _ _ _ _ _ r (fun _ _ h => by cases h) ?_ hr
    intro l hl a
    simp only [List.mem_cons, List.mem_nil_iff, or_false] at hl
    subst hl
    rw [shape_of_classify "# c".toList (by decide) .skip (by simp) (by decide)]; simp
  unfold appAfter
  rw [hk, shareInto_self]

/-- `C13_implementers_only_grow` at work: the new name `leak`, from package `p` which declares `leak implements ab` -/
example : ∃ add, Conf.implementers (runHistoryApp Ex.conv Ex.env Ex.pkgs Ex.schema [HEx.qP]).2 "ab".toList =
      Conf.implementers Ex.schema "ab".toList ++ add ∧ add = ["leak".toList] ∧
      Ex.pkgs "p".toList = .component "u".toList [("leak".toList, .concrete Ex.leak)] [("leak".toList, "ab".toList)] :=
  ⟨["leak".toList], by rw [C13_faithful_history_with_import_counterexample.1]; rfl, rfl, rfl⟩

/-- **The OLD `runHistory` and the faithful one differ.**  History: `%import p`, then `<leak/>` WITHOUT `%import`.
    `runHistory` hands the first load's private schema to the second load, which therefore knows the type `leak` and is
    ACCEPTED; in the faithful history (as in ZConfig) the application's schema object does not have that type and the second
    load is REJECTED at line 1 – although `leak` now stands in the implementer table of `ab`. -/
theorem C13_old_history_differs_from_faithful :
    (∃ r1 r2, (runHistory Ex.conv Ex.env Ex.pkgs Ex.schema [HEx.qP, HEx.qUse]).1 = [.ok r1, .ok r2]) ∧
    (∃ r1, (runHistoryApp Ex.conv Ex.env Ex.pkgs Ex.schema [HEx.qP, HEx.qUse]).1 =
      [.ok r1, .error (synErr none 1 "start:unknown type name")]) := by
  obtain ⟨r1, hr1, hs1⟩ := Ex.load_import_p
  obtain ⟨r2, hr2⟩ := HEx.load_old_use
  constructor
  · refine ⟨r1, r2, ?_⟩
    rw [runHistory_cons, runHistory_cons]
    simp only [HEx.qP, HEx.qUse, hr1, hs1, hr2]
    rfl
  · refine ⟨r1, ?_⟩
    rw [runHistoryApp_cons, runHistoryApp_cons, HEx.appAfterLoad_p]
    simp only [HEx.qP, HEx.qUse, hr1, HEx.load_app_use]
    rfl

/-- **A component that breaks off leaks what it registered before** (the load FAILS and still alters the schema object):
    package `b` defines `x implements ab` and then a type named `ab`, which the schema has.  The load `%import b` is
    rejected ("type name cannot be redefined"), and the application's schema object lists `x` under `ab` afterwards. -/
theorem C13_failed_load_leaks :
    load Ex.conv Ex.env HEx.pkgsH Ex.schema none ["%import b".toList] [] =
        .error (.cfg { kind := .schema, tag := "type name cannot be redefined" }) ∧
      (runHistoryApp Ex.conv Ex.env HEx.pkgsH Ex.schema [HEx.qB]).2 = HEx.schemaX ∧
      Conf.implementers HEx.schemaX "ab".toList = ["x".toList] ∧
      historyBroken Ex.conv Ex.env HEx.pkgsH Ex.schema [HEx.qB] = ["b".toList] := by
  refine ⟨HEx.load_fail "b" HEx.shape_b (by decide) (by decide) _ HEx.lsImport_b, ?_, by decide, ?_⟩
  · rw [runHistoryApp_cons, HEx.appAfterLoad_b]; rfl
  · unfold historyBroken
    rw [show HEx.qB = ⟨none, ["%import b".toList], []⟩ from rfl, historyStops_cons, HEx.loadStop_b, HEx.importStop_b]
    rfl

/-- **Why the component-level "iff" needs "no component broke off"** (`C13_history_independent_iff_no_leaking_import`
    is PARTIAL in that sense; the call-level `C13_history_independent_iff_no_leak` is not): package `c` declares the missing
    implementer `x` of `ab` – it "leaks" by its declaration – but it breaks off at its first type, before `x` is reached:
    the history `%import c` imported (a part of) a leaking component and leaves the schema object unchanged. -/
theorem C13_history_independent_iff_no_leaking_import_partial_counterexample :
    PkgLeaks Ex.schema (HEx.pkgsH "c".toList) ∧ historyBroken Ex.conv Ex.env HEx.pkgsH Ex.schema [HEx.qC] = ["c".toList] ∧
      historyImports Ex.conv Ex.env HEx.pkgsH Ex.schema [HEx.qC] = [] ∧
      (runHistoryApp Ex.conv Ex.env HEx.pkgsH Ex.schema [HEx.qC]).2 = Ex.schema := by
  refine ⟨⟨("x".toList, "ab".toList), List.mem_cons_self, by decide, ⟨_, _, List.mem_cons_self, by decide⟩⟩, ?_, ?_, ?_⟩
  · unfold historyBroken
    rw [show HEx.qC = ⟨none, ["%import c".toList], []⟩ from rfl, historyStops_cons, HEx.loadStop_c, HEx.importStop_c]
    rfl
  · unfold historyImports
    rw [show HEx.qC = ⟨none, ["%import c".toList], []⟩ from rfl, historyStops_cons, HEx.loadStop_c, HEx.importStop_c]
    rfl
  · rw [runHistoryApp_cons, HEx.appAfterLoad_c]; rfl

/-- `C13_later_load_depends_only_on_leak` at work: after `%import p` the load `<leak/>` is the load against the fresh
    schema with `leak` added to `ab`'s table – rejected, the type itself is not there -/
example : load Ex.conv Ex.env Ex.pkgs (runHistoryApp Ex.conv Ex.env Ex.pkgs Ex.schema [HEx.qP]).2 none ["<leak/>".toList] [] =
    .error (synErr none 1 "start:unknown type name") := by
  rw [C13_later_load_depends_only_on_leak, C13_faithful_history_trace.1]
  exact HEx.load_app_use

/-! ### a later load that imports the leaking components itself -/

/-- **Corollary: importing first makes a load independent of the history.**  After ANY history on the schema object, take a
    load whose text starts with `%import` / `%define` / comment lines (`pre`) before anything else (`rest`: any lines).  If –
    whenever that head goes through on the FRESH schema – the head itself makes every `addsubtype` call the history made
    (it imports, before the first section, the components whose implementers leaked), then the load gives on the used
    schema object what it gives on the fresh schema: the same error, or the same value tree and handler entries (the
    schema the load ends with differs in the ORDER of implementer tables at most: `LoadEquiv`). -/
theorem C13_importing_first_absorbs_the_leak (conv : Conv) (env : Env) (pkgs : Str → Pkg) (s : Schema) (hist : List LoadReq)
    (url : Option Str) (pre rest specs : List Str) (hpre : ∀ l ∈ pre, HeaderLine l)
    (hcov : ∀ ps0 st1, loadInit conv pkgs s specs = .ok ps0 →
      runLines 64 env loaderCtx (activeOf url) url pre 0 ps0 = .ok st1 →
      ∀ ia ∈ historyRegs conv env pkgs s hist, ia ∈ (linesStop 64 env (activeOf url) url pre 0 ps0).regs) :
    LoadEquiv s.types.length (load conv env pkgs s url (pre ++ rest) specs)
      (load conv env pkgs (runHistoryApp conv env pkgs s hist).2 url (pre ++ rest) specs) := by
  rw [runHistoryApp_schema]
  exact load_absorbs conv env pkgs s _ url pre rest specs hpre
    (fun ps0 st1 h0 h1 => withImplementers_absorb s _ _ (hcov ps0 st1 h0 h1))

/-- … in terms of components: it is enough that the head of the later load reads, to its end, every component that some
    load of the history read (completely or up to where it broke off) -/
theorem C13_reimporting_components_absorbs_the_leak (conv : Conv) (env : Env) (pkgs : Str → Pkg) (s : Schema)
    (hist : List LoadReq) (url : Option Str) (pre rest specs : List Str) (hpre : ∀ l ∈ pre, HeaderLine l)
    (hcov : ∀ ps0 st1, loadInit conv pkgs s specs = .ok ps0 →
      runLines 64 env loaderCtx (activeOf url) url pre 0 ps0 = .ok st1 →
      ∀ p ∈ historyImports conv env pkgs s hist ++ historyBroken conv env pkgs s hist,
        p ∈ (linesStop 64 env (activeOf url) url pre 0 ps0).imports) :
    LoadEquiv s.types.length (load conv env pkgs s url (pre ++ rest) specs)
      (load conv env pkgs (runHistoryApp conv env pkgs s hist).2 url (pre ++ rest) specs) := by
  refine C13_importing_first_absorbs_the_leak conv env pkgs s hist url pre rest specs hpre ?_
  intro ps0 st1 h0 h1 ia hia
  obtain ⟨p, hp, hpi⟩ := historyRegs_pkg conv env pkgs s hist ia hia
  have hsrc : Sourced pkgs (linesStop 64 env (activeOf url) url pre 0 ps0) :=
    linesStop_inv (stopInv_sourced pkgs) env 64 _ _ _ _ ps0 (loadInit_ok conv pkgs s specs ps0 h0).2
  exact hsrc.complete p (hcov ps0 st1 h0 h1 p hp) ia hpi

/-- the corollary at work: after the history `%import p`, the load `%import p` / `<leak/>` – which imports the leaking
    component first – gives on the used schema object what it gives on the fresh one (it is accepted) -/
example : LoadEquiv Ex.schema.types.length
    (load Ex.conv Ex.env Ex.pkgs Ex.schema none (["%import p".toList] ++ ["<leak/>".toList]) [])
    (load Ex.conv Ex.env Ex.pkgs (runHistoryApp Ex.conv Ex.env Ex.pkgs Ex.schema [HEx.qP]).2 none
      (["%import p".toList] ++ ["<leak/>".toList]) []) := by
  refine C13_reimporting_components_absorbs_the_leak Ex.conv Ex.env Ex.pkgs Ex.schema [HEx.qP] none _ _ []
    (fun l hl => ?_) ?_
  · simp only [List.mem_cons, List.mem_nil_iff, or_false] at hl
    subst hl
    exact .inr (.inr ⟨_, HEx.shape_p⟩)
  · intro ps0 st1 h0 _ p hp
    rw [C13_faithful_history_trace.2.1, C13_faithful_history_trace.2.2] at hp
    have hl : loadStop Ex.conv Ex.env Ex.pkgs Ex.schema none ["%import p".toList] [] =
        linesStop 64 Ex.env (activeOf none) none ["%import p".toList] 0 ps0 := by
      unfold loadStop
      rw [h0]
    rw [← hl, HEx.loadStop_p]
    exact hp

/-- … and the hypothesis is needed: the load `%import q` / `<leak/>` does not import `p`, and differs
    (`C12_leak_admits_non_implementer`: accepted on the used object, rejected on the fresh one) -/
example : ¬ LoadEquiv Ex.schema.types.length
    (load Ex.conv Ex.env HEx.pkgsH Ex.schema none ["%import q".toList, "<leak/>".toList] [])
    (load Ex.conv Ex.env HEx.pkgsH HEx.schemaL none ["%import q".toList, "<leak/>".toList] []) := by
  obtain ⟨r, hr, _⟩ := HEx.load_twin_used
  rw [HEx.load_twin_fresh, hr]
  exact fun h => h

end ZCV.Props.C13
