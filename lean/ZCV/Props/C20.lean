import ZCV.Model.Logger
import ZCV.Model.LoggerSetup
import ZCV.Spec.Logger
import ZCV.Lemmas.LoggerReg
import ZCV.Lemmas.LoggerRegOps
import ZCV.Lemmas.LoggerDecision
import ZCV.Lemmas.LoggerSetup
import ZCV.Lemmas.LoggerSetupAll
import ZCV.Lemmas.LoggerSetupGen
import ZCV.Lemmas.LogFormat
import ZCV.Lemmas.LogFormatParse
import ZCV.Lemmas.LogTemplate
import ZCV.Lemmas.LogTemplateTokens
import ZCV.Lemmas.LogTemplateAccept
import ZCV.Lemmas.LogStrFormat
import ZCV.Lemmas.LogStrFormatPlain
import ZCV.Lemmas.LogStrFormatSpecs
/-!
# C20 — logger sections produce exactly the configured logging setup, once (decision logic)

* level names: `C20_level_spec`, `C20_level_range`, `C20_level_table`, `C20_level_case_insensitive`, `C20_level_names_any_case`
* `FileHandlerFactory.__init__`: `C20_std_stream_options_refused`, `C20_rotation_requires_old_files`,
  `C20_filehandler_decision_table`, `C20_filehandler_decision` (complete, one `↔` per outcome)
* registry of re-openable handlers, over all operation sequences: `C20_registry_invariant`, `C20_reopen_exactly_live`,
  `C20_close_exactly_live`, `C20_dropped_never_touched` (and the one-step `C20_closeFiles_closes_all_registered`)
* factory memoisation and logger set-up, about the hand-written model `ZCV/Model/LoggerSetup.lean` (NOT yet tied to the
  Python by the driver): `C20_factory_memo`, `C20_factory_idempotent`, `C20_logger_setup`, `C20_section_setup`,
  `C20_logger_setup_any`, `C20_configure_loggers`
* classic (`%`) log formats, about the model `ZCV/Model/LogFormat.lean` (CPython's `str % mapping`, the sample record of
  `FormatterFactory`, logging's validation pattern; compared by hand with the interpreter and the real loader, driver op
  still to be added): `C20_classic_accepts_iff`, `C20_classic_format_safe` (and `_for`, `_keyed`, `_wide`, `_typed`),
  `C20_classic_formatter_builds`, `C20_classic_accepted_items`, `C20_classic_accepts_iff_of_field`, `C20_classic_char_needs_range`,
  `C20_classic_str_limit_needed`, `C20_classic_bare_needs_printable` (the 4300-digit limit of int → decimal text of
  Python 3.12, also through a bare `%s`), `C20_classic_configured_safe`
* `template` / `safe-template` log formats (`string.Template`), about the model `ZCV/Model/LogTemplate.lean` (compared with
  the running `FormatterFactory`, `string.Template` and the real loader; driver op `logtpl`): `C20_template_scan_roundtrip`,
  `C20_template_scan_spec`, `C20_template_known_names`, `C20_template_accepts_iff`, `C20_template_format_safe` (and `_for`), `C20_template_formatter_builds`,
  `C20_template_format_iff`, `C20_template_errors`, `C20_template_configured_safe`, `C20_safe_template_accepts_all`,
  `C20_safe_template_never_raises`, `C20_safe_template_format_iff`, `C20_template_str_limit_needed`
* `format` log formats (`str.format` fields), about the model `ZCV/Model/LogStrFormat.lean` (load time:
  `string.Formatter().vformat` on the sample record + `logging.StrFormatStyle.validate`; run time: `str.format`; compared
  with the running `FormatterFactory`, `string.Formatter`, `str.format` and the real loader; driver op `logsfmt`):
  `C20_strformat_accepts_iff`, `C20_strformat_accepts_iff_plain`, `C20_strformat_spec_allowed`,
  `C20_strformat_format_safe_partial` (and `_for_partial`,
  `_wide_partial`: the plain formats — bare keys, no nested fields), `C20_strformat_formatter_builds`,
  `C20_strformat_errors`, `C20_strformat_configured_safe_partial`, `C20_strformat_stylist_safe_partial`, and the
  counterexamples — accepted formats that raise on ordinary records — `C20_strformat_index_needed`,
  `C20_strformat_attr_needed`, `C20_strformat_nested_needed`, `C20_strformat_char_needs_range`,
  `C20_strformat_str_limit_needed`
-/
namespace ZCV.Props.C20
open ZCV ZCV.Log ZCV.LogSetup

/-- the generated level table and bounds are the documented ones: the model of `logging_level` IS the documented function -/
theorem C20_level_spec (value : Str) : loggingLevel value = LogSpec.loggingLevel value := by
  unfold loggingLevel LogSpec.loggingLevel
  have ht : Gen.loggingLevels = LogSpec.levelNames.map (fun p => (p.1.toList, p.2)) := by decide
  have hlo : Gen.levelLo = 0 := rfl
  have hhi : Gen.levelHi = 50 := rfl
  rw [ht, hlo, hhi]
  simp only [List.find?_map]
  cases h : List.find? ((fun x => x.1 == lower value) ∘ fun p : String × Int => (p.1.toList, p.2)) LogSpec.levelNames with
  | some p =>
    have : List.find? (fun p : String × Int => p.1.toList == lower value) LogSpec.levelNames = some p := by
      simpa [Function.comp_def] using h
    simp [this]
  | none =>
    have : List.find? (fun p : String × Int => p.1.toList == lower value) LogSpec.levelNames = none := by
      simpa [Function.comp_def] using h
    simp only [Option.map_none, this]
    cases pyInt (lower value) with
    | none => rfl
    | some v =>
      simp only
      by_cases h1 : v < 0 <;> by_cases h2 : v > 50 <;> simp [h1, h2] <;> omega

/-- every accepted level lies in 0..50 -/
theorem C20_level_range (value : Str) (n : Int) (h : loggingLevel value = .ok n) : 0 ≤ n ∧ n ≤ 50 := by
  rw [C20_level_spec] at h
  unfold LogSpec.loggingLevel at h
  dsimp only at h
  split at h
  · rename_i p hp
    have hm := List.mem_of_find?_eq_some hp
    simp only [Except.ok.injEq] at h
    subst h
    simp only [LogSpec.levelNames, List.mem_cons, List.not_mem_nil, or_false] at hm
    rcases hm with h | h | h | h | h | h | h | h | h | h | h <;> (injection h with _ h2; subst h2; decide)
  · split at h
    · split at h
      · simp only [Except.ok.injEq] at h; subst h; assumption
      · cases h
    · cases h

/-- the standard streams refuse every rotation option, `delay` and `encoding` -/
theorem C20_std_stream_options_refused (o : FileOpts) (hp : o.path = "STDOUT".toList ∨ o.path = "STDERR".toList)
    (hopt : o.maxBytes ≠ 0 ∨ o.oldFiles ≠ 0 ∨ truthy o.when = true ∨ o.delay = true ∨ truthy o.encoding = true) :
    fileHandlerKind o = .error .valueError := by
  unfold fileHandlerKind
  rcases hp with hp | hp <;> rcases hopt with h | h | h | h | h <;> simp_all [Except.map] <;>
    (repeat' split) <;> simp_all

/-- rotation of a file requires `old-files` -/
theorem C20_rotation_requires_old_files (o : FileOpts) (hp1 : o.path ≠ "STDOUT".toList) (hp2 : o.path ≠ "STDERR".toList)
    (hrot : truthy o.when = true ∨ o.maxBytes ≠ 0 ∨ o.interval ≠ 0) (hold : o.oldFiles = 0) :
    fileHandlerKind o = .error .valueError := by
  unfold fileHandlerKind
  rcases hrot with h | h | h <;> simp_all

/-- after `closeFiles()` the registry is empty and every handler that was registered and alive is closed — for any
    history of create / drop / close / reopen / closeFiles operations -/
theorem C20_closeFiles_closes_all_registered (r : Reg) (h : H) (hm : h ∈ r.handlers) (hreg : r.registry.contains h.id = true)
    (ha : h.alive = true) :
    (stepReg r .closeFiles).registry = [] ∧ { h with closed := true } ∈ (stepReg r .closeFiles).handlers := by
  constructor
  · rfl
  · simp only [stepReg, List.mem_map]
    refine ⟨h, hm, ?_⟩
    have : (r.registry.contains h.id && h.alive) = true := by rw [hreg, ha]; rfl
    simp only [this, ↓reduceIte]

/-! ## Level names -/

/-- the level table and the bounds extracted from the running `datatypes.py` are exactly the documented ones
    (`critical`/`fatal` 50, `error` 40, `warn`/`warning` 30, `info` 20, `blather` 15, `debug` 10, `trace` 5, `all` 1,
    `notset` 0; integers 0..50) -/
theorem C20_level_table :
    Gen.loggingLevels = LogSpec.levelNames.map (fun p => (p.1.toList, p.2)) ∧ Gen.levelLo = 0 ∧ Gen.levelHi = 50 :=
  ⟨by decide, rfl, rfl⟩

/-- level spellings are case-insensitive: two spellings with the same `str.lower()` are treated alike (accepted with
    the same number, or both rejected) -/
theorem C20_level_case_insensitive (s t : Str) (h : lower s = lower t) : loggingLevel s = loggingLevel t := by
  unfold loggingLevel
  rw [h]

/-- every documented level name, in any mixture of upper and lower case, is accepted with its documented number -/
theorem C20_level_names_any_case (s : Str) (nm : String) (n : Int) (hmem : (nm, n) ∈ LogSpec.levelNames)
    (hs : lower s = nm.toList) : loggingLevel s = .ok n := by
  rw [C20_level_spec]
  unfold LogSpec.loggingLevel
  simp only [hs]
  simp only [LogSpec.levelNames, List.mem_cons, List.not_mem_nil, or_false, Prod.mk.injEq] at hmem
  rcases hmem with h | h | h | h | h | h | h | h | h | h | h <;> (obtain ⟨h1, h2⟩ := h; subst h1; subst h2; rfl)

example : loggingLevel "WaRnInG".toList = .ok 30 := by rfl
example : loggingLevel "Blather".toList = loggingLevel "BLATHER".toList := C20_level_case_insensitive _ _ (by decide)
example : loggingLevel " 50 ".toList = .ok 50 ∧ loggingLevel "51".toList = .error .valueError ∧
    loggingLevel "-1".toList = .error .valueError := ⟨by rfl, by rfl, by rfl⟩

/-! ## The registry of re-openable handlers, over every operation sequence -/

/-- In every state the registry can reach by any sequence of create / drop / close / reopenFiles / closeFiles operations:
    the handlers carry the ids `0..n-1` in creation order; the registry has no duplicates and lists ids in creation order;
    an id is registered exactly when it is the id of a created handler that is still referenced and not closed — in fact
    the registry IS the list of those ids. -/
theorem C20_registry_invariant (ops : List Op) :
    (runReg ops).handlers.map (·.id) = List.range (runReg ops).handlers.length ∧
    (runReg ops).registry.Nodup ∧
    (runReg ops).registry.Pairwise (· < ·) ∧
    (∀ i, i ∈ (runReg ops).registry ↔
      ∃ h ∈ (runReg ops).handlers, h.id = i ∧ h.alive = true ∧ h.closed = false) ∧
    (runReg ops).registry = ((runReg ops).handlers.filter (fun h => h.alive && !h.closed)).map (·.id) := by
  have hr := regInv_run ops
  have hsorted : (runReg ops).registry.Pairwise (· < ·) := by
    rw [hr.reg]
    have hsub : (((runReg ops).handlers.filter H.live).map (·.id)).Sublist ((runReg ops).handlers.map (·.id)) :=
      List.Sublist.map _ List.filter_sublist
    rw [hr.ids] at hsub
    exact List.Pairwise.sublist hsub List.pairwise_lt_range
  exact ⟨hr.ids, hsorted.imp (fun h => Nat.ne_of_lt h), hsorted, hr.mem_registry_iff, hr.reg⟩

example : (runReg [.create, .create, .create, .drop 0, .close 2, .reopenFiles]).registry = [1] := by decide
example : (runReg [.create, .create, .create, .drop 0, .close 2, .reopenFiles]).handlers =
    [⟨0, false, false, 0⟩, ⟨1, true, false, 1⟩, ⟨2, true, true, 0⟩] := by decide

/-- `reopenFiles()` after any history: the handlers that are still referenced and not closed (= the registered ones)
    get reopened exactly once, every other handler is left exactly as it was, and the registry is unchanged. -/
theorem C20_reopen_exactly_live (ops : List Op) :
    (stepReg (runReg ops) .reopenFiles).handlers =
      (runReg ops).handlers.map
        (fun h => if h.alive && !h.closed then { h with reopened := h.reopened + 1 } else h) ∧
    (stepReg (runReg ops) .reopenFiles).registry = (runReg ops).registry ∧
    (∀ h ∈ (runReg ops).handlers, (runReg ops).registry.contains h.id = (h.alive && !h.closed)) :=
  ⟨logreg_reopen_handlers (regInv_run ops), logreg_prune_eq (regInv_run ops),
   fun _ hm => (regInv_run ops).contains_iff hm⟩

/-- `closeFiles()` after any history: the handlers that are still referenced and not closed (= the registered ones)
    get closed, every other handler is left exactly as it was, the registry ends empty, and a second `closeFiles()` or
    a `reopenFiles()` right after changes nothing at all. -/
theorem C20_close_exactly_live (ops : List Op) :
    (stepReg (runReg ops) .closeFiles).handlers =
      (runReg ops).handlers.map (fun h => if h.alive && !h.closed then { h with closed := true } else h) ∧
    (stepReg (runReg ops) .closeFiles).registry = [] ∧
    stepReg (stepReg (runReg ops) .closeFiles) .closeFiles = stepReg (runReg ops) .closeFiles ∧
    stepReg (stepReg (runReg ops) .closeFiles) .reopenFiles = stepReg (runReg ops) .closeFiles :=
  ⟨logreg_close_handlers (regInv_run ops), rfl, logreg_closeFiles_of_empty rfl, logreg_reopenFiles_of_empty rfl⟩

example : (runReg [.create, .create, .drop 0, .closeFiles, .create, .reopenFiles]).handlers =
    [⟨0, false, false, 0⟩, ⟨1, true, true, 0⟩, ⟨2, true, false, 1⟩] := by decide

/-- A handler that was dropped (no longer referenced) or closed at some point is never touched again, whatever
    operations follow: it stays at its position with the same id, its reopen counter and its closed flag are frozen
    (so no later `reopenFiles`/`closeFiles` acts on it), it can at most lose its last reference, and it is never
    registered again. -/
theorem C20_dropped_never_touched (ops₁ ops₂ : List Op) (i : Nat) (h : H)
    (hi : (runReg ops₁).handlers[i]? = some h) (hdead : h.alive = false ∨ h.closed = true) :
    ∃ h', (runReg (ops₁ ++ ops₂)).handlers[i]? = some h' ∧
      h'.id = h.id ∧ h'.reopened = h.reopened ∧ h'.closed = h.closed ∧ (h'.alive = true → h.alive = true) ∧
      h.id ∉ (runReg (ops₁ ++ ops₂)).registry := by
  have hd : h.live = false := by
    unfold H.live
    rcases hdead with ha | hc
    · rw [ha]; rfl
    · rw [hc]; simp
  rw [runReg_append]
  obtain ⟨b, hb, hfz⟩ := logreg_foldl_dead ops₂ (regInv_run ops₁) i h hi hd
  refine ⟨b, hb, hfz.1, hfz.2.1, hfz.2.2.1, hfz.2.2.2, ?_⟩
  have hinv := regInv_foldl ops₂ (regInv_run ops₁)
  rw [← hfz.1]
  exact logreg_not_registered hinv (List.mem_of_getElem? hb) (H.frozenTo_live hfz hd)

example : (runReg [.create, .create, .drop 0]).handlers[0]? = some ⟨0, false, false, 0⟩ := by decide

/-! ## `FileHandlerFactory.__init__`: the complete decision -/

/-- The model of `FileHandlerFactory.__init__` equals the decision table `fileHandlerTable`: first the path
    (STDERR, STDOUT, a file), then the option combination. -/
theorem C20_filehandler_decision_table (o : FileOpts) : fileHandlerKind o = fileHandlerTable o := logdec_table o

/-- Each possible outcome of `FileHandlerFactory.__init__` is characterised exactly (`plainStd` = none of max-size,
    old-files, when, delay, encoding is given; `isStd` = the path is STDOUT or STDERR):
    * a stream handler on stderr / stdout: the path is STDERR / STDOUT and none of the five options is given;
    * a plain `FileHandler`: a file path, and none of when, max-size, old-files, interval;
    * a `RotatingFileHandler`: a file path, old-files and max-size given, when not;
    * a `TimedRotatingFileHandler` with interval `n`: a file path, old-files and when given, max-size not, and `n` is
      the configured interval (1 when not configured);
    * an error — always `ValueError` — in exactly the remaining cases: an option on a standard stream; rotation asked
      for (when, max-size or interval) without old-files; both when and max-size; old-files alone. -/
theorem C20_filehandler_decision (o : FileOpts) :
    (fileHandlerKind o = .ok .stderr ↔ o.path = "STDERR".toList ∧ o.plainStd) ∧
    (fileHandlerKind o = .ok .stdout ↔ o.path = "STDOUT".toList ∧ o.plainStd) ∧
    (fileHandlerKind o = .ok .plainFile ↔
      ¬ o.isStd ∧ truthy o.when = false ∧ o.maxBytes = 0 ∧ o.oldFiles = 0 ∧ o.interval = 0) ∧
    (fileHandlerKind o = .ok .rotating ↔ ¬ o.isStd ∧ truthy o.when = false ∧ o.maxBytes ≠ 0 ∧ o.oldFiles ≠ 0) ∧
    (∀ n, fileHandlerKind o = .ok (.timedRotating n) ↔
      ¬ o.isStd ∧ truthy o.when = true ∧ o.maxBytes = 0 ∧ o.oldFiles ≠ 0 ∧ n = o.effInterval) ∧
    (∀ e, fileHandlerKind o = .error e ↔
      e = .valueError ∧
      ((o.isStd ∧ ¬ o.plainStd) ∨
       (¬ o.isStd ∧ o.oldFiles = 0 ∧ (truthy o.when = true ∨ o.maxBytes ≠ 0 ∨ o.interval ≠ 0)) ∨
       (¬ o.isStd ∧ o.oldFiles ≠ 0 ∧ truthy o.when = true ∧ o.maxBytes ≠ 0) ∨
       (¬ o.isStd ∧ o.oldFiles ≠ 0 ∧ truthy o.when = false ∧ o.maxBytes = 0))) :=
  ⟨logdec_iff_stderr o, logdec_iff_stdout o, logdec_iff_plainFile o, logdec_iff_rotating o,
   logdec_iff_timedRotating o, logdec_iff_error o⟩

example : fileHandlerKind ⟨"/var/log/z.log".toList, 0, 7, some "midnight".toList, 0, none, true⟩ = .ok (.timedRotating 1) := by
  rfl
example : fileHandlerKind ⟨"/var/log/z.log".toList, 0, 7, none, 0, none, false⟩ = .error .valueError := by rfl

/-! ## Factory memoisation and logger set-up

The theorems of this section are about `ZCV/Model/LoggerSetup.lean`, a model written by hand from `factory.py`,
`logger.py` and `HandlerFactory.create`.  It is NOT yet compared with the running Python by the driver. -/

/-- `Factory.__call__`, for any subclass: a second call returns the same product and changes neither the factory nor
    anything else (`create` is not run again). -/
theorem C20_factory_memo {F α σ : Type} (getInst : F → Option α) (setInst : F → α → F) (create : F → σ → α × F × σ)
    (hgs : ∀ f a, getInst (setInst f a) = some a) (f : F) (w : σ) :
    factoryCall getInst setInst create (factoryCall getInst setInst create f w).2.1 (factoryCall getInst setInst create f w).2.2
      = factoryCall getInst setInst create f w :=
  lgs_factoryCall_idem getInst setInst create hgs f w

/-- Calling a logger factory (eventlog or logger section, in any state, in any logging world) a second time returns
    the same logger and leaves the factory and the whole logging world exactly as after the first call: no handler is
    added, no level or propagate flag is set again.  The same holds for handler factories. -/
theorem C20_factory_idempotent (f : LoggerFactory) (w : World) :
    (f.call w).2.1.call (f.call w).2.2 = f.call w ∧
    (∀ hf : HandlerFactory, (hf.call w).2.1.call (hf.call w).2.2 = hf.call w) :=
  ⟨lgs_call_idem f w, fun hf => lgs_handler_call_idem hf w⟩

/-- Calling a logger factory as the loader built it (nothing called yet), in a well-formed logging world: the call
    returns the logger of the configured name (the root logger for `<eventlog>`, for a `<logger>` without name and for
    the names "" and "root"); afterwards that logger has the configured level, the configured propagate flag (left
    alone by `<eventlog>`), and its handlers are the ones it had before followed by exactly one NEW handler object per
    handler section, in order, each carrying its section's settings — or by one new `NullHandler` when no handler
    section is configured; no other logger is touched. -/
theorem C20_logger_setup (f : LoggerFactory) (w : World) (hf : f.Fresh) (hw : w.WF) :
    (f.call w).1 = loggerKey f.name ∧
    ((f.call w).2.2.get (loggerKey f.name)).level = f.level ∧
    ((f.call w).2.2.get (loggerKey f.name)).propagate =
      (f.propagate.getD (w.get (loggerKey f.name)).propagate) ∧
    (∃ new, ((f.call w).2.2.get (loggerKey f.name)).handlers = (w.get (loggerKey f.name)).handlers ++ new ∧
      new.map (·.cfg) = (if f.handlerFactories.isEmpty then [none] else f.handlerFactories.map (fun hf => some hf.cfg)) ∧
      new.map (·.id) = List.range' w.nextId new.length) ∧
    (∀ k, k ≠ loggerKey f.name → (f.call w).2.2.get k = w.get k) ∧
    (f.call w).2.1.inst = some (loggerKey f.name) ∧
    (f.call w).2.2.WF := by
  obtain ⟨h1, h2, h3, h4, _, h6⟩ := lgs_call_fresh_wf f w hf hw
  refine ⟨h1, by rw [h3], by rw [h3], ⟨createdHandlers w.nextId f.handlerFactories, by rw [h3], ?_, ?_⟩, h4, by rw [h2], h6⟩
  · exact lgs_createdHandlers_cfg _ _
  · exact lgs_createdHandlers_ids _ _

/-- `C20_logger_setup` read off the sections: the factory the loader builds for a `<logger>` section (name, level,
    propagate, handler sections `hs`) — called in a well-formed world — returns the logger of that name, which then has
    that level and propagate flag and, after its old handlers, one new handler per handler section in order (a single
    `NullHandler` when `hs` is empty).  For an `<eventlog>` section the logger is the root logger and propagate is not
    touched. -/
theorem C20_section_setup (name : Option Str) (level : Int) (propagate : Bool) (hs : List HandlerCfg) (w : World) (hw : w.WF) :
    (let f := loggerFactoryOf name level propagate hs
     (f.call w).1 = loggerKey name ∧
     ((f.call w).2.2.get (loggerKey name)).level = level ∧
     ((f.call w).2.2.get (loggerKey name)).propagate = propagate ∧
     ∃ new, ((f.call w).2.2.get (loggerKey name)).handlers = (w.get (loggerKey name)).handlers ++ new ∧
       new.map (·.cfg) = (if hs.isEmpty then [none] else hs.map some)) ∧
    (let f := eventLogFactoryOf level hs
     (f.call w).1 = rootName ∧
     ((f.call w).2.2.get rootName).level = level ∧
     ((f.call w).2.2.get rootName).propagate = (w.get rootName).propagate ∧
     ∃ new, ((f.call w).2.2.get rootName).handlers = (w.get rootName).handlers ++ new ∧
       new.map (·.cfg) = (if hs.isEmpty then [none] else hs.map some)) := by
  have hmap : (if (hs.map handlerFactoryOf).isEmpty then [none] else (hs.map handlerFactoryOf).map (fun hf => some hf.cfg))
      = (if hs.isEmpty then [none] else hs.map some) := by
    cases hs with
    | nil => rfl
    | cons c t =>
      simp only [List.map_cons, List.isEmpty_cons, Bool.false_eq_true, ↓reduceIte, List.map_map, List.cons.injEq]
      exact ⟨rfl, List.map_congr_left (fun _ _ => rfl)⟩
  constructor
  · obtain ⟨h1, h2, h3, ⟨new, h4, h5, _⟩, _⟩ :=
      C20_logger_setup (loggerFactoryOf name level propagate hs) w (lgs_loggerFactoryOf_fresh name level propagate hs) hw
    exact ⟨h1, h2, h3, new, h4, h5.trans hmap⟩
  · obtain ⟨h1, h2, h3, ⟨new, h4, h5, _⟩, _⟩ :=
      C20_logger_setup (eventLogFactoryOf level hs) w (lgs_eventLogFactoryOf_fresh level hs) hw
    exact ⟨h1, h2, h3, new, h4, h5.trans hmap⟩

/-- The part of the set-up that needs no hypothesis at all: whatever the logging world and whatever the state of the
    handler factories (some may already have been called by the application), the first call of a logger factory
    returns the logger of the configured name, sets the configured level and propagate flag (`<eventlog>` leaves
    propagate alone), keeps the handlers the logger already had, in order, at the front, touches no other logger,
    leaves every handler factory with its memo filled and its product on the logger, and records the logger in the
    factory's memo.  A factory that was already called just returns its logger. -/
theorem C20_logger_setup_any (f : LoggerFactory) (w : World) :
    (f.inst = none →
      (f.call w).1 = loggerKey f.name ∧
      ((f.call w).2.2.get (loggerKey f.name)).level = f.level ∧
      ((f.call w).2.2.get (loggerKey f.name)).propagate = f.propagate.getD (w.get (loggerKey f.name)).propagate ∧
      (w.get (loggerKey f.name)).handlers <+: ((f.call w).2.2.get (loggerKey f.name)).handlers ∧
      (∀ k, k ≠ loggerKey f.name → (f.call w).2.2.get k = w.get k) ∧
      (f.call w).2.1.handlerFactories.map (·.cfg) = f.handlerFactories.map (·.cfg) ∧
      (f.handlerFactories ≠ [] → ∀ hf ∈ (f.call w).2.1.handlerFactories, ∃ h, hf.inst = some h ∧
        ∃ x ∈ ((f.call w).2.2.get (loggerKey f.name)).handlers, x.id = h.id) ∧
      (f.call w).2.1.inst = some (loggerKey f.name)) ∧
    (∀ n, f.inst = some n → f.call w = (n, f, w)) := by
  refine ⟨fun hi => ?_, fun n hn => lgs_call_called f w n hn⟩
  obtain ⟨hr, hinst⟩ := lgs_call_gen f w hi
  exact ⟨hr.name, hr.level, hr.propagate, hr.oldHandlers, hr.other, hr.sections, hr.products, hinst⟩

/-- a `<logger>` section `app.db`, level 20, propagate off, with two handler sections -/
def exLogger : LoggerFactory :=
  ⟨some "app.db".toList, 20, some false,
   [⟨⟨"FileHandler".toList, 10, "%(message)s".toList, "classic".toList, none⟩, none⟩,
    ⟨⟨"StreamHandler".toList, 30, "{message}".toList, "format".toList, none⟩, none⟩], none⟩
/-- an `<eventlog>` section, level 10, without handler sections -/
def exEventlog : LoggerFactory := ⟨none, 10, none, [], none⟩

example : exLogger.Fresh ∧ exEventlog.Fresh := by decide
example : World.WF ⟨[], 0⟩ := lgs_wf_empty 0
example : (exLogger.call ⟨[], 0⟩).1 = "app.db".toList ∧
    (exLogger.call ⟨[], 0⟩).2.2 =
      ⟨[("app.db".toList, ⟨20, false,
          [⟨0, some ⟨"FileHandler".toList, 10, "%(message)s".toList, "classic".toList, none⟩⟩,
           ⟨1, some ⟨"StreamHandler".toList, 30, "{message}".toList, "format".toList, none⟩⟩]⟩)], 2⟩ := by decide
example : (callAll [exLogger, exEventlog] ⟨[], 0⟩).2.get "root".toList = ⟨10, true, [⟨2, none⟩]⟩ := by decide
example : (exLogger.call ⟨[], 0⟩).2.1.call (exLogger.call ⟨[], 0⟩).2.2 = exLogger.call ⟨[], 0⟩ := by decide

/-- `configureLoggers`-style start-up: calling, in order, the fresh factories of sections that configure pairwise
    different loggers gives every one of these loggers its configured level, propagate flag and — after the handlers it
    already had — exactly one handler per handler section in order; loggers that are not configured are untouched;
    running the loop a second time changes nothing. -/
theorem C20_configure_loggers (fs : List LoggerFactory) (w : World) (hfresh : ∀ f ∈ fs, f.Fresh) (hw : w.WF)
    (hd : (fs.map (fun f => loggerKey f.name)).Nodup) :
    (∀ f ∈ fs,
      ((callAll fs w).2.get (loggerKey f.name)).level = f.level ∧
      ((callAll fs w).2.get (loggerKey f.name)).propagate =
        (f.propagate.getD (w.get (loggerKey f.name)).propagate) ∧
      ∃ new, ((callAll fs w).2.get (loggerKey f.name)).handlers = (w.get (loggerKey f.name)).handlers ++ new ∧
        new.map (·.cfg) = f.cfgs) ∧
    (∀ k, k ∉ fs.map (fun f => loggerKey f.name) → (callAll fs w).2.get k = w.get k) ∧
    callAll (callAll fs w).1 (callAll fs w).2 = callAll fs w := by
  obtain ⟨h1, h2, _⟩ := lgs_callAll_fresh fs w hfresh hw hd
  exact ⟨h1, h2, lgs_callAll_idem fs w⟩

/-! ## Classic (`%`) log formats: accepted at load time ⇒ the formatter can be built and formatting never raises

About `ZCV/Model/LogFormat.lean`: `parse` / `runItems` model CPython 3.12's `fmt % mapping` (exception classes
included), `accepts` models `FormatterFactory.__init__` for `style classic`, `arbitrary-fields off` and the default
formatter class: trial formatting of the sample record, then `logging.Formatter(fmt, datefmt, style='%')`. -/

open ZCV.LogFormat ZCV.LogFormatSpec ZCV.LogFormatLemmas in
/-- What the load-time check accepts, read off the format string.  A classic format (the empty format stands for
    `%(message)s`) is accepted exactly when
    * every item of the format is literal text, `%%`, a specifier `%(key)…c` whose key is a record attribute and whose
      conversion `c` is one the attribute's kind allows (`s r a` for everything, `d i u e E f F g G` for numbers,
      `o x X` for ints, `c` for level and line numbers only), or a single bare `%s` / `%r` / `%a` standing before every
      other specifier — with an absent or numeric width and precision (never `*`, width ≤ 2^63-1, precision ≤ 2^31-1,
      and ≤ 2^31-4 on an integer conversion); an incomplete specifier or an unknown conversion character is refused; and
    * logging's validation pattern `%\(\w+\)[#0+ -]*(\*|\d+)?(\.(\*|\d+))?[diouxefgcrsa%]` occurs in the format, which
      `logging.Formatter` requires (automatic as soon as there is a plain field: `C20_classic_accepts_iff_of_field`). -/
theorem C20_classic_accepts_iff (fmt : Str) :
    accepts fmt = true ↔
      ItemsAccepted true (parse (effective fmt)) ∧ validatorSearch (effective fmt) = true := by
  rw [lf_accepts_iff, lf_formatRun_sample]
  exact and_congr (lf_items_sample true _) Iff.rfl

open ZCV.LogFormat ZCV.LogFormatSpec ZCV.LogFormatLemmas in
/-- THE PROPERTY, as the formatter meets it.  A classic format accepted at load time (arbitrary-fields off) never raises
    when the formatter built from it formats an ordinary record: every attribute present — `asctime` only if the format
    uses the time, as `logging.Formatter.format` sets it only then — strings where the logging package puts strings,
    level and line numbers in `0 ≤ n < 0x110000`, thread and process ids in `0 ≤ n < 2^64`, finite time stamps, and no
    int of more than 4300 digits among the object-valued attributes (`args`, `exc_info`, …).  If the format has a
    specifier without `(key)` (a leading `%s`, which prints the whole attribute dictionary), `repr()` must work on every
    attribute of the record, also those the logging package does not know (`BareOk`; needed:
    `C20_classic_bare_needs_printable`). -/
theorem C20_classic_format_safe_for (fmt : Str) (h : accepts fmt = true) (r : Dict) (hr : OrdinaryFor fmt r)
    (hb : BareOk fmt r) : formatSafe fmt r = true := by
  rw [lf_formatSafe_iff]
  have ha := ((C20_classic_accepts_iff fmt).mp h).1
  obtain ⟨ok, hok, he⟩ := lf_formatRun_eq (effective fmt) r
  rw [he]
  refine lf_items_safe Kind.admitsWide (fun _ => True) lf_classCheck_admitsWide r _ ?_ ok (fun hx => hok.mpr (hb hx))
    true ha (fun it _ => lf_itemGood_true it)
  intro k kind hm hu
  obtain ⟨v, hv, hadm⟩ := lf_recordFor_used Kind.admits fmt r hr k kind hm hu
  exact ⟨v, hv, lf_admits_wide kind v hadm⟩

open ZCV.LogFormat ZCV.LogFormatSpec ZCV.LogFormatLemmas in
/-- THE PROPERTY: `accepts fmt → ∀ ordinary record r, formatSafe fmt r` (all attributes present, `asctime` included;
    with a leading bare `%s` in the format, every attribute of the record must print: `BareOk`). -/
theorem C20_classic_format_safe (fmt : Str) (h : accepts fmt = true) (r : Dict) (hr : Ordinary r) (hb : BareOk fmt r) :
    formatSafe fmt r = true :=
  C20_classic_format_safe_for fmt h r (fun k kind hm _ => hr k kind hm) hb

open ZCV.LogFormat ZCV.LogFormatSpec ZCV.LogFormatLemmas in
/-- THE PROPERTY for the formats one writes — every specifier has a `(key)`: accepted at load time → no ordinary record
    makes the formatter raise, whatever other attributes the record carries. -/
theorem C20_classic_format_safe_keyed (fmt : Str) (h : accepts fmt = true)
    (hk : ∀ it ∈ parse (effective fmt), isBare it = false) (r : Dict) (hr : Ordinary r) :
    formatSafe fmt r = true :=
  C20_classic_format_safe fmt h r hr (fun ⟨it, hm, hbare⟩ => by rw [hk it hm] at hbare; cases hbare)

open ZCV.LogFormat ZCV.LogFormatSpec ZCV.LogFormatLemmas in
/-- The same under the weakest hypothesis on the record: the string-valued and object-valued attributes may hold
    anything that prints — anything but an int of more than 4300 decimal digits, on which `str()` / `repr()` raise
    ValueError in Python 3.12 (needed: `C20_classic_str_limit_needed`); thread and process ids may be any int that
    converts to `float` (such an int has at most 309 digits); what else is needed is: level and line numbers are ints in
    `0 ≤ n < 0x110000`, time stamps are finite floats (and `asctime` is there if the format uses the time). -/
theorem C20_classic_format_safe_wide (fmt : Str) (h : accepts fmt = true) (r : Dict) (hr : OrdinaryWide fmt r)
    (hb : BareOk fmt r) : formatSafe fmt r = true := by
  rw [lf_formatSafe_iff]
  have ha := ((C20_classic_accepts_iff fmt).mp h).1
  obtain ⟨ok, hok, he⟩ := lf_formatRun_eq (effective fmt) r
  rw [he]
  exact lf_items_safe Kind.admitsWide (fun _ => True) lf_classCheck_admitsWide r _
    (lf_recordFor_used Kind.admitsWide fmt r hr) ok (fun hx => hok.mpr (hb hx)) true ha (fun it _ => lf_itemGood_true it)

open ZCV.LogFormat ZCV.LogFormatSpec ZCV.LogFormatLemmas in
/-- An accepted format that does not use `%c` is safe on every record with the right TYPES: level and line numbers
    may then be any ints (that convert to `float`), not only code points. -/
theorem C20_classic_format_safe_typed (fmt : Str) (h : accepts fmt = true)
    (hc : ∀ it ∈ parse (effective fmt), noCharConv it) (r : Dict) (hr : OrdinaryTyped fmt r) (hb : BareOk fmt r) :
    formatSafe fmt r = true := by
  rw [lf_formatSafe_iff]
  have ha := ((C20_classic_accepts_iff fmt).mp h).1
  obtain ⟨ok, hok, he⟩ := lf_formatRun_eq (effective fmt) r
  rw [he]
  refine lf_items_safe Kind.admitsTyped (· ≠ .char) lf_classCheck_admitsTyped r _
    (lf_recordFor_used Kind.admitsTyped fmt r hr) ok (fun hx => hok.mpr (hb hx)) true ha (fun it hm => ?_)
  have := hc it hm
  cases it with
  | field key fl w p lm conv =>
    cases conv with
    | none => trivial
    | some c =>
      intro cls hcls hch
      subst hch
      exact this hcls
  | _ => trivial

open ZCV.LogFormat in
/-- An accepted format can be used to build the formatter: `FormatterFactory.__call__`
    (= `logging.Formatter(fmt, datefmt, style='%')`, which validates the format) does not raise. -/
theorem C20_classic_formatter_builds (fmt : Str) (h : accepts fmt = true) : buildFormatter fmt = .ok () := by
  unfold accepts loadCheck at h
  cases hr : formatRunTable (effective fmt) sampleVars with
  | error e => simp [hr] at h
  | ok u =>
    simp only [hr] at h
    cases hb : buildFormatter fmt with
    | error e => simp [hb] at h
    | ok u => rfl

open ZCV.LogFormat ZCV.LogFormatSpec ZCV.LogFormatLemmas in
/-- Every item of an accepted format is an accepted item (literal, `%%`, known attribute with an allowed conversion,
    or the leading bare `%s`): in particular no `*`, no unknown attribute, no incomplete specifier. -/
theorem C20_classic_accepted_items (fmt : Str) (h : accepts fmt = true) :
    ∀ it ∈ parse (effective fmt), ∃ first, ItemAccepted first it :=
  lf_itemsAccepted_mem true _ ((C20_classic_accepts_iff fmt).mp h).1

open ZCV.LogFormat ZCV.LogFormatSpec ZCV.LogFormatLemmas in
/-- For every format with at least one plain field — `%(key)…c` without a length modifier and with an absent or nonzero
    precision, i.e. every format one would write — the validation by `logging.Formatter` is automatic, and acceptance
    is exactly the item-by-item condition: literal text, `%%`, known attributes with conversions their kind allows
    (and possibly one leading bare `%s`). -/
theorem C20_classic_accepts_iff_of_field (fmt : Str) (hf : ∃ it ∈ parse (effective fmt), plainKeyed it) :
    accepts fmt = true ↔ ItemsAccepted true (parse (effective fmt)) := by
  rw [C20_classic_accepts_iff]
  exact ⟨fun h => h.1, fun h => ⟨h, lf_validatorSearch_of_plainKeyed _ h hf⟩⟩

open ZCV.LogFormat ZCV.LogFormatLemmas in
/-- The range in `C20_classic_format_safe` is needed: `%(lineno)c` IS accepted at load time (the sample line number is
    1), and formatting raises (OverflowError) for every record whose line number is not a code point. -/
theorem C20_classic_char_needs_range (n : Int) (hn : n < 0 ∨ 0x110000 ≤ n) (r : Dict)
    (hr : r "lineno".toList = some (.int n)) :
    accepts "%(lineno)c".toList = true ∧ formatSafe "%(lineno)c".toList r = false ∧
    formatRun "%(lineno)c".toList r = .error .overflowError := by
  have hp : parse (effective "%(lineno)c".toList) =
      [.field (some "lineno".toList) [] .absent .absent none (some 'c')] := by decide +kernel
  have hc : classOf 'c' = some .char := by decide +kernel
  have hm : ¬ (0 ≤ n ∧ n ≤ maxUnicode) := by simp only [maxUnicode]; omega
  have hrun : formatRun (effective "%(lineno)c".toList) r = .error .overflowError := by
    obtain ⟨ok, _, he⟩ := lf_formatRun_eq (effective "%(lineno)c".toList) r
    rw [he, hp]
    simp only [runItems, evalItem, hr, evalWidth, evalPrec, argCheck, convCheck, hc, classCheck, hm, if_false]
  refine ⟨by decide +kernel, ?_, hrun⟩
  unfold formatSafe
  rw [hrun]

open ZCV.LogFormat ZCV.LogFormatLemmas in
/-- The 4300-digit bound in `C20_classic_format_safe_wide` is needed (the classic mirror of
    `C20_template_str_limit_needed`): `%(process)d` and `%(process)s` ARE accepted at load time (the sample process id is
    4000000), and formatting raises ValueError ("Exceeds the limit (4300 digits) for integer string conversion") for
    every record whose `process` is an int of more than 4300 decimal digits, of either sign — while `%(process)x` works
    on every int: the hexadecimal, octal conversions are not limited. -/
theorem C20_classic_str_limit_needed (n : Int) (hn : 10 ^ 4300 ≤ n.natAbs) (r : Dict)
    (hr : r "process".toList = some (.int n)) :
    accepts "%(process)d".toList = true ∧ accepts "%(process)s".toList = true ∧ accepts "%(process)x".toList = true ∧
    formatRun "%(process)d".toList r = .error .valueError ∧ formatSafe "%(process)d".toList r = false ∧
    formatRun "%(process)s".toList r = .error .valueError ∧ formatSafe "%(process)s".toList r = false ∧
    formatSafe "%(process)x".toList r = true := by
  have hpd : parse (effective "%(process)d".toList) =
      [.field (some "process".toList) [] .absent .absent none (some 'd')] := by decide +kernel
  have hps : parse (effective "%(process)s".toList) =
      [.field (some "process".toList) [] .absent .absent none (some 's')] := by decide +kernel
  have hpx : parse (effective "%(process)x".toList) =
      [.field (some "process".toList) [] .absent .absent none (some 'x')] := by decide +kernel
  have hcd : classOf 'd' = some .dec := by decide +kernel
  have hcs : classOf 's' = some .text := by decide +kernel
  have hcx : classOf 'x' = some .radix := by decide +kernel
  have hs : strCheck (.int n) = .error .valueError := by
    have h1 : strCheck (.int n) = if n.natAbs < 10 ^ intMaxStrDigits then .ok () else .error .valueError := rfl
    have h2 : intMaxStrDigits = 4300 := rfl
    rw [h1, h2, if_neg (by omega)]
  have hd : formatRun (effective "%(process)d".toList) r = .error .valueError := by
    obtain ⟨ok, _, he⟩ := lf_formatRun_eq (effective "%(process)d".toList) r
    rw [he, hpd]
    simp only [runItems, evalItem, hr, evalWidth, evalPrec, argCheck, convCheck, hcd, classCheck, decCheck, precCheck, hs]
  have hst : formatRun (effective "%(process)s".toList) r = .error .valueError := by
    obtain ⟨ok, _, he⟩ := lf_formatRun_eq (effective "%(process)s".toList) r
    rw [he, hps]
    simp only [runItems, evalItem, hr, evalWidth, evalPrec, argCheck, convCheck, hcs, classCheck, hs]
  have hx : formatRun (effective "%(process)x".toList) r = .ok () := by
    obtain ⟨ok, _, he⟩ := lf_formatRun_eq (effective "%(process)x".toList) r
    rw [he, hpx]
    simp only [runItems, evalItem, hr, evalWidth, evalPrec, argCheck, convCheck, hcx, classCheck, precCheck]
  refine ⟨by decide +kernel, by decide +kernel, by decide +kernel, hd, ?_, hst, ?_, ?_⟩
  · unfold formatSafe; rw [hd]
  · unfold formatSafe; rw [hst]
  · unfold formatSafe; rw [hx]

open ZCV.LogFormat ZCV.LogFormatSpec ZCV.LogFormatLemmas in
/-- The hypothesis `BareOk` of `C20_classic_format_safe` is needed: `%s %(message)s` IS accepted at load time (the
    leading `%s` prints the whole attribute dictionary of the record), and formatting raises ValueError for every
    record that carries, under ANY name (say through `extra=`), an int of more than 4300 decimal digits. -/
theorem C20_classic_bare_needs_printable (r : Dict) (k : Str) (n : Int) (hr : r k = some (.int n))
    (hn : 10 ^ 4300 ≤ n.natAbs) :
    accepts "%s %(message)s".toList = true ∧ formatRun "%s %(message)s".toList r = .error .valueError ∧
    formatSafe "%s %(message)s".toList r = false := by
  have hp : parse (effective "%s %(message)s".toList) =
      [.field none [] .absent .absent none (some 's'), .lit " ".toList,
       .field (some "message".toList) [] .absent .absent none (some 's')] := by decide +kernel
  have hcs : classOf 's' = some .text := by decide +kernel
  have hrun : formatRun (effective "%s %(message)s".toList) r = .error .valueError := by
    obtain ⟨ok, hok, he⟩ := lf_formatRun_eq (effective "%s %(message)s".toList) r
    have hf : ok = false := by
      cases ok with
      | false => rfl
      | true =>
        have hpr : Prints (.int n) := hok.mp rfl k _ hr
        simp only [Prints] at hpr
        omega
    subst hf
    rw [he, hp]
    simp only [runItems, evalItem, stOf, if_true, evalWidth, evalPrec, argCheck, convCheck, hcs, classCheck, strCheck,
      Bool.false_eq_true, if_false]
  refine ⟨by decide +kernel, hrun, ?_⟩
  unfold formatSafe
  rw [hrun]

open ZCV.LogFormat ZCV.LogFormatSpec in
/-- From the configuration text: the `escaped_string` datatype turns `\n \t \b \f \r` into control characters, the
    result is what is checked at load time and what the formatter uses. -/
theorem C20_classic_configured_safe (raw : Str) (h : acceptsConfigured raw = true) (r : Dict) (hr : Ordinary r)
    (hb : BareOk (ctrlCharInsert raw) r) : formatSafe (ctrlCharInsert raw) r = true :=
  C20_classic_format_safe _ h r hr hb

section ClassicExamples
open ZCV.LogFormat ZCV.LogFormatSpec ZCV.LogFormatLemmas

example : parse "a%%b %(name)-10.3s%".toList =
    [.lit "a".toList, .percent, .lit "b ".toList,
     .field (some "name".toList) "-".toList (.num 10) (.num 3) none (some 's'),
     .field none [] .absent .absent none none] := by decide +kernel
example : accepts "%(asctime)s %(levelname)-8s [%(name)s:%(lineno)04d] %(message)s".toList = true := by decide +kernel
example : accepts [] = true ∧ acceptsConfigured "a\\nb\\t%(message)s".toList = true := by decide +kernel
/-- an instance of `C20_classic_accepts_iff_of_field` -/
example : ∃ it ∈ parse (effective "%(levelname)s: %(message)s".toList), plainKeyed it :=
  ⟨.field (some "message".toList) [] .absent .absent none (some 's'), by decide +kernel, Or.inl rfl⟩
/-- the fixes 28f8055 and 44cc666: a format without a field, and `%c` on thread / process ids, are refused -/
example : accepts "hello".toList = false ∧ accepts "%(thread)c".toList = false ∧ accepts "%(process)c".toList = false := by
  decide +kernel
example : formatRun "hello".toList sampleDict = .ok () ∧ buildFormatter "hello".toList = .error .valueError := by
  decide +kernel
/-- a bare `%s` formats the whole attribute dictionary, once; a length modifier hides a field from logging's validation -/
example : accepts "%s %(message)s".toList = true ∧ accepts "%(message)s %s".toList = false ∧
    accepts "%(message)ls".toList = false ∧ accepts "%%(x)s".toList = true := by decide +kernel
example : loadCheck "%(nosuchfield)s".toList = .error .keyError ∧ loadCheck "%(name)d".toList = .error .typeError ∧
    loadCheck "%(message)".toList = .error .valueError ∧ loadCheck "%(levelno)*d".toList = .error .typeError ∧
    loadCheck "%(thread)c".toList = .error .overflowError := by decide +kernel

/-- a record as `logger.warning("disk %s full", "sda")` at line 1207 of `/srv/x.py` produces it -/
def exRecordTable : List (Str × Value) :=
  [("name".toList, .str "x".toList), ("msg".toList, .str "disk %s full".toList), ("args".toList, .other),
   ("levelname".toList, .str "WARNING".toList), ("levelno".toList, .int 30), ("pathname".toList, .str "/srv/x.py".toList),
   ("filename".toList, .str "x.py".toList), ("module".toList, .str "x".toList), ("exc_info".toList, .none),
   ("exc_text".toList, .none), ("stack_info".toList, .none), ("lineno".toList, .int 1207), ("funcName".toList, .str "f".toList),
   ("created".toList, .float .finite), ("msecs".toList, .float .finite), ("relativeCreated".toList, .float .finite),
   ("thread".toList, .int 139872345061184), ("threadName".toList, .str "MainThread".toList),
   ("processName".toList, .str "MainProcess".toList), ("process".toList, .int 4194304), ("taskName".toList, .none),
   ("asctime".toList, .str "2026-09-29 10:00:00,123".toList), ("message".toList, .str "disk sda full".toList)]

/-- the hypotheses of `C20_classic_format_safe` are satisfiable -/
example : Ordinary (lookup exRecordTable) ∧ accepts "%(levelno)c %(name)s %(thread)x %(created).3f".toList = true :=
  ⟨lf_ordinary_of_table _ (by decide +kernel), by decide +kernel⟩
example : formatSafe "%(levelno)c %(name)s %(thread)x %(created).3f".toList (lookup exRecordTable) = true := by
  decide +kernel
/-- the same record without `asctime`, as a formatter whose format does not use the time sees it -/
example : OrdinaryFor "%(levelname)s %(message)s".toList (lookup (exRecordTable.filter (fun p => p.1 != "asctime".toList))) ∧
    lookup (exRecordTable.filter (fun p => p.1 != "asctime".toList)) "asctime".toList = none :=
  ⟨lf_ordinaryFor_of_table _ _ (by decide +kernel), by decide +kernel⟩
/-- `%(name)c` would be fine on this record (one-letter logger name) but is refused: the sample name is longer -/
example : formatSafe "%(name)c".toList (lookup exRecordTable) = true ∧ accepts "%(name)c".toList = false := by
  decide +kernel
/-- the hypothesis `BareOk`: nothing to show for a format whose specifiers all have a key; for a format with a leading
    bare `%s` the example record prints, and formatting works (`formatSafeTable` is the executable form of `formatSafe`
    for a record given as a table) -/
example (r : Dict) : BareOk "%(levelname)s %(message)s".toList r :=
  fun ⟨it, hm, hb⟩ => by
    have : ∀ it ∈ parse (effective "%(levelname)s %(message)s".toList), isBare it = false := by decide +kernel
    rw [this it hm] at hb; cases hb
example : BareOk "%s %(message)s".toList (lookup exRecordTable) ∧ accepts "%s %(message)s".toList = true ∧
    formatSafe "%s %(message)s".toList (lookup exRecordTable) = true :=
  ⟨fun _ => lf_printable_of_table _ (by decide +kernel), by decide +kernel, by rw [lf_formatSafe_table]; decide +kernel⟩
/-- the 4300-digit limit, at its boundary: `10^4300 - 1` (4300 digits) and its negative are converted by `%d` and `%s`,
    `10^4300` (4301 digits) is refused with ValueError, `%x` takes it; the hypotheses of `C20_classic_str_limit_needed`
    and `C20_classic_bare_needs_printable` hold for it -/
example : formatRunTable "%(process)d".toList [("process".toList, .int (10 ^ 4300 - 1))] = .ok () ∧
    formatRunTable "%(process)5.3s".toList [("process".toList, .int (-(10 ^ 4300 - 1)))] = .ok () ∧
    formatRunTable "%(process)d".toList [("process".toList, .int (10 ^ 4300))] = .error .valueError ∧
    formatRunTable "%(process)r".toList [("process".toList, .int (-(10 ^ 4300)))] = .error .valueError ∧
    formatRunTable "%(process)#x".toList [("process".toList, .int (10 ^ 4300))] = .ok () ∧
    formatRunTable "%(process)f".toList [("process".toList, .int (10 ^ 4300))] = .error .overflowError ∧
    formatRunTable "%(process).2147483645d".toList [("process".toList, .int (10 ^ 4300))] = .error .overflowError ∧
    formatRunTable "%s".toList [("x".toList, .int (10 ^ 4300))] = .error .valueError ∧
    formatRunTable "%d".toList [("x".toList, .int (10 ^ 4300))] = .error .typeError := by decide +kernel
example : (10 : Nat) ^ 4300 ≤ ((10 : Int) ^ 4300).natAbs ∧ (10 : Nat) ^ 4300 ≤ (-(10 : Int) ^ 4300).natAbs := by
  decide +kernel

end ClassicExamples

/-! ## `template` and `safe-template` log formats (`string.Template`)

About `ZCV/Model/LogTemplate.lean`: `scan` models `string.Template.pattern.finditer` (CPython 3.12), `substitute` /
`safeSubstitute` which calls of `Template.substitute` / `safe_substitute` raise, `acceptsTemplate` / `acceptsSafeTemplate`
model `FormatterFactory.__init__` for `style template` / `style safe-template` with `arbitrary-fields off` and the default
formatter class (trial formatting of the sample record, then `logging.Formatter(fmt, datefmt, style='$')`, which runs
`logging.StringTemplateStyle.validate`; for `safe-template` `validate=False` and the stylist swapped in), and
`formatTemplate` / `formatSafeTemplate` model `logging.Formatter.formatMessage` on a record at run time. -/

section Template
open ZCV.LogFormat ZCV.LogTemplate ZCV.LogTemplateSpec ZCV.LogTemplateLemmas

/-- The scanner loses nothing and reads nothing twice: the source texts of the pieces of a template (literal runs,
    `$$`, `$name`, `${name}`, invalid `$`), put one after the other, are the format string itself. -/
theorem C20_template_scan_roundtrip (fmt : Str) : (scan fmt).flatMap Piece.text = fmt := lt_scan_text fmt

/-- The scanner is `string.Template`'s pattern, stated without any scanning order or fuel: `scan fmt` is the ONE way of
    cutting `fmt` into maximal `$`-free literal runs, `$$`, `$identifier` with the longest identifier
    (`[_a-zA-Z][_a-zA-Z0-9]*`, ASCII only), `${identifier}`, and — only where none of these three starts — an invalid `$`
    after which scanning resumes at the very next character. -/
theorem C20_template_scan_spec (fmt : Str) (ps : List Piece) : Tokens fmt ps ↔ ps = scan fmt :=
  ⟨fun h => (lt_tokens_scan h).symm, fun h => h ▸ lt_scan_tokens fmt.length fmt (Nat.le_refl _)⟩

/-- The literal list `knownNames` of the model is the key list of the sample record `FormatterFactory` formats (the
    same record as for the classic style), and a name is known exactly when the sample record has it. -/
theorem C20_template_known_names :
    knownNames = sampleVars.map (·.1) ∧ ∀ k, k ∈ knownNames ↔ ∃ v, sampleDict k = some v :=
  ⟨knownNames_eq, lt_sample_known⟩

/-- What `style template` accepts at load time (arbitrary-fields off), read off the format string.  A format (the empty
    format stands for `${message}`) is accepted exactly when it has no invalid `$` (a `$` followed by neither `$`, an
    identifier nor `{identifier}`), every `$name` / `${name}` names an attribute of the sample record — the `LogRecord`
    attributes of Python 3.12, `asctime` and `message` — and there is at least one such placeholder
    (`logging.Formatter` refuses a format without fields). -/
theorem C20_template_accepts_iff (fmt : Str) :
    acceptsTemplate fmt = true ↔
      Piece.invalid ∉ scan (effectiveTemplate fmt) ∧
      (∀ n ∈ refs (scan (effectiveTemplate fmt)), n ∈ knownNames) ∧
      refs (scan (effectiveTemplate fmt)) ≠ [] := by
  rw [lt_templateAccepted_iff]
  exact ⟨fun h => ⟨h.noInvalid, h.known, h.hasField⟩, fun h => ⟨h.1, h.2.1, h.2.2⟩⟩

/-- THE PROPERTY for `style template`, as the formatter meets it: a format accepted at load time never raises when the
    formatter built from it formats a record that has the known attributes with printable values — `asctime` only if the
    format uses the time (`$asctime` or `${asctime}` occurs in it), as `logging.Formatter.format` sets it only then. -/
theorem C20_template_format_safe_for (fmt : Str) (h : acceptsTemplate fmt = true) (r : Dict) (hr : HasKnownFor fmt r) :
    formatTemplate fmt r = .ok () := by
  have ha := (lt_templateAccepted_iff fmt).mp h
  rw [lt_formatTemplate_ok, lt_substitute_ok]
  exact ⟨ha.noInvalid, fun n hn => hr n (ha.known n hn) (fun he => lt_usesTime_of_ref fmt (he ▸ hn))⟩

/-- THE PROPERTY for `style template`: accepted at load time → every record that has all the known attributes (with
    values whose `str()` works) formats without raising. -/
theorem C20_template_format_safe (fmt : Str) (h : acceptsTemplate fmt = true) (r : Dict) (hr : HasKnown r) :
    formatTemplate fmt r = .ok () :=
  C20_template_format_safe_for fmt h r (fun k hk _ => hr k hk)

/-- An accepted `template` format can be used to build the formatter: `FormatterFactory.__call__`
    (= `logging.Formatter(fmt, datefmt, style='$')`, which validates the format) does not raise; for `safe-template`
    building the formatter never raises at all. -/
theorem C20_template_formatter_builds (fmt : Str) (h : acceptsTemplate fmt = true) :
    buildTemplateFormatter fmt = .ok () ∧ buildSafeTemplateFormatter fmt = .ok () :=
  ⟨((lt_acceptsTemplate_iff fmt).mp h).2, rfl⟩

/-- Run time, `style template`, for ANY format and record: formatting works exactly when the format has no invalid `$`
    and every name it refers to is an attribute of the record whose `str()` works. -/
theorem C20_template_format_iff (fmt : Str) (r : Dict) :
    formatTemplate fmt r = .ok () ↔
      Piece.invalid ∉ scan (effectiveTemplate fmt) ∧
      ∀ n ∈ refs (scan (effectiveTemplate fmt)), ∃ v, r n = some v ∧ StrOk v := by
  rw [lt_formatTemplate_ok, lt_substitute_ok]

/-- The exception classes: the load-time check of `style template` raises ValueError (a configuration error) or KeyError
    (an unknown name; it escapes from the loader as it is) and nothing else; at run time the formatter only ever raises
    ValueError (`logging` turns the KeyError into one), and so does `safe-template`. -/
theorem C20_template_errors (fmt : Str) (e : PyErr) :
    (loadCheckTemplate fmt = .error e → e = .valueError ∨ e = .keyError) ∧
    (∀ r, formatTemplate fmt r = .error e → e = .valueError) ∧
    (∀ r, formatSafeTemplate fmt r = .error e → e = .valueError) := by
  refine ⟨fun h => ?_, fun r h => ?_, fun r h => lt_safeSubstitute_error _ r e h⟩
  · unfold loadCheckTemplate buildTemplateFormatter at h
    cases hs : substitute (effectiveTemplate fmt) sampleDict with
    | error e' =>
      simp only [hs, Except.error.injEq] at h
      subst h
      exact lt_substitute_error _ _ _ hs
    | ok u =>
      simp only [hs] at h
      unfold validate at h
      split at h
      · injection h with h; exact .inl h.symm
      · split at h
        · injection h with h; exact .inl h.symm
        · cases h
  · unfold formatTemplate at h
    cases hs : substitute (effectiveTemplate fmt) r with
    | ok u => simp [hs] at h
    | error e' =>
      rcases lt_substitute_error _ _ _ hs with he | he <;> subst he <;> simp only [hs, Except.error.injEq] at h <;>
        exact h.symm

/-- From the configuration text: the `escaped_string` datatype turns `\n \t \b \f \r` into control characters, the
    result is what is checked at load time and what the formatter uses. -/
theorem C20_template_configured_safe (raw : Str) (h : acceptsTemplateConfigured raw = true) (r : Dict) (hr : HasKnown r) :
    formatTemplate (ctrlCharInsert raw) r = .ok () :=
  C20_template_format_safe _ h r hr

/-- `style safe-template` accepts every format at load time: the trial `safe_substitute` of the sample record cannot
    raise and the formatter is built without validation. -/
theorem C20_safe_template_accepts_all (fmt : Str) :
    acceptsSafeTemplate fmt = true ∧ acceptsSafeTemplateConfigured fmt = true :=
  ⟨lt_acceptsSafeTemplate fmt, lt_acceptsSafeTemplate _⟩

/-- THE PROPERTY for `style safe-template`: whatever the format and whatever attributes the record has or lacks,
    formatting never raises — provided `str()` works on the values the record does have (see
    `C20_template_str_limit_needed` for why this proviso cannot be dropped). -/
theorem C20_safe_template_never_raises (fmt : Str) (r : Dict) (hr : Printable r) : formatSafeTemplate fmt r = .ok () :=
  (lt_safeSubstitute_ok _ _).mpr (fun n _ v hv => hr n v hv)

/-- Run time, `style safe-template`, exactly: formatting works iff `str()` works on the value of every attribute the
    format refers to and the record has. -/
theorem C20_safe_template_format_iff (fmt : Str) (r : Dict) :
    formatSafeTemplate fmt r = .ok () ↔
      ∀ n ∈ refs (scan (effectiveTemplate fmt)), ∀ v, r n = some v → StrOk v :=
  lt_safeSubstitute_ok _ _

/-- The proviso on `str()` is needed, for both styles: `$levelno` is accepted at load time, and formatting raises
    ValueError for every record whose level number is an int of more than 4300 digits (Python 3.12 refuses to convert
    it; `safe_substitute` only catches KeyError). -/
theorem C20_template_str_limit_needed (n : Int) (hn : 10 ^ 4300 ≤ n.natAbs) (r : Dict)
    (hr : r "levelno".toList = some (.int n)) :
    acceptsTemplate "$levelno".toList = true ∧ acceptsSafeTemplate "$levelno".toList = true ∧
    formatTemplate "$levelno".toList r = .error .valueError ∧
    formatSafeTemplate "$levelno".toList r = .error .valueError := by
  have hp : scan (effectiveTemplate "$levelno".toList) = [.named "levelno".toList] := by decide +kernel
  have hm : ¬ n.natAbs < 10 ^ intMaxStrDigits := by simp only [intMaxStrDigits]; omega
  refine ⟨by decide +kernel, lt_acceptsSafeTemplate _, ?_, ?_⟩
  · unfold formatTemplate substitute
    rw [hp]
    simp only [runPieces, substPiece, hr, strCheck, hm, if_false]
  · unfold formatSafeTemplate safeSubstitute
    rw [hp]
    simp only [runPieces, safePiece, hr, strCheck, hm, if_false]

example : scan "$$a $name-${levelno}x $ ${9} $é".toList =
    [.escaped, .lit "a ".toList, .named "name".toList, .lit "-".toList, .braced "levelno".toList, .lit "x ".toList,
     .invalid, .lit " ".toList, .invalid, .lit "{9} ".toList, .invalid, .lit "é".toList] := by decide +kernel
/-- ASCII only: `ſ` (U+017F), the Kelvin sign (U+212A) and `é` end an identifier although the pattern is compiled with
    IGNORECASE -/
example : scan "$nameſ ${level\u212A}".toList =
    [.named "name".toList, .lit "ſ ".toList, .invalid, .lit "{level\u212A}".toList] := by decide +kernel
example : acceptsTemplate "${asctime} $levelname [$name:${lineno}] $message $$".toList = true := by decide +kernel
example : acceptsTemplate [] = true ∧ acceptsTemplateConfigured "a\\nb\\t${message}".toList = true := by decide +kernel
/-- refused: no field, an invalid `$`, an unknown name (with the class of the exception) -/
example : loadCheckTemplate "hello".toList = .error .valueError ∧ loadCheckTemplate "$$message".toList = .error .valueError ∧
    loadCheckTemplate "$message costs 5 $".toList = .error .valueError ∧
    loadCheckTemplate "${message} $nosuchfield".toList = .error .keyError ∧
    loadCheckTemplate "$nosuchfield $".toList = .error .keyError ∧
    loadCheckTemplate "$ $nosuchfield".toList = .error .valueError ∧
    loadCheckTemplate "$messageſ".toList = .ok () ∧ loadCheckTemplate "${messageſ}".toList = .error .valueError := by
  decide +kernel
example : acceptsSafeTemplate "hello $ ${9} $nosuchfield".toList = true := by decide +kernel

/-- the hypotheses of `C20_template_format_safe` are satisfiable: the record of the classic examples has all the known
    attributes, and the format is accepted -/
example : HasKnown (lookup exRecordTable) ∧ Printable (lookup exRecordTable) ∧
    acceptsTemplate "$asctime ${levelname} $thread $message".toList = true :=
  ⟨lt_hasKnown_of_table _ (by decide +kernel), lt_printable_of_table _ (by decide +kernel), by decide +kernel⟩
example : formatTemplate "$asctime ${levelname} $thread $message".toList (lookup exRecordTable) = .ok () := by
  decide +kernel
/-- the same record without `asctime`, as a formatter whose format does not use the time sees it -/
example : usesTimeTemplate "${levelname} $message".toList = false ∧
    formatTemplate "${levelname} $message".toList (lookup (exRecordTable.filter (fun p => p.1 != "asctime".toList))) = .ok () ∧
    formatTemplate "$asctime".toList (lookup (exRecordTable.filter (fun p => p.1 != "asctime".toList))) = .error .valueError := by
  decide +kernel
/-- an instance of the hypothesis of `C20_template_str_limit_needed` -/
example : (10 : Nat) ^ 4300 ≤ ((10 : Int) ^ 4300).natAbs := by decide +kernel
/-- `safe-template` at run time: unknown names and invalid `$` are left alone -/
example : formatSafeTemplate "hello $ ${9} $nosuchfield $message".toList (lookup exRecordTable) = .ok () ∧
    formatTemplate "hello $nosuchfield".toList (lookup exRecordTable) = .error .valueError := by decide +kernel

end Template

/-! ## `format` log formats (`str.format` fields)

About `ZCV/Model/LogStrFormat.lean`: `parse` models `_string.formatter_parser` (CPython 3.12), `vformatRun` / `cformatRun`
which calls of `string.Formatter().vformat(fmt, (), d)` / `fmt.format(**d)` raise (and which class), `acceptsStrFormat`
models `FormatterFactory.__init__` for `style format` with `arbitrary-fields off` and the default formatter class (trial
`vformat` of the sample record, `IndexError` turned into `ValueError`, then `logging.Formatter(fmt, datefmt, style='{')`,
which runs `logging.StrFormatStyle.validate`), and `formatStr` models `logging.Formatter.formatMessage` on a record at run
time (`fmt.format(**record.__dict__)`, `KeyError` turned into `ValueError`).  Where the model does not know the outcome
(attributes of objects it does not represent, the text of a nested field it cannot compute, astronomic widths) it abstains
with `SErr.unmodelled`; an abstention at load time counts as "not accepted", so every theorem below about accepted formats
is about formats the real loader accepts.

THE PROPERTY IS FALSE for `style format` in general: `{message[0]}`, `{exc_text.__bool__}`, `{message:{relativeCreated}}`
are accepted at load time (arbitrary-fields off) and raise on ordinary records (`C20_strformat_index_needed`,
`C20_strformat_attr_needed`, `C20_strformat_nested_needed`).  It is proved for the PLAIN formats — every replacement field
is `{key}`, `{key!conv}`, `{key:spec}` or `{key!conv:spec}` with a bare key and a spec without braces
(`LogStrFormatSpec.Plain`, decidable): `C20_strformat_format_safe_partial`. -/

section StrFormat
open ZCV.LogStrFormat ZCV.LogStrFormatSpec ZCV.LogStrFormatLemmas ZCV.LogFormatSpec
open ZCV.LogFormat (Value Dict FloatKind PyErr strCheck floatLimit maxUnicode hasInfix ctrlCharInsert)

/-- What `style format` accepts at load time (arbitrary-fields off), for ANY format, step by step.  A format (the empty
    format stands for `{message}`) is accepted exactly when it has no syntax error, has at least one replacement field with
    a non-empty name, and every replacement field `{name!conv:spec}`
    * passes logging's validation: the name matches `(\d+|\w+)(\.\w+|\[[^]]+\])*`, the conversion is none or `r s a`, the
      spec is empty or matches `(.?[<>=^])?[+ -]?#?0?(\d+|{\w+})?[,_]?(\.(\d+|{\w+}))?[bcdefgnosx%]?` (case-insensitive), and
    * works on the sample record: `get_field` finds an object (the first name is an attribute of the sample record, every
      `.attr` / `[index]` step succeeds), the conversion works, the spec — with its nested fields expanded on the sample
      record — is one `format()` takes for that object. -/
theorem C20_strformat_accepts_iff (fmt : Str) :
    acceptsStrFormat fmt = true ↔
      (∀ it ∈ LogStrFormat.parse (effectiveStr fmt), ItemAcceptedS it) ∧
      ∃ it ∈ LogStrFormat.parse (effectiveStr fmt), isNamedField it = true :=
  sf_accepts_items fmt

/-- What `style format` accepts among the PLAIN formats (bare keys, no nested fields), read off the format string:
    no syntax error, at least one field, and every field is `{key!conv:spec}` where `key` is a record attribute (the
    `LogRecord` attributes of Python 3.12, `asctime`, `message`), the conversion is none or `!r !s !a`, and the spec is
    empty or one that both logging's pattern and the formatted object take (`SpecAllowed`): after a conversion and for the
    string attributes the `str` specs (`[[fill]align][0][width][.precision][s]`, no sign, `#`, `z`, `,`, `_` or `=`); for
    `None` / object attributes only the empty spec; for level and line numbers every `int` spec (`b c d o x X n`, and
    `e E f F g G %`); for thread and process ids the same without `c`; for time stamps the `float` specs. -/
theorem C20_strformat_accepts_iff_plain (fmt : Str) (hp : Plain fmt) :
    acceptsStrFormat fmt = true ↔
      (∀ it ∈ LogStrFormat.parse (effectiveStr fmt), PlainItemAccepted it) ∧
      ∃ it ∈ LogStrFormat.parse (effectiveStr fmt), isNamedField it = true := by
  rw [C20_strformat_accepts_iff]
  have hitem : ∀ it ∈ LogStrFormat.parse (effectiveStr fmt), (ItemAcceptedS it ↔ PlainItemAccepted it) := by
    intro it hm
    have hpl := List.all_eq_true.mp hp _ hm
    cases it with
    | lit s => exact Iff.rfl
    | bad => exact Iff.rfl
    | field n c s =>
      simp only [plainItem, Bool.and_eq_true] at hpl
      exact sf_plain_item_iff n c s hpl.1 hpl.2
  exact and_congr ⟨fun h it hm => (hitem it hm).mp (h it hm), fun h it hm => (hitem it hm).mpr (h it hm)⟩ Iff.rfl

/-- `SpecAllowed` spelled out: the specs `[[fill]align][sign][z][#][0][width][grouping][.precision][type]` each kind of
    object takes, on the spec as CPython's `parse_internal_render_format_spec` reads it (`parseFSpec`; it already refuses a
    `,` or `_` the presentation type does not allow) — widths and float precisions up to 2^24 (above, the model abstains).
    * a `str` (string attributes, anything after `!r !s !a`): type `s` or none, no sign, no `z`, no `#`, alignment not `=`;
    * a level or line number: an integer type `b c d o x X n` (or none) without precision and `z`, `c` moreover without
      sign and `#` — or a float type `e E f F g G %`;
    * a thread or process id: the same without `c`;
    * a time stamp: a float type, `n`, or none. -/
theorem C20_strformat_spec_allowed (spec : Str) :
    (strFormat spec = .ok () ↔
      ∃ f, parseFSpec (some 's') spec = some f ∧ (f.type = none ∨ f.type = some 's') ∧ f.sign = none ∧ f.z = false ∧
        f.alt = false ∧ f.align ≠ some '=' ∧ f.width.getD 0 ≤ sizeLimit) ∧
    (intFormat spec 0 = .ok () ↔
      ∃ f, parseFSpec (some 'd') spec = some f ∧ f.width.getD 0 ≤ sizeLimit ∧
        ((isIntType (f.type.getD 'd') = true ∧ f.prec = none ∧ f.z = false ∧
            (f.type.getD 'd' = 'c' → f.sign = none ∧ f.alt = false)) ∨
         (isFloatType (f.type.getD 'd') = true ∧ f.prec.getD 0 ≤ sizeLimit))) ∧
    (intFormat spec 0x110000 = .ok () ↔
      ∃ f, parseFSpec (some 'd') spec = some f ∧ f.width.getD 0 ≤ sizeLimit ∧
        ((isIntType (f.type.getD 'd') = true ∧ f.prec = none ∧ f.z = false ∧ f.type.getD 'd' ≠ 'c') ∨
         (isFloatType (f.type.getD 'd') = true ∧ f.prec.getD 0 ≤ sizeLimit))) ∧
    (floatFormat spec = .ok () ↔
      ∃ f, parseFSpec none spec = some f ∧
        (f.type = none ∨ ∃ c, f.type = some c ∧ (isFloatType c = true ∨ c = 'n')) ∧
        f.width.getD 0 ≤ sizeLimit ∧ f.prec.getD 0 ≤ sizeLimit) :=
  ⟨sf_strFormat_ok spec, sf_intFormat_small spec, sf_intFormat_big spec, sf_floatFormat_ok spec⟩

/-- THE PROPERTY for the plain formats of `style format`, under the weakest hypothesis on the record: a plain format
    accepted at load time (arbitrary-fields off) never raises when the formatter built from it formats a record that has
    the known attributes — `asctime` only if `{asctime` occurs in the format, as `logging.Formatter.format` sets it only
    then — with a `str` where the logging package puts one, anything printable for the object-valued attributes, level and
    line numbers in `0 ≤ n < 0x110000`, thread and process ids that convert to `float`, and ANY `float` as time stamps.
    PARTIAL: the unrestricted statement (`C20_strformat_format_safe`, every accepted format) is false for the real code —
    see `C20_strformat_index_needed`, `C20_strformat_attr_needed`, `C20_strformat_nested_needed`; what is missing between
    the two is the formats with `.attr` suffixes on string / number attributes (safe, not proved) and with nested fields
    that refer to level or line numbers (`{message:{lineno}}`: safe up to memory, not proved). -/
theorem C20_strformat_format_safe_wide_partial (fmt : Str) (h : acceptsStrFormat fmt = true) (hp : Plain fmt) (r : SDict)
    (hr : RecordForStr fmt r) : formatStr fmt r = .ok () :=
  sf_plain_safe fmt h hp r hr

/-- THE PROPERTY for the plain formats, as the formatter meets it: the record is an ordinary record (the notion of the
    classic style: strings, small level and line numbers, thread and process ids below 2^64, finite time stamps, printable
    objects) where `asctime` need only be there when the format uses the time. -/
theorem C20_strformat_format_safe_for_partial (fmt : Str) (h : acceptsStrFormat fmt = true) (hp : Plain fmt) (r : SDict)
    (hr : OrdinaryStrFor fmt r) : formatStr fmt r = .ok () :=
  sf_plain_safe fmt h hp r (sf_ordinaryFor_record fmt r hr)

/-- THE PROPERTY for the plain formats of `style format`: accepted at load time → every ordinary record (all attributes
    present, with the types and ranges logging gives them: `LogFormatSpec.Ordinary`, the same notion as for the classic
    style) is formatted without raising.  PARTIAL: restricted to `Plain` formats, see
    `C20_strformat_format_safe_wide_partial`. -/
theorem C20_strformat_format_safe_partial (fmt : Str) (h : acceptsStrFormat fmt = true) (hp : Plain fmt) (r : SDict)
    (hr : OrdinaryStr r) : formatStr fmt r = .ok () :=
  C20_strformat_format_safe_for_partial fmt h hp r (sf_ordinary_for fmt r hr)

/-- The same through ZConfig's own stylist: with a formatter class that has no `style` parameter, `FormatterFactory.__call__`
    installs `StrFormatStyle.format` — `string.Formatter().vformat(fmt, (), record.__dict__)` — as `formatMessage`; an
    accepted plain format never raises there either (and here a missing attribute would be a `KeyError`). -/
theorem C20_strformat_stylist_safe_partial (fmt : Str) (h : acceptsStrFormat fmt = true) (hp : Plain fmt) (r : SDict)
    (hr : RecordForStr fmt r) : formatStrStylist fmt r = .ok () :=
  sf_plain_safe_stylist fmt h hp r hr

/-- An accepted `format`-style format can be used to build the formatter: `FormatterFactory.__call__`
    (= `logging.Formatter(fmt, datefmt, style='{')`, which validates the format) does not raise. -/
theorem C20_strformat_formatter_builds (fmt : Str) (h : acceptsStrFormat fmt = true) : buildStrFormatter fmt = .ok () :=
  ((sf_accepts_iff fmt).mp h).2

/-- The exception classes.  At load time `IndexError` never escapes (`FormatterFactory` turns the `IndexError` of a
    positional field `{}` / `{0}` — and of an index suffix out of range — into `ValueError`), building the formatter only
    ever raises `ValueError`; at run time `KeyError` never escapes (`logging` turns it into `ValueError`).  Every other class
    does occur, at load time and at run time: see the examples below (`ValueError`, `TypeError`, `KeyError`,
    `AttributeError`, `OverflowError` at load time; `ValueError`, `TypeError`, `IndexError`, `AttributeError`,
    `OverflowError` at run time). -/
theorem C20_strformat_errors (fmt : Str) (e : SErr) :
    (loadCheckStrFormat fmt = .error e → e ≠ .indexError) ∧
    (buildStrFormatter fmt = .error e → e = .valueError) ∧
    (∀ r, formatStr fmt r = .error e → e ≠ .keyError) := by
  refine ⟨fun h => ?_, fun h => sf_validate_error fmt e h, fun r h => ?_⟩
  · unfold loadCheckStrFormat buildStrFormatter at h
    cases hv : vformatRun (effectiveStr fmt) sampleSDict with
    | error e' =>
      cases e' <;> simp only [hv, Except.error.injEq] at h <;> subst h <;> simp
    | ok u =>
      simp only [hv] at h
      rw [sf_validate_error fmt e h]; simp
  · unfold formatStr at h
    cases hv : cformatRun (effectiveStr fmt) r with
    | error e' =>
      cases e' <;> simp only [hv, Except.error.injEq] at h <;> subst h <;> simp
    | ok u => simp [hv] at h

/-- From the configuration text: the `escaped_string` datatype turns `\n \t \b \f \r` into control characters, the
    result is what is checked at load time and what the formatter uses. -/
theorem C20_strformat_configured_safe_partial (raw : Str) (h : acceptsStrFormatConfigured raw = true)
    (hp : Plain (ctrlCharInsert raw)) (r : SDict) (hr : OrdinaryStr r) : formatStr (ctrlCharInsert raw) r = .ok () :=
  C20_strformat_format_safe_partial _ h hp r hr

/-- The restriction to formats without `[index]` suffix is needed — A VIOLATION OF THE PROPERTY BY THE REAL CODE:
    `{message[0]}` IS accepted at load time (the sample message is `'amessage'`, and logging's `field_spec` pattern allows
    index suffixes), and formatting raises `IndexError` ("string index out of range") for every record whose message is
    empty — `logger.info("")` — through `logging.Formatter.formatMessage`. -/
theorem C20_strformat_index_needed (r : SDict) (hr : r "message".toList = some (.str [])) :
    acceptsStrFormat "{message[0]}".toList = true ∧ formatStr "{message[0]}".toList r = .error .indexError := by
  refine ⟨by decide +kernel, ?_⟩
  refine sf_formatStr_single _ r "message[0]".toList none [] (by decide +kernel) _ (by decide) ?_
  apply sf_evalField_getField_error
  rw [sf_getField_of .cformat r "message[0]".toList "message".toList [.idx 0] (.str []) (by decide +kernel)
    (by decide +kernel) (by decide +kernel) (by decide +kernel) hr]
  rfl

/-- The restriction to formats without `.attr` suffix is needed, at least on the attributes whose TYPE varies — ANOTHER
    VIOLATION: `{exc_text.__bool__}` IS accepted at load time (the sample `exc_text` is `None`, and `None.__bool__` exists),
    and formatting raises `AttributeError` for every record whose `exc_text` is a string (the cached traceback text of a
    record logged with `exc_info`).  The same happens with `{exc_info.__bool__}` when `exc_info` is the usual tuple and
    with `{stack_info.__bool__}`, `{taskName.__bool__}`. -/
theorem C20_strformat_attr_needed (r : SDict) (s : Str) (hr : r "exc_text".toList = some (.str s)) :
    acceptsStrFormat "{exc_text.__bool__}".toList = true ∧
    formatStr "{exc_text.__bool__}".toList r = .error .attributeError := by
  refine ⟨by decide +kernel, ?_⟩
  refine sf_formatStr_single _ r "exc_text.__bool__".toList none [] (by decide +kernel) _ (by decide) ?_
  apply sf_evalField_getField_error
  rw [sf_getField_of .cformat r "exc_text.__bool__".toList "exc_text".toList [.attr "__bool__".toList] (.str s)
    (by decide +kernel) (by decide +kernel) (by decide +kernel) (by decide +kernel) hr]
  have : strAttrs.contains "__bool__".toList = false := by decide +kernel
  simp only [walk, access, attrOf, this, Bool.false_eq_true, if_false]

/-- The restriction to formats without nested fields is needed — A THIRD VIOLATION: `{message:{relativeCreated}}` IS
    accepted at load time (the sample value `1.1` makes the spec `1.1`: width 1, precision 1), and formatting raises
    `ValueError` ("Sign not allowed in string format specifier") for every record whose `relativeCreated` is negative, say
    `-5.25` (the clock was set back since `logging` was imported).  With `{message:{created}}` the width becomes the time
    stamp: 1.7 · 10^9 fill characters (the model abstains there: `MemoryError` or not). -/
theorem C20_strformat_nested_needed (r : SDict) (s : Str) (hm : r "message".toList = some (.str s))
    (hr : r "relativeCreated".toList = some (.float .finite "-5.25".toList)) :
    acceptsStrFormat "{message:{relativeCreated}}".toList = true ∧
    formatStr "{message:{relativeCreated}}".toList r = .error .valueError := by
  refine ⟨by decide +kernel, ?_⟩
  refine sf_formatStr_single _ r "message".toList none "{relativeCreated}".toList (by decide +kernel) _ (by decide) ?_
  have hg : getField .cformat r "message".toList = .ok (.str s) := by
    rw [sf_getField_of .cformat r "message".toList "message".toList [] (.str s)
      (by decide +kernel) (by decide +kernel) (by decide +kernel) (by decide +kernel) hm]
    rfl
  have hg2 : getField .cformat r "relativeCreated".toList = .ok (.float .finite "-5.25".toList) := by
    rw [sf_getField_of .cformat r "relativeCreated".toList "relativeCreated".toList [] _
      (by decide +kernel) (by decide +kernel) (by decide +kernel) (by decide +kernel) hr]
    rfl
  have hp1 : LogStrFormat.parse "{relativeCreated}".toList = [.field "relativeCreated".toList none []] := by decide +kernel
  have hc : ("{relativeCreated}".toList).contains '{' = true := by decide +kernel
  have hc2 : ([] : Str).contains '{' = false := rfl
  have hx : evalStr .cformat r 1 "{relativeCreated}".toList = .ok (some "-5.25".toList) := by
    unfold evalStr
    rw [hp1]
    simp only [LogStrFormat.runItems, sf_evalField_cformat r _ _ none [] hc2 _ hg2, convert, formatObj, List.isEmpty_nil,
      if_true, Val.toValue, strCheck, strText, catText, List.append_nil]
  have hm' : (Mode.cformat == Mode.cformat) = true := rfl
  have hf : strFormat "-5.25".toList = .error .valueError := by decide +kernel
  unfold evalField
  simp only [hg, convert, hm', hc, Bool.not_true, Bool.and_false, Bool.false_eq_true, if_false, hx]
  rw [sf_formatObj_val_nonempty _ _ (by decide)]
  simp only [hf, Except.map]

/-- The range of level and line numbers in the notion of ordinary record is needed: `{lineno:c}` IS accepted at load time
    (the sample line number is 1), and formatting raises `OverflowError` ("%c arg not in range(0x110000)") for every record
    whose line number is not a code point. -/
theorem C20_strformat_char_needs_range (n : Int) (hn : n < 0 ∨ 0x110000 ≤ n) (r : SDict)
    (hr : r "lineno".toList = some (.int n)) :
    acceptsStrFormat "{lineno:c}".toList = true ∧ formatStr "{lineno:c}".toList r = .error .overflowError := by
  refine ⟨by decide +kernel, ?_⟩
  refine sf_formatStr_single _ r "lineno".toList none "c".toList (by decide +kernel) _ (by decide) ?_
  have hg : getField .cformat r "lineno".toList = .ok (.int n) := by
    rw [sf_getField_of .cformat r "lineno".toList "lineno".toList [] _
      (by decide +kernel) (by decide +kernel) (by decide +kernel) (by decide +kernel) hr]
    rfl
  rw [sf_evalField_cformat r _ _ none "c".toList (by decide +kernel) _ hg]
  simp only [convert]
  rw [sf_formatObj_val_nonempty _ _ (by decide)]
  have hp : parseFSpec (some 'd') "c".toList = some { type := some 'c' } := by decide +kernel
  have hm : ¬ (0 ≤ n ∧ n ≤ maxUnicode) := by simp only [maxUnicode]; omega
  simp +decide only [intFormat, hp, if_false, hm, Except.map, if_true]

/-- The 4300-digit bound on thread and process ids (and on every `int` a record carries) is needed: `{process}`,
    `{process:d}` and `{process!r:>12}` ARE accepted at load time, and formatting raises `ValueError` ("Exceeds the limit
    (4300 digits) for integer string conversion") for every record whose `process` is an int of more than 4300 decimal
    digits; `{process:x}` formats it. -/
theorem C20_strformat_str_limit_needed (n : Int) (hn : 10 ^ 4300 ≤ n.natAbs) (r : SDict)
    (hr : r "process".toList = some (.int n)) :
    acceptsStrFormat "{process}".toList = true ∧ acceptsStrFormat "{process:d}".toList = true ∧
    acceptsStrFormat "{process!r:>12}".toList = true ∧ acceptsStrFormat "{process:x}".toList = true ∧
    formatStr "{process}".toList r = .error .valueError ∧ formatStr "{process:d}".toList r = .error .valueError ∧
    formatStr "{process!r:>12}".toList r = .error .valueError ∧ formatStr "{process:x}".toList r = .ok () := by
  have hg : getField .cformat r "process".toList = .ok (.int n) := by
    rw [sf_getField_of .cformat r "process".toList "process".toList [] _
      (by decide +kernel) (by decide +kernel) (by decide +kernel) (by decide +kernel) hr]
    rfl
  have hs : strCheck (.int n) = .error .valueError := by
    have h1 : strCheck (.int n) = if n.natAbs < 10 ^ LogFormat.intMaxStrDigits then .ok () else .error .valueError := rfl
    have h2 : LogFormat.intMaxStrDigits = 4300 := rfl
    rw [h1, h2, if_neg (by omega)]
  refine ⟨by decide +kernel, by decide +kernel, by decide +kernel, by decide +kernel, ?_, ?_, ?_, ?_⟩
  · refine sf_formatStr_single _ r "process".toList none [] (by decide +kernel) _ (by decide) ?_
    rw [sf_evalField_cformat r _ _ none [] rfl _ hg]
    simp only [convert, formatObj, List.isEmpty_nil, if_true, Val.toValue, hs, ofPyErr]
  · refine sf_formatStr_single _ r "process".toList none "d".toList (by decide +kernel) _ (by decide) ?_
    rw [sf_evalField_cformat r _ _ none "d".toList (by decide +kernel) _ hg]
    simp only [convert]
    rw [sf_formatObj_val_nonempty _ _ (by decide)]
    have hp : parseFSpec (some 'd') "d".toList = some { type := some 'd' } := by decide +kernel
    simp +decide only [intFormat, hp, if_false, hs, ofPyErr, Except.map, if_true]
  · refine sf_formatStr_single _ r "process".toList (some 'r') ">12".toList (by decide +kernel) _ (by decide) ?_
    rw [sf_evalField_cformat r _ _ (some 'r') ">12".toList (by decide +kernel) _ hg]
    have h1 : ('r' == 's') = false := by decide
    have h2 : ('r' == 'r' || 'r' == 'a') = true := by decide
    simp only [convert, h1, h2, Bool.false_eq_true, if_false, if_true, Val.toValue, hs, ofPyErr]
  · refine sf_formatStr_single_ok _ r "process".toList none "x".toList (by decide +kernel) none ?_
    rw [sf_evalField_cformat r _ _ none "x".toList (by decide +kernel) _ hg]
    simp only [convert]
    rw [sf_formatObj_val_nonempty _ _ (by decide)]
    have hp : parseFSpec (some 'd') "x".toList = some { type := some 'x' } := by decide +kernel
    simp +decide only [intFormat, hp, if_false, Except.map, if_true, sizeCheck]

/-! ### Examples (`style format`) -/

example : LogStrFormat.parse "a{{b}} {name!r:>{lineno}} {message[0].upper}x}".toList =
    [.lit "a{".toList, .lit "b}".toList, .lit " ".toList, .field "name".toList (some 'r') ">{lineno}".toList,
     .lit " ".toList, .field "message[0].upper".toList none [], .bad] := by decide +kernel
example : acceptsStrFormat "{asctime} {levelname:>8} [{name}:{lineno:04d}] {message}".toList = true ∧
    Plain "{asctime} {levelname:>8} [{name}:{lineno:04d}] {message}".toList := by decide +kernel
example : acceptsStrFormat [] = true ∧ acceptsStrFormatConfigured "a\\nb\\t{message}".toList = true := by decide +kernel
/-- the spec `*>+#012,.3f` as `parse_internal_render_format_spec` reads it (fill and zero flag are not kept) -/
example : parseFSpec (some 'd') "*>+#012,.3f".toList =
    some { align := some '>', sign := some '+', alt := true, width := some 12, prec := some 3, type := some 'f' } := by
  decide +kernel
/-- accepted although not plain: attribute and index suffixes, a nested width -/
example : acceptsStrFormat "{message.upper} {levelno.real:c} {message[7]} {message:>{lineno}} {created:{levelno}.{lineno}f}".toList
    = true := by decide +kernel
/-- refused, with the class of the exception that escapes at load time: no field, a positional field, a presentation type
    the value does not take, a spec on `None`, an unknown attribute name, an unknown attribute of a `str`, `c` on a thread id;
    on `{args.count}` (the attributes of a tuple are not modelled) the model abstains -/
example : loadCheckStrFormat "hello".toList = .error .valueError ∧ loadCheckStrFormat "{}".toList = .error .valueError ∧
    loadCheckStrFormat "{0}".toList = .error .valueError ∧ loadCheckStrFormat "{message:d}".toList = .error .valueError ∧
    loadCheckStrFormat "{message[99]}".toList = .error .valueError ∧
    loadCheckStrFormat "{exc_info:5}".toList = .error .typeError ∧ loadCheckStrFormat "{message[x]}".toList = .error .typeError ∧
    loadCheckStrFormat "{nope}".toList = .error .keyError ∧ loadCheckStrFormat "{.real}".toList = .error .keyError ∧
    loadCheckStrFormat "{message.nope}".toList = .error .attributeError ∧
    loadCheckStrFormat "{thread:c}".toList = .error .overflowError ∧
    loadCheckStrFormat "{args.count}".toList = .error .unmodelled := by decide +kernel
/-- accepted by the trial formatting, refused by logging's validation (`z`, a conversion other than `r s a` cannot get that
    far, a field hidden from `field_spec` by a blank) — and the converse: logging's pattern would let `{message:d}` through -/
example : vformatRun "{created:z}".toList sampleSDict = .ok () ∧ validateStr "{created:z}".toList = .error .valueError ∧
    vformatRun "{message:d}".toList sampleSDict = .error .valueError ∧ validateStr "{message:d}".toList = .ok () := by
  decide +kernel
/-- the two implementations differ: `string.Formatter().vformat` (load time) looks a field nested three deep up before it
    fails, and takes `{.real}` for the key `''`; `str.format` (run time) does neither -/
example : vformatRun "{message:{lineno:{nope}}}".toList sampleSDict = .error .keyError ∧
    cformatRun "{message:{lineno:{nope}}}".toList sampleSDict = .error .valueError ∧
    vformatRun "{.real}".toList sampleSDict = .error .keyError ∧
    cformatRun "{.real}".toList sampleSDict = .error .indexError := by decide +kernel

/-- the record of the classic examples, the floats with their `repr` -/
def exRecordVals : List (Str × LogStrFormat.Val) :=
  [("name".toList, .str "x".toList), ("msg".toList, .str "disk %s full".toList), ("args".toList, .other),
   ("levelname".toList, .str "WARNING".toList), ("levelno".toList, .int 30), ("pathname".toList, .str "/srv/x.py".toList),
   ("filename".toList, .str "x.py".toList), ("module".toList, .str "x".toList), ("exc_info".toList, .none),
   ("exc_text".toList, .none), ("stack_info".toList, .none), ("lineno".toList, .int 1207), ("funcName".toList, .str "f".toList),
   ("created".toList, .float .finite "1727600000.123".toList), ("msecs".toList, .float .finite "123.0".toList),
   ("relativeCreated".toList, .float .finite "5012.25".toList),
   ("thread".toList, .int 139872345061184), ("threadName".toList, .str "MainThread".toList),
   ("processName".toList, .str "MainProcess".toList), ("process".toList, .int 4194304), ("taskName".toList, .none),
   ("asctime".toList, .str "2026-09-29 10:00:00,123".toList), ("message".toList, .str "disk sda full".toList)]

/-- the hypotheses of `C20_strformat_format_safe_partial` are satisfiable -/
example : OrdinaryStr (lookupS exRecordVals) ∧
    acceptsStrFormat "{levelno:c} {name!r:^10} {thread:x} {created:.3f} {exc_info}".toList = true ∧
    Plain "{levelno:c} {name!r:^10} {thread:x} {created:.3f} {exc_info}".toList :=
  ⟨sf_ordinary_of_table _ (by decide +kernel), by decide +kernel, by decide +kernel⟩
example : formatStr "{levelno:c} {name!r:^10} {thread:x} {created:.3f} {exc_info}".toList (lookupS exRecordVals) = .ok () := by
  decide +kernel
/-- the same record without `asctime`, as a formatter whose format does not use the time sees it; with infinite time
    stamps it is still one `C20_strformat_format_safe_wide_partial` covers -/
example : RecordForStr "{levelname} {message}".toList (lookupS (exRecordVals.filter (fun p => p.1 != "asctime".toList))) ∧
    lookupS (exRecordVals.filter (fun p => p.1 != "asctime".toList)) "asctime".toList = none ∧
    RecordForStr "{created:.1f}".toList
      (lookupS (("created".toList, LogStrFormat.Val.float .inf "inf".toList) :: exRecordVals.filter (fun p => p.1 != "asctime".toList))) :=
  ⟨sf_record_of_table _ _ (by decide +kernel), by decide +kernel, sf_record_of_table _ _ (by decide +kernel)⟩
/-- run time on the example record: the exception classes that escape from `formatMessage` — a missing attribute is a
    ValueError (logging turns the KeyError into one), a positional field an IndexError … -/
example : formatStr "{nope}".toList (lookupS exRecordVals) = .error .valueError ∧
    formatStr "{}".toList (lookupS exRecordVals) = .error .indexError ∧
    formatStr "{message[99]}".toList (lookupS exRecordVals) = .error .indexError ∧
    formatStr "{exc_info:5}".toList (lookupS exRecordVals) = .error .typeError ∧
    formatStr "{message.nope}".toList (lookupS exRecordVals) = .error .attributeError ∧
    formatStr "{thread:c}".toList (lookupS exRecordVals) = .error .overflowError ∧
    formatStr "{message:{lineno}}".toList (lookupS exRecordVals) = .ok () ∧
    formatStr "{message:{created}}".toList (lookupS exRecordVals) = .error .unmodelled := by decide +kernel
/-- instances of the hypotheses of the counterexamples -/
example : (10 : Nat) ^ 4300 ≤ ((10 : Int) ^ 4300).natAbs := by decide +kernel
example : formatStr "{message[0]}".toList (lookupS (("message".toList, LogStrFormat.Val.str []) :: exRecordVals)) = .error .indexError ∧
    OrdinaryStr (lookupS (("message".toList, LogStrFormat.Val.str []) :: exRecordVals)) :=
  ⟨by decide +kernel, sf_ordinary_of_table _ (by decide +kernel)⟩

end StrFormat

end ZCV.Props.C20
