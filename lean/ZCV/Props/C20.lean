import ZCV.Model.Logger
import ZCV.Model.LoggerSetup
import ZCV.Spec.Logger
import ZCV.Lemmas.LoggerReg
import ZCV.Lemmas.LoggerRegOps
import ZCV.Lemmas.LoggerDecision
import ZCV.Lemmas.LoggerSetup
import ZCV.Lemmas.LoggerSetupAll
import ZCV.Lemmas.LoggerSetupGen
/-!
# C20 — logger sections produce exactly the configured logging setup, once (decision logic)

* level names: `C20_level_spec`, `C20_level_range`, `C20_level_table`, `C20_level_case_insensitive`, `C20_level_names_any_case`
* `FileHandlerFactory.__init__`: `C20_std_stream_options_refused`, `C20_rotation_requires_old_files`,
  `C20_filehandler_decision_table`, `C20_filehandler_decision` (complete, one `↔` per outcome)
* registry of re-openable handlers, over all operation sequences: `C20_registry_invariant`, `C20_reopen_exactly_live`,
  `C20_close_exactly_live`, `C20_dropped_never_touched` (and the one-step `C20_closeFiles_closes_all_registered`)
* factory memoisation and logger set-up, about the hand-written model `ZCV/Model/LoggerSetup.lean` (NOT yet tied to the
  Python by the driver): `C20_factory_memo`, `C20_factory_idempotent`, `C20_logger_setup`, `C20_section_setup`,
  `C20_logger_setup_any`, `C20_configure_loggers`
-/
namespace ZCV.Props.C20
open ZCV ZCV.Log ZCV.LogSetup

/-- the generated level table and bounds are the documented ones: the model of `logging_level` IS the documented function -/
theorem C20_level_spec (value : Str) : loggingLevel value = LogSpec.loggingLevel value := by
  unfold loggingLevel LogSpec.loggingLevel
  have ht : Gen.loggingLevels = LogSpec.levelNames.map (fun p => (p.1.toList, p.2)) := by decide
  have hlo : Gen.levelLo = 0 := rfl
  have hhi : Gen.levelHi = 50 := rfl
  rw [ht, hlo, hhi]
  simp only [List.find?_map]
  cases h : List.find? ((fun x => x.1 == lower value) ∘ fun p : String × Int => (p.1.toList, p.2)) LogSpec.levelNames with
  | some p =>
    have : List.find? (fun p : String × Int => p.1.toList == lower value) LogSpec.levelNames = some p := by
      simpa [Function.comp_def] using h
    simp [this]
  | none =>
    have : List.find? (fun p : String × Int => p.1.toList == lower value) LogSpec.levelNames = none := by
      simpa [Function.comp_def] using h
    simp only [Option.map_none, this]
    cases pyInt (lower value) with
    | none => rfl
    | some v =>
      simp only
      by_cases h1 : v < 0 <;> by_cases h2 : v > 50 <;> simp [h1, h2] <;> omega

/-- every accepted level lies in 0..50 -/
theorem C20_level_range (value : Str) (n : Int) (h : loggingLevel value = .ok n) : 0 ≤ n ∧ n ≤ 50 := by
  rw [C20_level_spec] at h
  unfold LogSpec.loggingLevel at h
  dsimp only at h
  split at h
  · rename_i p hp
    have hm := List.mem_of_find?_eq_some hp
    simp only [Except.ok.injEq] at h
    subst h
    simp only [LogSpec.levelNames, List.mem_cons, List.not_mem_nil, or_false] at hm
    rcases hm with h | h | h | h | h | h | h | h | h | h | h <;> (injection h with _ h2; subst h2; decide)
  · split at h
    · split at h
      · simp only [Except.ok.injEq] at h; subst h; assumption
      · cases h
    · cases h

/-- the standard streams refuse every rotation option, `delay` and `encoding` -/
theorem C20_std_stream_options_refused (o : FileOpts) (hp : o.path = "STDOUT".toList ∨ o.path = "STDERR".toList)
    (hopt : o.maxBytes ≠ 0 ∨ o.oldFiles ≠ 0 ∨ truthy o.when = true ∨ o.delay = true ∨ truthy o.encoding = true) :
    fileHandlerKind o = .error .valueError := by
  unfold fileHandlerKind
  rcases hp with hp | hp <;> rcases hopt with h | h | h | h | h <;> simp_all [Except.map] <;>
    (repeat' split) <;> simp_all

/-- rotation of a file requires `old-files` -/
theorem C20_rotation_requires_old_files (o : FileOpts) (hp1 : o.path ≠ "STDOUT".toList) (hp2 : o.path ≠ "STDERR".toList)
    (hrot : truthy o.when = true ∨ o.maxBytes ≠ 0 ∨ o.interval ≠ 0) (hold : o.oldFiles = 0) :
    fileHandlerKind o = .error .valueError := by
  unfold fileHandlerKind
  rcases hrot with h | h | h <;> simp_all

/-- after `closeFiles()` the registry is empty and every handler that was registered and alive is closed — for any
    history of create / drop / close / reopen / closeFiles operations -/
theorem C20_closeFiles_closes_all_registered (r : Reg) (h : H) (hm : h ∈ r.handlers) (hreg : r.registry.contains h.id = true)
    (ha : h.alive = true) :
    (stepReg r .closeFiles).registry = [] ∧ { h with closed := true } ∈ (stepReg r .closeFiles).handlers := by
  constructor
  · rfl
  · simp only [stepReg, List.mem_map]
    refine ⟨h, hm, ?_⟩
    have : (r.registry.contains h.id && h.alive) = true := by rw [hreg, ha]; rfl
    simp only [this, ↓reduceIte]

/-! ## Level names -/

/-- the level table and the bounds extracted from the running `datatypes.py` are exactly the documented ones
    (`critical`/`fatal` 50, `error` 40, `warn`/`warning` 30, `info` 20, `blather` 15, `debug` 10, `trace` 5, `all` 1,
    `notset` 0; integers 0..50) -/
theorem C20_level_table :
    Gen.loggingLevels = LogSpec.levelNames.map (fun p => (p.1.toList, p.2)) ∧ Gen.levelLo = 0 ∧ Gen.levelHi = 50 :=
  ⟨by decide, rfl, rfl⟩

/-- level spellings are case-insensitive: two spellings with the same `str.lower()` are treated alike (accepted with
    the same number, or both rejected) -/
theorem C20_level_case_insensitive (s t : Str) (h : lower s = lower t) : loggingLevel s = loggingLevel t := by
  unfold loggingLevel
  rw [h]

/-- every documented level name, in any mixture of upper and lower case, is accepted with its documented number -/
theorem C20_level_names_any_case (s : Str) (nm : String) (n : Int) (hmem : (nm, n) ∈ LogSpec.levelNames)
    (hs : lower s = nm.toList) : loggingLevel s = .ok n := by
  rw [C20_level_spec]
  unfold LogSpec.loggingLevel
  simp only [hs]
  simp only [LogSpec.levelNames, List.mem_cons, List.not_mem_nil, or_false, Prod.mk.injEq] at hmem
  rcases hmem with h | h | h | h | h | h | h | h | h | h | h <;> (obtain ⟨h1, h2⟩ := h; subst h1; subst h2; rfl)

example : loggingLevel "WaRnInG".toList = .ok 30 := by rfl
example : loggingLevel "Blather".toList = loggingLevel "BLATHER".toList := C20_level_case_insensitive _ _ (by decide)
example : loggingLevel " 50 ".toList = .ok 50 ∧ loggingLevel "51".toList = .error .valueError ∧
    loggingLevel "-1".toList = .error .valueError := ⟨by rfl, by rfl, by rfl⟩

/-! ## The registry of re-openable handlers, over every operation sequence -/

/-- In every state the registry can reach by any sequence of create / drop / close / reopenFiles / closeFiles operations:
    the handlers carry the ids `0..n-1` in creation order; the registry has no duplicates and lists ids in creation order;
    an id is registered exactly when it is the id of a created handler that is still referenced and not closed — in fact
    the registry IS the list of those ids. -/
theorem C20_registry_invariant (ops : List Op) :
    (runReg ops).handlers.map (·.id) = List.range (runReg ops).handlers.length ∧
    (runReg ops).registry.Nodup ∧
    (runReg ops).registry.Pairwise (· < ·) ∧
    (∀ i, i ∈ (runReg ops).registry ↔
      ∃ h ∈ (runReg ops).handlers, h.id = i ∧ h.alive = true ∧ h.closed = false) ∧
    (runReg ops).registry = ((runReg ops).handlers.filter (fun h => h.alive && !h.closed)).map (·.id) := by
  have hr := regInv_run ops
  have hsorted : (runReg ops).registry.Pairwise (· < ·) := by
    rw [hr.reg]
    have hsub : (((runReg ops).handlers.filter H.live).map (·.id)).Sublist ((runReg ops).handlers.map (·.id)) :=
      List.Sublist.map _ List.filter_sublist
    rw [hr.ids] at hsub
    exact List.Pairwise.sublist hsub List.pairwise_lt_range
  exact ⟨hr.ids, hsorted.imp (fun h => Nat.ne_of_lt h), hsorted, hr.mem_registry_iff, hr.reg⟩

example : (runReg [.create, .create, .create, .drop 0, .close 2, .reopenFiles]).registry = [1] := by decide
example : (runReg [.create, .create, .create, .drop 0, .close 2, .reopenFiles]).handlers =
    [⟨0, false, false, 0⟩, ⟨1, true, false, 1⟩, ⟨2, true, true, 0⟩] := by decide

/-- `reopenFiles()` after any history: the handlers that are still referenced and not closed (= the registered ones)
    get reopened exactly once, every other handler is left exactly as it was, and the registry is unchanged. -/
theorem C20_reopen_exactly_live (ops : List Op) :
    (stepReg (runReg ops) .reopenFiles).handlers =
      (runReg ops).handlers.map
        (fun h => if h.alive && !h.closed then { h with reopened := h.reopened + 1 } else h) ∧
    (stepReg (runReg ops) .reopenFiles).registry = (runReg ops).registry ∧
    (∀ h ∈ (runReg ops).handlers, (runReg ops).registry.contains h.id = (h.alive && !h.closed)) :=
  ⟨logreg_reopen_handlers (regInv_run ops), logreg_prune_eq (regInv_run ops),
   fun _ hm => (regInv_run ops).contains_iff hm⟩

/-- `closeFiles()` after any history: the handlers that are still referenced and not closed (= the registered ones)
    get closed, every other handler is left exactly as it was, the registry ends empty, and a second `closeFiles()` or
    a `reopenFiles()` right after changes nothing at all. -/
theorem C20_close_exactly_live (ops : List Op) :
    (stepReg (runReg ops) .closeFiles).handlers =
      (runReg ops).handlers.map (fun h => if h.alive && !h.closed then { h with closed := true } else h) ∧
    (stepReg (runReg ops) .closeFiles).registry = [] ∧
    stepReg (stepReg (runReg ops) .closeFiles) .closeFiles = stepReg (runReg ops) .closeFiles ∧
    stepReg (stepReg (runReg ops) .closeFiles) .reopenFiles = stepReg (runReg ops) .closeFiles :=
  ⟨logreg_close_handlers (regInv_run ops), rfl, logreg_closeFiles_of_empty rfl, logreg_reopenFiles_of_empty rfl⟩

example : (runReg [.create, .create, .drop 0, .closeFiles, .create, .reopenFiles]).handlers =
    [⟨0, false, false, 0⟩, ⟨1, true, true, 0⟩, ⟨2, true, false, 1⟩] := by decide

/-- A handler that was dropped (no longer referenced) or closed at some point is never touched again, whatever
    operations follow: it stays at its position with the same id, its reopen counter and its closed flag are frozen
    (so no later `reopenFiles`/`closeFiles` acts on it), it can at most lose its last reference, and it is never
    registered again. -/
theorem C20_dropped_never_touched (ops₁ ops₂ : List Op) (i : Nat) (h : H)
    (hi : (runReg ops₁).handlers[i]? = some h) (hdead : h.alive = false ∨ h.closed = true) :
    ∃ h', (runReg (ops₁ ++ ops₂)).handlers[i]? = some h' ∧
      h'.id = h.id ∧ h'.reopened = h.reopened ∧ h'.closed = h.closed ∧ (h'.alive = true → h.alive = true) ∧
      h.id ∉ (runReg (ops₁ ++ ops₂)).registry := by
  have hd : h.live = false := by
    unfold H.live
    rcases hdead with ha | hc
    · rw [ha]; rfl
    · rw [hc]; simp
  rw [runReg_append]
  obtain ⟨b, hb, hfz⟩ := logreg_foldl_dead ops₂ (regInv_run ops₁) i h hi hd
  refine ⟨b, hb, hfz.1, hfz.2.1, hfz.2.2.1, hfz.2.2.2, ?_⟩
  have hinv := regInv_foldl ops₂ (regInv_run ops₁)
  rw [← hfz.1]
  exact logreg_not_registered hinv (List.mem_of_getElem? hb) (H.frozenTo_live hfz hd)

example : (runReg [.create, .create, .drop 0]).handlers[0]? = some ⟨0, false, false, 0⟩ := by decide

/-! ## `FileHandlerFactory.__init__`: the complete decision -/

/-- The model of `FileHandlerFactory.__init__` equals the decision table `fileHandlerTable`: first the path
    (STDERR, STDOUT, a file), then the option combination. -/
theorem C20_filehandler_decision_table (o : FileOpts) : fileHandlerKind o = fileHandlerTable o := logdec_table o

/-- Each possible outcome of `FileHandlerFactory.__init__` is characterised exactly (`plainStd` = none of max-size,
    old-files, when, delay, encoding is given; `isStd` = the path is STDOUT or STDERR):
    * a stream handler on stderr / stdout: the path is STDERR / STDOUT and none of the five options is given;
    * a plain `FileHandler`: a file path, and none of when, max-size, old-files, interval;
    * a `RotatingFileHandler`: a file path, old-files and max-size given, when not;
    * a `TimedRotatingFileHandler` with interval `n`: a file path, old-files and when given, max-size not, and `n` is
      the configured interval (1 when not configured);
    * an error — always `ValueError` — in exactly the remaining cases: an option on a standard stream; rotation asked
      for (when, max-size or interval) without old-files; both when and max-size; old-files alone. -/
theorem C20_filehandler_decision (o : FileOpts) :
    (fileHandlerKind o = .ok .stderr ↔ o.path = "STDERR".toList ∧ o.plainStd) ∧
    (fileHandlerKind o = .ok .stdout ↔ o.path = "STDOUT".toList ∧ o.plainStd) ∧
    (fileHandlerKind o = .ok .plainFile ↔
      ¬ o.isStd ∧ truthy o.when = false ∧ o.maxBytes = 0 ∧ o.oldFiles = 0 ∧ o.interval = 0) ∧
    (fileHandlerKind o = .ok .rotating ↔ ¬ o.isStd ∧ truthy o.when = false ∧ o.maxBytes ≠ 0 ∧ o.oldFiles ≠ 0) ∧
    (∀ n, fileHandlerKind o = .ok (.timedRotating n) ↔
      ¬ o.isStd ∧ truthy o.when = true ∧ o.maxBytes = 0 ∧ o.oldFiles ≠ 0 ∧ n = o.effInterval) ∧
    (∀ e, fileHandlerKind o = .error e ↔
      e = .valueError ∧
      ((o.isStd ∧ ¬ o.plainStd) ∨
       (¬ o.isStd ∧ o.oldFiles = 0 ∧ (truthy o.when = true ∨ o.maxBytes ≠ 0 ∨ o.interval ≠ 0)) ∨
       (¬ o.isStd ∧ o.oldFiles ≠ 0 ∧ truthy o.when = true ∧ o.maxBytes ≠ 0) ∨
       (¬ o.isStd ∧ o.oldFiles ≠ 0 ∧ truthy o.when = false ∧ o.maxBytes = 0))) :=
  ⟨logdec_iff_stderr o, logdec_iff_stdout o, logdec_iff_plainFile o, logdec_iff_rotating o,
   logdec_iff_timedRotating o, logdec_iff_error o⟩

example : fileHandlerKind ⟨"/var/log/z.log".toList, 0, 7, some "midnight".toList, 0, none, true⟩ = .ok (.timedRotating 1) := by
  rfl
example : fileHandlerKind ⟨"/var/log/z.log".toList, 0, 7, none, 0, none, false⟩ = .error .valueError := by rfl

/-! ## Factory memoisation and logger set-up

The theorems of this section are about `ZCV/Model/LoggerSetup.lean`, a model written by hand from `factory.py`,
`logger.py` and `HandlerFactory.create`.  It is NOT yet compared with the running Python by the driver. -/

/-- `Factory.__call__`, for any subclass: a second call returns the same product and changes neither the factory nor
    anything else (`create` is not run again). -/
theorem C20_factory_memo {F α σ : Type} (getInst : F → Option α) (setInst : F → α → F) (create : F → σ → α × F × σ)
    (hgs : ∀ f a, getInst (setInst f a) = some a) (f : F) (w : σ) :
    factoryCall getInst setInst create (factoryCall getInst setInst create f w).2.1 (factoryCall getInst setInst create f w).2.2
      = factoryCall getInst setInst create f w :=
  lgs_factoryCall_idem getInst setInst create hgs f w

/-- Calling a logger factory (eventlog or logger section, in any state, in any logging world) a second time returns
    the same logger and leaves the factory and the whole logging world exactly as after the first call: no handler is
    added, no level or propagate flag is set again.  The same holds for handler factories. -/
theorem C20_factory_idempotent (f : LoggerFactory) (w : World) :
    (f.call w).2.1.call (f.call w).2.2 = f.call w ∧
    (∀ hf : HandlerFactory, (hf.call w).2.1.call (hf.call w).2.2 = hf.call w) :=
  ⟨lgs_call_idem f w, fun hf => lgs_handler_call_idem hf w⟩

/-- Calling a logger factory as the loader built it (nothing called yet), in a well-formed logging world: the call
    returns the logger of the configured name (the root logger for `<eventlog>`, for a `<logger>` without name and for
    the names "" and "root"); afterwards that logger has the configured level, the configured propagate flag (left
    alone by `<eventlog>`), and its handlers are the ones it had before followed by exactly one NEW handler object per
    handler section, in order, each carrying its section's settings — or by one new `NullHandler` when no handler
    section is configured; no other logger is touched. -/
theorem C20_logger_setup (f : LoggerFactory) (w : World) (hf : f.Fresh) (hw : w.WF) :
    (f.call w).1 = loggerKey f.name ∧
    ((f.call w).2.2.get (loggerKey f.name)).level = f.level ∧
    ((f.call w).2.2.get (loggerKey f.name)).propagate =
      (f.propagate.getD (w.get (loggerKey f.name)).propagate) ∧
    (∃ new, ((f.call w).2.2.get (loggerKey f.name)).handlers = (w.get (loggerKey f.name)).handlers ++ new ∧
      new.map (·.cfg) = (if f.handlerFactories.isEmpty then [none] else f.handlerFactories.map (fun hf => some hf.cfg)) ∧
      new.map (·.id) = List.range' w.nextId new.length) ∧
    (∀ k, k ≠ loggerKey f.name → (f.call w).2.2.get k = w.get k) ∧
    (f.call w).2.1.inst = some (loggerKey f.name) ∧
    (f.call w).2.2.WF := by
  obtain ⟨h1, h2, h3, h4, _, h6⟩ := lgs_call_fresh_wf f w hf hw
  refine ⟨h1, by rw [h3], by rw [h3], ⟨createdHandlers w.nextId f.handlerFactories, by rw [h3], ?_, ?_⟩, h4, by rw [h2], h6⟩
  · exact lgs_createdHandlers_cfg _ _
  · exact lgs_createdHandlers_ids _ _

/-- `C20_logger_setup` read off the sections: the factory the loader builds for a `<logger>` section (name, level,
    propagate, handler sections `hs`) — called in a well-formed world — returns the logger of that name, which then has
    that level and propagate flag and, after its old handlers, one new handler per handler section in order (a single
    `NullHandler` when `hs` is empty).  For an `<eventlog>` section the logger is the root logger and propagate is not
    touched. -/
theorem C20_section_setup (name : Option Str) (level : Int) (propagate : Bool) (hs : List HandlerCfg) (w : World) (hw : w.WF) :
    (let f := loggerFactoryOf name level propagate hs
     (f.call w).1 = loggerKey name ∧
     ((f.call w).2.2.get (loggerKey name)).level = level ∧
     ((f.call w).2.2.get (loggerKey name)).propagate = propagate ∧
     ∃ new, ((f.call w).2.2.get (loggerKey name)).handlers = (w.get (loggerKey name)).handlers ++ new ∧
       new.map (·.cfg) = (if hs.isEmpty then [none] else hs.map some)) ∧
    (let f := eventLogFactoryOf level hs
     (f.call w).1 = rootName ∧
     ((f.call w).2.2.get rootName).level = level ∧
     ((f.call w).2.2.get rootName).propagate = (w.get rootName).propagate ∧
     ∃ new, ((f.call w).2.2.get rootName).handlers = (w.get rootName).handlers ++ new ∧
       new.map (·.cfg) = (if hs.isEmpty then [none] else hs.map some)) := by
  have hmap : (if (hs.map handlerFactoryOf).isEmpty then [none] else (hs.map handlerFactoryOf).map (fun hf => some hf.cfg))
      = (if hs.isEmpty then [none] else hs.map some) := by
    cases hs with
    | nil => rfl
    | cons c t =>
      simp only [List.map_cons, List.isEmpty_cons, Bool.false_eq_true, ↓reduceIte, List.map_map, List.cons.injEq]
      exact ⟨rfl, List.map_congr_left (fun _ _ => rfl)⟩
  constructor
  · obtain ⟨h1, h2, h3, ⟨new, h4, h5, _⟩, _⟩ :=
      C20_logger_setup (loggerFactoryOf name level propagate hs) w (lgs_loggerFactoryOf_fresh name level propagate hs) hw
    exact ⟨h1, h2, h3, new, h4, h5.trans hmap⟩
  · obtain ⟨h1, h2, h3, ⟨new, h4, h5, _⟩, _⟩ :=
      C20_logger_setup (eventLogFactoryOf level hs) w (lgs_eventLogFactoryOf_fresh level hs) hw
    exact ⟨h1, h2, h3, new, h4, h5.trans hmap⟩

/-- The part of the set-up that needs no hypothesis at all: whatever the logging world and whatever the state of the
    handler factories (some may already have been called by the application), the first call of a logger factory
    returns the logger of the configured name, sets the configured level and propagate flag (`<eventlog>` leaves
    propagate alone), keeps the handlers the logger already had, in order, at the front, touches no other logger,
    leaves every handler factory with its memo filled and its product on the logger, and records the logger in the
    factory's memo.  A factory that was already called just returns its logger. -/
theorem C20_logger_setup_any (f : LoggerFactory) (w : World) :
    (f.inst = none →
      (f.call w).1 = loggerKey f.name ∧
      ((f.call w).2.2.get (loggerKey f.name)).level = f.level ∧
      ((f.call w).2.2.get (loggerKey f.name)).propagate = f.propagate.getD (w.get (loggerKey f.name)).propagate ∧
      (w.get (loggerKey f.name)).handlers <+: ((f.call w).2.2.get (loggerKey f.name)).handlers ∧
      (∀ k, k ≠ loggerKey f.name → (f.call w).2.2.get k = w.get k) ∧
      (f.call w).2.1.handlerFactories.map (·.cfg) = f.handlerFactories.map (·.cfg) ∧
      (f.handlerFactories ≠ [] → ∀ hf ∈ (f.call w).2.1.handlerFactories, ∃ h, hf.inst = some h ∧
        ∃ x ∈ ((f.call w).2.2.get (loggerKey f.name)).handlers, x.id = h.id) ∧
      (f.call w).2.1.inst = some (loggerKey f.name)) ∧
    (∀ n, f.inst = some n → f.call w = (n, f, w)) := by
  refine ⟨fun hi => ?_, fun n hn => lgs_call_called f w n hn⟩
  obtain ⟨hr, hinst⟩ := lgs_call_gen f w hi
  exact ⟨hr.name, hr.level, hr.propagate, hr.oldHandlers, hr.other, hr.sections, hr.products, hinst⟩

/-- a `<logger>` section `app.db`, level 20, propagate off, with two handler sections -/
def exLogger : LoggerFactory :=
  ⟨some "app.db".toList, 20, some false,
   [⟨⟨"FileHandler".toList, 10, "%(message)s".toList, "classic".toList, none⟩, none⟩,
    ⟨⟨"StreamHandler".toList, 30, "{message}".toList, "format".toList, none⟩, none⟩], none⟩
/-- an `<eventlog>` section, level 10, without handler sections -/
def exEventlog : LoggerFactory := ⟨none, 10, none, [], none⟩

example : exLogger.Fresh ∧ exEventlog.Fresh := by decide
example : World.WF ⟨[], 0⟩ := lgs_wf_empty 0
example : (exLogger.call ⟨[], 0⟩).1 = "app.db".toList ∧
    (exLogger.call ⟨[], 0⟩).2.2 =
      ⟨[("app.db".toList, ⟨20, false,
          [⟨0, some ⟨"FileHandler".toList, 10, "%(message)s".toList, "classic".toList, none⟩⟩,
           ⟨1, some ⟨"StreamHandler".toList, 30, "{message}".toList, "format".toList, none⟩⟩]⟩)], 2⟩ := by decide
example : (callAll [exLogger, exEventlog] ⟨[], 0⟩).2.get "root".toList = ⟨10, true, [⟨2, none⟩]⟩ := by decide
example : (exLogger.call ⟨[], 0⟩).2.1.call (exLogger.call ⟨[], 0⟩).2.2 = exLogger.call ⟨[], 0⟩ := by decide

/-- `configureLoggers`-style start-up: calling, in order, the fresh factories of sections that configure pairwise
    different loggers gives every one of these loggers its configured level, propagate flag and — after the handlers it
    already had — exactly one handler per handler section in order; loggers that are not configured are untouched;
    running the loop a second time changes nothing. -/
theorem C20_configure_loggers (fs : List LoggerFactory) (w : World) (hfresh : ∀ f ∈ fs, f.Fresh) (hw : w.WF)
    (hd : (fs.map (fun f => loggerKey f.name)).Nodup) :
    (∀ f ∈ fs,
      ((callAll fs w).2.get (loggerKey f.name)).level = f.level ∧
      ((callAll fs w).2.get (loggerKey f.name)).propagate =
        (f.propagate.getD (w.get (loggerKey f.name)).propagate) ∧
      ∃ new, ((callAll fs w).2.get (loggerKey f.name)).handlers = (w.get (loggerKey f.name)).handlers ++ new ∧
        new.map (·.cfg) = f.cfgs) ∧
    (∀ k, k ∉ fs.map (fun f => loggerKey f.name) → (callAll fs w).2.get k = w.get k) ∧
    callAll (callAll fs w).1 (callAll fs w).2 = callAll fs w := by
  obtain ⟨h1, h2, _⟩ := lgs_callAll_fresh fs w hfresh hw hd
  exact ⟨h1, h2, lgs_callAll_idem fs w⟩

end ZCV.Props.C20
