import ZCV.Model.Logger
import ZCV.Spec.Logger
/-!
# C20 — logger sections produce exactly the configured logging setup, once (decision logic)
-/
namespace ZCV.Props.C20
open ZCV ZCV.Log

/-- the generated level table and bounds are the documented ones: the model of `logging_level` IS the documented function -/
theorem C20_level_spec (value : Str) : loggingLevel value = LogSpec.loggingLevel value := by
  unfold loggingLevel LogSpec.loggingLevel
  have ht : Gen.loggingLevels = LogSpec.levelNames.map (fun p => (p.1.toList, p.2)) := by decide
  have hlo : Gen.levelLo = 0 := rfl
  have hhi : Gen.levelHi = 50 := rfl
  rw [ht, hlo, hhi]
  simp only [List.find?_map]
  cases h : List.find? ((fun x => x.1 == lower value) ∘ fun p : String × Int => (p.1.toList, p.2)) LogSpec.levelNames with
  | some p =>
    have : List.find? (fun p : String × Int => p.1.toList == lower value) LogSpec.levelNames = some p := by
      simpa [Function.comp_def] using h
    simp [this]
  | none =>
    have : List.find? (fun p : String × Int => p.1.toList == lower value) LogSpec.levelNames = none := by
      simpa [Function.comp_def] using h
    simp only [Option.map_none, this]
    cases pyInt (lower value) with
    | none => rfl
    | some v =>
      simp only
      by_cases h1 : v < 0 <;> by_cases h2 : v > 50 <;> simp [h1, h2] <;> omega

/-- every accepted level lies in 0..50 -/
theorem C20_level_range (value : Str) (n : Int) (h : loggingLevel value = .ok n) : 0 ≤ n ∧ n ≤ 50 := by
  rw [C20_level_spec] at h
  unfold LogSpec.loggingLevel at h
  dsimp only at h
  split at h
  · rename_i p hp
    have hm := List.mem_of_find?_eq_some hp
    simp only [Except.ok.injEq] at h
    subst h
    simp only [LogSpec.levelNames, List.mem_cons, List.not_mem_nil, or_false] at hm
    rcases hm with h | h | h | h | h | h | h | h | h | h | h <;> (injection h with _ h2; subst h2; decide)
  · split at h
    · split at h
      · simp only [Except.ok.injEq] at h; subst h; assumption
      · cases h
    · cases h

/-- the standard streams refuse every rotation option, `delay` and `encoding` -/
theorem C20_std_stream_options_refused (o : FileOpts) (hp : o.path = "STDOUT".toList ∨ o.path = "STDERR".toList)
    (hopt : o.maxBytes ≠ 0 ∨ o.oldFiles ≠ 0 ∨ truthy o.when = true ∨ o.delay = true ∨ truthy o.encoding = true) :
    fileHandlerKind o = .error .valueError := by
  unfold fileHandlerKind
  rcases hp with hp | hp <;> rcases hopt with h | h | h | h | h <;> simp_all [Except.map] <;>
    (repeat' split) <;> simp_all

/-- rotation of a file requires `old-files` -/
theorem C20_rotation_requires_old_files (o : FileOpts) (hp1 : o.path ≠ "STDOUT".toList) (hp2 : o.path ≠ "STDERR".toList)
    (hrot : truthy o.when = true ∨ o.maxBytes ≠ 0 ∨ o.interval ≠ 0) (hold : o.oldFiles = 0) :
    fileHandlerKind o = .error .valueError := by
  unfold fileHandlerKind
  rcases hrot with h | h | h <;> simp_all

/-- after `closeFiles()` the registry is empty and every handler that was registered and alive is closed — for any
    history of create / drop / close / reopen / closeFiles operations -/
theorem C20_closeFiles_closes_all_registered (r : Reg) (h : H) (hm : h ∈ r.handlers) (hreg : r.registry.contains h.id = true)
    (ha : h.alive = true) :
    (stepReg r .closeFiles).registry = [] ∧ { h with closed := true } ∈ (stepReg r .closeFiles).handlers := by
  constructor
  · rfl
  · simp only [stepReg, List.mem_map]
    refine ⟨h, hm, ?_⟩
    have : (r.registry.contains h.id && h.alive) = true := by rw [hreg, ha]; rfl
    simp only [this, ↓reduceIte]

end ZCV.Props.C20
