import ZCV.Model.TreeLoad
namespace ZCV.Props.C11
open ZCV
end ZCV.Props.C11
