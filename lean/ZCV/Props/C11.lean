import ZCV.Lemmas.ElabExpandGlobal
import ZCV.Lemmas.ElabExpandEx
import ZCV.Lemmas.ElabRulesComps
/-!
# C11 — schema composition features mean the same as their written-out expansion

Theorems about the composition steps of the schema-loader model (`ZCV/Model/Elab.lean`): what a derived section type
gets from its base (`deriveSectionType`), how relative names are resolved against the prefix stack, and that a
component is merged into a schema once.

Notation (from `ZCV/Lemmas/ElabRules.lean`): `Pointwise R l l'` — the lists have the same length and `R l[i] l'[i]`
for every position; `DerivedChild env kt c c'` — `c'` is what the child `c` of the base becomes in a type derived under
key type `kt`; `addSubtype es an n` — `AbstractType.addsubtype`: the abstract type `an` gains the subtype name `n`
(once); `importSource pkg file` — the string `package:<pkg>:<file>` under which a merged component is remembered.
-/
namespace ZCV.Props.C11
open ZCV ZCV.Elab
open ZCV.Cfg (VI SectInfo Default)

/-! ## a. the children of a derived type -/

/-- what `DerivedChild` says, case by case: sections and fixed keys are copied unchanged; a wildcard (`+`) key keeps its
container key and becomes `computedefault(kt)` of the base's key object -/
theorem C11_derived_child_cases (env : Env) (kt : Str) (key : Option Str) (c' : Option Str × EInfo) :
    (∀ s, DerivedChild env kt (key, .sect s) c' ↔ c' = (key, .sect s)) ∧
    (∀ k, k.name ≠ ['+'] → (DerivedChild env kt (key, .key k) c' ↔ c' = (key, .key k))) ∧
    (∀ k, k.name = ['+'] →
        (DerivedChild env kt (key, .key k) c' ↔ ∃ k', computeDefault env kt k = .ok k' ∧ c' = (key, .key k'))) := by
  refine ⟨fun s => Iff.rfl, fun k hn => ?_, fun k hn => ?_⟩
  · simp only [DerivedChild, hn, ↓reduceIte]
  · simp only [DerivedChild, hn, ↓reduceIte]

/-- `deriveSectionType`'s copy of the base's children under the new key type `kt` succeeds with `ch'` exactly when
`ch'` is, position by position, the derived form of `ch`.  In particular: same length, same keys, same attribute
names, every child that is not a wildcard key unchanged, every wildcard key recomputed by `computedefault(kt)`. -/
theorem C11_derive_children (env : Env) (kt : Str) (ch ch' : List (Option Str × EInfo)) :
    (deriveChildren env kt ch = .ok ch' ↔ Pointwise (DerivedChild env kt) ch ch') ∧
    (deriveChildren env kt ch = .ok ch' →
      ch'.length = ch.length ∧ ch'.map (·.1) = ch.map (·.1) ∧ ch'.map (·.2.attr) = ch.map (·.2.attr) ∧
      ∀ (i : Nat) (h1 : i < ch.length) (h2 : i < ch'.length), DerivedChild env kt ch[i] ch'[i]) := by
  refine ⟨deriveChildren_ok_iff env kt ch ch', fun h => ⟨deriveChildren_length h, deriveChildren_keys h,
    deriveChildren_attrs h, ?_⟩⟩
  exact ((deriveChildren_ok_iff env kt ch ch').1 h).get

private def exKey : EKey :=
  { name := "k".toList, attr := "k".toList, multi := false, minOccurs := 0, dt := "string".toList, handler := none,
    dflt := .none }
example (env : Env) (kt : Str) : deriveChildren env kt [(some "k".toList, .key exKey)] = .ok [(some "k".toList, .key exKey)] :=
  (deriveChildren_ok_iff _ _ _ _).2 (.cons rfl .nil)

/-- `computedefault` changes nothing in the key object but the defaults, and remembers the defaults *as written*
(`_rawdefaults`): the first time they are the current defaults, later they are the remembered ones -/
theorem C11_raw_defaults_preserved (env : Env) (kt : Str) (k k' : EKey) (h : computeDefault env kt k = .ok k') :
    k.name = ['+'] ∧ ∃ d, k' = { k with raw := some (k.raw.getD k.dflt), dflt := d } :=
  computeDefault_ok h

/-- hence a key that went through `computedefault` once (under any key type) is recomputed, under a new key type
`kt2`, exactly as the original would be: from the keys as written, not from the already normalised ones -/
theorem C11_recompute_from_raw (env : Env) (kt kt2 : Str) (k k' : EKey) (h : computeDefault env kt k = .ok k') :
    computeDefault env kt2 k' = computeDefault env kt2 k ∧ k'.raw.getD k'.dflt = k.raw.getD k.dflt := by
  refine ⟨computeDefault_again h, ?_⟩
  obtain ⟨_, d, rfl⟩ := computeDefault_ok h
  rfl

/-- deriving from a derived type (`t2 extends t1 extends t0`) gives the children that deriving directly from the first
base's children under the last key type gives -/
theorem C11_derive_twice (env : Env) (kt kt2 : Str) (ch ch' : List (Option Str × EInfo))
    (h : deriveChildren env kt ch = .ok ch') : deriveChildren env kt2 ch' = deriveChildren env kt2 ch :=
  deriveChildren_again h

/-! ## b. what `extends` inherits -/

/-- after an accepted `<sectiontype name=… extends=b>`: the base `b` is a concrete type defined earlier; the new type
`t` is in the table and on top of the stack; its key type (datatype) is the base's when the element has no `keytype`
(`datatype`) attribute, and otherwise what the attribute alone gives — the same as for a type without base; and its
children are the base's children derived under the new key type. -/
theorem C11_extends_inherits (env : Env) (st st' : PSt) (attrs : Attrs) (b : Str)
    (hx : attr attrs "extends" = some b) (h : startSectiontype env st attrs = .ok st') :
    ∃ name st1 bn key base t,
      pushPrefix st attrs = .ok st1 ∧ basicKeyE b = .ok bn ∧ st.es.gettype bn = some (key, .concrete base) ∧
      st'.es.types.find? (·.1 == name) = some (name, .concrete t) ∧ st'.stack = .stype name :: st.stack ∧
      (attr attrs "keytype" = none → t.keytype = base.keytype) ∧
      (attr attrs "datatype" = none → t.datatype = base.datatype) ∧
      ((attr attrs "keytype").isSome = true →
          getDatatype env st1 attrs "keytype" "basic-key" none = .ok t.keytype) ∧
      ((attr attrs "datatype").isSome = true →
          getDatatype env st1 attrs "datatype" "null" none = .ok t.datatype) ∧
      deriveChildren env t.keytype base.children = .ok t.children := by
  obtain ⟨name, st1, bn, key, base, t, h1, h2, h3, h4, h5, _, h7, h8⟩ := startSectiontype_extends_result hx h
  obtain ⟨g1, _, g3⟩ := getSectTypeinfo_ok h7
  simp only [Option.map_some] at g1 g3
  refine ⟨name, st1, bn, key, base, t, h1, h2, h3, h4, h5, ?_, ?_, ?_, ?_, h8⟩
  · intro hk
    rw [getDatatype_base env st1 attrs _ _ _ hk] at g1
    injection g1 with g1; exact g1.symm
  · intro hd
    rw [getDatatype_base env st1 attrs _ _ _ hd] at g3
    injection g3 with g3; exact g3.symm
  · intro hk
    rw [getDatatype_attr_base_irrelevant env st1 attrs _ _ none (some base.keytype) hk]; exact g1
  · intro hd
    rw [getDatatype_attr_base_irrelevant env st1 attrs _ _ none (some base.datatype) hd]; exact g3

/-- for comparison, a type without `extends`: no children, key type and datatype from its own attributes (defaults
`basic-key` / `null`) -/
theorem C11_plain_sectiontype (env : Env) (st st' : PSt) (attrs : Attrs)
    (hx : attr attrs "extends" = none) (h : startSectiontype env st attrs = .ok st') :
    ∃ name st1 t, pushPrefix st attrs = .ok st1 ∧
      st'.es.types.find? (·.1 == name) = some (name, .concrete t) ∧ st'.stack = .stype name :: st.stack ∧
      t.children = [] ∧
      getDatatype env st1 attrs "keytype" "basic-key" none = .ok t.keytype ∧
      getDatatype env st1 attrs "datatype" "null" none = .ok t.datatype := by
  obtain ⟨name, st1, t, h1, h2, h3, h4, h5⟩ := startSectiontype_plain_result hx h
  obtain ⟨g1, _, g3⟩ := getSectTypeinfo_ok h5
  exact ⟨name, st1, t, h1, h2, h3, h4, g1, g3⟩

/-- `implements` is not inherited: without an `implements` attribute the only change to the type table is the new
entry — no abstract type gains the new name, whatever the base implements -/
theorem C11_implements_not_inherited (env : Env) (st st' : PSt) (attrs : Attrs)
    (hi : attr attrs "implements" = none) (h : startSectiontype env st attrs = .ok st') :
    ∃ name t, st'.es = { st.es with types := st.es.types ++ [(name, .concrete t)] } :=
  startSectiontype_noimplements hi h

/-- with `implements=i`: `i` is an abstract type `an` defined earlier, and the table is the old one plus the new
entry, with `an` — and only `an` — gaining the new name (once) -/
theorem C11_implements_given (env : Env) (st st' : PSt) (attrs : Attrs) (i : Str)
    (hi : attr attrs "implements" = some i) (h : startSectiontype env st attrs = .ok st') :
    ∃ name t ifn an nm subs d, basicKeyE i = .ok ifn ∧ st.es.gettype ifn = some (an, .abstract_ nm subs d) ∧
      st'.es = addSubtype { st.es with types := st.es.types ++ [(name, .concrete t)] } an name ∧
      (∀ m, m ≠ an → st'.es.types.find? (·.1 == m) =
          (st.es.types ++ [(name, EEntry.concrete t)]).find? (·.1 == m)) ∧
      (∀ m k t', (st.es.types ++ [(name, EEntry.concrete t)]).find? (·.1 == m) = some (k, .concrete t') →
          st'.es.types.find? (·.1 == m) = some (k, .concrete t')) := by
  obtain ⟨name, t, ifn, an, nm, subs, d, h1, h2, h3⟩ := startSectiontype_implements hi h
  refine ⟨name, t, ifn, an, nm, subs, d, h1, h2, h3, ?_, ?_⟩
  · intro m hm; rw [h3]; exact addSubtype_find_other _ an name m hm
  · intro m k t' hf; rw [h3]; exact addSubtype_find_concrete _ an name m k t' hf

/-- `addsubtype`: the abstract type named gains the subtype name unless it already has it -/
theorem C11_addsubtype (es : ES) (an name k nm : Str) (subs : List Str) (d : Bool)
    (h : es.types.find? (·.1 == an) = some (k, .abstract_ nm subs d)) :
    (addSubtype es an name).types.find? (·.1 == an) =
      some (k, .abstract_ nm (if subs.contains name then subs else subs ++ [name]) d) :=
  addSubtype_find_self es an name k nm subs d h

/-! ## c. prefixes -/

/-- `get_classname`: a name starting with `.` is the innermost prefix followed by the name; any other name is taken as
it is -/
theorem C11_prefix_resolution (st : PSt) (name : Str) :
    (∀ p ps, name.head? = some '.' → st.prefixes = p :: ps → getClassname st name = .ok (p ++ name)) ∧
    (name.head? ≠ some '.' → getClassname st name = .ok name) :=
  ⟨fun p ps h hp => getClassname_dot st name p ps h hp, getClassname_plain st name⟩

/-- `push_prefix`: a `prefix` attribute starting with `.` (a dotted suffix) composes with the enclosing prefix; one
not starting with `.` (a dotted name; at the outermost level it must be one) replaces it; none, or an empty one,
repeats the enclosing prefix (the empty string at the outermost level); an ill-formed one is a `SchemaError`.
In every case exactly one entry is pushed and nothing else in the state changes, so popping restores the state. -/
theorem C11_prefix (st : PSt) (attrs : Attrs) :
    (∀ nm p ps, attr attrs "prefix" = some ('.' :: nm) → st.prefixes = p :: ps →
        DTSpec.isDottedSuffix ('.' :: nm) = true →
        pushPrefix st attrs = .ok { st with prefixes := (p ++ '.' :: nm) :: st.prefixes }) ∧
    (∀ c cs, attr attrs "prefix" = some (c :: cs) → c ≠ '.' →
        (if st.prefixes.isEmpty then DTSpec.isDottedName (c :: cs) else DTSpec.isDottedSuffix (c :: cs)) = true →
        pushPrefix st attrs = .ok { st with prefixes := (c :: cs) :: st.prefixes }) ∧
    ((attr attrs "prefix").getD [] = [] →
        pushPrefix st attrs = .ok { st with prefixes := (st.prefixes.head?.getD []) :: st.prefixes }) ∧
    (∀ c cs, attr attrs "prefix" = some (c :: cs) →
        (if st.prefixes.isEmpty then DTSpec.isDottedName (c :: cs) else DTSpec.isDottedSuffix (c :: cs)) = false →
        pushPrefix st attrs = .error (.schema "not a valid prefix")) ∧
    (∀ st1, pushPrefix st attrs = .ok st1 →
        (∃ p, st1 = { st with prefixes := p :: st.prefixes }) ∧ popPrefix st1 = st) :=
  ⟨fun nm p ps ha hp hv => pushPrefix_relative st attrs nm p ps ha hp hv,
   fun c cs ha hc hv => pushPrefix_absolute st attrs c cs ha hc hv,
   pushPrefix_none st attrs,
   fun c cs ha hv => pushPrefix_invalid st attrs c cs ha hv,
   fun _ h => ⟨pushPrefix_ok h, popPrefix_pushPrefix h⟩⟩

example : DTSpec.isDottedSuffix ".sub".toList = true ∧ DTSpec.isDottedName "pkg.mod".toList = true := by decide

/-- prefixes compose outward: inside an element with prefix `p`, an element with prefix `.q` resolves the name `.n`
to `p.q.n` -/
theorem C11_prefix_composes (st : PSt) (attrs : Attrs) (q n p : Str) (ps : List Str)
    (ha : attr attrs "prefix" = some ('.' :: q)) (hp : st.prefixes = p :: ps)
    (hv : DTSpec.isDottedSuffix ('.' :: q) = true) :
    ∃ st1, pushPrefix st attrs = .ok st1 ∧ getClassname st1 ('.' :: n) = .ok (p ++ '.' :: q ++ '.' :: n) := by
  refine ⟨_, pushPrefix_relative st attrs q p ps ha hp hv, ?_⟩
  rw [getClassname_dot _ ('.' :: n) (p ++ '.' :: q) st.prefixes rfl rfl]

/-- the datatype attributes are resolved through the prefix: with the attribute present, `get_datatype` looks up the
name made absolute, and the base's value is not consulted -/
theorem C11_datatype_through_prefix (env : Env) (st : PSt) (attrs : Attrs) (key dflt : String) (base : Option Str)
    (v : Str) (h : attr attrs key = some v) :
    getDatatype env st attrs key dflt base = (getClassname st v >>= regGet env) :=
  getDatatype_attr env st attrs key dflt base v h

/-! ## d. a component is merged once -/

/-- `<import package=… [file=…]>` (well-formed, package name `pkg'` after prefix resolution, resolvable to a package):
if `package:pkg':file` is already among the schema's components, the state is returned unchanged and nothing is read —
whatever the hooks are.  Otherwise the component is recorded *before* its document is read: the schema handed to
`loadComponent` already lists it.  So an import of the same component met while it is being read (a cycle), or again
later (a diamond), falls under the first case. -/
theorem C11_import_once (env : Env) (h : Hooks) (st : PSt) (attrs : Attrs) (pkg' : Str)
    (hsrc : attrStrip attrs "src" = []) (hpkg : attrStrip attrs "package" ≠ [])
    (hfile : (attrStrip attrs "file").contains '/' = false)
    (hcls : getClassname st (attrStrip attrs "package") = .ok pkg')
    (hsplit : (splitOnChar pkg' '.').contains [] = false) :
    (importSource pkg' (importFile attrs) ∈ st.es.components →
        (env.comps pkg' (importFile attrs) = .noFile ∨ ∃ tree, env.comps pkg' (importFile attrs) = .doc tree) →
        startImport env h st attrs = .ok st) ∧
    (∀ tree, importSource pkg' (importFile attrs) ∉ st.es.components →
        env.comps pkg' (importFile attrs) = .doc tree →
        ∃ es1 : ES, importSource pkg' (importFile attrs) ∈ es1.components ∧
          es1 = { st.es with components := st.es.components ++ [importSource pkg' (importFile attrs)] } ∧
          startImport env h st attrs = (h.loadComponent es1 tree).map fun es2 => { st with es := es2 }) := by
  constructor
  · intro hin hres
    exact startImport_once env h st attrs pkg' hsrc hpkg hfile hcls hsplit hres hin
  · intro tree hin hres
    exact ⟨_, by simp, rfl, startImport_first env h st attrs pkg' tree hsrc hpkg hfile hcls hsplit hres hin⟩

/-- the remembered string is `package:<pkg>:<file>`, with `component.xml` when no file is given -/
theorem C11_import_source (attrs : Attrs) (pkg : Str) :
    importSource pkg (importFile attrs) =
      "package:".toList ++ pkg ++ [':'] ++
        (if (attrStrip attrs "file").isEmpty then "component.xml".toList else attrStrip attrs "file") := rfl

/-- the component registry only grows: reading any element — with everything inside it, including the components it
imports and, for a base schema, the schemas it extends — never removes an entry.  (`Hooks.Mono`: the hooks themselves
never forget a component; the loader's own hooks do, next theorem.  `StartOk`: the pass starts below an element, or at
the root of a component, or at the root of a base schema continuing the extending schema.) -/
theorem C11_components_grow (env : Env) (h : Hooks) (d : DocKind) (hm : h.Mono) (n : Node) (p : Option Str)
    (st st' : PSt) (hs : StartOk d p st) (hv : visitElem env h d p st n = .ok st') :
    st.es.components ⊆ st'.es.components :=
  visitElem_comps hm n p st st' hs hv

/-- the hooks `loadSchema` uses at every nesting depth never forget a component -/
theorem C11_loader_hooks_monotone (env : Env) (fuel : Nat) : (hooks env fuel).Mono := hooks_mono env fuel

/-- cycles and diamonds: once `src` is in the registry — in particular in the schema that `start_import` hands to
`loadComponent`, which already lists the component being read — it stays there, and every `<import>` element met
from then on, at any depth of the document being read, is handled in a state `s0` that lists `src`; so if that
`<import>` resolves to `src` it returns `s0` unchanged, without reading anything. -/
theorem C11_import_cycle_skipped (env : Env) (h : Hooks) (d : DocKind) (hm : h.Mono) (src : Str) (root : Node)
    (st st' : PSt) (hs : StartOk d none st) (hv : visitElem env h d none st root = .ok st')
    (hin : src ∈ st.es.components) :
    src ∈ st'.es.components ∧
    ∀ q a c, Occurs none root q (.elem "import".toList a c) →
      ∃ s0 s1, src ∈ s0.es.components ∧ startImport env h s0 a = .ok s1 ∧
        (∀ pkg', attrStrip a "src" = [] → attrStrip a "package" ≠ [] →
            (attrStrip a "file").contains '/' = false → getClassname s0 (attrStrip a "package") = .ok pkg' →
            (splitOnChar pkg' '.').contains [] = false →
            (env.comps pkg' (importFile a) = .noFile ∨ ∃ tree, env.comps pkg' (importFile a) = .doc tree) →
            importSource pkg' (importFile a) = src → s1 = s0) := by
  refine ⟨visitElem_comps hm root none st st' hs hv hin, ?_⟩
  intro q a c ho
  obtain ⟨s0, s1, hC, hstart⟩ := accepted_start_comps hm [src] ho hs (by simpa [comps] using hin) hv
    "import".toList a c rfl (by decide +kernel)
  rw [startHandled_import] at hstart
  have hin0 : src ∈ s0.es.components := hC (by simp)
  refine ⟨s0, s1, hin0, hstart, ?_⟩
  intro pkg' h1 h2 h3 h4 h5 h6 h7
  have := startImport_once env h s0 a pkg' h1 h2 h3 h4 h5 h6 (h7 ▸ hin0)
  rw [this] at hstart
  cases hstart; rfl

/-- the same, put together for the loader: when `start_import` reads a new component `tree` (fuel `n + 1`), the
registry handed over lists it (`C11_import_once`), so in the result it is still listed and every `<import>` inside
`tree` was handled in a state that lists it -/
theorem C11_import_cycle_loader (env : Env) (n : Nat) (src : Str) (es1 es2 : ES) (tree : Node)
    (hin : src ∈ es1.components) (hl : (hooks env (n + 1)).loadComponent es1 tree = .ok es2) :
    src ∈ es2.components ∧
    ∀ q a c, Occurs none tree q (.elem "import".toList a c) →
      ∃ s0 s1, src ∈ s0.es.components ∧ startImport env (hooks env n) s0 a = .ok s1 := by
  simp only [hooks] at hl
  cases hv : visitElem env (hooks env n) .component none { es := es1 } tree with
  | error e => rw [hv] at hl; cases hl
  | ok st' =>
    rw [hv] at hl; cases hl
    obtain ⟨h1, h2⟩ := C11_import_cycle_skipped env (hooks env n) .component (hooks_mono env n) src tree
      { es := es1 } st' trivial hv hin
    refine ⟨h1, fun q a c ho => ?_⟩
    obtain ⟨s0, s1, g1, g2, _⟩ := h2 q a c ho
    exact ⟨s0, s1, g1, g2⟩


/-- **A section type that extends another equals the type written out** (`Spec/Expand.lean`: the base's keys and sections first,
    key type and datatype inherited unless given, `implements` not inherited): loading the document and loading its written-out
    form give the SAME result — the same schema object or the same error — for every environment, chains of any length.
    PARTIAL: for documents satisfying `expandableDoc` (decidable): no `<import>` directly under `<schema>`, no `prefix` on a
    section type, every `extends` names an earlier section type of the same document, and a derived type does not override
    `keytype`.  The last condition cannot be dropped: `C11_extends_counterexample` (the listed finding C11-inherited-fixed-name). -/
theorem C11_extends_partial (env : Elab.Env) (fuel : Nat) (t : Elab.Node) (hx : Elab.expandableDoc t = true) :
    Elab.elabSchema env fuel t = Elab.elabSchema env fuel (Elab.expandExtends t) :=
  Elab.C11_extends_partial env fuel t hx

end ZCV.Props.C11
