import ZCV.Lemmas.Datatypes
import ZCV.Lemmas.Datatypes2Total
import ZCV.Lemmas.Datatypes2Split
import ZCV.Lemmas.Datatypes2Octet
import ZCV.Lemmas.Datatypes2V6
/-!
# C09 — every standard datatype is a total function honouring its documented contract

Totality is by construction (`Except ConvErr α`: a value, ValueError, or timedelta's TypeError; no other outcome
exists in the model).  Each theorem below says: the model of the code — through the patterns, word tuples, bounds and
suffix tables *generated from the source* — computes exactly the documented contract, for every string.

The second half (from `C09_ipaddrOrHostname_spec` on) covers the remaining stock datatypes: `ipaddr-or-hostname`
(live pattern with `rx.match` + "consumed everything", then `inet_pton`), `integer` and `float` (grammars of what
Python's `int`/`float` accept, `DTSpec.IntLit` / `DTSpec.FloatLit`), `string-list` (`DTSpec.Words`), totality of the
whole stock table and idempotence of the key types.  `timedelta`, `locale` and the four `existing-*` datatypes are
not modelled by `stockVal` (see `C09_unmodelled`); nothing is claimed about them here.
-/
namespace ZCV.Props.C09
open ZCV

/-- `basic-key` accepts exactly a letter followed by letters, digits, `-`, `.`, `_`, and lower-cases it. -/
theorem C09_basicKey_spec (s : Str) : DT.basicKey s = DTSpec.basicKey s := DT.basicKey_eq_spec s
/-- `identifier` accepts exactly the ASCII identifiers and returns them unchanged. -/
theorem C09_identifier_spec (s : Str) : DT.identifier s = DTSpec.identifier s := DT.identifier_eq_spec s
/-- `dotted-name` accepts exactly one or more identifiers separated by periods. -/
theorem C09_dottedName_spec (s : Str) : DT.dottedName s = DTSpec.dottedName s := DT.dottedName_eq_spec s
/-- `dotted-suffix` accepts exactly a dotted name, possibly prefixed by a period. -/
theorem C09_dottedSuffix_spec (s : Str) : DT.dottedSuffix s = DTSpec.dottedSuffix s := DT.dottedSuffix_eq_spec s
/-- `boolean` accepts exactly yes/true/on and no/false/off in any letter case. -/
theorem C09_boolean_spec (s : Str) : DT.asBoolean s = DTSpec.boolean s := DT.asBoolean_eq_spec s
/-- `port-number` yields an integer in 0..65535 and rejects everything else. -/
theorem C09_portNumber_spec (s : Str) : DT.portNumber s = DTSpec.portNumber s := DT.portNumber_eq_spec s
/-- `byte-size` multiplies an integer by the case-insensitive suffix KB/MB/GB (none: 1). -/
theorem C09_byteSize_spec (s : Str) : DT.byteSize s = DTSpec.byteSize s := DT.byteSize_eq_spec s
/-- `time-interval` multiplies an integer by the case-insensitive suffix s/m/h/d (none: 1). -/
theorem C09_timeInterval_spec (s : Str) : DT.timeInterval s = DTSpec.timeInterval s := DT.timeInterval_eq_spec s
/-- The `inet-address` family splits host and port with the IPv6 bracket rule, lower-cases the host and supplies
    the default host `d`. -/
theorem C09_inetAddress_spec (d s : Str) : DT.inetAddress d s = DTSpec.inetAddress d s := DT.inetAddress_eq_spec d s
/-- `socket-address` classifies UNIX paths (containing `/`), IPv6 (host containing `:`) and IPv4. -/
theorem C09_socketAddress_spec (d s : Str) :
    (DT.socketAddress d s).map (fun p => (String.ofList (DT.familyStr p.1), p.2)) = DTSpec.socketFamily d s :=
  DT.socketAddress_eq_spec d s
/-- `basic-key` is idempotent. -/
theorem C09_basicKey_idempotent (s r : Str) (h : DT.basicKey s = .ok r) : DT.basicKey r = .ok r :=
  DT.basicKey_idempotent s r h
/-- `identifier` is idempotent. -/
theorem C09_identifier_idempotent (s r : Str) (h : DT.identifier s = .ok r) : DT.identifier r = .ok r :=
  DT.identifier_idempotent s r h

/-- equality of conversion outcomes is decidable (used by the closed examples below only) -/
local instance c09DecEqExcept {ε α : Type} [DecidableEq ε] [DecidableEq α] : DecidableEq (Except ε α) := fun a b =>
  match a, b with
  | .ok x, .ok y => if h : x = y then isTrue (by rw [h]) else isFalse (fun e => h (by injection e))
  | .error x, .error y => if h : x = y then isTrue (by rw [h]) else isFalse (fun e => h (by injection e))
  | .ok _, .error _ => isFalse (fun e => by cases e)
  | .error _, .ok _ => isFalse (fun e => by cases e)

/-! ## ipaddr-or-hostname -/

/-- The regular-expression side of `ipaddr-or-hostname`, for ALL strings: the live pattern (used as
    `m = rx.match(v); m and m.group() == v`, i.e. the FIRST match in backtracking order must consume everything)
    accepts exactly a dotted quad, or a text over `[0-9A-Fa-f:.]` with a colon after its first character, or a host
    name `[A-Za-z_][-A-Za-z0-9_.]*[-A-Za-z0-9_]`. -/
theorem C09_ipaddrOrHostname_pattern (s : Str) :
    Rx.matchesWhole Gen.ipaddrRx s = (DTSpec.isDottedQuad s || DT.dt2V6Shape s || DTSpec.isHostname s) :=
  DT.dt2_ipaddr_matches s

/-- `ipaddr-or-hostname` computes exactly its documented contract, for every string: a dotted quad, a host name, or
    a text over `[0-9A-Fa-f:.]` containing a colon that `inet_pton(AF_INET6, ·)` (as re-implemented in `ZCV.Inet`)
    accepts once lower-cased — returned lower-cased; anything else is a `ValueError`. -/
theorem C09_ipaddrOrHostname_spec (s : Str) : DT.ipaddrOrHostname s = DTSpec.ipaddrOrHostname s :=
  DT.dt2_ipaddrOrHostname_eq_spec s

/-- Soundness, readable form: whatever `ipaddr-or-hostname` accepts has one of the three documented shapes, and
    the result is the input lower-cased. -/
theorem C09_ipaddrOrHostname_sound (s r : Str) (h : DT.ipaddrOrHostname s = .ok r) :
    r = lower s ∧ (DTSpec.isDottedQuad s = true ∨ DTSpec.isHostname s = true ∨
      (s.all DTSpec.isV6Char = true ∧ s.contains ':' = true ∧ DT.pton6 (lower s) = true)) := by
  rw [C09_ipaddrOrHostname_spec] at h
  exact (DT.dt2_spec_ok_iff s r).mp h

/-- Completeness: every dotted quad, every host name and every valid IPv6 address is accepted (and lower-cased).
    No side condition on the IPv6 branch: what `inet_pton` accepts is over `[0-9A-Fa-f:.]` and contains a colon,
    `lower` creates no such character from a non-ASCII one, and `inet_pton` ignores the case of hex letters. -/
theorem C09_ipaddrOrHostname_complete (s : Str)
    (h : DTSpec.isDottedQuad s = true ∨ DTSpec.isHostname s = true ∨ DT.pton6 s = true) :
    DT.ipaddrOrHostname s = .ok (lower s) :=
  (DT.dt2_ipaddrOrHostname_exact' s _).mpr ⟨rfl, h⟩

/-- The property as stated: `ipaddr-or-hostname` accepts EXACTLY dotted-quad IPv4, valid IPv6 addresses and host
    names, lower-casing them … -/
theorem C09_ipaddrOrHostname_exact (s r : Str) :
    DT.ipaddrOrHostname s = .ok r ↔
      r = lower s ∧ (DTSpec.isDottedQuad s = true ∨ DTSpec.isHostname s = true ∨ DT.pton6 s = true) :=
  DT.dt2_ipaddrOrHostname_exact' s r

/-- … and raises `ValueError` on every other string. -/
theorem C09_ipaddrOrHostname_reject (s : Str) :
    DT.ipaddrOrHostname s = .error .valueError ↔
      ¬ (DTSpec.isDottedQuad s = true ∨ DTSpec.isHostname s = true ∨ DT.pton6 s = true) :=
  DT.dt2_ipaddrOrHostname_exact_err' s

/-- Validity as an IPv6 address does not depend on letter case: the text and its lower-casing (the form the code
    hands to `inet_pton`) get the same verdict. -/
theorem C09_inet6_case_insensitive (s : Str) : DT.pton6 (lower s) = true ↔ DT.pton6 s = true :=
  DT.dt2_pton6_lower_iff s

/-- A valid IPv6 address (as `inet_pton` sees it) is a text over `[0-9A-Fa-f:.]` containing a colon. -/
theorem C09_inet6_alphabet (s : Str) (h : DT.pton6 s = true) : s.all DTSpec.isV6Char = true ∧ ':' ∈ s :=
  DT.dt2_pton6_shape s h

/-- The fields of an accepted dotted quad: exactly four, each written with one to three `\d` digits (any Unicode
    decimal-digit script) and denoting a number 0..255. -/
theorem C09_dottedQuad_fields (s : Str) (h : DTSpec.isDottedQuad s = true) :
    (DTSpec.splitDots s).length = 4 ∧
    ∀ o ∈ DTSpec.splitDots s, 1 ≤ o.length ∧ o.length ≤ 3 ∧ ∃ n, pyNat o = some n ∧ n ≤ 255 := by
  simp only [DTSpec.isDottedQuad, Bool.and_eq_true, beq_iff_eq, List.all_eq_true] at h
  exact ⟨h.1, fun o ho => DT.dt2_octet_range o (h.2 o ho)⟩

/-- Conversely, over ASCII digits: four fields, each a number 0..255 written with one to three digits, form a
    dotted quad.  (With non-ASCII digits the pattern `[01]?\d\d|2[0-4]\d|25[0-5]` admits fewer three-digit fields.) -/
theorem C09_dottedQuad_ascii (s : Str) (hl : (DTSpec.splitDots s).length = 4)
    (h : ∀ o ∈ DTSpec.splitDots s, o.all isAsciiDigit = true ∧
      1 ≤ o.length ∧ o.length ≤ 3 ∧ ∃ n, pyNat o = some n ∧ n ≤ 255) :
    DTSpec.isDottedQuad s = true := by
  simp only [DTSpec.isDottedQuad, Bool.and_eq_true, beq_iff_eq, List.all_eq_true]
  exact ⟨hl, fun o ho => DT.dt2_octet_ascii o (h o ho).1 (h o ho).2⟩

/-- `ipaddr-or-hostname` is idempotent: converting a converted value returns it unchanged (what a key type needs). -/
theorem C09_ipaddrOrHostname_idempotent (s r : Str) (h : DT.ipaddrOrHostname s = .ok r) :
    DT.ipaddrOrHostname r = .ok r :=
  DT.dt2_ipaddrOrHostname_idempotent s r h

example : DT.ipaddrOrHostname "192.168.0.255".toList = .ok "192.168.0.255".toList := by
  rw [C09_ipaddrOrHostname_spec]; decide
example : DT.ipaddrOrHostname "Host-1.Example".toList = .ok "host-1.example".toList := by
  rw [C09_ipaddrOrHostname_spec]; decide
example : DT.ipaddrOrHostname "FE80::1".toList = .ok "fe80::1".toList := by
  rw [C09_ipaddrOrHostname_spec]; decide
example : DT.ipaddrOrHostname "::ffff:1.2.3.4".toList = .ok "::ffff:1.2.3.4".toList := by
  rw [C09_ipaddrOrHostname_spec]; decide
example : DT.ipaddrOrHostname "1.2.3.256".toList = .error .valueError := by
  rw [C09_ipaddrOrHostname_spec]; decide
example : DT.ipaddrOrHostname "1::2::3".toList = .error .valueError := by
  rw [C09_ipaddrOrHostname_spec]; decide
example : DT.ipaddrOrHostname "1.2.3.4\n".toList = .error .valueError := by
  rw [C09_ipaddrOrHostname_spec]; decide

/-! ## integer -/

/-- `integer` accepts exactly the integer literals — optional surrounding whitespace, an optional sign, digits of any
    Unicode decimal-digit script with single underscores between digits — and returns the decimal value. -/
theorem C09_integer_spec (s : Str) (n : Int) : DT.integer s = .ok n ↔ DTSpec.IntLit s n := by
  rw [← DT.dt2_pyInt_iff]
  unfold DT.integer
  cases pyInt s with
  | none => simp
  | some k => simp

/-- …and rejects everything else with `ValueError`. -/
theorem C09_integer_reject (s : Str) : DT.integer s = .error .valueError ↔ ¬ ∃ n, DTSpec.IntLit s n := by
  constructor
  · rintro h ⟨n, hn⟩
    rw [(C09_integer_spec s n).mpr hn] at h; cases h
  · intro h
    rcases DT.dt2_integer_spec s with ⟨n, hn, _⟩ | ⟨_, he⟩
    · exact absurd ⟨n, hn⟩ h
    · exact he

/-- An integer literal denotes one number. -/
theorem C09_integer_unique (s : Str) (n n' : Int) (h : DTSpec.IntLit s n) (h' : DTSpec.IntLit s n') : n = n' :=
  DT.dt2_intLit_unique s n n' h h'

/-- `integer` returns a value or raises `ValueError`; nothing else. -/
theorem C09_integer_total (s : Str) : (∃ n, DT.integer s = .ok n) ∨ DT.integer s = .error .valueError :=
  DT.dt2_integer_total s

example : DTSpec.IntLit " +1_000\n".toList 1000 := (C09_integer_spec _ _).mp (by decide)
example : DTSpec.IntLit "-٤٢".toList (-42) := (C09_integer_spec _ _).mp (by decide)
example : DT.integer "1__0".toList = .error .valueError := by decide
example : DT.integer "_1".toList = .error .valueError := by decide
example : DT.integer "- 1".toList = .error .valueError := by decide

/-! ## string-list -/

/-- `string-list` is `str.split()`: its result is THE decomposition of the text into whitespace-separated words —
    the maximal runs of non-whitespace characters, in order. -/
theorem C09_stringList_spec (s : Str) (ws : List Str) : DTSpec.Words s ws ↔ DT.stringList s = ws :=
  DT.dt2_splitWS_iff s ws

/-- No element of a `string-list` is empty or contains whitespace. -/
theorem C09_stringList_elems (s : Str) : ∀ w ∈ DT.stringList s, w ≠ [] ∧ ∀ c ∈ w, pySpace c = false :=
  DT.dt2_words_elems s _ ((C09_stringList_spec s _).mpr rfl)

/-- Concatenating the elements gives the text with all whitespace removed. -/
theorem C09_stringList_concat (s : Str) : (DT.stringList s).flatten = s.filter (fun c => !pySpace c) :=
  DT.dt2_words_flatten s _ ((C09_stringList_spec s _).mpr rfl)

example : DTSpec.Words "  ab\tc \n".toList ["ab".toList, "c".toList] := (C09_stringList_spec _ _).mpr (by decide)
example : DT.stringList " \t ".toList = [] := by decide

/-! ## float (acceptance) -/

/-- `float` accepts exactly the float literals of the grammar `DTSpec.FloatLit` — optional surrounding whitespace,
    an optional sign, then `inf`/`infinity`/`nan` in any letter case or a decimal number (digits with single
    underscores, optional fraction, optional exponent) — and hands the stripped text to `float`. -/
theorem C09_float_accepts (s : Str) : DT.floatConv s = .ok (.float (strip s)) ↔ DTSpec.FloatLit s := by
  rw [← DT.dt2_floatOk_iff]
  unfold DT.floatConv
  cases DT.floatOk s <;> simp

/-- …and rejects everything else with `ValueError`. -/
theorem C09_float_reject (s : Str) : DT.floatConv s = .error .valueError ↔ ¬ DTSpec.FloatLit s := by
  rw [← DT.dt2_floatOk_iff]
  unfold DT.floatConv
  cases DT.floatOk s <;> simp

/-- Every text `integer` accepts, `float` accepts. -/
theorem C09_float_accepts_integers (s : Str) (n : Int) (h : DT.integer s = .ok n) :
    DT.floatConv s = .ok (.float (strip s)) :=
  (C09_float_accepts s).mpr (DT.dt2_intLit_floatLit s n ((C09_integer_spec s n).mp h))

/-- The special words, in any letter case, with an optional sign and surrounding whitespace. -/
theorem C09_float_accepts_words (pre sg t post : Str) (hpre : DTSpec.AllSpace pre) (hpost : DTSpec.AllSpace post)
    (hsg : DTSpec.IsSign sg)
    (ht : asciiLower t = "inf".toList ∨ asciiLower t = "infinity".toList ∨ asciiLower t = "nan".toList) :
    DT.floatConv (pre ++ sg ++ t ++ post) = .ok (.float (strip (pre ++ sg ++ t ++ post))) :=
  (C09_float_accepts _).mpr ⟨pre, sg, t, post, rfl, hpre, hpost, hsg, Or.inl ht⟩

/-- The empty string (and any all-whitespace string) is rejected. -/
theorem C09_float_rejects_blank (s : Str) (h : DTSpec.AllSpace s) : DT.floatConv s = .error .valueError := by
  have hs : strip s = [] := by
    have := DT.dt2_strip_mid s [] [] h (fun c hc => by simp at hc) (Or.inl rfl)
    simpa using this
  unfold DT.floatConv
  rw [DT.dt2_floatOk_eq, hs]
  rfl

example : DT.floatConv [] = .error .valueError := C09_float_rejects_blank [] (fun c hc => by cases hc)

/-- `float` returns a value or raises `ValueError`; nothing else. -/
theorem C09_float_total (s : Str) : (∃ v, DT.floatConv s = .ok v) ∨ DT.floatConv s = .error .valueError :=
  DT.dt2_float_total s

example : DTSpec.FloatLit " -1_0.5e+3 ".toList := (DT.dt2_floatOk_iff _).mp (by decide)
example : DTSpec.FloatLit "+InFiNiTy".toList := (DT.dt2_floatOk_iff _).mp (by decide)
example : DTSpec.FloatLit ".5".toList := (DT.dt2_floatOk_iff _).mp (by decide)
example : DTSpec.FloatLit "5.".toList := (DT.dt2_floatOk_iff _).mp (by decide)
example : ¬ DTSpec.FloatLit "".toList := fun h => absurd ((DT.dt2_floatOk_iff _).mpr h) (by decide)
example : ¬ DTSpec.FloatLit ".".toList := fun h => absurd ((DT.dt2_floatOk_iff _).mpr h) (by decide)
example : ¬ DTSpec.FloatLit "1._5".toList := fun h => absurd ((DT.dt2_floatOk_iff _).mpr h) (by decide)
example : ¬ DTSpec.FloatLit "1e".toList := fun h => absurd ((DT.dt2_floatOk_iff _).mpr h) (by decide)
example : ¬ DTSpec.FloatLit "+-1".toList := fun h => absurd ((DT.dt2_floatOk_iff _).mpr h) (by decide)

/-! ## the whole stock table -/

/-- The stock datatype names split into the twenty that the value-conversion table of the model (`stockVal`)
    implements and the six it does not (`locale`, the four `existing-*`, `timedelta`). -/
theorem C09_unmodelled :
    Gen.stockNames.filter (fun d => DT.dt2Modelled.contains d) = DT.dt2Modelled ∧
    Gen.stockNames.filter (fun d => !DT.dt2Modelled.contains d) =
      ["locale".toList, "existing-directory".toList, "existing-path".toList, "existing-file".toList,
       "existing-dirpath".toList, "timedelta".toList] ∧
    ∀ dt ∈ DT.dt2Unmodelled, ∀ s, Cfg.stockVal dt s = .error (.other "unknown-datatype".toList) :=
  ⟨DT.dt2_stockNames_split.1, DT.dt2_stockNames_split.2, DT.dt2_unmodelled_unknown⟩

/-- Totality: for every stock datatype name other than the six the model does not implement, and every string, the
    conversion returns a value or raises `ValueError` — never any other exception.  (`TypeError` can only come from
    `timedelta`, which is not modelled.) -/
theorem C09_total (dt : Str) (h : dt ∈ Gen.stockNames)
    (hm : dt ∉ ["locale".toList, "existing-directory".toList, "existing-path".toList, "existing-file".toList,
       "existing-dirpath".toList, "timedelta".toList]) (s : Str) :
    (∃ v, Cfg.stockVal dt s = .ok v) ∨ Cfg.stockVal dt s = .error .valueError :=
  DT.dt2_stockVal_total dt (DT.dt2_modelled_of_stock dt h hm) s

example : "ipaddr-or-hostname".toList ∈ Gen.stockNames ∧ "ipaddr-or-hostname".toList ∉ DT.dt2Unmodelled := by decide

/-- The four key types of the model's key-conversion table (`basic-key`, `identifier`, `ipaddr-or-hostname`,
    `string`) are idempotent: converting a converted key returns it unchanged. -/
theorem C09_keytypes_idempotent (kt : Str)
    (h : kt ∈ ["basic-key".toList, "identifier".toList, "ipaddr-or-hostname".toList, "string".toList])
    (s r : Str) (hk : Cfg.stockKey kt s = .ok r) : Cfg.stockKey kt r = .ok r :=
  DT.dt2_stockKey_idempotent kt h s r hk

/-- The same, with the key type given the way schema lemmas state it (`String.ofList t.keytype = "…"`). -/
theorem C09_keytypes_idempotent' (kt : Str)
    (h : String.ofList kt = "basic-key" ∨ String.ofList kt = "identifier" ∨
      String.ofList kt = "ipaddr-or-hostname" ∨ String.ofList kt = "string")
    (s r : Str) (hk : Cfg.stockKey kt s = .ok r) : Cfg.stockKey kt r = .ok r := by
  apply C09_keytypes_idempotent kt _ s r hk
  rcases h with h | h | h | h <;> rw [DT.dt2_ofList_eq kt _ h] <;> simp

/-- …and these are all the key types the table knows. -/
theorem C09_keytypes_all (kt : Str)
    (h : kt ∉ ["basic-key".toList, "identifier".toList, "ipaddr-or-hostname".toList, "string".toList]) (s : Str) :
    Cfg.stockKey kt s = .error (.other "unknown-keytype".toList) :=
  DT.dt2_stockKey_unknown kt h s

example : Cfg.stockKey "basic-key".toList "Ab-C".toList = .ok "ab-c".toList := by
  show DT.basicKey _ = _
  rw [DT.basicKey_eq_spec]; decide

end ZCV.Props.C09
