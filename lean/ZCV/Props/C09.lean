import ZCV.Lemmas.CodeEqDatatypes
import ZCV.Lemmas.Datatypes
import ZCV.Lemmas.Datatypes2Total
import ZCV.Lemmas.Datatypes2Split
import ZCV.Lemmas.Datatypes2IntSpace
import ZCV.Lemmas.Datatypes2Octet
import ZCV.Lemmas.Datatypes2V6
import ZCV.Lemmas.Timedelta
import ZCV.Lemmas.Inet6Text
import ZCV.Lemmas.DatatypesHost
/-!
# C09 — every standard datatype is a total function honouring its documented contract

Totality is by construction (`Except ConvErr α`: a value, ValueError, or timedelta's TypeError; no other outcome
exists in the model).  Each theorem below says: the model of the code — through the patterns, word tuples, bounds and
suffix tables *generated from the source* — computes exactly the documented contract, for every string.

The second half (from `C09_ipaddrOrHostname_spec` on) covers the remaining stock datatypes: `ipaddr-or-hostname`
(live pattern with `rx.match` + "consumed everything", then `inet_pton`), `integer` and `float` (grammars of what
Python's `int`/`float` accept, `DTSpec.IntLit` / `DTSpec.FloatLit`), `string-list` (`DTSpec.Words`), totality of the
whole stock table and idempotence of the key types.  `locale` and the four `existing-*` datatypes are not part of
`stockVal` (see `C09_unmodelled`); they, and `timedelta`, are in the complete table `Cfg.stockValH` with the host as a
parameter: last section of this file (`C09_total_all`).  `timedelta` has its own model (`DT.timedelta`,
`ZCV/Model/Timedelta.lean`) and contract (`DTSpec.IsTimedelta`): section "timedelta".
The last section replaces the algorithmic definition of "valid IPv6 address" (`DT.pton6`, glibc's `inet_pton`) by the
declarative RFC 4291 §2.2 text grammar `DTSpec.Inet6Text`.
-/
namespace ZCV.Props.C09
open ZCV

/-- `basic-key` accepts exactly a letter followed by letters, digits, `-`, `.`, `_`, and lower-cases it. -/
theorem C09_basicKey_spec (s : Str) : DT.basicKey s = DTSpec.basicKey s := DT.basicKey_eq_spec s
/-- `identifier` accepts exactly the ASCII identifiers and returns them unchanged. -/
theorem C09_identifier_spec (s : Str) : DT.identifier s = DTSpec.identifier s := DT.identifier_eq_spec s
/-- `dotted-name` accepts exactly one or more identifiers separated by periods. -/
theorem C09_dottedName_spec (s : Str) : DT.dottedName s = DTSpec.dottedName s := DT.dottedName_eq_spec s
/-- `dotted-suffix` accepts exactly a dotted name, possibly prefixed by a period. -/
theorem C09_dottedSuffix_spec (s : Str) : DT.dottedSuffix s = DTSpec.dottedSuffix s := DT.dottedSuffix_eq_spec s
/-- `boolean` accepts exactly yes/true/on and no/false/off in any letter case. -/
theorem C09_boolean_spec (s : Str) : DT.asBoolean s = DTSpec.boolean s := DT.asBoolean_eq_spec s
/-- `port-number` yields an integer in 0..65535 and rejects everything else. -/
theorem C09_portNumber_spec (s : Str) : DT.portNumber s = DTSpec.portNumber s := DT.portNumber_eq_spec s
/-- `byte-size` multiplies an integer by the case-insensitive suffix KB/MB/GB (none: 1). -/
theorem C09_byteSize_spec (s : Str) : DT.byteSize s = DTSpec.byteSize s := DT.byteSize_eq_spec s
/-- `time-interval` multiplies an integer by the case-insensitive suffix s/m/h/d (none: 1). -/
theorem C09_timeInterval_spec (s : Str) : DT.timeInterval s = DTSpec.timeInterval s := DT.timeInterval_eq_spec s
/-- The `inet-address` family splits host and port with the IPv6 bracket rule, lower-cases the host and supplies
    the default host `d`. -/
theorem C09_inetAddress_spec (d s : Str) : DT.inetAddress d s = DTSpec.inetAddress d s := DT.inetAddress_eq_spec d s
/-- `socket-address` classifies UNIX paths (containing `/`), IPv6 (host containing `:`) and IPv4. -/
theorem C09_socketAddress_spec (d s : Str) :
    (DT.socketAddress d s).map (fun p => (String.ofList (DT.familyStr p.1), p.2)) = DTSpec.socketFamily d s :=
  DT.socketAddress_eq_spec d s
/-- `basic-key` is idempotent. -/
theorem C09_basicKey_idempotent (s r : Str) (h : DT.basicKey s = .ok r) : DT.basicKey r = .ok r :=
  DT.basicKey_idempotent s r h
/-- `identifier` is idempotent. -/
theorem C09_identifier_idempotent (s r : Str) (h : DT.identifier s = .ok r) : DT.identifier r = .ok r :=
  DT.identifier_idempotent s r h

/-- equality of conversion outcomes is decidable (used by the closed examples below only) -/
local instance c09DecEqExcept {ε α : Type} [DecidableEq ε] [DecidableEq α] : DecidableEq (Except ε α) := fun a b =>
  match a, b with
  | .ok x, .ok y => if h : x = y then isTrue (by rw [h]) else isFalse (fun e => h (by injection e))
  | .error x, .error y => if h : x = y then isTrue (by rw [h]) else isFalse (fun e => h (by injection e))
  | .ok _, .error _ => isFalse (fun e => by cases e)
  | .error _, .ok _ => isFalse (fun e => by cases e)

/-! ## ipaddr-or-hostname -/

/-- The regular-expression side of `ipaddr-or-hostname`, for ALL strings: the live pattern (used as
    `m = rx.match(v); m and m.group() == v`, i.e. the FIRST match in backtracking order must consume everything)
    accepts exactly a dotted quad, or a text over `[0-9A-Fa-f:.]` with a colon after its first character, or a host
    name `[A-Za-z_][-A-Za-z0-9_.]*[-A-Za-z0-9_]`. -/
theorem C09_ipaddrOrHostname_pattern (s : Str) :
    Rx.matchesWhole Gen.ipaddrRx s = (DTSpec.isDottedQuad s || DT.dt2V6Shape s || DTSpec.isHostname s) :=
  DT.dt2_ipaddr_matches s

/-- `ipaddr-or-hostname` computes exactly its documented contract, for every string: a dotted quad, a host name, or
    a text over `[0-9A-Fa-f:.]` containing a colon that `inet_pton(AF_INET6, ·)` (as re-implemented in `ZCV.Inet`)
    accepts once lower-cased — returned lower-cased; anything else is a `ValueError`. -/
theorem C09_ipaddrOrHostname_spec (s : Str) : DT.ipaddrOrHostname s = DTSpec.ipaddrOrHostname s :=
  DT.dt2_ipaddrOrHostname_eq_spec s

/-- Soundness, readable form: whatever `ipaddr-or-hostname` accepts has one of the three documented shapes, and
    the result is the input lower-cased. -/
theorem C09_ipaddrOrHostname_sound (s r : Str) (h : DT.ipaddrOrHostname s = .ok r) :
    r = lower s ∧ (DTSpec.isDottedQuad s = true ∨ DTSpec.isHostname s = true ∨
      (s.all DTSpec.isV6Char = true ∧ s.contains ':' = true ∧ DT.pton6 (lower s) = true)) := by
  rw [C09_ipaddrOrHostname_spec] at h
  exact (DT.dt2_spec_ok_iff s r).mp h

/-- Completeness: every dotted quad, every host name and every valid IPv6 address is accepted (and lower-cased).
    No side condition on the IPv6 branch: what `inet_pton` accepts is over `[0-9A-Fa-f:.]` and contains a colon,
    `lower` creates no such character from a non-ASCII one, and `inet_pton` ignores the case of hex letters. -/
theorem C09_ipaddrOrHostname_complete (s : Str)
    (h : DTSpec.isDottedQuad s = true ∨ DTSpec.isHostname s = true ∨ DT.pton6 s = true) :
    DT.ipaddrOrHostname s = .ok (lower s) :=
  (DT.dt2_ipaddrOrHostname_exact' s _).mpr ⟨rfl, h⟩

/-- The property as stated: `ipaddr-or-hostname` accepts EXACTLY dotted-quad IPv4, valid IPv6 addresses and host
    names, lower-casing them … -/
theorem C09_ipaddrOrHostname_exact (s r : Str) :
    DT.ipaddrOrHostname s = .ok r ↔
      r = lower s ∧ (DTSpec.isDottedQuad s = true ∨ DTSpec.isHostname s = true ∨ DT.pton6 s = true) :=
  DT.dt2_ipaddrOrHostname_exact' s r

/-- … and raises `ValueError` on every other string. -/
theorem C09_ipaddrOrHostname_reject (s : Str) :
    DT.ipaddrOrHostname s = .error .valueError ↔
      ¬ (DTSpec.isDottedQuad s = true ∨ DTSpec.isHostname s = true ∨ DT.pton6 s = true) :=
  DT.dt2_ipaddrOrHostname_exact_err' s

/-- Validity as an IPv6 address does not depend on letter case: the text and its lower-casing (the form the code
    hands to `inet_pton`) get the same verdict. -/
theorem C09_inet6_case_insensitive (s : Str) : DT.pton6 (lower s) = true ↔ DT.pton6 s = true :=
  DT.dt2_pton6_lower_iff s

/-- A valid IPv6 address (as `inet_pton` sees it) is a text over `[0-9A-Fa-f:.]` containing a colon. -/
theorem C09_inet6_alphabet (s : Str) (h : DT.pton6 s = true) : s.all DTSpec.isV6Char = true ∧ ':' ∈ s :=
  DT.dt2_pton6_shape s h

/-- The fields of an accepted dotted quad: exactly four, each written with one to three `\d` digits (any Unicode
    decimal-digit script) and denoting a number 0..255. -/
theorem C09_dottedQuad_fields (s : Str) (h : DTSpec.isDottedQuad s = true) :
    (DTSpec.splitDots s).length = 4 ∧
    ∀ o ∈ DTSpec.splitDots s, 1 ≤ o.length ∧ o.length ≤ 3 ∧ ∃ n, pyNat o = some n ∧ n ≤ 255 := by
  simp only [DTSpec.isDottedQuad, Bool.and_eq_true, beq_iff_eq, List.all_eq_true] at h
  exact ⟨h.1, fun o ho => DT.dt2_octet_range o (h.2 o ho)⟩

/-- Conversely, over ASCII digits: four fields, each a number 0..255 written with one to three digits, form a
    dotted quad.  (With non-ASCII digits the pattern `[01]?\d\d|2[0-4]\d|25[0-5]` admits fewer three-digit fields.) -/
theorem C09_dottedQuad_ascii (s : Str) (hl : (DTSpec.splitDots s).length = 4)
    (h : ∀ o ∈ DTSpec.splitDots s, o.all isAsciiDigit = true ∧
      1 ≤ o.length ∧ o.length ≤ 3 ∧ ∃ n, pyNat o = some n ∧ n ≤ 255) :
    DTSpec.isDottedQuad s = true := by
  simp only [DTSpec.isDottedQuad, Bool.and_eq_true, beq_iff_eq, List.all_eq_true]
  exact ⟨hl, fun o ho => DT.dt2_octet_ascii o (h o ho).1 (h o ho).2⟩

/-- `ipaddr-or-hostname` is idempotent: converting a converted value returns it unchanged (what a key type needs). -/
theorem C09_ipaddrOrHostname_idempotent (s r : Str) (h : DT.ipaddrOrHostname s = .ok r) :
    DT.ipaddrOrHostname r = .ok r :=
  DT.dt2_ipaddrOrHostname_idempotent s r h

example : DT.ipaddrOrHostname "192.168.0.255".toList = .ok "192.168.0.255".toList := by
  rw [C09_ipaddrOrHostname_spec]; decide
example : DT.ipaddrOrHostname "Host-1.Example".toList = .ok "host-1.example".toList := by
  rw [C09_ipaddrOrHostname_spec]; decide
example : DT.ipaddrOrHostname "FE80::1".toList = .ok "fe80::1".toList := by
  rw [C09_ipaddrOrHostname_spec]; decide
example : DT.ipaddrOrHostname "::ffff:1.2.3.4".toList = .ok "::ffff:1.2.3.4".toList := by
  rw [C09_ipaddrOrHostname_spec]; decide
example : DT.ipaddrOrHostname "1.2.3.256".toList = .error .valueError := by
  rw [C09_ipaddrOrHostname_spec]; decide
example : DT.ipaddrOrHostname "1::2::3".toList = .error .valueError := by
  rw [C09_ipaddrOrHostname_spec]; decide
example : DT.ipaddrOrHostname "1.2.3.4\n".toList = .error .valueError := by
  rw [C09_ipaddrOrHostname_spec]; decide

/-! ## integer -/

/-- `integer` accepts exactly the integer literals — optional surrounding whitespace (the white space `int()` skips:
    `str.isspace` characters other than the separator controls U+001C–U+001F, `DTSpec.AllIntSpace`), an optional sign,
    digits of any Unicode decimal-digit script with single underscores between digits — and returns the decimal value. -/
theorem C09_integer_spec (s : Str) (n : Int) : DT.integer s = .ok n ↔ DTSpec.IntLit s n := by
  rw [← DT.dt2_pyInt_iff]
  unfold DT.integer
  cases pyInt s with
  | none => simp
  | some k => simp

/-- …and rejects everything else with `ValueError`. -/
theorem C09_integer_reject (s : Str) : DT.integer s = .error .valueError ↔ ¬ ∃ n, DTSpec.IntLit s n := by
  constructor
  · rintro h ⟨n, hn⟩
    rw [(C09_integer_spec s n).mpr hn] at h; cases h
  · intro h
    rcases DT.dt2_integer_spec s with ⟨n, hn, _⟩ | ⟨_, he⟩
    · exact absurd ⟨n, hn⟩ h
    · exact he

/-- An integer literal denotes one number. -/
theorem C09_integer_unique (s : Str) (n n' : Int) (h : DTSpec.IntLit s n) (h' : DTSpec.IntLit s n') : n = n' :=
  DT.dt2_intLit_unique s n n' h h'

/-- `integer` returns a value or raises `ValueError`; nothing else. -/
theorem C09_integer_total (s : Str) : (∃ n, DT.integer s = .ok n) ∨ DT.integer s = .error .valueError :=
  DT.dt2_integer_total s

example : DTSpec.IntLit " +1_000\n".toList 1000 := (C09_integer_spec _ _).mp (by decide)
example : DTSpec.IntLit "-٤٢".toList (-42) := (C09_integer_spec _ _).mp (by decide)
example : DT.integer "1__0".toList = .error .valueError := by decide
example : DT.integer "_1".toList = .error .valueError := by decide
example : DT.integer "- 1".toList = .error .valueError := by decide

/-! ## string-list -/

/-- `string-list` is `str.split()`: its result is THE decomposition of the text into whitespace-separated words —
    the maximal runs of non-whitespace characters, in order. -/
theorem C09_stringList_spec (s : Str) (ws : List Str) : DTSpec.Words s ws ↔ DT.stringList s = ws :=
  DT.dt2_splitWS_iff s ws

/-- No element of a `string-list` is empty or contains whitespace. -/
theorem C09_stringList_elems (s : Str) : ∀ w ∈ DT.stringList s, w ≠ [] ∧ ∀ c ∈ w, pySpace c = false :=
  DT.dt2_words_elems s _ ((C09_stringList_spec s _).mpr rfl)

/-- Concatenating the elements gives the text with all whitespace removed. -/
theorem C09_stringList_concat (s : Str) : (DT.stringList s).flatten = s.filter (fun c => !pySpace c) :=
  DT.dt2_words_flatten s _ ((C09_stringList_spec s _).mpr rfl)

example : DTSpec.Words "  ab\tc \n".toList ["ab".toList, "c".toList] := (C09_stringList_spec _ _).mpr (by decide)
example : DT.stringList " \t ".toList = [] := by decide

/-! ## float (acceptance) -/

/-- `float` accepts exactly the float literals of the grammar `DTSpec.FloatLit` — optional surrounding whitespace,
    an optional sign, then `inf`/`infinity`/`nan` in any letter case or a decimal number (digits with single
    underscores, optional fraction, optional exponent) — and hands the text without the white space `float` skips
    (`stripInt`: `str.isspace` minus U+001C–U+001F) to `float`. -/
theorem C09_float_accepts (s : Str) : DT.floatConv s = .ok (.float (stripInt s)) ↔ DTSpec.FloatLit s := by
  rw [← DT.dt2_floatOk_iff]
  unfold DT.floatConv
  cases DT.floatOk s <;> simp

/-- …and rejects everything else with `ValueError`. -/
theorem C09_float_reject (s : Str) : DT.floatConv s = .error .valueError ↔ ¬ DTSpec.FloatLit s := by
  rw [← DT.dt2_floatOk_iff]
  unfold DT.floatConv
  cases DT.floatOk s <;> simp

/-- Every text `integer` accepts, `float` accepts. -/
theorem C09_float_accepts_integers (s : Str) (n : Int) (h : DT.integer s = .ok n) :
    DT.floatConv s = .ok (.float (stripInt s)) :=
  (C09_float_accepts s).mpr (DT.dt2_intLit_floatLit s n ((C09_integer_spec s n).mp h))

/-- The special words, in any letter case, with an optional sign and surrounding whitespace. -/
theorem C09_float_accepts_words (pre sg t post : Str) (hpre : DTSpec.AllIntSpace pre) (hpost : DTSpec.AllIntSpace post)
    (hsg : DTSpec.IsSign sg)
    (ht : asciiLower t = "inf".toList ∨ asciiLower t = "infinity".toList ∨ asciiLower t = "nan".toList) :
    DT.floatConv (pre ++ sg ++ t ++ post) = .ok (.float (stripInt (pre ++ sg ++ t ++ post))) :=
  (C09_float_accepts _).mpr ⟨pre, sg, t, post, rfl, hpre, hpost, hsg, Or.inl ht⟩

/-- The empty string (and any all-whitespace string, whichever white space: `str.isspace`) is rejected. -/
theorem C09_float_rejects_blank (s : Str) (h : DTSpec.AllSpace s) : DT.floatConv s = .error .valueError := by
  rw [C09_float_reject]
  rintro ⟨pre, sg, t, post, rfl, _, _, _, ht⟩
  have hsolid : DT.dt2Solid t := by
    rcases ht with h | h
    · exact DT.dt2_floatWord_solid t h
    · exact DT.dt2_floatNum_solid t h
  obtain ⟨⟨c, r, rfl, h1, _, _⟩, _⟩ := hsolid
  have := h c (by simp)
  rw [h1] at this; cases this

example : DT.floatConv [] = .error .valueError := C09_float_rejects_blank [] (fun c hc => by cases hc)

/-- `float` returns a value or raises `ValueError`; nothing else. -/
theorem C09_float_total (s : Str) : (∃ v, DT.floatConv s = .ok v) ∨ DT.floatConv s = .error .valueError :=
  DT.dt2_float_total s

example : DTSpec.FloatLit " -1_0.5e+3 ".toList := (DT.dt2_floatOk_iff _).mp (by decide)
example : DTSpec.FloatLit "+InFiNiTy".toList := (DT.dt2_floatOk_iff _).mp (by decide)
example : DTSpec.FloatLit ".5".toList := (DT.dt2_floatOk_iff _).mp (by decide)
example : DTSpec.FloatLit "5.".toList := (DT.dt2_floatOk_iff _).mp (by decide)
example : ¬ DTSpec.FloatLit "".toList := fun h => absurd ((DT.dt2_floatOk_iff _).mpr h) (by decide)
example : ¬ DTSpec.FloatLit ".".toList := fun h => absurd ((DT.dt2_floatOk_iff _).mpr h) (by decide)
example : ¬ DTSpec.FloatLit "1._5".toList := fun h => absurd ((DT.dt2_floatOk_iff _).mpr h) (by decide)
example : ¬ DTSpec.FloatLit "1e".toList := fun h => absurd ((DT.dt2_floatOk_iff _).mpr h) (by decide)
example : ¬ DTSpec.FloatLit "+-1".toList := fun h => absurd ((DT.dt2_floatOk_iff _).mpr h) (by decide)

/-! ## the whole stock table -/

/-- The stock datatype names split into the twenty that the value-conversion table of the model (`stockVal`)
    implements and the six it does not (`locale`, the four `existing-*`, `timedelta`). -/
theorem C09_unmodelled :
    Gen.stockNames.filter (fun d => DT.dt2Modelled.contains d) = DT.dt2Modelled ∧
    Gen.stockNames.filter (fun d => !DT.dt2Modelled.contains d) =
      ["locale".toList, "existing-directory".toList, "existing-path".toList, "existing-file".toList,
       "existing-dirpath".toList, "timedelta".toList] ∧
    ∀ dt ∈ DT.dt2Unmodelled, ∀ s, Cfg.stockVal dt s = .error (.other "unknown-datatype".toList) :=
  ⟨DT.dt2_stockNames_split.1, DT.dt2_stockNames_split.2, DT.dt2_unmodelled_unknown⟩

/-- Totality: for every stock datatype name other than the six the model does not implement, and every string, the
    conversion returns a value or raises `ValueError` — never any other exception.  (`TypeError` can only come from
    `timedelta`, which `stockVal` does not implement yet; for its own model see `C09_timedelta_total`.) -/
theorem C09_total (dt : Str) (h : dt ∈ Gen.stockNames)
    (hm : dt ∉ ["locale".toList, "existing-directory".toList, "existing-path".toList, "existing-file".toList,
       "existing-dirpath".toList, "timedelta".toList]) (s : Str) :
    (∃ v, Cfg.stockVal dt s = .ok v) ∨ Cfg.stockVal dt s = .error .valueError :=
  DT.dt2_stockVal_total dt (DT.dt2_modelled_of_stock dt h hm) s

example : "ipaddr-or-hostname".toList ∈ Gen.stockNames ∧ "ipaddr-or-hostname".toList ∉ DT.dt2Unmodelled := by decide

/-- The four key types of the model's key-conversion table (`basic-key`, `identifier`, `ipaddr-or-hostname`,
    `string`) are idempotent: converting a converted key returns it unchanged. -/
theorem C09_keytypes_idempotent (kt : Str)
    (h : kt ∈ ["basic-key".toList, "identifier".toList, "ipaddr-or-hostname".toList, "string".toList])
    (s r : Str) (hk : Cfg.stockKey kt s = .ok r) : Cfg.stockKey kt r = .ok r :=
  DT.dt2_stockKey_idempotent kt h s r hk

/-- The same, with the key type given the way schema lemmas state it (`String.ofList t.keytype = "…"`). -/
theorem C09_keytypes_idempotent' (kt : Str)
    (h : String.ofList kt = "basic-key" ∨ String.ofList kt = "identifier" ∨
      String.ofList kt = "ipaddr-or-hostname" ∨ String.ofList kt = "string")
    (s r : Str) (hk : Cfg.stockKey kt s = .ok r) : Cfg.stockKey kt r = .ok r := by
  apply C09_keytypes_idempotent kt _ s r hk
  rcases h with h | h | h | h <;> rw [DT.dt2_ofList_eq kt _ h] <;> simp

/-- …and these are all the key types the table knows. -/
theorem C09_keytypes_all (kt : Str)
    (h : kt ∉ ["basic-key".toList, "identifier".toList, "ipaddr-or-hostname".toList, "string".toList]) (s : Str) :
    Cfg.stockKey kt s = .error (.other "unknown-keytype".toList) :=
  DT.dt2_stockKey_unknown kt h s

example : Cfg.stockKey "basic-key".toList "Ab-C".toList = .ok "ab-c".toList := by
  show DT.basicKey _ = _
  rw [DT.basicKey_eq_spec]; decide

/-! ## timedelta -/

/-- `timedelta` computes exactly its contract, for every string and every outcome: the text is cut into
    whitespace-separated words (`str.split()`); if every word is a float literal followed by one of the unit letters
    `w d h m s` (lower case only), `datetime.timedelta` is called with, for each unit, the amount of the LAST word
    carrying that letter (`0` if none); otherwise the first ill-formed word decides — `ValueError` if it is not a float
    literal followed by one more character, `TypeError` if that character is not a unit letter.
    (The value is symbolic; what the `datetime.timedelta` constructor then does with the numbers — it refuses NaN,
    infinities and more than 999999999 days, all reported as `ValueError` — is `DT.timedeltaChecked`'s parameter.) -/
theorem C09_timedelta_spec (s : Str) (r : Except ConvErr DT.TimedeltaVal) :
    DT.timedelta s = r ↔ DTSpec.IsTimedelta s r :=
  DT.td_timedelta_spec s r

/-- Acceptance, spelled out: `timedelta` gets as far as building the value `v` exactly when the text is a sequence of
    whitespace-separated `<float-literal><unit>` parts, and `v` holds the last amount given for each unit. -/
theorem C09_timedelta_accepts (s : Str) (v : DT.TimedeltaVal) :
    DT.timedelta s = .ok v ↔
      ∃ parts : List DTSpec.TdPart, DTSpec.Words s (parts.map DTSpec.tdText) ∧ (∀ p ∈ parts, DTSpec.TdGood p) ∧
        v = DTSpec.tdValue parts := by
  rw [C09_timedelta_spec]
  constructor
  · intro h
    cases h with
    | ok parts hw hp => exact ⟨parts, hw, hp, rfl⟩
  · rintro ⟨parts, hw, hp, rfl⟩
    exact DTSpec.IsTimedelta.ok parts hw hp

/-- `timedelta` is the one standard datatype that reports a malformed value as `TypeError`: this happens exactly
    when the first word that is not a well-formed part is a float literal followed by a character that is not one of
    `w d h m s` (an upper-case `W`, a digit as in `12`, …). -/
theorem C09_timedelta_unknown_unit_is_TypeError (s : Str) :
    DT.timedelta s = .error .typeError ↔
      ∃ (good : List DTSpec.TdPart) (lit : Str) (u : Char) (rest : List Str),
        DTSpec.Words s (good.map DTSpec.tdText ++ (lit ++ [u]) :: rest) ∧ (∀ p ∈ good, DTSpec.TdGood p) ∧
        DTSpec.FloatLit lit ∧ u ∉ DTSpec.tdUnits := by
  rw [C09_timedelta_spec]
  constructor
  · intro h
    cases h with
    | badUnit good lit u rest hw hp h1 h2 => exact ⟨good, lit, u, rest, hw, hp, h1, h2⟩
  · rintro ⟨good, lit, u, rest, hw, hp, h1, h2⟩
    exact DTSpec.IsTimedelta.badUnit good lit u rest hw hp h1 h2

/-- …and the loop over the parts ends in `ValueError` exactly when the first word that is not a well-formed part is
    not even a float literal followed by one character (`w`, `1`, `1.5.2s`, `1e5`, …). -/
theorem C09_timedelta_bad_amount_is_ValueError (s : Str) :
    DT.timedelta s = .error .valueError ↔
      ∃ (good : List DTSpec.TdPart) (w : Str) (rest : List Str),
        DTSpec.Words s (good.map DTSpec.tdText ++ w :: rest) ∧ (∀ p ∈ good, DTSpec.TdGood p) ∧
        ¬ ∃ lit u, w = lit ++ [u] ∧ DTSpec.FloatLit lit := by
  rw [C09_timedelta_spec]
  constructor
  · intro h
    cases h with
    | badAmount good w rest hw hp hb => exact ⟨good, w, rest, hw, hp, hb⟩
  · rintro ⟨good, w, rest, hw, hp, hb⟩
    exact DTSpec.IsTimedelta.badAmount good w rest hw hp hb

/-- A single part, readable form: a float literal followed by a unit letter is accepted, the same literal followed by
    any other (non-blank) character is a `TypeError`. -/
theorem C09_timedelta_single (lit : Str) (u : Char) (hl : DTSpec.FloatLit lit) (hn : DTSpec.NoSpace (lit ++ [u])) :
    (u ∈ DTSpec.tdUnits → DT.timedelta (lit ++ [u]) = .ok (DTSpec.tdValue [(lit, u)])) ∧
    (u ∉ DTSpec.tdUnits → DT.timedelta (lit ++ [u]) = .error .typeError) := by
  have hw : DTSpec.Words (lit ++ [u]) [lit ++ [u]] := by
    have := DTSpec.Words.word [] (lit ++ [u]) [] [] (fun c hc => by cases hc) (by simp) hn (Or.inl rfl)
      (DTSpec.Words.nil [] (fun c hc => by cases hc))
    simpa using this
  constructor
  · intro hu
    exact (C09_timedelta_accepts _ _).mpr ⟨[(lit, u)], hw, fun p hp => by
      rw [List.mem_singleton] at hp; subst hp; exact ⟨hl, hu⟩, rfl⟩
  · intro hu
    exact (C09_timedelta_unknown_unit_is_TypeError _).mpr ⟨[], lit, u, [], hw, (fun p hp => by cases hp), hl, hu⟩

/-- Totality: `timedelta` builds its value, or raises `ValueError`, or raises `TypeError`; nothing else (in particular
    the `IndexError` of `part[-1]` on an empty part cannot happen: `float('')` has already failed). -/
theorem C09_timedelta_total (s : Str) :
    (∃ v, DT.timedelta s = .ok v) ∨ DT.timedelta s = .error .valueError ∨ DT.timedelta s = .error .typeError :=
  DT.td_isTimedelta_total s _ ((C09_timedelta_spec s _).mp rfl)

/-- …and this stays true for the whole function, whatever the numeric verdict `fits` of the `datetime.timedelta`
    constructor: since the fix that turns its `OverflowError` into `ValueError`, an out-of-range, infinite or NaN amount
    is one more `ValueError`. -/
theorem C09_timedelta_checked_total (fits : DT.TimedeltaVal → Bool) (s : Str) :
    (∃ v, DT.timedeltaChecked fits s = .ok v ∧ DT.timedelta s = .ok v ∧ fits v = true) ∨
    DT.timedeltaChecked fits s = .error .valueError ∨ DT.timedeltaChecked fits s = .error .typeError := by
  unfold DT.timedeltaChecked
  rcases C09_timedelta_total s with ⟨v, h⟩ | h | h
  · rw [h]
    cases hf : fits v with
    | true => exact Or.inl ⟨v, by simp [hf], rfl, hf⟩
    | false => exact Or.inr (Or.inl (by simp [hf]))
  · rw [h]; exact Or.inr (Or.inl rfl)
  · rw [h]; exact Or.inr (Or.inr rfl)

/-- The amounts are never added up: with two parts for the same unit the later one wins. -/
theorem C09_timedelta_last_wins (u : Char) (l1 l2 : Str) (ps : List DTSpec.TdPart)
    (h : ∀ p ∈ ps, p.2 ≠ u) : DTSpec.tdAmount u ((l1, u) :: (l2, u) :: ps) = some l2 := by
  rw [DT.td_amount_cons, DT.td_amount_cons]
  have : DTSpec.tdAmount u ps = none := by
    unfold DTSpec.tdAmount
    rw [Option.map_eq_none_iff, List.find?_eq_none]
    intro p hp
    simpa using h p (List.mem_reverse.mp hp)
  simp [this]

example : DT.timedelta "4w 2.5d 7h 12m 0.001s".toList =
    .ok { weeks := some "4".toList, days := some "2.5".toList, hours := some "7".toList,
          minutes := some "12".toList, seconds := some "0.001".toList } := by decide
example : DT.timedelta " \t-1e3s\n+.5w  infd ".toList =
    .ok { weeks := some "+.5".toList, days := some "inf".toList, seconds := some "-1e3".toList } := by decide
example : DT.timedelta "1w 2w".toList = .ok { weeks := some "2".toList } := by decide
example : DT.timedelta [] = .ok {} := by decide
example : DT.timedelta "1W".toList = .error .typeError := by decide
example : DT.timedelta "12".toList = .error .typeError := by decide
example : DT.timedelta "1".toList = .error .valueError := by decide
example : DT.timedelta "w".toList = .error .valueError := by decide
example : DT.timedelta "1 w".toList = .error .valueError := by decide
example : DT.timedelta "1x 2".toList = .error .typeError := by decide
example : DT.timedelta "2 1x".toList = .error .valueError := by decide
example : DTSpec.IsTimedelta "1W".toList (.error .typeError) := (C09_timedelta_spec _ _).mp (by decide)

/-! ## IPv6 address text: the algorithm is the RFC 4291 grammar -/

/-- glibc's `inet_pton(AF_INET6, ·)` — the definition of "valid IPv6 address" used by `ipaddr-or-hostname` — accepts
    exactly the texts of RFC 4291 §2.2: eight groups of one to four hexadecimal digits separated by single colons; or,
    with one `::` standing for at least one group of zeros, at most seven groups in all (the `::` may be leading,
    trailing, or the whole text); where the last two groups may be written as a dotted quad of canonical decimal
    numbers 0..255.  For every string. -/
theorem C09_inet6_spec (s : Str) : DT.pton6 s = true ↔ DTSpec.Inet6Text s := DT.v6_pton6_iff s

/-- The embedded IPv4 tail (glibc's `inet_pton4`): exactly four fields separated by periods, each made of ASCII digits
    without a leading zero and denoting at most 255. -/
theorem C09_inet4_tail_spec (s : Str) : DT.pton4 s = true ↔ DTSpec.V4Text s := DT.v6_pton4_iff s

/-- Such a field has one to three digits. -/
theorem C09_inet4_field_length (o : Str) (h : DTSpec.DecOctet o) : 1 ≤ o.length ∧ o.length ≤ 3 :=
  ⟨List.length_pos_iff.mpr h.1, DT.v6_decOctet_length o h⟩

/-- `ipaddr-or-hostname`, with the IPv6 side stated by the grammar: it accepts exactly dotted-quad IPv4 addresses, host
    names and RFC 4291 IPv6 texts, lower-casing them … -/
theorem C09_ipaddrOrHostname_grammar (s r : Str) :
    DT.ipaddrOrHostname s = .ok r ↔
      r = lower s ∧ (DTSpec.isDottedQuad s = true ∨ DTSpec.isHostname s = true ∨ DTSpec.Inet6Text s) := by
  rw [C09_ipaddrOrHostname_exact, C09_inet6_spec]

/-- … and raises `ValueError` on every other string. -/
theorem C09_ipaddrOrHostname_grammar_reject (s : Str) :
    DT.ipaddrOrHostname s = .error .valueError ↔
      ¬ (DTSpec.isDottedQuad s = true ∨ DTSpec.isHostname s = true ∨ DTSpec.Inet6Text s) := by
  rw [C09_ipaddrOrHostname_reject, C09_inet6_spec]

/-- The uncompressed form: any eight hex groups joined by colons are an address. -/
theorem C09_inet6_eight_groups (gs : List Str) (hl : gs.length = 8) (h : ∀ g ∈ gs, DTSpec.HexGroup g) :
    DT.pton6 (DTSpec.joinColon gs) = true :=
  (C09_inet6_spec _).mpr (Or.inl ⟨gs, ⟨gs, h, Or.inl ⟨rfl, hl.symm⟩⟩, rfl⟩)

/-- The compressed form: hex groups, `::`, hex groups — at most seven groups in all — are an address. -/
theorem C09_inet6_compressed (ls rs : List Str) (hl : ls.length + rs.length ≤ 7)
    (h1 : ∀ g ∈ ls, DTSpec.HexGroup g) (h2 : ∀ g ∈ rs, DTSpec.HexGroup g) :
    DT.pton6 (DTSpec.joinColon ls ++ ':' :: ':' :: DTSpec.joinColon rs) = true :=
  (C09_inet6_spec _).mpr (Or.inr ⟨ls, rs, rs.length, h1, ⟨rs, h2, Or.inl ⟨rfl, rfl⟩⟩, hl, rfl⟩)

example : DTSpec.Inet6Text "::".toList := (C09_inet6_spec _).mp (by decide)
example : DTSpec.Inet6Text "1::".toList := (C09_inet6_spec _).mp (by decide)
example : DTSpec.Inet6Text "::1.2.3.4".toList := (C09_inet6_spec _).mp (by decide)
example : DTSpec.Inet6Text "fe80::AbCd:1".toList := (C09_inet6_spec _).mp (by decide)
example : DTSpec.Inet6Text "1:2:3:4:5:6:7:8".toList := (C09_inet6_spec _).mp (by decide)
example : DTSpec.Inet6Text "1:2:3:4:5:6:7::".toList := (C09_inet6_spec _).mp (by decide)
example : DTSpec.Inet6Text "1:2:3:4:5:6:255.0.10.199".toList := (C09_inet6_spec _).mp (by decide)
example : ¬ DTSpec.Inet6Text "1:2:3:4:5:6:7::8".toList := fun h => absurd ((C09_inet6_spec _).mpr h) (by decide)
example : ¬ DTSpec.Inet6Text "::01.2.3.4".toList := fun h => absurd ((C09_inet6_spec _).mpr h) (by decide)
example : ¬ DTSpec.Inet6Text "::1.2.3.256".toList := fun h => absurd ((C09_inet6_spec _).mpr h) (by decide)
example : ¬ DTSpec.Inet6Text "12345::".toList := fun h => absurd ((C09_inet6_spec _).mpr h) (by decide)
example : ¬ DTSpec.Inet6Text "1::2::3".toList := fun h => absurd ((C09_inet6_spec _).mpr h) (by decide)
example : ¬ DTSpec.Inet6Text ":::".toList := fun h => absurd ((C09_inet6_spec _).mpr h) (by decide)
example : ¬ DTSpec.Inet6Text "1:".toList := fun h => absurd ((C09_inet6_spec _).mpr h) (by decide)
example : ¬ DTSpec.Inet6Text ":1".toList := fun h => absurd ((C09_inet6_spec _).mpr h) (by decide)
example : ¬ DTSpec.Inet6Text "1.2.3.4".toList := fun h => absurd ((C09_inet6_spec _).mpr h) (by decide)
example : ¬ DTSpec.Inet6Text "1:2:3:4:5:6:7:1.2.3.4".toList := fun h => absurd ((C09_inet6_spec _).mpr h) (by decide)
/-- the grammar is inhabited directly, too (no detour through the algorithm) -/
example : DTSpec.Inet6Text "::".toList :=
  Or.inr ⟨[], [], 0, DT.v6_nil_all, ⟨[], DT.v6_nil_all, Or.inl ⟨rfl, rfl⟩⟩, by decide, rfl⟩
example : DTSpec.Inet6Text "1::2".toList := by
  have hg : ∀ d : Str, d = "1".toList ∨ d = "2".toList → DTSpec.HexGroup d := by
    rintro d (rfl | rfl) <;> exact ⟨by decide, by decide, by decide⟩
  exact Or.inr ⟨["1".toList], ["2".toList], 1, fun g h => hg g (Or.inl (List.mem_singleton.mp h)),
    ⟨["2".toList], fun g h => hg g (Or.inr (List.mem_singleton.mp h)), Or.inl ⟨rfl, rfl⟩⟩, by decide, rfl⟩

end ZCV.Props.C09

/-!
## The six host-dependent datatypes; the complete table

`existing-directory`, `existing-path`, `existing-file`, `existing-dirpath`, `locale` and `timedelta` call out of the
library: `os.path.expanduser / isdir / exists`, `locale.setlocale`, the arithmetic of `datetime.timedelta`.  Each such
call is a field of the parameter `h : Host` (`ZCV/Model/Host.lean`); `os.path.dirname` is pure and modelled exactly.
The theorems hold for EVERY host; a fact about the host is a hypothesis of the one theorem that needs it.
`Cfg.stockValH h` is the value-conversion table for all 26 stock names (`Cfg.stockVal` on the twenty it implements).
-/
namespace ZCV.Props.C09
open ZCV

/-- equality of conversion outcomes is decidable (used by the closed examples below only) -/
local instance c09hDecEqExcept {ε α : Type} [DecidableEq ε] [DecidableEq α] : DecidableEq (Except ε α) := fun a b =>
  match a, b with
  | .ok x, .ok y => if h : x = y then isTrue (by rw [h]) else isFalse (fun e => h (by injection e))
  | .error x, .error y => if h : x = y then isTrue (by rw [h]) else isFalse (fun e => h (by injection e))
  | .ok _, .error _ => isFalse (fun e => by cases e)
  | .error _, .ok _ => isFalse (fun e => by cases e)

/-- `os.path.dirname` (POSIX), characterised: empty for a text without a slash; for `d/b` with `b` free of slashes it
    is `d` without the slashes at its end, or `d/` when `d` is empty or consists of slashes only (the root). -/
theorem C09_dirname_spec (p : Str) :
    ('/' ∉ p → DT.dirname p = []) ∧
    (∀ d b, p = d ++ '/' :: b → '/' ∉ b →
      DT.dirname p = if d.all (· == '/') then d ++ ['/'] else DT.rstripSlash d) ∧
    (DT.dirname p = [] ↔ '/' ∉ p) :=
  ⟨DT.dh_dirname_noslash p, fun d b e hb => by rw [e]; exact DT.dh_dirname_split d b hb, DT.dh_dirname_eq_nil_iff p⟩

/-- …where `rstrip('/')` takes away a run of slashes at the end and nothing else. -/
theorem C09_dirname_rstrip (d : Str) :
    ∃ k, d = DT.rstripSlash d ++ List.replicate k '/' ∧ (DT.rstripSlash d).getLast? ≠ some '/' :=
  DT.dh_rstripSlash_spec d

/-- `existing-directory` returns its argument with the leading `~` expanded exactly when that path is a directory of
    the host, and raises `ValueError` in every other case. -/
theorem C09_existingDirectory_spec (h : Host) (s : Str) :
    (∀ r, DT.existingDirectory h s = .ok r ↔ h.expanduser s = some r ∧ h.isdir r = true) ∧
    (∀ e, DT.existingDirectory h s = .error e ↔
      e = .valueError ∧ ¬ ∃ r, h.expanduser s = some r ∧ h.isdir r = true) :=
  ⟨DT.dh_existingDirectory_ok h s, DT.dh_existingDirectory_err h s⟩

/-- `existing-path`: the same with `os.path.exists`. -/
theorem C09_existingPath_spec (h : Host) (s : Str) :
    (∀ r, DT.existingPath h s = .ok r ↔ h.expanduser s = some r ∧ h.exists_ r = true) ∧
    (∀ e, DT.existingPath h s = .error e ↔
      e = .valueError ∧ ¬ ∃ r, h.expanduser s = some r ∧ h.exists_ r = true) :=
  ⟨DT.dh_existingPath_ok h s, DT.dh_existingPath_err h s⟩

/-- `existing-file` AS THE CODE HAS IT: the test is `os.path.exists`, so it is the same function as `existing-path`
    (the repository's `test_existing_file` pins `convert('.') == '.'`). -/
theorem C09_existingFile_spec (h : Host) (s : Str) :
    (∀ r, DT.existingFile h s = .ok r ↔ h.expanduser s = some r ∧ h.exists_ r = true) ∧
    (∀ e, DT.existingFile h s = .error e ↔
      e = .valueError ∧ ¬ ∃ r, h.expanduser s = some r ∧ h.exists_ r = true) ∧
    DT.existingFile h s = DT.existingPath h s :=
  ⟨DT.dh_existingPath_ok h s, DT.dh_existingPath_err h s, rfl⟩

/-- What the documentation promises for `existing-file` ("validates that a file by the given name exists") holds on
    the hosts where everything that exists is a regular file — and, on any host whose `isfile` implies `exists`,
    every file is accepted. -/
theorem C09_existingFile_partial (h : Host) (s r : Str) :
    ((∀ p, h.exists_ p = true → h.isfile p = true) →
      DT.existingFile h s = .ok r → h.expanduser s = some r ∧ h.isfile r = true) ∧
    ((∀ p, h.isfile p = true → h.exists_ p = true) →
      h.expanduser s = some r → h.isfile r = true → DT.existingFile h s = .ok r) :=
  ⟨fun hh he => by
      obtain ⟨h1, h2⟩ := (DT.dh_existingPath_ok h s r).mp he
      exact ⟨h1, hh r h2⟩,
   fun hh h1 h2 => (DT.dh_existingPath_ok h s r).mpr ⟨h1, hh r h2⟩⟩

/-- Without that hypothesis it does not: on the example host the directory `/srv` is accepted as an "existing file". -/
theorem C09_existingFile_accepts_directory :
    DT.existingFile DT.dhExHost "/srv".toList = .ok "/srv".toList ∧ DT.dhExHost.isfile "/srv".toList = false ∧
      DT.dhExHost.isdir "/srv".toList = true := by decide

/-- `existing-dirpath` per the code: the expanded argument is returned when it has no directory component (no slash at
    all: "relative pathname with no directory component", the empty text included) or when its `dirname` is a
    directory of the host; `ValueError` otherwise.  The file itself need not exist. -/
theorem C09_existingDirpath_spec (h : Host) (s : Str) :
    (∀ r, DT.existingDirpath h s = .ok r ↔
      h.expanduser s = some r ∧ ('/' ∉ r ∨ h.isdir (DT.dirname r) = true)) ∧
    (∀ e, DT.existingDirpath h s = .error e ↔
      e = .valueError ∧ ¬ ∃ r, h.expanduser s = some r ∧ ('/' ∉ r ∨ h.isdir (DT.dirname r) = true)) := by
  constructor
  · intro r
    rw [DT.dh_existingDirpath_ok, DT.dh_dirname_eq_nil_iff]
  · intro e
    rw [DT.dh_existingDirpath_err]
    simp only [DT.dh_dirname_eq_nil_iff]

/-- The documented example, for every host and every path: `/foo/bar` is accepted exactly when `/foo` is an existing
    directory (`d` not made of slashes only, `b` any last component — also the empty one of `/foo/`). -/
theorem C09_existingDirpath_example (h : Host) (d b : Str) (hb : '/' ∉ b) (hd : d.all (· == '/') = false)
    (hx : h.expanduser (d ++ '/' :: b) = some (d ++ '/' :: b)) :
    DT.existingDirpath h (d ++ '/' :: b) = .ok (d ++ '/' :: b) ↔ h.isdir (DT.rstripSlash d) = true := by
  rw [DT.dh_existingDirpath_ok, DT.dh_dirname_split d b hb, DT.dirPortion, hd]
  simp only [Bool.false_eq_true, if_false]
  constructor
  · rintro ⟨-, e | e⟩
    · exact absurd e (DT.dh_rstripSlash_nonempty d hd)
    · exact e
  · exact fun e => ⟨hx, Or.inr e⟩

/-- "No conversion is performed": on a host whose `expanduser` leaves a text without a leading `~` alone, whatever
    one of the four accepts for such a text is the text itself. -/
theorem C09_existing_no_conversion (h : Host) (s r : Str) (hs : s.head? ≠ some '~')
    (hx : ∀ p : Str, p.head? ≠ some '~' → h.expanduser p = some p) :
    (DT.existingDirectory h s = .ok r → r = s) ∧ (DT.existingPath h s = .ok r → r = s) ∧
    (DT.existingFile h s = .ok r → r = s) ∧ (DT.existingDirpath h s = .ok r → r = s) := by
  have key : h.expanduser s = some r → r = s := fun e => by
    rw [hx s hs] at e; exact (Option.some.inj e).symm
  exact ⟨fun e => key ((DT.dh_existingDirectory_ok h s r).mp e).1, fun e => key ((DT.dh_existingPath_ok h s r).mp e).1,
    fun e => key ((DT.dh_existingPath_ok h s r).mp e).1, fun e => key ((DT.dh_existingDirpath_ok h s r).mp e).1⟩

/-- On a host where a directory exists (`isdir p → exists p`), what `existing-directory` accepts, `existing-path`
    accepts with the same result. -/
theorem C09_existingDirectory_implies_path (h : Host) (hh : ∀ p, h.isdir p = true → h.exists_ p = true) (s r : Str)
    (he : DT.existingDirectory h s = .ok r) : DT.existingPath h s = .ok r := by
  obtain ⟨h1, h2⟩ := (DT.dh_existingDirectory_ok h s r).mp he
  exact (DT.dh_existingPath_ok h s r).mpr ⟨h1, hh r h2⟩

/-- `locale` (the conversion inside the memo) returns its argument exactly when `setlocale(LC_ALL, ·)` accepts it, and
    raises `ValueError` otherwise. -/
theorem C09_locale_spec (h : Host) (s : Str) :
    (∀ r, DT.checkLocale h s = .ok r ↔ r = s ∧ h.localeOk s = true) ∧
    (∀ e, DT.checkLocale h s = .error e ↔ e = .valueError ∧ h.localeOk s = false) :=
  ⟨DT.dh_checkLocale_ok h s, DT.dh_checkLocale_err h s⟩

/-- …and the trial leaves the process locale as it was (provided the locale in force is one `setlocale` accepts
    back), whatever the verdict. -/
theorem C09_locale_restores (h : Host) (cur s : Str) (hc : h.localeOk cur = true) :
    DT.checkLocaleSt h cur s = (cur, DT.checkLocale h s) :=
  DT.dh_checkLocaleSt h cur s hc

/-- `MemoizedConversion` is transparent: for a conversion that is a function, a wrapper object that starts empty
    answers every call of every call sequence as the conversion itself would, and never remembers anything but
    successful conversions. -/
theorem C09_memoized_transparent {α : Type} (conv : Str → DT.R α) (calls : List Str) :
    (DT.memoRun conv [] calls).2 = calls.map conv ∧
    ∀ k v, (k, v) ∈ (DT.memoRun conv [] calls).1 → conv k = .ok v :=
  DT.dh_memoRun conv [] calls (DT.dh_memoOK_nil conv)

/-- The same from any reachable state of the memo (every remembered pair a successful conversion). -/
theorem C09_memoized_transparent_from {α : Type} (conv : Str → DT.R α) (memo : DT.Memo α) (calls : List Str)
    (hm : DT.MemoOK conv memo) :
    (DT.memoRun conv memo calls).2 = calls.map conv ∧ DT.MemoOK conv (DT.memoRun conv memo calls).1 :=
  DT.dh_memoRun conv memo calls hm

/-- Failures are not cached: a failing call leaves the memo exactly as it was. -/
theorem C09_memoized_failure_not_cached {α : Type} (conv : Str → DT.R α) (memo : DT.Memo α) (s : Str) (e : ConvErr)
    (hm : DT.MemoOK conv memo) (hc : conv s = .error e) : DT.memoized conv memo s = (memo, .error e) :=
  DT.dh_memoized_failure conv memo s e hm hc

/-- Successes are: once a value has been returned for `s`, the next call for `s` returns it again without consulting
    the conversion — whatever the conversion (the host) would say by then. -/
theorem C09_memoized_success_cached {α : Type} (conv conv' : Str → DT.R α) (memo : DT.Memo α) (s : Str) (v : α)
    (hc : (DT.memoized conv memo s).2 = .ok v) :
    DT.memoized conv' (DT.memoized conv memo s).1 s = ((DT.memoized conv memo s).1, .ok v) :=
  DT.dh_memoized_hit conv conv' memo s v hc

/-- The complete table is a conservative extension: on the twenty names `stockVal` implements it IS `stockVal`; on the
    six others it is the host-parameterised model (`locale` through the registry's memo object: `stockValHS` threads
    the memo and answers as the pure table does). -/
theorem C09_stockValH_conservative (h : Host) (s : Str) :
    (∀ dt ∈ DT.dt2Modelled, Cfg.stockValH h dt s = Cfg.stockVal dt s) ∧
    Cfg.stockValH h "locale".toList s = (DT.checkLocale h s).map .str ∧
    Cfg.stockValH h "existing-directory".toList s = (DT.existingDirectory h s).map .str ∧
    Cfg.stockValH h "existing-path".toList s = (DT.existingPath h s).map .str ∧
    Cfg.stockValH h "existing-file".toList s = (DT.existingFile h s).map .str ∧
    Cfg.stockValH h "existing-dirpath".toList s = (DT.existingDirpath h s).map .str ∧
    Cfg.stockValH h "timedelta".toList s = (DT.timedeltaChecked h.tdFits s).map DT.timedeltaToVal ∧
    (∀ memo dt, DT.MemoOK (fun v => (DT.checkLocale h v).map Val.str) memo →
      (Cfg.stockValHS h memo dt s).2 = Cfg.stockValH h dt s ∧
      DT.MemoOK (fun v => (DT.checkLocale h v).map Val.str) (Cfg.stockValHS h memo dt s).1) :=
  ⟨fun dt hd => DT.dh_stockValH_old h dt hd s, rfl, rfl, rfl, rfl, rfl, rfl,
   fun memo dt hm => DT.dh_stockValHS h memo dt s hm⟩

/-- **Totality, no name excluded**: for every host, every one of the 26 names of the stock registry and every string,
    the conversion returns a value or raises `ValueError` — or `TypeError`, and that only for `timedelta` and only
    when the first word that is not a well-formed part is a float literal followed by a character that is not a unit
    letter (`DTSpec.IsTimedelta s (.error .typeError)`, spelled out). -/
theorem C09_total_all (h : Host) (dt : Str) (hd : dt ∈ Gen.stockNames) (s : Str) :
    (∃ v, Cfg.stockValH h dt s = .ok v) ∨ Cfg.stockValH h dt s = .error .valueError ∨
    (Cfg.stockValH h dt s = .error .typeError ∧ dt = "timedelta".toList ∧
      ∃ (good : List DTSpec.TdPart) (lit : Str) (u : Char) (rest : List Str),
        DTSpec.Words s (good.map DTSpec.tdText ++ (lit ++ [u]) :: rest) ∧ (∀ p ∈ good, DTSpec.TdGood p) ∧
        DTSpec.FloatLit lit ∧ u ∉ DTSpec.tdUnits) := by
  rcases DT.dh_stockValH_total h dt hd s with hv | hv | hv
  · exact Or.inl hv
  · exact Or.inr (Or.inl hv)
  · have hdt := DT.dh_typeError_timedelta h dt hd s hv
    refine Or.inr (Or.inr ⟨hv, hdt, ?_⟩)
    subst hdt
    rw [DT.dh_stockValH_timedelta, DT.dh_map_err, DT.dh_timedeltaChecked_typeError] at hv
    exact (C09_timedelta_unknown_unit_is_TypeError s).mp hv

/-- …and conversely that `TypeError` does occur, for every host, on exactly those texts. -/
theorem C09_typeError_iff (h : Host) (dt : Str) (hd : dt ∈ Gen.stockNames) (s : Str) :
    Cfg.stockValH h dt s = .error .typeError ↔
      dt = "timedelta".toList ∧ DTSpec.IsTimedelta s (.error .typeError) := by
  constructor
  · intro hv
    have hdt := DT.dh_typeError_timedelta h dt hd s hv
    subst hdt
    rw [DT.dh_stockValH_timedelta, DT.dh_map_err, DT.dh_timedeltaChecked_typeError] at hv
    exact ⟨rfl, (C09_timedelta_spec s _).mp hv⟩
  · rintro ⟨rfl, ht⟩
    rw [DT.dh_stockValH_timedelta, DT.dh_map_err, DT.dh_timedeltaChecked_typeError]
    exact (C09_timedelta_spec s _).mpr ht

/-- `C09_total` is the special case of the twenty names. -/
example (dt : Str) (hm : dt ∈ DT.dt2Modelled) (s : Str) :
    (∃ v, Cfg.stockVal dt s = .ok v) ∨ Cfg.stockVal dt s = .error .valueError := DT.dt2_stockVal_total dt hm s

/-! non-vacuity: the example host `DT.dhExHost` (directories `/`, `/srv`, `/home/u`; file `/srv/a.conf`; home
`/home/u`; locales `C`, `POSIX`, empty) -/
example : Gen.stockNames.length = 26 ∧ ∀ dt ∈ DT.dt2Unmodelled, dt ∈ Gen.stockNames := by decide
example : DT.dirname "/srv/a.conf".toList = "/srv".toList ∧ DT.dirname "/a".toList = "/".toList ∧
    DT.dirname "//a".toList = "//".toList ∧ DT.dirname "/a//b".toList = "/a".toList ∧
    DT.dirname "a".toList = [] ∧ DT.dirname "a/".toList = "a".toList ∧ DT.dirname "".toList = [] := by decide
example : DT.existingDirectory DT.dhExHost "~".toList = .ok "/home/u".toList := by decide
example : DT.existingDirectory DT.dhExHost "/srv/a.conf".toList = .error .valueError := by decide
example : DT.existingPath DT.dhExHost "/srv/a.conf".toList = .ok "/srv/a.conf".toList := by decide
example : DT.existingPath DT.dhExHost "/srv/dangling".toList = .error .valueError := by decide
example : DT.existingFile DT.dhExHost "~/x".toList = .error .valueError := by decide
example : DT.existingDirpath DT.dhExHost "/srv/new.log".toList = .ok "/srv/new.log".toList := by decide
example : DT.existingDirpath DT.dhExHost "new.log".toList = .ok "new.log".toList := by decide
example : DT.existingDirpath DT.dhExHost "".toList = .ok [] := by decide
example : DT.existingDirpath DT.dhExHost "/srv/a.conf/x".toList = .error .valueError := by decide
example : DT.existingDirpath DT.dhExHost "~/x".toList = .ok "/home/u/x".toList := by decide
example : DT.checkLocale DT.dhExHost "C".toList = .ok "C".toList := by decide
example : DT.checkLocale DT.dhExHost "xx_YY".toList = .error .valueError := by decide
example : DT.checkLocaleSt DT.dhExHost "C".toList "xx_YY".toList = ("C".toList, .error .valueError) := by decide
example : (DT.memoRun (DT.checkLocale DT.dhExHost) [] ["C".toList, "xx".toList, "C".toList, "xx".toList]) =
    ([("C".toList, "C".toList)], [.ok "C".toList, .error .valueError, .ok "C".toList, .error .valueError]) := by decide
example : Cfg.stockValH DT.dhExHost "timedelta".toList "1W".toList = .error .typeError :=
  (C09_typeError_iff _ _ (by decide) _).mpr ⟨rfl, (C09_timedelta_spec _ _).mp (by decide)⟩
example : DT.timedeltaChecked DT.dhExHost.tdFits "x".toList = .error .valueError := by decide
example : DT.timedeltaChecked DT.dhExHost.tdFits "2d 1.5h".toList =
    .ok { days := some "2".toList, hours := some "1.5".toList } := by decide
example : DT.timedeltaChecked (fun _ => false) "2d 1.5h".toList = .error .valueError := by decide
example : Cfg.stockValH DT.dhExHost "existing-dirpath".toList "/srv/x".toList = .ok (.str "/srv/x".toList) := by
  rw [(C09_stockValH_conservative _ _).2.2.2.2.2.1, show DT.existingDirpath DT.dhExHost "/srv/x".toList = .ok "/srv/x".toList by decide]
  rfl
/-- the hypotheses used above are met by the example host (and `exists → isfile` is not) -/
example : (∀ p, DT.dhExHost.isdir p = true → DT.dhExHost.exists_ p = true) ∧
    (∀ p, DT.dhExHost.isfile p = true → DT.dhExHost.exists_ p = true) ∧
    DT.dhExHost.localeOk "C".toList = true := by
  refine ⟨fun p hp => ?_, fun p hp => ?_, by decide⟩
  · simp only [DT.dhExHost, Bool.or_eq_true, beq_iff_eq] at hp ⊢
    rcases hp with (hp | hp) | hp <;> simp [hp]
  · simp only [DT.dhExHost, Bool.or_eq_true, beq_iff_eq] at hp ⊢
    simp [hp]

end ZCV.Props.C09

/-!
# C09, restated for the code as it is now (generated by `harness/zcv/pytrans.py`)

`ZCV.Gen.Code.*` (`ZCV/Gen/CodeDatatypes.lean`) is the translation of the Python source of the stock conversions,
regenerated from the working tree on every run.  `ZCV/Lemmas/CodeEqDatatypes.lean` proves each generated definition equal
to the hand-written model function, for all arguments; `CodeEq.embed` only re-tags the exception type (`ConvErr` →
`PyExc`) and is injective.  So every contract above is a contract of (the translation of) the code: a change to a
Python function changes the generated definition, and these theorems no longer check.
-/
namespace ZCV.Props.C09
open ZCV ZCV.CodeEq

/-- equality of conversion outcomes is decidable (used by the closed examples below only) -/
local instance c09DecEqExcept' {ε α : Type} [DecidableEq ε] [DecidableEq α] : DecidableEq (Except ε α) := fun a b =>
  match a, b with
  | .ok x, .ok y => if h : x = y then isTrue (by rw [h]) else isFalse (fun e => h (by injection e))
  | .error x, .error y => if h : x = y then isTrue (by rw [h]) else isFalse (fun e => h (by injection e))
  | .ok _, .error _ => isFalse (fun e => by cases e)
  | .error _, .ok _ => isFalse (fun e => by cases e)

/-! ## (i) generated code = model -/

/-- re-tagging the exception type loses nothing -/
theorem C09_code_embed_injective {α : Type} (a b : Except ConvErr α) (h : embed a = embed b) : a = b :=
  embed_injective a b h
example : embed (DT.asBoolean "x".toList) ≠ embed (DT.asBoolean "on".toList) := fun h =>
  absurd (C09_code_embed_injective _ _ h) (by decide)

theorem C09_code_asBoolean_eq (s : Str) : Gen.Code.asBoolean s = embed (DT.asBoolean s) := code_asBoolean_eq s
theorem C09_code_integer_eq (s : Str) : Gen.Code.integer s = embed (DT.integer s) := code_integer_eq s
theorem C09_code_nullConversion_eq (s : Str) : Gen.Code.null_conversion s = .ok s := code_null_conversion_eq s
theorem C09_code_stringList_eq (s : Str) : Gen.Code.string_list s = .ok (DT.stringList s) := code_string_list_eq s
/-- `RangeCheckedConversion.__call__` with `_conversion = integer`, any bounds -/
theorem C09_code_rangeChecked_eq (mn mx : Option Int) (s : Str) :
    Gen.Code.RangeCheckedConversion_call mn mx Gen.Code.integer s = embed (DT.rangeChecked mn mx s) :=
  code_rangeChecked_eq mn mx s
theorem C09_code_portNumber_eq (s : Str) : Gen.Code.port_number s = embed (DT.portNumber s) := code_portNumber_eq s
/-- `SuffixMultiplier.__call__`, any table, key size and default -/
theorem C09_code_suffixMult_eq (tbl : List (Str × Int)) (k : Nat) (dflt : Int) (s : Str) :
    Gen.Code.SuffixMultiplier_call tbl (k : Int) dflt s = embed (DT.suffixMult tbl k dflt s) :=
  code_suffixMult_eq tbl k dflt s
/-- `SuffixMultiplier.__init__` on the live tables computes the key sizes the instances use -/
theorem C09_code_suffix_init :
    Gen.Code.SuffixMultiplier_init Gen.Code.byte_size_d Gen.byteSizeDefault =
        .ok (Gen.Code.byte_size_d, Gen.byteSizeDefault, (Gen.byteSizeKeysz : Int)) ∧
      Gen.Code.SuffixMultiplier_init Gen.Code.time_interval_d Gen.timeIntervalDefault =
        .ok (Gen.Code.time_interval_d, Gen.timeIntervalDefault, (Gen.timeIntervalKeysz : Int)) :=
  ⟨code_byteSize_init, code_timeInterval_init⟩
theorem C09_code_byteSize_eq (s : Str) : Gen.Code.byte_size s = embed (DT.byteSize s) := code_byteSize_eq s
theorem C09_code_timeInterval_eq (s : Str) : Gen.Code.time_interval s = embed (DT.timeInterval s) := code_timeInterval_eq s
/-- `RegularExpressionConversion.__call__`, any pattern -/
theorem C09_code_regexConv_eq (r : Rx.RE) (s : Str) :
    Gen.Code.RegularExpressionConversion_call r s = embed (DT.regexConv r s) := code_regexConv_eq r s
theorem C09_code_identifier_eq (s : Str) : Gen.Code.identifier s = embed (DT.identifier s) := code_identifier_eq s
theorem C09_code_dottedName_eq (s : Str) : Gen.Code.dotted_name s = embed (DT.dottedName s) := code_dottedName_eq s
theorem C09_code_dottedSuffix_eq (s : Str) : Gen.Code.dotted_suffix s = embed (DT.dottedSuffix s) := code_dottedSuffix_eq s
/-- the pattern step of `ipaddr-or-hostname` (the `inet_pton` step is not translated) -/
theorem C09_code_ipaddrRx_eq (s : Str) : Gen.Code.ipaddr_or_hostname_rx s = embed (DT.regexConv Gen.ipaddrRx s) :=
  code_ipaddrRx_eq s
/-- `BasicKeyConversion.__call__`, any pattern -/
theorem C09_code_basicKeyConv_eq (r : Rx.RE) (s : Str) :
    Gen.Code.BasicKeyConversion_call r s = embed ((DT.regexConv r s).map lower) := code_basicKeyConv_eq r s
theorem C09_code_basicKey_eq (s : Str) : Gen.Code.basic_key s = embed (DT.basicKey s) := code_basicKey_eq s
/-- `InetAddress.__call__`, any default host -/
theorem C09_code_inetAddress_eq (d s : Str) : Gen.Code.InetAddress_call d s = embed (DT.inetAddress d s) :=
  code_inetAddress_eq d s
/-- `SocketAddress.__init__` (as the pair of attributes it sets) with `_parse_address = InetAddress(d)` -/
theorem C09_code_socketAddress_eq (d s : Str) :
    Gen.Code.SocketAddress_init (Gen.Code.InetAddress_call d) s = embedSock (DT.socketAddress d s) :=
  code_socketAddress_eq d s
theorem C09_code_embedSock_injective (a b : Except ConvErr (DT.Family × Sum Str (Str × Option Int)))
    (h : embedSock a = embedSock b) : a = b := embedSock_injective a b h
example : embedSock (DT.socketAddress [] "/x".toList) ≠ embedSock (DT.socketAddress [] "x".toList) := fun h =>
  absurd (C09_code_embedSock_injective _ _ h) (by decide)

/-! ## (ii) the contracts, for the generated code -/

/-- `boolean` (the code): yes/true/on and no/false/off in any case, nothing else -/
theorem C09_code_boolean_spec (s : Str) : Gen.Code.asBoolean s = embed (DTSpec.boolean s) := by
  rw [code_asBoolean_eq, C09_boolean_spec]
/-- `integer` (the code) accepts exactly the integer literals, with their value -/
theorem C09_code_integer_spec (s : Str) (n : Int) : Gen.Code.integer s = .ok n ↔ DTSpec.IntLit s n := by
  rw [code_integer_eq, ← C09_integer_spec]
  cases DT.integer s <;> simp [embed]
example : Gen.Code.integer " +1_000\n".toList = .ok 1000 := (C09_code_integer_spec _ _).mpr ((C09_integer_spec _ _).mp (by decide))
/-- …and rejects everything else with `ValueError` -/
theorem C09_code_integer_reject (s : Str) : Gen.Code.integer s = .error .ValueError ↔ ¬ ∃ n, DTSpec.IntLit s n := by
  rw [code_integer_eq, ← C09_integer_reject]
  cases h : DT.integer s with
  | ok v => simp [embed]
  | error e => cases e <;> simp [embed, embedErr]
/-- `string-list` (the code) returns THE decomposition into whitespace-separated words -/
theorem C09_code_stringList_spec (s : Str) (ws : List Str) : DTSpec.Words s ws ↔ Gen.Code.string_list s = .ok ws := by
  rw [code_string_list_eq, C09_stringList_spec]; simp
example : Gen.Code.string_list "  ab\tc \n".toList = .ok ["ab".toList, "c".toList] :=
  (C09_code_stringList_spec _ _).mp ((C09_stringList_spec _ _).mpr (by decide))
/-- `port-number` (the code): an integer literal with value in 0..65535 -/
theorem C09_code_portNumber_spec (s : Str) : Gen.Code.port_number s = embed (DTSpec.portNumber s) := by
  rw [code_portNumber_eq, C09_portNumber_spec]
theorem C09_code_byteSize_spec (s : Str) : Gen.Code.byte_size s = embed (DTSpec.byteSize s) := by
  rw [code_byteSize_eq, C09_byteSize_spec]
theorem C09_code_timeInterval_spec (s : Str) : Gen.Code.time_interval s = embed (DTSpec.timeInterval s) := by
  rw [code_timeInterval_eq, C09_timeInterval_spec]
theorem C09_code_basicKey_spec (s : Str) : Gen.Code.basic_key s = embed (DTSpec.basicKey s) := by
  rw [code_basicKey_eq, C09_basicKey_spec]
theorem C09_code_identifier_spec (s : Str) : Gen.Code.identifier s = embed (DTSpec.identifier s) := by
  rw [code_identifier_eq, C09_identifier_spec]
theorem C09_code_dottedName_spec (s : Str) : Gen.Code.dotted_name s = embed (DTSpec.dottedName s) := by
  rw [code_dottedName_eq, C09_dottedName_spec]
theorem C09_code_dottedSuffix_spec (s : Str) : Gen.Code.dotted_suffix s = embed (DTSpec.dottedSuffix s) := by
  rw [code_dottedSuffix_eq, C09_dottedSuffix_spec]
/-- `basic-key` (the code) is idempotent -/
theorem C09_code_basicKey_idempotent (s r : Str) (h : Gen.Code.basic_key s = .ok r) : Gen.Code.basic_key r = .ok r := by
  rw [code_basicKey_eq] at h ⊢
  have h' : DT.basicKey s = .ok r := embed_injective _ _ h
  rw [C09_basicKey_idempotent s r h']; rfl
example : Gen.Code.basic_key "ab-c".toList = .ok "ab-c".toList :=
  C09_code_basicKey_idempotent "Ab-C".toList _ (by rw [C09_code_basicKey_spec]; decide)
/-- `identifier` (the code) is idempotent -/
theorem C09_code_identifier_idempotent (s r : Str) (h : Gen.Code.identifier s = .ok r) : Gen.Code.identifier r = .ok r := by
  rw [code_identifier_eq] at h ⊢
  have h' : DT.identifier s = .ok r := embed_injective _ _ h
  rw [C09_identifier_idempotent s r h']; rfl
example : Gen.Code.identifier "_a1".toList = .ok "_a1".toList :=
  C09_code_identifier_idempotent "_a1".toList _ (by rw [C09_code_identifier_spec]; decide)
/-- `inet-address`, `inet-binding-address`, `inet-connection-address` (the code, with the live default hosts) -/
theorem C09_code_inetAddress_spec (s : Str) :
    Gen.Code.inet_address s = embed (DTSpec.inetAddress Gen.inetHost s) ∧
    Gen.Code.inet_binding_address s = embed (DTSpec.inetAddress Gen.inetBindingHost s) ∧
    Gen.Code.inet_connection_address s = embed (DTSpec.inetAddress Gen.inetConnectionHost s) := by
  refine ⟨?_, ?_, ?_⟩
  · rw [code_inet_address_eq, C09_inetAddress_spec]
  · rw [code_inet_binding_address_eq, C09_inetAddress_spec]
  · rw [code_inet_connection_address_eq, C09_inetAddress_spec]
/-- `InetAddress.__call__` (the code), any default host -/
theorem C09_code_inetAddressCall_spec (d s : Str) : Gen.Code.InetAddress_call d s = embed (DTSpec.inetAddress d s) := by
  rw [code_inetAddress_eq, C09_inetAddress_spec]
/-- `socket-address` and its two siblings (the code): UNIX paths, IPv6, IPv4 — family by name -/
theorem C09_code_socketAddress_spec (s : Str) :
    (Gen.Code.socket_address s).map (fun p => (famName p.1, p.2)) = embed (DTSpec.socketFamily Gen.inetHost s) ∧
    (Gen.Code.socket_binding_address s).map (fun p => (famName p.1, p.2)) = embed (DTSpec.socketFamily Gen.inetBindingHost s) ∧
    (Gen.Code.socket_connection_address s).map (fun p => (famName p.1, p.2)) =
      embed (DTSpec.socketFamily Gen.inetConnectionHost s) := by
  refine ⟨?_, ?_, ?_⟩
  · rw [code_socket_address_eq, ← C09_socketAddress_spec]; exact embedSock_famName _
  · rw [code_socket_binding_address_eq, ← C09_socketAddress_spec]; exact embedSock_famName _
  · rw [code_socket_connection_address_eq, ← C09_socketAddress_spec]; exact embedSock_famName _

/-! ## the white space `int()` / `float()` skip is NOT `str.isspace`

CPython maps non-ASCII white space to a blank before parsing a number and leaves ASCII characters alone; the parsers
then skip C `isspace` characters only.  The separator controls U+001C–U+001F are therefore white space for
`str.strip()`, `str.split()` and `\s` and are NOT skipped by `int()` / `float()`: `int('\x1c1')` is a `ValueError`
while `'\x1c1'.strip() == '1'`.  The set is not assumed: `Gen.intSpaceExcluded` is computed from the running
interpreter on every run (`extract.py`, `gen_unicode`). -/

/-- The four separator controls are `str.isspace` white space and are in the generated table of the code points
    `int()` / `float()` do not skip. -/
theorem C09_separator_controls (c : Char) (h : c = '\x1c' ∨ c = '\x1d' ∨ c = '\x1e' ∨ c = '\x1f') :
    pySpace c = true ∧ c.toNat ∈ Gen.intSpaceExcluded ∧ intSpace c = false :=
  have hc := DT.dt2_separator_controls_excluded c h
  ⟨(DT.dt2_excluded_space c hc).1, hc, (DT.dt2_excluded_space c hc).2⟩

/-- Every code point of the generated table, at the start or at the end of a text, makes `integer` fail — whatever the
    rest of the text is. -/
theorem C09_integer_rejects_excluded (c : Char) (hc : c.toNat ∈ Gen.intSpaceExcluded) (s : Str) :
    DT.integer (c :: s) = .error .valueError ∧ DT.integer (s ++ [c]) = .error .valueError := by
  rw [C09_integer_reject, C09_integer_reject]
  exact ⟨fun ⟨n, hn⟩ => (DT.dt2_intLit_excluded c hc s n).1 hn, fun ⟨n, hn⟩ => (DT.dt2_intLit_excluded c hc s n).2 hn⟩

/-- For the four separator controls `c` (U+001C, U+001D, U+001E, U+001F) and every text `s`: `integer (c + s)` and
    `integer (s + c)` are `ValueError`s (although `(c + s).strip()` is `s.strip()`). -/
theorem C09_integer_rejects_separator_controls (c : Char) (h : c = '\x1c' ∨ c = '\x1d' ∨ c = '\x1e' ∨ c = '\x1f')
    (s : Str) : DT.integer (c :: s) = .error .valueError ∧ DT.integer (s ++ [c]) = .error .valueError :=
  C09_integer_rejects_excluded c (DT.dt2_separator_controls_excluded c h) s

/-- The characters `integer` strips are exactly the `str.isspace` characters outside the generated table: `c` can be
    put in front of and behind EVERY text without changing the outcome iff it is one of them. -/
theorem C09_integer_strips_exactly (c : Char) :
    (∀ s, DT.integer (c :: s) = DT.integer s ∧ DT.integer (s ++ [c]) = DT.integer s) ↔
      (pySpace c = true ∧ c.toNat ∉ Gen.intSpaceExcluded) := by
  rw [← DT.dt2_intSpace_iff]
  constructor
  · intro h
    cases hi : intSpace c with
    | true => rfl
    | false =>
      exfalso
      have h1 := (h ['1']).2
      have h2 : DT.integer ['1'] = .ok 1 := by decide
      rw [h2] at h1
      unfold DT.integer at h1
      have := DT.dt2_pyInt_one_snoc c hi
      change (match pyInt ['1', c] with | some n => (Except.ok n : DT.R Int) | none => .error .valueError) = .ok 1 at h1
      cases hp : pyInt ['1', c] with
      | none => rw [hp] at h1; cases h1
      | some n =>
        rw [hp] at h1 this
        injection h1 with h1
        exact this (by rw [h1])
  · intro hi s
    unfold DT.integer
    rw [DT.dt2_pyInt_stripInt _ _ (DT.dt2_stripInt_cons c s hi), DT.dt2_pyInt_stripInt _ _ (DT.dt2_stripInt_snoc c s hi)]
    exact ⟨rfl, rfl⟩

/-- The same for `float`: every code point of the generated table at either end of a text is refused. -/
theorem C09_float_rejects_excluded (c : Char) (hc : c.toNat ∈ Gen.intSpaceExcluded) (s : Str) :
    DT.floatConv (c :: s) = .error .valueError ∧ DT.floatConv (s ++ [c]) = .error .valueError := by
  rw [C09_float_reject, C09_float_reject]
  exact DT.dt2_floatLit_excluded c hc s

/-- For the four separator controls `c` and every text `s`: `float (c + s)` and `float (s + c)` are `ValueError`s. -/
theorem C09_float_rejects_separator_controls (c : Char) (h : c = '\x1c' ∨ c = '\x1d' ∨ c = '\x1e' ∨ c = '\x1f')
    (s : Str) : DT.floatConv (c :: s) = .error .valueError ∧ DT.floatConv (s ++ [c]) = .error .valueError :=
  C09_float_rejects_excluded c (DT.dt2_separator_controls_excluded c h) s

/-- The characters `float` strips are exactly the `str.isspace` characters outside the generated table (the outcome
    includes the text handed on: it is the same text). -/
theorem C09_float_strips_exactly (c : Char) :
    (∀ s, DT.floatConv (c :: s) = DT.floatConv s ∧ DT.floatConv (s ++ [c]) = DT.floatConv s) ↔
      (pySpace c = true ∧ c.toNat ∉ Gen.intSpaceExcluded) := by
  rw [← DT.dt2_intSpace_iff]
  constructor
  · intro h
    cases hi : intSpace c with
    | true => rfl
    | false =>
      exfalso
      have h1 := (h ['i', 'n', 'f']).2
      have h2 : DT.floatConv ['i', 'n', 'f'] = .ok (.float ['i', 'n', 'f']) := by
        unfold DT.floatConv
        rw [show DT.floatOk ['i', 'n', 'f'] = true by decide, show stripInt ['i', 'n', 'f'] = ['i', 'n', 'f'] by decide]
        rfl
      rw [h2] at h1
      have h3 : DT.floatConv (['i', 'n', 'f'] ++ [c]) = .error .valueError := by
        unfold DT.floatConv
        rw [show ['i', 'n', 'f'] ++ [c] = ['i', 'n', 'f', c] from rfl, DT.dt2_floatOk_inf_snoc c hi]
        rfl
      rw [h3] at h1; cases h1
  · intro hi s
    exact ⟨DT.dt2_floatConv_stripInt _ _ (DT.dt2_stripInt_cons c s hi), DT.dt2_floatConv_stripInt _ _ (DT.dt2_stripInt_snoc c s hi)⟩

/-- What the two white-space classes look like: `strip` removes a separator control, `int` does not skip it. -/
example : strip "\x1c1".toList = "1".toList ∧ DT.integer "\x1c1".toList = .error .valueError := by decide
example : DT.integer "1\x1f".toList = .error .valueError := by decide
example : DT.integer " 1\x1f".toList = .error .valueError := by decide
example : DT.integer "\x851".toList = .ok 1 := by decide          -- NEL: not ASCII, mapped to a blank, skipped
example : DT.integer " 1".toList = .ok 1 := by decide
example : DT.integer "　1 ".toList = .ok 1 := by decide
example : DT.integer "+\x1c1".toList = .error .valueError := by decide
example : DT.floatConv "\x1c1".toList = .error .valueError :=
  (C09_float_reject _).mpr (fun h => absurd ((DT.dt2_floatOk_iff _).mpr h) (by decide))
example : DT.floatConv "1.5\x1f".toList = .error .valueError :=
  (C09_float_reject _).mpr (fun h => absurd ((DT.dt2_floatOk_iff _).mpr h) (by decide))
example : DT.floatOk "\x851".toList = true ∧ stripInt "\x851".toList = "1".toList := by decide
example : DT.floatOk " 1".toList = true ∧ stripInt " 1".toList = "1".toList := by decide
example : DTSpec.FloatLit "\x85-1.5e3　".toList := (DT.dt2_floatOk_iff _).mp (by decide)
example : ¬ DTSpec.FloatLit " 1\x1c".toList := fun h => absurd ((DT.dt2_floatOk_iff _).mpr h) (by decide)
example : ¬ ∃ n, DTSpec.IntLit "\x1c1".toList n := (C09_integer_reject _).mp (by decide)
example : DT.integer "\x1c1".toList = .error .valueError := (C09_integer_rejects_separator_controls _ (Or.inl rfl) _).1
example : DT.floatConv "nan\x1e".toList = .error .valueError :=
  (C09_float_rejects_separator_controls _ (Or.inr (Or.inr (Or.inl rfl))) "nan".toList).2
/-- the finding that exposed the model: `time-interval('1\x1ch')` is `int('1\x1c')`, a `ValueError` -/
example : DT.timeInterval "1\x1ch".toList = .error .valueError := by decide
example : DT.timeInterval "1\x85h".toList = .ok 3600 := by decide
example : DT.portNumber "80\x1c".toList = .error .valueError := by decide
example : DT.byteSize "\x1d1kb".toList = .error .valueError := by decide
/-- `timedelta` splits at `str.isspace` white space first: the separator control ends the word, `float('')` fails -/
example : DT.timedelta "1\x1ch".toList = .error .valueError := by decide

end ZCV.Props.C09

/-!
## `timedelta`, for the code as it is now

`Gen.Code.timedelta` is the translation of the Python source of `ZConfig.datatypes.timedelta`.  Two things stay PARAMETERS
(trusted, see `ZCV/Gen/CodeDatatypes.lean`): which texts `float()` accepts — instantiated here with the model's acceptance
grammar `DT.floatOk` (`C09_float_*`), never unfolded — and the `datetime.timedelta` constructor `ctor`, whose range verdict
(NaN, infinity, more than 999999999 days) is the model's parameter `fits`.  Values are symbolic: `float(lit)`.
-/
namespace ZCV.Props.C09
open ZCV ZCV.CodeEq

/-- generated code = model, any constructor: the model's loop over the parts, then the constructor on the collected
    arguments, its `OverflowError` turned into `ValueError` -/
theorem C09_code_timedelta_eq (ctor : Py.Num → Py.Num → Py.Num → Py.Num → Py.Num → Except Py.PyExc Py.Timedelta) (s : Str) :
    Gen.Code.timedelta DT.floatOk ctor s =
      match DT.timedelta s with
      | .ok v => tdFinish ctor v
      | .error e => .error (embedErr e) := code_timedelta_eq ctor s

/-- re-tagging the constructor arguments loses nothing -/
theorem C09_code_embedTD_injective (a b : DT.TimedeltaVal) (h : embedTD a = embedTD b) : a = b := embedTD_injective a b h

/-- generated code = `DT.timedeltaChecked`, for every constructor that behaves like `datetime.timedelta` (returns the
    object for its arguments, or raises `OverflowError` / `ValueError`): its verdict is the model's `fits` -/
theorem C09_code_timedeltaChecked_eq (ctor : Py.Num → Py.Num → Py.Num → Py.Num → Py.Num → Except Py.PyExc Py.Timedelta)
    (hc : CtorLike ctor) (s : Str) :
    Gen.Code.timedelta DT.floatOk ctor s = embed ((DT.timedeltaChecked (ctorFits ctor) s).map embedTD) :=
  code_timedeltaChecked_eq ctor hc s

/-- a constructor accepting everything, and one refusing infinite weeks, are `CtorLike` -/
example : CtorLike (fun w d h m s => .ok ⟨w, d, h, m, s⟩) := fun _ _ _ _ _ => Or.inl rfl
example : CtorLike (fun w d h m s => if w = .float ['i', 'n', 'f'] then .error .OverflowError else .ok ⟨w, d, h, m, s⟩) := by
  intro w d h m s
  by_cases hw : w = .float ['i', 'n', 'f']
  · exact Or.inr (Or.inl (by simp [hw]))
  · exact Or.inl (by simp [hw])

/-- what the code does with the outcome `r` of the loop over the parts -/
def tdOutcome (ctor : Py.Num → Py.Num → Py.Num → Py.Num → Py.Num → Except Py.PyExc Py.Timedelta) :
    Except ConvErr DT.TimedeltaVal → Except Py.PyExc Py.Timedelta
  | .ok v => tdFinish ctor v
  | .error e => .error (embedErr e)

/-- the documented shape, for the code: if the text is related to the outcome `r` by the declarative `IsTimedelta`, the
    code returns the constructor's answer on `r`'s amounts, or raises `r`'s exception -/
theorem C09_code_timedelta_spec (ctor : Py.Num → Py.Num → Py.Num → Py.Num → Py.Num → Except Py.PyExc Py.Timedelta) (s : Str)
    (r : Except ConvErr DT.TimedeltaVal) (h : DTSpec.IsTimedelta s r) :
    Gen.Code.timedelta DT.floatOk ctor s = tdOutcome ctor r := by
  rw [code_timedelta_eq, (C09_timedelta_spec s r).mpr h]; rfl
example : DTSpec.IsTimedelta [] (.ok {}) := (C09_timedelta_spec _ _).mp rfl

/-- the code raises `TypeError` exactly for an unknown unit letter after a float literal (all earlier parts being good) -/
theorem C09_code_timedelta_unknown_unit_is_TypeError
    (ctor : Py.Num → Py.Num → Py.Num → Py.Num → Py.Num → Except Py.PyExc Py.Timedelta) (hc : CtorLike ctor) (s : Str) :
    Gen.Code.timedelta DT.floatOk ctor s = .error .TypeError ↔
      ∃ (good : List DTSpec.TdPart) (lit : Str) (u : Char) (rest : List Str),
        DTSpec.Words s (good.map DTSpec.tdText ++ (lit ++ [u]) :: rest) ∧ (∀ p ∈ good, DTSpec.TdGood p) ∧
        DTSpec.FloatLit lit ∧ u ∉ DTSpec.tdUnits := by
  rw [← C09_timedelta_unknown_unit_is_TypeError, code_timedelta_eq]
  cases hd : DT.timedelta s with
  | error e => cases e <;> simp [embedErr]
  | ok v =>
    simp only [tdFinish, reduceCtorEq, iff_false]
    rcases hc (tdNum v.weeks) (tdNum v.days) (tdNum v.hours) (tdNum v.minutes) (tdNum v.seconds) with h | h | h <;>
      simp [h]

/-- totality of the code: a value, `ValueError` or `TypeError` — nothing else -/
theorem C09_code_timedelta_total (ctor : Py.Num → Py.Num → Py.Num → Py.Num → Py.Num → Except Py.PyExc Py.Timedelta)
    (hc : CtorLike ctor) (s : Str) :
    (∃ v, DT.timedelta s = .ok v ∧ Gen.Code.timedelta DT.floatOk ctor s = .ok (embedTD v)) ∨
      Gen.Code.timedelta DT.floatOk ctor s = .error .ValueError ∨ Gen.Code.timedelta DT.floatOk ctor s = .error .TypeError := by
  rw [code_timedeltaChecked_eq ctor hc]
  rcases C09_timedelta_checked_total (ctorFits ctor) s with ⟨v, h1, h2, _⟩ | h | h
  · exact Or.inl ⟨v, h2, by rw [h1]; rfl⟩
  · exact Or.inr (Or.inl (by rw [h]; rfl))
  · exact Or.inr (Or.inr (by rw [h]; rfl))

end ZCV.Props.C09
