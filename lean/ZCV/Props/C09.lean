import ZCV.Lemmas.Datatypes
/-!
# C09 — every standard datatype is a total function honouring its documented contract

Totality is by construction (`Except ConvErr α`: a value, ValueError, or timedelta's TypeError; no other outcome
exists in the model).  Each theorem below says: the model of the code — through the patterns, word tuples, bounds and
suffix tables *generated from the source* — computes exactly the documented contract, for every string.
-/
namespace ZCV.Props.C09
open ZCV

theorem C09_basicKey_spec (s : Str) : DT.basicKey s = DTSpec.basicKey s := DT.basicKey_eq_spec s
theorem C09_identifier_spec (s : Str) : DT.identifier s = DTSpec.identifier s := DT.identifier_eq_spec s
theorem C09_dottedName_spec (s : Str) : DT.dottedName s = DTSpec.dottedName s := DT.dottedName_eq_spec s
theorem C09_dottedSuffix_spec (s : Str) : DT.dottedSuffix s = DTSpec.dottedSuffix s := DT.dottedSuffix_eq_spec s
theorem C09_boolean_spec (s : Str) : DT.asBoolean s = DTSpec.boolean s := DT.asBoolean_eq_spec s
theorem C09_portNumber_spec (s : Str) : DT.portNumber s = DTSpec.portNumber s := DT.portNumber_eq_spec s
theorem C09_byteSize_spec (s : Str) : DT.byteSize s = DTSpec.byteSize s := DT.byteSize_eq_spec s
theorem C09_timeInterval_spec (s : Str) : DT.timeInterval s = DTSpec.timeInterval s := DT.timeInterval_eq_spec s
theorem C09_inetAddress_spec (d s : Str) : DT.inetAddress d s = DTSpec.inetAddress d s := DT.inetAddress_eq_spec d s
theorem C09_socketAddress_spec (d s : Str) :
    (DT.socketAddress d s).map (fun p => (String.ofList (DT.familyStr p.1), p.2)) = DTSpec.socketFamily d s :=
  DT.socketAddress_eq_spec d s
theorem C09_basicKey_idempotent (s r : Str) (h : DT.basicKey s = .ok r) : DT.basicKey r = .ok r :=
  DT.basicKey_idempotent s r h
theorem C09_identifier_idempotent (s r : Str) (h : DT.identifier s = .ok r) : DT.identifier r = .ok r :=
  DT.identifier_idempotent s r h

end ZCV.Props.C09
