import ZCV.Model.Conv
import ZCV.Lemmas.Except
import ZCV.Lemmas.LoadSpec
import ZCV.Lemmas.TextLoad
namespace ZCV.Props.C02
open ZCV ZCV.Cfg

/-- every section value the model builds exposes exactly the attributes its type declares (own and inherited
    children), in schema order, and reports its type and name -/
theorem C02_attrs_exact (conv : Conv) (s : Schema) (m : Matcher) (ty : Str) (nm : Option Str)
    (attrs : List (Str × Val)) (hs : List (Str × Val))
    (h : finishMatcher conv s m = .ok (.sect ty nm attrs, hs)) (hb : m.bag = none) :
    attrs.map (·.1) = m.ty.children.map (fun c => c.2.attr) ∧ ty = m.ty.name.getD [] ∧ nm = m.name := by
  unfold finishMatcher at h
  have hfb : finishBag conv m = .ok m := by unfold finishBag; rw [hb]
  simp only [hfb, bind, Except.bind] at h
  split at h
  · simp at h
  · rename_i slots hslots
    split at h
    · simp at h
    · rename_i vals hvals
      simp only [pure, Except.pure, Except.ok.injEq, Prod.mk.injEq, Val.sect.injEq] at h
      obtain ⟨⟨h1, h2, h3⟩, _⟩ := h
      refine ⟨?_, h1.symm, h2.symm⟩
      rw [← h3, List.map_map]
      have e1 := mapM_ok_map _ (fun (p : Info × Val) => p.1.attr) (fun (p : Info × Slot) => p.1.attr) ?_ slots vals hvals
      have e2 := mapM_ok_map _ (fun (p : Info × Slot) => p.1.attr) (fun (c : Option Str × Info) => c.2.attr) ?_ m.ty.children slots hslots
      · exact e1.trans e2
      · intro a b hab
        obtain ⟨k, ci⟩ := a
        simp only at hab
        split at hab
        · rename_i sl _
          cases hfc : finishChild ci sl with
          | ok r => rw [hfc] at hab; simp [Except.map] at hab; subst hab; rfl
          | error e => rw [hfc] at hab; simp [Except.map] at hab
        · simp at hab
      · intro a b hab
        obtain ⟨ci, sl⟩ := a
        simp only at hab
        cases hcc : constructChild conv s ci sl with
        | ok r => rw [hcc] at hab; simp [Except.map] at hab; subst hab; rfl
        | error e => rw [hcc] at hab; simp [Except.map] at hab

open ZCV.Conf in
/-- **The value tree is exactly what the schema defines**: whenever the loader returns a configuration it is `denote`,
    the declarative value of `ZCV/Spec/Conforms.lean` (attributes in schema order; single key = converted value, else
    converted default, else None; multikey = values in file order, else defaults; wildcard = mapping with schema defaults
    only when no key is supplied; slot = the section's value passed through its datatype, or None; multisection = list in
    file order; type and name reported) -/
theorem C02_value_eq_denote (conv : Conv) (s : Schema) (items : List Item) (v : Val)
    (hs : schemaOK s = true) (ht : tyCanon s items = true) (h : loadTree conv s items = .ok v) :
    denote conv s items = some v := by
  have e := loadTree_eq_denote conv s items hs ht
  rw [h] at e
  exact e.symm

open ZCV.Conf in
/-- the same for configuration TEXT (no `%import`, no overrides): the configuration returned for an accepted text is
    `denote` of the tree the parser builds from it -/
theorem C02_text_value_eq_denote (conv : Conv) (env : Env) (pkgs : Str → Pkg) (s : Schema) (url : Option Str)
    (lines : List Str) (r : LoadResult) (hs : schemaOK s = true) (hlow : ∀ x : Str, lower (lower x) = lower x)
    (hkeys : ∀ p ∈ s.types, lower p.1 = p.1)
    (hni : ∀ l ∈ lines, NoImportLine l) (hres : ∀ u ls, env.res u = some ls → ∀ l ∈ ls, NoImportLine l)
    (h : load conv env pkgs s url lines [] = .ok r) :
    ∃ items, treeOf env url lines = .ok items ∧ denote conv s items = some r.value := by
  have e := load_eq_loadTree conv env pkgs s url lines hni hres
  rw [h] at e
  cases ht : treeOf env url lines with
  | error x => rw [ht] at e; simp [Except.toOption] at e
  | ok items =>
    rw [ht] at e
    have hc := treeOf_tyCanon env url lines s items hs hlow hkeys ht
    simp only [Except.toOption, Option.map_some, Option.bind_some] at e
    cases hl : loadTree conv s items with
    | error x => rw [hl] at e; simp at e
    | ok v =>
      rw [hl] at e
      simp only [Option.some.injEq] at e
      exact ⟨items, rfl, by rw [e]; exact C02_value_eq_denote conv s items v hs hc hl⟩

end ZCV.Props.C02
