import ZCV.Model.Conv
import ZCV.Lemmas.Except
import ZCV.Lemmas.LoadSpec
import ZCV.Lemmas.TextLoad
import ZCV.Lemmas.NoInternalLower
import ZCV.Lemmas.DischargeElab
import ZCV.Lemmas.DischargeExamples
import ZCV.Props.C10
import ZCV.Props.C01
import ZCV.Lemmas.ImportOvFree
import ZCV.Lemmas.ImportOvEx
namespace ZCV.Props.C02
open ZCV ZCV.Cfg

/-- every section value the model builds exposes exactly the attributes its type declares (own and inherited
    children), in schema order, and reports its type and name -/
theorem C02_attrs_exact (conv : Conv) (s : Schema) (m : Matcher) (ty : Str) (nm : Option Str)
    (attrs : List (Str × Val)) (hs : List (Str × Val))
    (h : finishMatcher conv s m = .ok (.sect ty nm attrs, hs)) (hb : m.bag = none) :
    attrs.map (·.1) = m.ty.children.map (fun c => c.2.attr) ∧ ty = m.ty.name.getD [] ∧ nm = m.name := by
  unfold finishMatcher at h
  have hfb : finishBag conv m = .ok m := by unfold finishBag; rw [hb]
  simp only [hfb, bind, Except.bind] at h
  split at h
  · simp at h
  · rename_i slots hslots
    split at h
    · simp at h
    · rename_i vals hvals
      simp only [pure, Except.pure, Except.ok.injEq, Prod.mk.injEq, Val.sect.injEq] at h
      obtain ⟨⟨h1, h2, h3⟩, _⟩ := h
      refine ⟨?_, h1.symm, h2.symm⟩
      rw [← h3, List.map_map]
      have e1 := mapM_ok_map _ (fun (p : Info × Val) => p.1.attr) (fun (p : Info × Slot) => p.1.attr) ?_ slots vals hvals
      have e2 := mapM_ok_map _ (fun (p : Info × Slot) => p.1.attr) (fun (c : Option Str × Info) => c.2.attr) ?_ m.ty.children slots hslots
      · exact e1.trans e2
      · intro a b hab
        obtain ⟨k, ci⟩ := a
        simp only at hab
        split at hab
        · rename_i sl _
          cases hfc : finishChild ci sl with
          | ok r => rw [hfc] at hab; simp [Except.map] at hab; subst hab; rfl
          | error e => rw [hfc] at hab; simp [Except.map] at hab
        · simp at hab
      · intro a b hab
        obtain ⟨ci, sl⟩ := a
        simp only at hab
        cases hcc : constructChild conv s ci sl with
        | ok r => rw [hcc] at hab; simp [Except.map] at hab; subst hab; rfl
        | error e => rw [hcc] at hab; simp [Except.map] at hab

open ZCV.Conf in
/-- **The value tree is exactly what the schema defines**: whenever the loader returns a configuration it is `denote`,
    the declarative value of `ZCV/Spec/Conforms.lean` (attributes in schema order; single key = converted value, else
    converted default, else None; multikey = values in file order, else defaults; wildcard = mapping with schema defaults
    only when no key is supplied; slot = the section's value passed through its datatype, or None; multisection = list in
    file order; type and name reported) -/
theorem C02_value_eq_denote (conv : Conv) (s : Schema) (items : List Item) (v : Val)
    (hs : schemaOK s = true) (ht : tyCanon s items = true) (h : loadTree conv s items = .ok v) :
    denote conv s items = some v := by
  have e := loadTree_eq_denote conv s items hs ht
  rw [h] at e
  exact e.symm

open ZCV.Conf in
/-- the same for configuration TEXT (no `%import`, no overrides): the configuration returned for an accepted text is
    `denote` of the tree the parser builds from it -/
theorem C02_text_value_eq_denote (conv : Conv) (env : Env) (pkgs : Str → Pkg) (s : Schema) (url : Option Str)
    (lines : List Str) (r : LoadResult) (hs : schemaOK s = true) (hlow : ∀ x : Str, lower (lower x) = lower x)
    (hkeys : ∀ p ∈ s.types, lower p.1 = p.1)
    (hni : ∀ l ∈ lines, NoImportLine l) (hres : ∀ u ls, env.res u = some ls → ∀ l ∈ ls, NoImportLine l)
    (h : load conv env pkgs s url lines [] = .ok r) :
    ∃ items, treeOf env url lines = .ok items ∧ denote conv s items = some r.value := by
  have e := load_eq_loadTree conv env pkgs s url lines hni hres
  rw [h] at e
  cases ht : treeOf env url lines with
  | error x => rw [ht] at e; simp [Except.toOption] at e
  | ok items =>
    rw [ht] at e
    have hc := treeOf_tyCanon env url lines s items hs hlow hkeys ht
    simp only [Except.toOption, Option.map_some, Option.bind_some] at e
    cases hl : loadTree conv s items with
    | error x => rw [hl] at e; simp at e
    | ok v =>
      rw [hl] at e
      simp only [Option.some.injEq] at e
      exact ⟨items, rfl, by rw [e]; exact C02_value_eq_denote conv s items v hs hc hl⟩

open ZCV.Conf in
/-- the same without the table hypothesis: `hlow` is discharged by the proved `lower_idem` -/
theorem C02_text_value_eq_denote' (conv : Conv) (env : Env) (pkgs : Str → Pkg) (s : Schema) (url : Option Str)
    (lines : List Str) (r : LoadResult) (hs : schemaOK s = true) (hkeys : ∀ p ∈ s.types, lower p.1 = p.1)
    (hni : ∀ l ∈ lines, NoImportLine l) (hres : ∀ u ls, env.res u = some ls → ∀ l ∈ ls, NoImportLine l)
    (h : load conv env pkgs s url lines [] = .ok r) :
    ∃ items, treeOf env url lines = .ok items ∧ denote conv s items = some r.value :=
  C02_text_value_eq_denote conv env pkgs s url lines r hs ZCV.lower_idem hkeys hni hres h

open ZCV.Conf in
/-- **End to end: the value tree is exactly what the schema DOCUMENT defines.**  Take any schema document `doc` the
    schema loader accepts (components and base schemas to any depth; `hkey`: the key types never turn a non-empty name
    into the empty string — true of the stock key types) and the schema object `S` it returns.  For every family of
    datatype functions and every configuration text without `%import`, loaded without overrides: whenever the loader
    returns a configuration, its value is `denote conv S` of the tree the parser builds from the text — attributes in
    schema order, converted values or defaults, sections in file order (see `C02_value_eq_denote`).  No structural
    hypothesis on `S` is left (C10 + `elab_types_keys_lower` + `lower_idem`). -/
theorem C02_end_to_end (eenv : Elab.Env) (fuel : Nat) (doc : Elab.Node) (S : Schema)
    (hkey : ∀ (kt s r : Str), s ≠ [] → eenv.conv.key kt s = .ok r → r ≠ [])
    (hS : Elab.elabSchema eenv fuel doc = .ok S)
    (conv : Conv) (env : Env) (pkgs : Str → Pkg) (url : Option Str) (lines : List Str) (r : LoadResult)
    (hni : ∀ l ∈ lines, NoImportLine l) (hres : ∀ u ls, env.res u = some ls → ∀ l ∈ ls, NoImportLine l)
    (h : load conv env pkgs S url lines [] = .ok r) :
    ∃ items, treeOf env url lines = .ok items ∧ denote conv S items = some r.value :=
  C02_text_value_eq_denote' conv env pkgs S url lines r
    (ZCV.Props.C10.C10_elab_schemaOK eenv fuel doc S hkey hS) (Elab.elab_types_keys_lower hS) hni hres h

open ZCV.Conf in
/-- the same when the schema loader runs with the stock key types: no hypothesis about the schema or the key types -/
theorem C02_end_to_end_stock (eenv : Elab.Env) (fuel : Nat) (doc : Elab.Node) (S : Schema)
    (hconv : eenv.conv = stockConv) (hS : Elab.elabSchema eenv fuel doc = .ok S)
    (conv : Conv) (env : Env) (pkgs : Str → Pkg) (url : Option Str) (lines : List Str) (r : LoadResult)
    (hni : ∀ l ∈ lines, NoImportLine l) (hres : ∀ u ls, env.res u = some ls → ∀ l ∈ ls, NoImportLine l)
    (h : load conv env pkgs S url lines [] = .ok r) :
    ∃ items, treeOf env url lines = .ok items ∧ denote conv S items = some r.value :=
  C02_end_to_end eenv fuel doc S
    (by intro kt s r hs hr; rw [hconv] at hr; exact Elab.stockConv_key_ne_nil kt s r hs hr) hS conv env pkgs url lines r
    hni hres h

open ZCV.Conf in
/-- the hypotheses of the end-to-end theorem are satisfiable (accepted schema document with a base schema and a
    component, stock key types; import-free four-line text; no includable resources): whatever that load returns is
    `denote` of the tree of the text -/
example : ∃ S, Elab.elabSchema Elab.Example.env 1 Elab.Example.doc = .ok S ∧
    ∀ r, load Ex.conv Ex.env Ex.pkgs S none DischargeEx.lines [] = .ok r →
      ∃ items, treeOf Ex.env none DischargeEx.lines = .ok items ∧ denote Ex.conv S items = some r.value := by
  obtain ⟨S, hS⟩ := DischargeEx.dis_ex_doc_accepted
  exact ⟨S, hS, fun r hr => C02_end_to_end_stock _ 1 _ S DischargeEx.dis_ex_env_stock hS _ _ _ _ _ r
    DischargeEx.dis_ex_lines_noImport DischargeEx.dis_ex_res hr⟩

open ZCV.Conf in
/-- … including `h`: for that schema document the one-line text `# c` IS accepted, and the configuration returned is
    `denote` of its (empty) tree -/
example : ∃ S r, Elab.elabSchema Elab.Example.env 1 Elab.Example.doc = .ok S ∧
    load Ex.conv Ex.env Ex.pkgs S none ["# c".toList] [] = .ok r ∧
    ∃ items, treeOf Ex.env none ["# c".toList] = .ok items ∧ denote Ex.conv S items = some r.value := by
  obtain ⟨S, hS, hch⟩ := DischargeEx.dis_ex_doc_accepted_empty
  obtain ⟨r, hr⟩ := (ZCV.Props.C01.C01_end_to_end_stock _ 1 _ S DischargeEx.dis_ex_env_stock hS Ex.conv Ex.env Ex.pkgs none _
    DischargeEx.dis_ex_comment_noImport DischargeEx.dis_ex_res).mpr
    ⟨[], DischargeEx.dis_ex_comment_tree, DischargeEx.dis_ex_conforms_nil S hch⟩
  exact ⟨S, r, hS, hr, C02_end_to_end_stock _ 1 _ S DischargeEx.dis_ex_env_stock hS _ _ _ _ _ r
    DischargeEx.dis_ex_comment_noImport DischargeEx.dis_ex_res hr⟩

end ZCV.Props.C02

/-! ## the general form: texts with `%import` lines, loaded with command-line overrides (C02 with C12 and C14) -/

namespace ZCV.Props.C02
open ZCV ZCV.Cfg ZCV.Conf

/-- **The value is exactly what the schema defines, in general.**  Same hypotheses as `C01_load_accept_iff` (`%import`s at
    top level keeping the schema of the load well-formed, specifiers whose section-selecting components are basic keys,
    key types of the schema `S` the load starts with idempotent): whenever the loader returns a configuration, it is
    `denoteI` of the top-level items of the text EDITED as the specifiers ask (against `S`) — every section valued by the
    schema in force at its position, the document completed against the fully extended schema — and the schema the load
    ends with (`schemaAfter`) is `S` extended by all the `%import`s of the text. -/
theorem C02_load_value_eq (conv : Conv) (env : Env) (pkgs : Str → Pkg) (S : Schema) (url : Option Str)
    (lines : List Str) (specs : List Str) (r : LoadResult)
    (hidem : KeyIdemOn conv S)
    (htop : importsAtTop env url lines)
    (hok : ∀ tops, treeOfI env url lines = .ok tops → importsOK pkgs S tops = true)
    (hovs : ∀ ovs, specs.mapM addOption = .ok ovs → OvsOK ovs)
    (h : load conv env pkgs S url lines specs = .ok r) :
    ∃ ovs tops tops', specs.mapM addOption = .ok ovs ∧ treeOfI env url lines = .ok tops ∧
      editI conv S tops ovs = .ok tops' ∧ denoteI conv S pkgs tops' = some r.value ∧
      schemaAt S pkgs tops' tops'.length = some r.schemaAfter := by
  obtain ⟨ovs, tops, tops', h1, h2, h3, h4, _, h6⟩ := load_ov_result conv env pkgs S url lines specs true (fun _ => hidem)
    htop hok hovs r h
  exact ⟨ovs, tops, tops', h1, h2, h3, h4, by rw [schemaAt_length]; exact h6⟩

/-- the same with the supplied lines spelled with the normalised key (`editNormI`): no assumption on the key types -/
theorem C02_load_value_eq_norm (conv : Conv) (env : Env) (pkgs : Str → Pkg) (S : Schema) (url : Option Str)
    (lines : List Str) (specs : List Str) (r : LoadResult)
    (htop : importsAtTop env url lines)
    (hok : ∀ tops, treeOfI env url lines = .ok tops → importsOK pkgs S tops = true)
    (hovs : ∀ ovs, specs.mapM addOption = .ok ovs → OvsOK ovs)
    (h : load conv env pkgs S url lines specs = .ok r) :
    ∃ ovs tops tops', specs.mapM addOption = .ok ovs ∧ treeOfI env url lines = .ok tops ∧
      editNormI conv S tops ovs = .ok tops' ∧ denoteI conv S pkgs tops' = some r.value ∧
      schemaAt S pkgs tops' tops'.length = some r.schemaAfter := by
  obtain ⟨ovs, tops, tops', h1, h2, h3, h4, _, h6⟩ := load_ov_result conv env pkgs S url lines specs false
    (fun h => by cases h) htop hok hovs r h
  exact ⟨ovs, tops, tops', h1, h2, h3, h4, by rw [schemaAt_length]; exact h6⟩

/-- **Special case: no overrides** — the statement of `C12_text_value_eq_denoteI`, recovered from the general form. -/
theorem C02_load_value_eq_no_overrides (conv : Conv) (env : Env) (pkgs : Str → Pkg) (S : Schema) (url : Option Str)
    (lines : List Str) (r : LoadResult) (htop : importsAtTop env url lines)
    (hok : ∀ tops, treeOfI env url lines = .ok tops → importsOK pkgs S tops = true)
    (h : load conv env pkgs S url lines [] = .ok r) :
    ∃ tops, treeOfI env url lines = .ok tops ∧ denoteI conv S pkgs tops = some r.value ∧
      schemaAt S pkgs tops tops.length = some r.schemaAfter := by
  obtain ⟨ovs, tops, tops', h1, h2, h3, h4, h5⟩ := C02_load_value_eq_norm conv env pkgs S url lines [] r htop hok (by
    intro ovs h
    simp only [List.mapM_nil, pure, Except.pure, Except.ok.injEq] at h
    subst h
    intro o ho; cases ho) h
  simp only [List.mapM_nil, pure, Except.pure, Except.ok.injEq] at h1
  subst h1
  rw [show editNormI conv S tops [] = .ok tops from editBodyI_nil conv S false tops] at h3
  cases h3
  exact ⟨tops, h2, h4, h5⟩

/-- **Special case: no `%import` lines and no overrides** — the statement of `C02_text_value_eq_denote'`, recovered from the
    general form (`hkeys` of that statement is not needed). -/
theorem C02_text_value_eq_denote_from_general (conv : Conv) (env : Env) (pkgs : Str → Pkg) (s : Schema) (url : Option Str)
    (lines : List Str) (r : LoadResult) (hs : schemaOK s = true)
    (hni : ∀ l ∈ lines, NoImportLine l) (hres : ∀ u ls, env.res u = some ls → ∀ l ∈ ls, NoImportLine l)
    (h : load conv env pkgs s url lines [] = .ok r) :
    ∃ items, treeOf env url lines = .ok items ∧ denote conv s items = some r.value := by
  obtain ⟨hfree, htop⟩ := treeOfI_import_free env url lines hni hres
  have hitems : ∀ tops, treeOfI env url lines = .ok tops →
      ∃ items, treeOf env url lines = .ok items ∧ tops = items.map .item ∧ lowItems items = true := by
    intro tops ht
    have hl := treeOfI_low env url lines tops ht
    rw [ht] at hfree
    cases hT : treeOf env url lines with
    | error e => rw [hT] at hfree; cases hfree
    | ok items =>
      rw [hT] at hfree
      simp only [Cfg.toOption_ok, Option.map_some, Option.some.injEq] at hfree
      subst hfree
      rw [lowTops_items] at hl
      exact ⟨items, rfl, rfl, hl⟩
  have hok : ∀ tops, treeOfI env url lines = .ok tops → importsOK pkgs s tops = true := by
    intro tops ht
    obtain ⟨items, _, rfl, _⟩ := hitems tops ht
    rw [importsOK_items]
    exact hs
  obtain ⟨tops, ht, hd, _⟩ := C02_load_value_eq_no_overrides conv env pkgs s url lines r htop hok h
  obtain ⟨items, hT, rfl, hl⟩ := hitems tops ht
  rw [docHandlersI_items.C12_denoteI_free conv pkgs s items hs hl] at hd
  exact ⟨items, hT, hd⟩

/-- **End to end**, from a schema DOCUMENT (hypotheses as in `C01_end_to_end_general`) -/
theorem C02_end_to_end_general (eenv : Elab.Env) (fuel : Nat) (doc : Elab.Node) (S : Schema)
    (hkey : ∀ (kt s r : Str), s ≠ [] → eenv.conv.key kt s = .ok r → r ≠ [])
    (hS : Elab.elabSchema eenv fuel doc = .ok S)
    (conv : Conv) (env : Env) (pkgs : Str → Pkg) (url : Option Str) (lines : List Str) (specs : List Str) (r : LoadResult)
    (hidem : KeyIdemOn conv S)
    (htop : importsAtTop env url lines)
    (hcomp : ∀ tops, treeOfI env url lines = .ok tops → compsOK pkgs S tops = true)
    (hovs : ∀ ovs, specs.mapM addOption = .ok ovs → OvsOK ovs)
    (h : load conv env pkgs S url lines specs = .ok r) :
    ∃ ovs tops tops', specs.mapM addOption = .ok ovs ∧ treeOfI env url lines = .ok tops ∧
      editI conv S tops ovs = .ok tops' ∧ denoteI conv S pkgs tops' = some r.value ∧
      schemaAt S pkgs tops' tops'.length = some r.schemaAfter :=
  C02_load_value_eq conv env pkgs S url lines specs r hidem htop
    (fun tops ht => importsOK_of_compsOK pkgs tops S (ZCV.Props.C10.C10_elab_schemaOK eenv fuel doc S hkey hS) (hcomp tops ht))
    hovs h

/-- **non-vacuity**: in the world of `ZCV/Lemmas/ImportOvEx.lean` (text with a `%import` line, a section of the imported type,
    a section of a static type; an override into the latter and a top-level key override) the hypotheses hold, the load
    is accepted (`C01_load_accept_iff`), and the theorem gives its value: `k` of section `b` and `plain` carry the
    override values, section `a` keeps its own -/
example : ∃ r, load ExOv.conv ExOv.env ExOv.pkgs ExOv.schema none (ExOv.lines '1') ExOv.specsGood = .ok r ∧
    r.value = ExOv.vGood := by
  obtain ⟨r, hr⟩ := (ZCV.Props.C01.C01_load_accept_iff ExOv.conv ExOv.env ExOv.pkgs ExOv.schema none (ExOv.lines '1')
    ExOv.specsGood ExOv.idem ExOv.atTop1 ExOv.ok1 ExOv.ovsGood_ok).mpr
    ⟨ExOv.ovsGood, ExOv.split_good, ExOv.tops '1', ExOv.tree1, ExOv.topsGood, ExOv.edit_good, by
      unfold conformsI; rw [ExOv.denote_good]; rfl⟩
  refine ⟨r, hr, ?_⟩
  obtain ⟨ovs, tops, tops', h1, h2, h3, h4, _⟩ := C02_load_value_eq ExOv.conv ExOv.env ExOv.pkgs ExOv.schema none
    (ExOv.lines '1') ExOv.specsGood r ExOv.idem ExOv.atTop1 ExOv.ok1 ExOv.ovsGood_ok hr
  rw [ExOv.split_good] at h1
  cases h1
  rw [ExOv.tree1] at h2
  cases h2
  rw [ExOv.edit_good] at h3
  cases h3
  rw [ExOv.denote_good] at h4
  exact (Option.some.inj h4).symm

end ZCV.Props.C02
