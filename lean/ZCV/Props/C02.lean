import ZCV.Model.Conv
import ZCV.Lemmas.Except
import ZCV.Lemmas.LoadSpec
import ZCV.Lemmas.TextLoad
import ZCV.Lemmas.NoInternalLower
import ZCV.Lemmas.DischargeElab
import ZCV.Lemmas.DischargeExamples
import ZCV.Props.C10
import ZCV.Props.C01
namespace ZCV.Props.C02
open ZCV ZCV.Cfg

/-- every section value the model builds exposes exactly the attributes its type declares (own and inherited
    children), in schema order, and reports its type and name -/
theorem C02_attrs_exact (conv : Conv) (s : Schema) (m : Matcher) (ty : Str) (nm : Option Str)
    (attrs : List (Str × Val)) (hs : List (Str × Val))
    (h : finishMatcher conv s m = .ok (.sect ty nm attrs, hs)) (hb : m.bag = none) :
    attrs.map (·.1) = m.ty.children.map (fun c => c.2.attr) ∧ ty = m.ty.name.getD [] ∧ nm = m.name := by
  unfold finishMatcher at h
  have hfb : finishBag conv m = .ok m := by unfold finishBag; rw [hb]
  simp only [hfb, bind, Except.bind] at h
  split at h
  · simp at h
  · rename_i slots hslots
    split at h
    · simp at h
    · rename_i vals hvals
      simp only [pure, Except.pure, Except.ok.injEq, Prod.mk.injEq, Val.sect.injEq] at h
      obtain ⟨⟨h1, h2, h3⟩, _⟩ := h
      refine ⟨?_, h1.symm, h2.symm⟩
      rw [← h3, List.map_map]
      have e1 := mapM_ok_map _ (fun (p : Info × Val) => p.1.attr) (fun (p : Info × Slot) => p.1.attr) ?_ slots vals hvals
      have e2 := mapM_ok_map _ (fun (p : Info × Slot) => p.1.attr) (fun (c : Option Str × Info) => c.2.attr) ?_ m.ty.children slots hslots
      · exact e1.trans e2
      · intro a b hab
        obtain ⟨k, ci⟩ := a
        simp only at hab
        split at hab
        · rename_i sl _
          cases hfc : finishChild ci sl with
          | ok r => rw [hfc] at hab; simp [Except.map] at hab; subst hab; rfl
          | error e => rw [hfc] at hab; simp [Except.map] at hab
        · simp at hab
      · intro a b hab
        obtain ⟨ci, sl⟩ := a
        simp only at hab
        cases hcc : constructChild conv s ci sl with
        | ok r => rw [hcc] at hab; simp [Except.map] at hab; subst hab; rfl
        | error e => rw [hcc] at hab; simp [Except.map] at hab

open ZCV.Conf in
/-- **The value tree is exactly what the schema defines**: whenever the loader returns a configuration it is `denote`,
    the declarative value of `ZCV/Spec/Conforms.lean` (attributes in schema order; single key = converted value, else
    converted default, else None; multikey = values in file order, else defaults; wildcard = mapping with schema defaults
    only when no key is supplied; slot = the section's value passed through its datatype, or None; multisection = list in
    file order; type and name reported) -/
theorem C02_value_eq_denote (conv : Conv) (s : Schema) (items : List Item) (v : Val)
    (hs : schemaOK s = true) (ht : tyCanon s items = true) (h : loadTree conv s items = .ok v) :
    denote conv s items = some v := by
  have e := loadTree_eq_denote conv s items hs ht
  rw [h] at e
  exact e.symm

open ZCV.Conf in
/-- the same for configuration TEXT (no `%import`, no overrides): the configuration returned for an accepted text is
    `denote` of the tree the parser builds from it -/
theorem C02_text_value_eq_denote (conv : Conv) (env : Env) (pkgs : Str → Pkg) (s : Schema) (url : Option Str)
    (lines : List Str) (r : LoadResult) (hs : schemaOK s = true) (hlow : ∀ x : Str, lower (lower x) = lower x)
    (hkeys : ∀ p ∈ s.types, lower p.1 = p.1)
    (hni : ∀ l ∈ lines, NoImportLine l) (hres : ∀ u ls, env.res u = some ls → ∀ l ∈ ls, NoImportLine l)
    (h : load conv env pkgs s url lines [] = .ok r) :
    ∃ items, treeOf env url lines = .ok items ∧ denote conv s items = some r.value := by
  have e := load_eq_loadTree conv env pkgs s url lines hni hres
  rw [h] at e
  cases ht : treeOf env url lines with
  | error x => rw [ht] at e; simp [Except.toOption] at e
  | ok items =>
    rw [ht] at e
    have hc := treeOf_tyCanon env url lines s items hs hlow hkeys ht
    simp only [Except.toOption, Option.map_some, Option.bind_some] at e
    cases hl : loadTree conv s items with
    | error x => rw [hl] at e; simp at e
    | ok v =>
      rw [hl] at e
      simp only [Option.some.injEq] at e
      exact ⟨items, rfl, by rw [e]; exact C02_value_eq_denote conv s items v hs hc hl⟩

open ZCV.Conf in
/-- the same without the table hypothesis: `hlow` is discharged by the proved `lower_idem` -/
theorem C02_text_value_eq_denote' (conv : Conv) (env : Env) (pkgs : Str → Pkg) (s : Schema) (url : Option Str)
    (lines : List Str) (r : LoadResult) (hs : schemaOK s = true) (hkeys : ∀ p ∈ s.types, lower p.1 = p.1)
    (hni : ∀ l ∈ lines, NoImportLine l) (hres : ∀ u ls, env.res u = some ls → ∀ l ∈ ls, NoImportLine l)
    (h : load conv env pkgs s url lines [] = .ok r) :
    ∃ items, treeOf env url lines = .ok items ∧ denote conv s items = some r.value :=
  C02_text_value_eq_denote conv env pkgs s url lines r hs ZCV.lower_idem hkeys hni hres h

open ZCV.Conf in
/-- **End to end: the value tree is exactly what the schema DOCUMENT defines.**  Take any schema document `doc` the
    schema loader accepts (components and base schemas to any depth; `hkey`: the key types never turn a non-empty name
    into the empty string — true of the stock key types) and the schema object `S` it returns.  For every family of
    datatype functions and every configuration text without `%import`, loaded without overrides: whenever the loader
    returns a configuration, its value is `denote conv S` of the tree the parser builds from the text — attributes in
    schema order, converted values or defaults, sections in file order (see `C02_value_eq_denote`).  No structural
    hypothesis on `S` is left (C10 + `elab_types_keys_lower` + `lower_idem`). -/
theorem C02_end_to_end (eenv : Elab.Env) (fuel : Nat) (doc : Elab.Node) (S : Schema)
    (hkey : ∀ (kt s r : Str), s ≠ [] → eenv.conv.key kt s = .ok r → r ≠ [])
    (hS : Elab.elabSchema eenv fuel doc = .ok S)
    (conv : Conv) (env : Env) (pkgs : Str → Pkg) (url : Option Str) (lines : List Str) (r : LoadResult)
    (hni : ∀ l ∈ lines, NoImportLine l) (hres : ∀ u ls, env.res u = some ls → ∀ l ∈ ls, NoImportLine l)
    (h : load conv env pkgs S url lines [] = .ok r) :
    ∃ items, treeOf env url lines = .ok items ∧ denote conv S items = some r.value :=
  C02_text_value_eq_denote' conv env pkgs S url lines r
    (ZCV.Props.C10.C10_elab_schemaOK eenv fuel doc S hkey hS) (Elab.elab_types_keys_lower hS) hni hres h

open ZCV.Conf in
/-- the same when the schema loader runs with the stock key types: no hypothesis about the schema or the key types -/
theorem C02_end_to_end_stock (eenv : Elab.Env) (fuel : Nat) (doc : Elab.Node) (S : Schema)
    (hconv : eenv.conv = stockConv) (hS : Elab.elabSchema eenv fuel doc = .ok S)
    (conv : Conv) (env : Env) (pkgs : Str → Pkg) (url : Option Str) (lines : List Str) (r : LoadResult)
    (hni : ∀ l ∈ lines, NoImportLine l) (hres : ∀ u ls, env.res u = some ls → ∀ l ∈ ls, NoImportLine l)
    (h : load conv env pkgs S url lines [] = .ok r) :
    ∃ items, treeOf env url lines = .ok items ∧ denote conv S items = some r.value :=
  C02_end_to_end eenv fuel doc S
    (by intro kt s r hs hr; rw [hconv] at hr; exact Elab.stockConv_key_ne_nil kt s r hs hr) hS conv env pkgs url lines r
    hni hres h

open ZCV.Conf in
/-- the hypotheses of the end-to-end theorem are satisfiable (accepted schema document with a base schema and a
    component, stock key types; import-free four-line text; no includable resources): whatever that load returns is
    `denote` of the tree of the text -/
example : ∃ S, Elab.elabSchema Elab.Example.env 1 Elab.Example.doc = .ok S ∧
    ∀ r, load Ex.conv Ex.env Ex.pkgs S none DischargeEx.lines [] = .ok r →
      ∃ items, treeOf Ex.env none DischargeEx.lines = .ok items ∧ denote Ex.conv S items = some r.value := by
  obtain ⟨S, hS⟩ := DischargeEx.dis_ex_doc_accepted
  exact ⟨S, hS, fun r hr => C02_end_to_end_stock _ 1 _ S DischargeEx.dis_ex_env_stock hS _ _ _ _ _ r
    DischargeEx.dis_ex_lines_noImport DischargeEx.dis_ex_res hr⟩

open ZCV.Conf in
/-- … including `h`: for that schema document the one-line text `# c` IS accepted, and the configuration returned is
    `denote` of its (empty) tree -/
example : ∃ S r, Elab.elabSchema Elab.Example.env 1 Elab.Example.doc = .ok S ∧
    load Ex.conv Ex.env Ex.pkgs S none ["# c".toList] [] = .ok r ∧
    ∃ items, treeOf Ex.env none ["# c".toList] = .ok items ∧ denote Ex.conv S items = some r.value := by
  obtain ⟨S, hS, hch⟩ := DischargeEx.dis_ex_doc_accepted_empty
  obtain ⟨r, hr⟩ := (ZCV.Props.C01.C01_end_to_end_stock _ 1 _ S DischargeEx.dis_ex_env_stock hS Ex.conv Ex.env Ex.pkgs none _
    DischargeEx.dis_ex_comment_noImport DischargeEx.dis_ex_res).mpr
    ⟨[], DischargeEx.dis_ex_comment_tree, DischargeEx.dis_ex_conforms_nil S hch⟩
  exact ⟨S, r, hS, hr, C02_end_to_end_stock _ 1 _ S DischargeEx.dis_ex_env_stock hS _ _ _ _ _ r
    DischargeEx.dis_ex_comment_noImport DischargeEx.dis_ex_res hr⟩

end ZCV.Props.C02
