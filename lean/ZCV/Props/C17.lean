import ZCV.Model.Schemaless
import ZCV.Lemmas.SubstExtra
import ZCV.Props.C04
namespace ZCV.Props.C17
open ZCV ZCV.Cfg ZCV.SubstSpec

/-- printing a value (every `$` doubled) and reading it back through `$`-substitution gives the value back,
    whatever is or is not defined: the documented function maps `escDollar v` to `v` -/
theorem C17_value_roundtrip_spec (defs env : Str → Option Str) (src v : Str) :
    spec defs env src (escDollar v) = .ok v := by
  induction v with
  | nil => simp [escDollar, spec_nil]
  | cons c t ih =>
    by_cases hc : c = '$'
    · subst hc
      have : escDollar ('$' :: t) = '$' :: '$' :: escDollar t := by simp [escDollar]
      rw [this, spec, ih]; rfl
    · have : escDollar (c :: t) = c :: escDollar t := by simp [escDollar, hc]
      rw [this, spec_lit _ _ _ _ _ hc, ih]; rfl

/-- the same for the model of the code (by C04): the text `str()` writes for a value re-reads as that value -/
theorem C17_value_roundtrip (defs env : Str → Option Str) (v : Str) :
    Subst.substitute defs env (escDollar v) = .ok v := by
  have h := ZCV.Props.C04.C04_substitute_eq_spec defs env (escDollar v)
  unfold substituteSpec at h
  rw [C17_value_roundtrip_spec] at h
  cases hs : Subst.substitute defs env (escDollar v) with
  | ok r => rw [hs] at h; simp [Subst.conv] at h; rw [h]
  | error e => rw [hs] at h; simp [Subst.conv] at h

/-- `%define` and `%include` are refused by the schema-less parser, never silently dropped -/
theorem C17_define_refused (fuel : Nat) (env : Env) (active : List Str) (url : Option Str) (line : Nat) (l arg : Str)
    (st : PS SL) (h : lineShape l = .define arg) :
    stepLine fuel env schemalessCtx active url line l st = .error (.internal "NotImplementedError") := by
  unfold stepLine
  rw [h]
  rfl

end ZCV.Props.C17
