import ZCV.Model.Schemaless
import ZCV.Lemmas.SubstExtra
import ZCV.Props.C04
import ZCV.Lemmas.RoundtripCanon
import ZCV.Lemmas.RoundtripInv
import ZCV.Lemmas.RoundtripExamples
/-!
C17 — schema-less configurations survive `str()` and re-reading.

Vocabulary (`ZCV/Lemmas/RoundtripDefs.lean`, `RoundtripText.lean`, `RoundtripInv.lean`):
* `linesOf text`: the lines `readline()` yields for the text;
* `WF t imps`: the trees (with import lists) the loader can produce — top section without type and name, every
  other section type a lower-case word not starting with `/`, names lower-case words, keys distinct words not
  starting with `#`, `<`, `%`, each with at least one value, values without newline and without whitespace at
  either end, imports distinct, non-empty and clean;
* `canon t`: `t` with the keys of every section in `sorted()` order.  The model's `Sec` keeps the keys of a section
  as an association list in insertion order, while `Section` is a `dict` whose order `str()` discards and `==` ignores:
  the reload of `str(t)` is `canon t`, which is `t` as Python compares configurations (`Same t (canon t)`) and is
  literally `t` when the keys of `t` are sorted (in particular for every tree that is itself a reload);
* `EnvClean getenv`: every text a `$(NAME)` reference can paste in is non-empty, without newline and without
  whitespace at either end.
-/
namespace ZCV.Props.C17
open ZCV ZCV.Cfg ZCV.SubstSpec ZCV.Roundtrip

/-- printing a value (every `$` doubled) and reading it back through `$`-substitution gives the value back,
    whatever is or is not defined: the documented function maps `escDollar v` to `v` -/
theorem C17_value_roundtrip_spec (defs env : Str → Option Str) (src v : Str) :
    spec defs env src (escDollar v) = .ok v := value_roundtrip_spec defs env src v

/-- the same for the model of the code (by C04): the text `str()` writes for a value re-reads as that value -/
theorem C17_value_roundtrip (defs env : Str → Option Str) (v : Str) :
    Subst.substitute defs env (escDollar v) = .ok v := value_roundtrip defs env v

/-- `%define` is refused by the schema-less parser, never silently dropped -/
theorem C17_define_refused (fuel : Nat) (env : Env) (active : List Str) (url : Option Str) (line : Nat) (l arg : Str)
    (st : PS SL) (h : lineShape l = .define arg) :
    stepLine fuel env schemalessCtx active url line l st = .error (.internal "NotImplementedError") := by
  unfold stepLine
  rw [h]
  rfl

/-- `%include` is refused as well: the line never succeeds (its argument fails to substitute, or the
    schema-less context raises `NotImplementedError`) -/
theorem C17_include_refused (fuel : Nat) (env : Env) (active : List Str) (url : Option Str) (line : Nat) (l arg : Str)
    (st st' : PS SL) (h : lineShape l = .include_ arg) :
    stepLine fuel env schemalessCtx active url line l st ≠ .ok st' := by
  unfold stepLine
  rw [h]
  simp only [bind, Except.bind, schemalessCtx]
  intro hc
  split at hc
  · cases hc
  · simp at hc

/-- **Round trip.**  For every well-formed schema-less configuration `t` with imports `imps` — in whatever
    environment and under whatever URL the text is read again — loading the text `str()` prints succeeds and
    yields the same imports and the same tree: same types, names, nesting and order of sections, same keys with
    the same value lists in the same order, the keys of each section listed in `sorted()` order. -/
theorem C17_roundtrip (getenv : Str → Option Str) (url : Option Str) (t : Sec) (imps : List Str) (h : WF t imps) :
    slLoad getenv url (linesOf (slStr t imps)) = .ok (canon t, imps) :=
  slLoad_slStr getenv url t imps h

/-- the reloaded tree is the original as Python compares its parts: types and names equal, the key ↦ value-list
    dictionaries equal (same pairs, in some order), sub-sections pairwise the same, in order -/
theorem C17_reload_same (t : Sec) : Same t (canon t) := same_canon t

/-- when the keys of every section are already in sorted order, the reload is literally the tree -/
theorem C17_roundtrip_sorted (getenv : Str → Option Str) (url : Option Str) (t : Sec) (imps : List Str)
    (h : WF t imps) (hs : sortedSec t) : slLoad getenv url (linesOf (slStr t imps)) = .ok (t, imps) := by
  rw [C17_roundtrip getenv url t imps h, canon_of_sorted t hs]

/-- **Print stability.**  Serialising the reload gives the identical text. -/
theorem C17_print_stable (getenv : Str → Option Str) (url : Option Str) (t t' : Sec) (imps imps' : List Str)
    (h : WF t imps) (hr : slLoad getenv url (linesOf (slStr t imps)) = .ok (t', imps')) :
    slStr t' imps' = slStr t imps := by
  rw [C17_roundtrip getenv url t imps h] at hr
  simp only [Except.ok.injEq, Prod.mk.injEq] at hr
  obtain ⟨rfl, rfl⟩ := hr
  exact slStr_canon t imps h

/-- a reload is a fixed point: it is well-formed, and printing and loading it again returns it literally -/
theorem C17_reload_fixed_point (getenv : Str → Option Str) (url : Option Str) (t : Sec) (imps : List Str)
    (h : WF t imps) :
    WF (canon t) imps ∧ slLoad getenv url (linesOf (slStr (canon t) imps)) = .ok (canon t, imps) :=
  ⟨WF_canon t imps h,
   C17_roundtrip_sorted getenv url (canon t) imps (WF_canon t imps h) (sorted_canon_top t imps h)⟩

/-- **What the loader produces.**  Whatever the schema-less loader returns for the lines of a file is well-formed,
    provided the environment consulted by `$(NAME)` is clean (`EnvClean`; vacuous when no variable is set). -/
theorem C17_loaded_is_wf (getenv : Str → Option Str) (henv : EnvClean getenv) (url : Option Str) (lines : List Str)
    (hl : ∀ l ∈ lines, '\n' ∉ l) (t : Sec) (imps : List Str) (h : slLoad getenv url lines = .ok (t, imps)) :
    WF t imps := slLoad_wf getenv henv url lines hl t imps h

/-- **C17 for texts.**  For every text the schema-less loader accepts (clean environment), `str()` of the result
    loads again — anywhere — to the same structure with the same imports, and serialising the reload gives the
    identical text. -/
theorem C17_accepted_text_roundtrip (getenv : Str → Option Str) (henv : EnvClean getenv) (url : Option Str)
    (text : Str) (t : Sec) (imps : List Str) (h : slLoad getenv url (linesOf text) = .ok (t, imps))
    (getenv' : Str → Option Str) (url' : Option Str) :
    slLoad getenv' url' (linesOf (slStr t imps)) = .ok (canon t, imps) ∧ Same t (canon t) ∧
      slStr (canon t) imps = slStr t imps := by
  have hwf := C17_loaded_is_wf getenv henv url (linesOf text) (linesOf_no_nl text) t imps h
  exact ⟨C17_roundtrip getenv' url' t imps hwf, same_canon t, slStr_canon t imps hwf⟩

/-! ### the hypotheses are satisfiable, the conclusions are not trivial -/

/-- imports with a `$`, a repeated key with an empty value and grammar characters, a section whose type and name
    end in `/`, unsorted keys, nesting, a non-ASCII type -/
def sample : Sec :=
  .mk [] none [("k".toList, ["a$b".toList, [], "<x>".toList])]
    [.mk "a/".toList (some "n/".toList) [("z".toList, ["1".toList]), ("b".toList, ["2".toList])] [.mk "c".toList none [] []],
     .mk "é".toList none [] []]
def sampleImps : List Str := ["p.q".toList, "r$".toList]

example : WF sample sampleImps := by decide
example : slStr sample sampleImps =
    "%import p.q\n%import r$$\n\nk a$$b\nk \nk <x>\n\n<a/ n/ >\n  b 2\n  z 1\n\n  <c>\n  </c>\n</a/>\n\n<é>\n</é>\n".toList := by
  decide
example (getenv : Str → Option Str) (url : Option Str) :
    slLoad getenv url (linesOf (slStr sample sampleImps)) = .ok (canon sample, sampleImps) :=
  C17_roundtrip getenv url sample sampleImps (by decide)
example : EnvClean (fun _ => none) := fun _ _ h => by cases h
/-- an accepted text, as `C17_accepted_text_roundtrip` wants one -/
example : slLoad (fun _ => none) none (linesOf "b 1\na 2\n".toList) = .ok (treeBA, []) := by
  have : linesOf "b 1\na 2\n".toList = linesBA := by decide
  rw [this]
  exact load_BA _ _
example : EnvClean (fun n => if n = "HOME".toList then some "/home/u".toList else none) := by
  intro n v h
  simp only at h
  split at h
  · cases h; decide
  · cases h

/-- **Key order is not part of the structure.**  The text `b 1 / a 2` loads to a tree whose association list reads
    `b, a`; its `str()` is `a 2 / b 1`, which loads to the list `a, b`: a different `Sec` in the model, the same
    configuration to Python (`Same`).  This is why the round trip is stated with `canon`. -/
theorem C17_key_order_counterexample (getenv : Str → Option Str) (url : Option Str) :
    slLoad getenv url ["b 1".toList, "a 2".toList] = .ok (treeBA, []) ∧
    slLoad getenv url (linesOf (slStr treeBA [])) = .ok (canon treeBA, []) ∧
    canon treeBA ≠ treeBA ∧ Same treeBA (canon treeBA) :=
  ⟨load_BA getenv url, C17_roundtrip getenv url treeBA [] treeBA_wf, treeBA_not_sorted, same_canon treeBA⟩

/-- **The environment can break the round trip.**  With a variable set to the empty string, the accepted text
    `%import $(E)` records the import `''`; `str()` prints `%import`, which the loader refuses
    (`missing argument to %import directive`).  Hence the hypothesis `EnvClean` in `C17_loaded_is_wf`. -/
theorem C17_env_counterexample (url : Option Str) :
    slLoad envEmpty url ["%import $(E)".toList] = .ok (.mk [] none [] [], [[]]) ∧
    ∀ getenv, slLoad getenv url (linesOf (slStr (.mk [] none [] []) [[]])) = .error (synErr url 1 "missing argument") :=
  ⟨load_importE url, fun getenv => reload_importE getenv url⟩

/-- the same environment changes a value silently: the accepted text `k $(E) x` gives `k` the value `' x'`
    (the empty replacement leaves the blank in front); `str()` prints `k  x`, which loads — with the value `'x'` -/
theorem C17_env_value_counterexample (url : Option Str) :
    slLoad envEmpty url ["k $(E) x".toList] = .ok (treeVal, []) ∧
    (∀ getenv, slLoad getenv url (linesOf (slStr treeVal [])) = .ok (treeVal', [])) ∧ treeVal' ≠ treeVal :=
  ⟨load_valE url, fun getenv => reload_valE getenv url, treeVal_ne⟩

end ZCV.Props.C17
