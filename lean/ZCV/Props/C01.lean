import ZCV.Lemmas.Misc
import ZCV.Lemmas.LoadSpec
import ZCV.Lemmas.TextLoad
import ZCV.Model.Conv
import ZCV.Lemmas.NoInternalLower
import ZCV.Lemmas.DischargeElab
import ZCV.Lemmas.DischargeExamples
import ZCV.Props.C10
namespace ZCV.Props.C01
open ZCV ZCV.Cfg

/-- name rule of a slot: never `*` or `+` themselves; `+` = name mandatory, `*` = name optional,
    otherwise exactly the fixed name -/
theorem C01_isAllowedName_spec (si : SectInfo) (name : Option Str) :
    isAllowedName si name = true ↔
      (name ≠ some ['*'] ∧ name ≠ some ['+'] ∧
        (si.name = ['+'] → name.isSome) ∧
        (si.name ≠ ['+'] → si.name ≠ ['*'] → name = some si.name)) := by
  unfold isAllowedName
  by_cases h1 : name = some ['*'] <;> by_cases h2 : name = some ['+'] <;>
    by_cases h3 : si.name = ['+'] <;> by_cases h4 : si.name = ['*'] <;> simp_all


/-- which child a key line goes to: the child declared with exactly this (normalised) key wins wherever it stands;
    otherwise the wildcard (`+`) key; the search loop of `addValue` computes exactly this -/
theorem C01_key_routing (children : List (Option Str × Info)) (rk : Str) :
    addValueCore.search rk children none = route children rk := search_eq_route children rk

/-- a key that is neither declared nor captured by a wildcard key is rejected with a configuration error -/
theorem C01_unknown_key_rejected (m : Matcher) (key rk v : Str) (pos : Pos) (h : route m.ty.children rk = none) :
    ∃ e, addValueCore m key rk v pos = .error (.cfg e) ∧ e.kind = .plain :=
  addValueCore_unknown_rejected m key rk v pos h

open ZCV.Conf in
/-- **Accepted ⇔ conforms.**  For every schema the schema loader can produce (`schemaOK`), every family of datatype
    functions and every configuration tree (any size, nesting depth, number of simultaneous faults) whose headers are
    spelled as the parser spells them (`tyCanon`): the loader returns a configuration if and only if the tree conforms
    to the schema (`ZCV/Spec/Conforms.lean`). -/
theorem C01_accept_iff_conforms (conv : Conv) (s : Schema) (items : List Item)
    (hs : schemaOK s = true) (ht : tyCanon s items = true) :
    (∃ v, loadTree conv s items = .ok v) ↔ conforms conv s items = true := by
  have h := loadTree_eq_denote conv s items hs ht
  unfold conforms
  constructor
  · rintro ⟨v, hv⟩
    rw [hv] at h
    simp only [Except.toOption] at h
    rw [← h]; rfl
  · intro hc
    cases hl : loadTree conv s items with
    | ok v => exact ⟨v, rfl⟩
    | error e =>
      rw [hl] at h
      simp only [Except.toOption] at h
      rw [← h] at hc
      simp at hc

open ZCV.Conf in
/-- a non-conforming tree yields no configuration object: the outcome is an error -/
theorem C01_nonconforming_rejected (conv : Conv) (s : Schema) (items : List Item)
    (hs : schemaOK s = true) (ht : tyCanon s items = true) (hn : conforms conv s items = false) :
    ∃ e, loadTree conv s items = .error e := by
  cases hl : loadTree conv s items with
  | error e => exact ⟨e, rfl⟩
  | ok v =>
    have := (C01_accept_iff_conforms conv s items hs ht).mp ⟨v, hl⟩
    rw [hn] at this; cases this

open ZCV.Conf in
/-- **The same for configuration TEXT.**  For every text of any length (lines, `%define`s, `%include`s of any depth —
    through the parser model with its generated patterns) that contains no `%import` and is loaded without overrides:
    the loader returns a configuration iff the parser accepts the text and the tree it denotes conforms to the schema.
    `hlow` (lower-casing is idempotent) is a fact about the generated Unicode table that the translator checks whenever
    it writes the table. -/
theorem C01_text_accept_iff_conforms (conv : Conv) (env : Env) (pkgs : Str → Pkg) (s : Schema) (url : Option Str)
    (lines : List Str) (hs : schemaOK s = true) (hlow : ∀ x : Str, lower (lower x) = lower x)
    (hkeys : ∀ p ∈ s.types, lower p.1 = p.1)
    (hni : ∀ l ∈ lines, NoImportLine l) (hres : ∀ u ls, env.res u = some ls → ∀ l ∈ ls, NoImportLine l) :
    (∃ r, load conv env pkgs s url lines [] = .ok r) ↔
      ∃ items, treeOf env url lines = .ok items ∧ conforms conv s items = true := by
  have h := load_eq_loadTree conv env pkgs s url lines hni hres
  constructor
  · rintro ⟨r, hr⟩
    rw [hr] at h
    cases ht : treeOf env url lines with
    | error e => rw [ht] at h; simp [Except.toOption] at h
    | ok items =>
      rw [ht] at h
      refine ⟨items, rfl, ?_⟩
      have hc := treeOf_tyCanon env url lines s items hs hlow hkeys ht
      simp only [Except.toOption, Option.map_some, Option.bind_some] at h
      cases hl : loadTree conv s items with
      | error e => rw [hl] at h; simp at h
      | ok v => exact (C01_accept_iff_conforms conv s items hs hc).mp ⟨v, hl⟩
  · rintro ⟨items, ht, hc⟩
    have hcan := treeOf_tyCanon env url lines s items hs hlow hkeys ht
    obtain ⟨v, hv⟩ := (C01_accept_iff_conforms conv s items hs hcan).mpr hc
    rw [ht] at h
    simp only [Except.toOption, Option.bind_some] at h
    rw [hv] at h
    cases hl : load conv env pkgs s url lines [] with
    | ok r => exact ⟨r, rfl⟩
    | error e => rw [hl] at h; simp at h

open ZCV.Conf in
/-- **Accepted ⇔ conforms, for configuration TEXT, without the table hypothesis.**  Same statement as
    `C01_text_accept_iff_conforms`; `hlow` is discharged by the proved `lower_idem` (`str.lower` is idempotent). -/
theorem C01_text_accept_iff_conforms' (conv : Conv) (env : Env) (pkgs : Str → Pkg) (s : Schema) (url : Option Str)
    (lines : List Str) (hs : schemaOK s = true) (hkeys : ∀ p ∈ s.types, lower p.1 = p.1)
    (hni : ∀ l ∈ lines, NoImportLine l) (hres : ∀ u ls, env.res u = some ls → ∀ l ∈ ls, NoImportLine l) :
    (∃ r, load conv env pkgs s url lines [] = .ok r) ↔
      ∃ items, treeOf env url lines = .ok items ∧ conforms conv s items = true :=
  C01_text_accept_iff_conforms conv env pkgs s url lines hs ZCV.lower_idem hkeys hni hres

open ZCV.Conf in
/-- **End to end: schema document → schema object → configuration text.**  Take ANY schema document `doc` the schema
    loader accepts (any element tree; components and base schemas pulled in to any depth; `hkey`: the key types never
    turn a non-empty name into the empty string, which holds of the stock key types) and let `S` be the schema object
    it returns.  Then for every family of datatype functions, every configuration text of any length (with `%define`s
    and `%include`s of any depth) that contains no `%import`, loaded without overrides: the configuration loader
    returns a configuration if and only if the parser accepts the text and the tree it denotes conforms to `S`.
    No structural hypothesis on `S` is left: `schemaOK S` comes from C10, "type names are stored lower-cased" from
    `elab_types_keys_lower`, idempotence of `str.lower` from `lower_idem`. -/
theorem C01_end_to_end (eenv : Elab.Env) (fuel : Nat) (doc : Elab.Node) (S : Schema)
    (hkey : ∀ (kt s r : Str), s ≠ [] → eenv.conv.key kt s = .ok r → r ≠ [])
    (hS : Elab.elabSchema eenv fuel doc = .ok S)
    (conv : Conv) (env : Env) (pkgs : Str → Pkg) (url : Option Str) (lines : List Str)
    (hni : ∀ l ∈ lines, NoImportLine l) (hres : ∀ u ls, env.res u = some ls → ∀ l ∈ ls, NoImportLine l) :
    (∃ r, load conv env pkgs S url lines [] = .ok r) ↔
      ∃ items, treeOf env url lines = .ok items ∧ conforms conv S items = true :=
  C01_text_accept_iff_conforms' conv env pkgs S url lines
    (ZCV.Props.C10.C10_elab_schemaOK eenv fuel doc S hkey hS) (Elab.elab_types_keys_lower hS) hni hres

open ZCV.Conf in
/-- the same when the schema loader runs with the stock key types (`basic-key`, `identifier`, `ipaddr-or-hostname`,
    `string`): no hypothesis about the schema or the key types at all -/
theorem C01_end_to_end_stock (eenv : Elab.Env) (fuel : Nat) (doc : Elab.Node) (S : Schema)
    (hconv : eenv.conv = stockConv) (hS : Elab.elabSchema eenv fuel doc = .ok S)
    (conv : Conv) (env : Env) (pkgs : Str → Pkg) (url : Option Str) (lines : List Str)
    (hni : ∀ l ∈ lines, NoImportLine l) (hres : ∀ u ls, env.res u = some ls → ∀ l ∈ ls, NoImportLine l) :
    (∃ r, load conv env pkgs S url lines [] = .ok r) ↔
      ∃ items, treeOf env url lines = .ok items ∧ conforms conv S items = true :=
  C01_end_to_end eenv fuel doc S
    (by intro kt s r hs hr; rw [hconv] at hr; exact Elab.stockConv_key_ne_nil kt s r hs hr) hS conv env pkgs url lines hni hres

open ZCV.Conf in
/-- the hypotheses of the end-to-end theorem are satisfiable: an accepted schema document (it extends a base schema
    and imports a component; stock key types), a four-line text (comment, key line, section) without `%import`, no
    includable resources, datatypes that accept everything -/
example : ∃ S, Elab.elabSchema Elab.Example.env 1 Elab.Example.doc = .ok S ∧
    ((∃ r, load Ex.conv Ex.env Ex.pkgs S none DischargeEx.lines [] = .ok r) ↔
      ∃ items, treeOf Ex.env none DischargeEx.lines = .ok items ∧ conforms Ex.conv S items = true) := by
  obtain ⟨S, hS⟩ := DischargeEx.dis_ex_doc_accepted
  exact ⟨S, hS, C01_end_to_end_stock _ 1 _ S DischargeEx.dis_ex_env_stock hS _ _ _ _ _
    DischargeEx.dis_ex_lines_noImport DischargeEx.dis_ex_res⟩

/-- … and the theorem decides a concrete case: for that schema document the one-line text `# c` is accepted (its tree
    is empty, and the empty tree conforms to the schema the document defines) -/
example : ∃ S, Elab.elabSchema Elab.Example.env 1 Elab.Example.doc = .ok S ∧
    ∃ r, load Ex.conv Ex.env Ex.pkgs S none ["# c".toList] [] = .ok r := by
  obtain ⟨S, hS, hch⟩ := DischargeEx.dis_ex_doc_accepted_empty
  exact ⟨S, hS, (C01_end_to_end_stock _ 1 _ S DischargeEx.dis_ex_env_stock hS Ex.conv Ex.env Ex.pkgs none _
    DischargeEx.dis_ex_comment_noImport DischargeEx.dis_ex_res).mpr
    ⟨[], DischargeEx.dis_ex_comment_tree, DischargeEx.dis_ex_conforms_nil S hch⟩⟩

end ZCV.Props.C01
