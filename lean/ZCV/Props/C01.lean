import ZCV.Lemmas.Misc
import ZCV.Lemmas.LoadSpec
import ZCV.Lemmas.TextLoad
import ZCV.Model.Conv
import ZCV.Lemmas.NoInternalLower
import ZCV.Lemmas.DischargeElab
import ZCV.Lemmas.DischargeExamples
import ZCV.Props.C10
import ZCV.Lemmas.ImportOvFree
import ZCV.Lemmas.ImportOvEx
namespace ZCV.Props.C01
open ZCV ZCV.Cfg

/-- name rule of a slot: never `*` or `+` themselves; `+` = name mandatory, `*` = name optional,
    otherwise exactly the fixed name -/
theorem C01_isAllowedName_spec (si : SectInfo) (name : Option Str) :
    isAllowedName si name = true ↔
      (name ≠ some ['*'] ∧ name ≠ some ['+'] ∧
        (si.name = ['+'] → name.isSome) ∧
        (si.name ≠ ['+'] → si.name ≠ ['*'] → name = some si.name)) := by
  unfold isAllowedName
  by_cases h1 : name = some ['*'] <;> by_cases h2 : name = some ['+'] <;>
    by_cases h3 : si.name = ['+'] <;> by_cases h4 : si.name = ['*'] <;> simp_all


/-- which child a key line goes to: the child declared with exactly this (normalised) key wins wherever it stands;
    otherwise the wildcard (`+`) key; the search loop of `addValue` computes exactly this -/
theorem C01_key_routing (children : List (Option Str × Info)) (rk : Str) :
    addValueCore.search rk children none = route children rk := search_eq_route children rk

/-- a key that is neither declared nor captured by a wildcard key is rejected with a configuration error -/
theorem C01_unknown_key_rejected (m : Matcher) (key rk v : Str) (pos : Pos) (h : route m.ty.children rk = none) :
    ∃ e, addValueCore m key rk v pos = .error (.cfg e) ∧ e.kind = .plain :=
  addValueCore_unknown_rejected m key rk v pos h

open ZCV.Conf in
/-- **Accepted ⇔ conforms.**  For every schema the schema loader can produce (`schemaOK`), every family of datatype
    functions and every configuration tree (any size, nesting depth, number of simultaneous faults) whose headers are
    spelled as the parser spells them (`tyCanon`): the loader returns a configuration if and only if the tree conforms
    to the schema (`ZCV/Spec/Conforms.lean`). -/
theorem C01_accept_iff_conforms (conv : Conv) (s : Schema) (items : List Item)
    (hs : schemaOK s = true) (ht : tyCanon s items = true) :
    (∃ v, loadTree conv s items = .ok v) ↔ conforms conv s items = true := by
  have h := loadTree_eq_denote conv s items hs ht
  unfold conforms
  constructor
  · rintro ⟨v, hv⟩
    rw [hv] at h
    simp only [Except.toOption] at h
    rw [← h]; rfl
  · intro hc
    cases hl : loadTree conv s items with
    | ok v => exact ⟨v, rfl⟩
    | error e =>
      rw [hl] at h
      simp only [Except.toOption] at h
      rw [← h] at hc
      simp at hc

open ZCV.Conf in
/-- a non-conforming tree yields no configuration object: the outcome is an error -/
theorem C01_nonconforming_rejected (conv : Conv) (s : Schema) (items : List Item)
    (hs : schemaOK s = true) (ht : tyCanon s items = true) (hn : conforms conv s items = false) :
    ∃ e, loadTree conv s items = .error e := by
  cases hl : loadTree conv s items with
  | error e => exact ⟨e, rfl⟩
  | ok v =>
    have := (C01_accept_iff_conforms conv s items hs ht).mp ⟨v, hl⟩
    rw [hn] at this; cases this

open ZCV.Conf in
/-- **The same for configuration TEXT.**  For every text of any length (lines, `%define`s, `%include`s of any depth —
    through the parser model with its generated patterns) that contains no `%import` and is loaded without overrides:
    the loader returns a configuration iff the parser accepts the text and the tree it denotes conforms to the schema.
    `hlow` (lower-casing is idempotent) is a fact about the generated Unicode table that the translator checks whenever
    it writes the table. -/
theorem C01_text_accept_iff_conforms (conv : Conv) (env : Env) (pkgs : Str → Pkg) (s : Schema) (url : Option Str)
    (lines : List Str) (hs : schemaOK s = true) (hlow : ∀ x : Str, lower (lower x) = lower x)
    (hkeys : ∀ p ∈ s.types, lower p.1 = p.1)
    (hni : ∀ l ∈ lines, NoImportLine l) (hres : ∀ u ls, env.res u = some ls → ∀ l ∈ ls, NoImportLine l) :
    (∃ r, load conv env pkgs s url lines [] = .ok r) ↔
      ∃ items, treeOf env url lines = .ok items ∧ conforms conv s items = true := by
  have h := load_eq_loadTree conv env pkgs s url lines hni hres
  constructor
  · rintro ⟨r, hr⟩
    rw [hr] at h
    cases ht : treeOf env url lines with
    | error e => rw [ht] at h; simp [Except.toOption] at h
    | ok items =>
      rw [ht] at h
      refine ⟨items, rfl, ?_⟩
      have hc := treeOf_tyCanon env url lines s items hs hlow hkeys ht
      simp only [Except.toOption, Option.map_some, Option.bind_some] at h
      cases hl : loadTree conv s items with
      | error e => rw [hl] at h; simp at h
      | ok v => exact (C01_accept_iff_conforms conv s items hs hc).mp ⟨v, hl⟩
  · rintro ⟨items, ht, hc⟩
    have hcan := treeOf_tyCanon env url lines s items hs hlow hkeys ht
    obtain ⟨v, hv⟩ := (C01_accept_iff_conforms conv s items hs hcan).mpr hc
    rw [ht] at h
    simp only [Except.toOption, Option.bind_some] at h
    rw [hv] at h
    cases hl : load conv env pkgs s url lines [] with
    | ok r => exact ⟨r, rfl⟩
    | error e => rw [hl] at h; simp at h

open ZCV.Conf in
/-- **Accepted ⇔ conforms, for configuration TEXT, without the table hypothesis.**  Same statement as
    `C01_text_accept_iff_conforms`; `hlow` is discharged by the proved `lower_idem` (`str.lower` is idempotent). -/
theorem C01_text_accept_iff_conforms' (conv : Conv) (env : Env) (pkgs : Str → Pkg) (s : Schema) (url : Option Str)
    (lines : List Str) (hs : schemaOK s = true) (hkeys : ∀ p ∈ s.types, lower p.1 = p.1)
    (hni : ∀ l ∈ lines, NoImportLine l) (hres : ∀ u ls, env.res u = some ls → ∀ l ∈ ls, NoImportLine l) :
    (∃ r, load conv env pkgs s url lines [] = .ok r) ↔
      ∃ items, treeOf env url lines = .ok items ∧ conforms conv s items = true :=
  C01_text_accept_iff_conforms conv env pkgs s url lines hs ZCV.lower_idem hkeys hni hres

open ZCV.Conf in
/-- **End to end: schema document → schema object → configuration text.**  Take ANY schema document `doc` the schema
    loader accepts (any element tree; components and base schemas pulled in to any depth; `hkey`: the key types never
    turn a non-empty name into the empty string, which holds of the stock key types) and let `S` be the schema object
    it returns.  Then for every family of datatype functions, every configuration text of any length (with `%define`s
    and `%include`s of any depth) that contains no `%import`, loaded without overrides: the configuration loader
    returns a configuration if and only if the parser accepts the text and the tree it denotes conforms to `S`.
    No structural hypothesis on `S` is left: `schemaOK S` comes from C10, "type names are stored lower-cased" from
    `elab_types_keys_lower`, idempotence of `str.lower` from `lower_idem`. -/
theorem C01_end_to_end (eenv : Elab.Env) (fuel : Nat) (doc : Elab.Node) (S : Schema)
    (hkey : ∀ (kt s r : Str), s ≠ [] → eenv.conv.key kt s = .ok r → r ≠ [])
    (hS : Elab.elabSchema eenv fuel doc = .ok S)
    (conv : Conv) (env : Env) (pkgs : Str → Pkg) (url : Option Str) (lines : List Str)
    (hni : ∀ l ∈ lines, NoImportLine l) (hres : ∀ u ls, env.res u = some ls → ∀ l ∈ ls, NoImportLine l) :
    (∃ r, load conv env pkgs S url lines [] = .ok r) ↔
      ∃ items, treeOf env url lines = .ok items ∧ conforms conv S items = true :=
  C01_text_accept_iff_conforms' conv env pkgs S url lines
    (ZCV.Props.C10.C10_elab_schemaOK eenv fuel doc S hkey hS) (Elab.elab_types_keys_lower hS) hni hres

open ZCV.Conf in
/-- the same when the schema loader runs with the stock key types (`basic-key`, `identifier`, `ipaddr-or-hostname`,
    `string`): no hypothesis about the schema or the key types at all -/
theorem C01_end_to_end_stock (eenv : Elab.Env) (fuel : Nat) (doc : Elab.Node) (S : Schema)
    (hconv : eenv.conv = stockConv) (hS : Elab.elabSchema eenv fuel doc = .ok S)
    (conv : Conv) (env : Env) (pkgs : Str → Pkg) (url : Option Str) (lines : List Str)
    (hni : ∀ l ∈ lines, NoImportLine l) (hres : ∀ u ls, env.res u = some ls → ∀ l ∈ ls, NoImportLine l) :
    (∃ r, load conv env pkgs S url lines [] = .ok r) ↔
      ∃ items, treeOf env url lines = .ok items ∧ conforms conv S items = true :=
  C01_end_to_end eenv fuel doc S
    (by intro kt s r hs hr; rw [hconv] at hr; exact Elab.stockConv_key_ne_nil kt s r hs hr) hS conv env pkgs url lines hni hres

open ZCV.Conf in
/-- the hypotheses of the end-to-end theorem are satisfiable: an accepted schema document (it extends a base schema
    and imports a component; stock key types), a four-line text (comment, key line, section) without `%import`, no
    includable resources, datatypes that accept everything -/
example : ∃ S, Elab.elabSchema Elab.Example.env 1 Elab.Example.doc = .ok S ∧
    ((∃ r, load Ex.conv Ex.env Ex.pkgs S none DischargeEx.lines [] = .ok r) ↔
      ∃ items, treeOf Ex.env none DischargeEx.lines = .ok items ∧ conforms Ex.conv S items = true) := by
  obtain ⟨S, hS⟩ := DischargeEx.dis_ex_doc_accepted
  exact ⟨S, hS, C01_end_to_end_stock _ 1 _ S DischargeEx.dis_ex_env_stock hS _ _ _ _ _
    DischargeEx.dis_ex_lines_noImport DischargeEx.dis_ex_res⟩

/-- … and the theorem decides a concrete case: for that schema document the one-line text `# c` is accepted (its tree
    is empty, and the empty tree conforms to the schema the document defines) -/
example : ∃ S, Elab.elabSchema Elab.Example.env 1 Elab.Example.doc = .ok S ∧
    ∃ r, load Ex.conv Ex.env Ex.pkgs S none ["# c".toList] [] = .ok r := by
  obtain ⟨S, hS, hch⟩ := DischargeEx.dis_ex_doc_accepted_empty
  exact ⟨S, hS, (C01_end_to_end_stock _ 1 _ S DischargeEx.dis_ex_env_stock hS Ex.conv Ex.env Ex.pkgs none _
    DischargeEx.dis_ex_comment_noImport DischargeEx.dis_ex_res).mpr
    ⟨[], DischargeEx.dis_ex_comment_tree, DischargeEx.dis_ex_conforms_nil S hch⟩⟩

end ZCV.Props.C01

/-! ## the general form: texts with `%import` lines, loaded with command-line overrides (C01 with C12 and C14) -/

namespace ZCV.Props.C01
open ZCV ZCV.Cfg ZCV.Conf

/-- **Accepted ⇔ conforms, in general.**  For every text of any length (lines, `%define`s, `%include`s of any depth,
    `%import`s) that meets no `%import` inside a section (`importsAtTop`) and whose imports keep the schema of the load
    well-formed (`importsOK`), every list of specifiers whose section-selecting components are basic keys (`OvsOK`), and
    datatype functions whose key types in use by the schema `S` the load starts with are idempotent: the loader returns a
    configuration iff the specifiers are well-formed, the parser accepts the text, the edit the specifiers ask for is
    possible (`editI`: against `S`, see `ZCV/Spec/EditImport.lean`), and the edited top-level items conform (`conformsI`:
    every section judged by the schema in force at its position). -/
theorem C01_load_accept_iff (conv : Conv) (env : Env) (pkgs : Str → Pkg) (S : Schema) (url : Option Str)
    (lines : List Str) (specs : List Str)
    (hidem : KeyIdemOn conv S)
    (htop : importsAtTop env url lines)
    (hok : ∀ tops, treeOfI env url lines = .ok tops → importsOK pkgs S tops = true)
    (hovs : ∀ ovs, specs.mapM addOption = .ok ovs → OvsOK ovs) :
    (∃ r, load conv env pkgs S url lines specs = .ok r) ↔
      ∃ ovs, specs.mapM addOption = .ok ovs ∧ ∃ tops, treeOfI env url lines = .ok tops ∧
        ∃ tops', editI conv S tops ovs = .ok tops' ∧ conformsI conv S pkgs tops' = true := by
  have h := load_ov_eq_denoteI conv env pkgs S url lines specs true (fun _ => hidem) htop hok hovs
  unfold conformsI
  constructor
  · rintro ⟨r, hr⟩
    obtain ⟨ovs, tops, tops', h1, h2, h3, h4, _⟩ := load_ov_result conv env pkgs S url lines specs true (fun _ => hidem)
      htop hok hovs r hr
    exact ⟨ovs, h1, tops, h2, tops', h3, by rw [h4]; rfl⟩
  · rintro ⟨ovs, h1, tops, h2, tops', h3, h4⟩
    rw [h1, h2] at h
    simp only [Cfg.toOption_ok, Option.bind_some] at h
    rw [show editBodyI conv S true tops ovs = editI conv S tops ovs from rfl, h3] at h
    simp only [Cfg.toOption_ok, Option.bind_some] at h
    cases hl : load conv env pkgs S url lines specs with
    | ok r => exact ⟨r, rfl⟩
    | error e =>
      rw [hl] at h
      rw [← h] at h4
      cases h4

/-- the same with the supplied lines spelled with the normalised key (`editNormI`): no assumption on the key types -/
theorem C01_load_accept_iff_norm (conv : Conv) (env : Env) (pkgs : Str → Pkg) (S : Schema) (url : Option Str)
    (lines : List Str) (specs : List Str)
    (htop : importsAtTop env url lines)
    (hok : ∀ tops, treeOfI env url lines = .ok tops → importsOK pkgs S tops = true)
    (hovs : ∀ ovs, specs.mapM addOption = .ok ovs → OvsOK ovs) :
    (∃ r, load conv env pkgs S url lines specs = .ok r) ↔
      ∃ ovs, specs.mapM addOption = .ok ovs ∧ ∃ tops, treeOfI env url lines = .ok tops ∧
        ∃ tops', editNormI conv S tops ovs = .ok tops' ∧ conformsI conv S pkgs tops' = true := by
  have h := load_ov_eq_denoteI conv env pkgs S url lines specs false (fun h => by cases h) htop hok hovs
  unfold conformsI
  constructor
  · rintro ⟨r, hr⟩
    obtain ⟨ovs, tops, tops', h1, h2, h3, h4, _⟩ := load_ov_result conv env pkgs S url lines specs false
      (fun h => by cases h) htop hok hovs r hr
    exact ⟨ovs, h1, tops, h2, tops', h3, by rw [h4]; rfl⟩
  · rintro ⟨ovs, h1, tops, h2, tops', h3, h4⟩
    rw [h1, h2] at h
    simp only [Cfg.toOption_ok, Option.bind_some] at h
    rw [show editBodyI conv S false tops ovs = editNormI conv S tops ovs from rfl, h3] at h
    simp only [Cfg.toOption_ok, Option.bind_some] at h
    cases hl : load conv env pkgs S url lines specs with
    | ok r => exact ⟨r, rfl⟩
    | error e =>
      rw [hl] at h
      rw [← h] at h4
      cases h4

/-- **Special case: no overrides** — the statement of `C12_text_accept_iff_conformsI`, recovered from the general form
    (nothing is edited when there are no specifiers). -/
theorem C01_load_accept_iff_no_overrides (conv : Conv) (env : Env) (pkgs : Str → Pkg) (S : Schema) (url : Option Str)
    (lines : List Str) (htop : importsAtTop env url lines)
    (hok : ∀ tops, treeOfI env url lines = .ok tops → importsOK pkgs S tops = true) :
    (∃ r, load conv env pkgs S url lines [] = .ok r) ↔
      ∃ tops, treeOfI env url lines = .ok tops ∧ conformsI conv S pkgs tops = true := by
  rw [C01_load_accept_iff_norm conv env pkgs S url lines [] htop hok (by
    intro ovs h
    simp only [List.mapM_nil, pure, Except.pure, Except.ok.injEq] at h
    subst h
    intro o ho; cases ho)]
  constructor
  · rintro ⟨ovs, h1, tops, h2, tops', h3, h4⟩
    simp only [List.mapM_nil, pure, Except.pure, Except.ok.injEq] at h1
    subst h1
    rw [show editNormI conv S tops [] = .ok tops from editBodyI_nil conv S false tops] at h3
    cases h3
    exact ⟨tops, h2, h4⟩
  · rintro ⟨tops, h2, h4⟩
    exact ⟨[], rfl, tops, h2, tops, editBodyI_nil conv S false tops, h4⟩

/-- **Special case: no `%import` lines and no overrides** — the statement of `C01_text_accept_iff_conforms'`, recovered from
    the general form (`hkeys` of that statement is not needed). -/
theorem C01_text_accept_iff_conforms_from_general (conv : Conv) (env : Env) (pkgs : Str → Pkg) (s : Schema) (url : Option Str)
    (lines : List Str) (hs : schemaOK s = true)
    (hni : ∀ l ∈ lines, NoImportLine l) (hres : ∀ u ls, env.res u = some ls → ∀ l ∈ ls, NoImportLine l) :
    (∃ r, load conv env pkgs s url lines [] = .ok r) ↔
      ∃ items, treeOf env url lines = .ok items ∧ conforms conv s items = true := by
  obtain ⟨hfree, htop⟩ := treeOfI_import_free env url lines hni hres
  have hitems : ∀ tops, treeOfI env url lines = .ok tops →
      ∃ items, treeOf env url lines = .ok items ∧ tops = items.map .item ∧ lowItems items = true := by
    intro tops ht
    have hl := treeOfI_low env url lines tops ht
    rw [ht] at hfree
    cases hT : treeOf env url lines with
    | error e => rw [hT] at hfree; cases hfree
    | ok items =>
      rw [hT] at hfree
      simp only [Cfg.toOption_ok, Option.map_some, Option.some.injEq] at hfree
      subst hfree
      rw [lowTops_items] at hl
      exact ⟨items, rfl, rfl, hl⟩
  have hok : ∀ tops, treeOfI env url lines = .ok tops → importsOK pkgs s tops = true := by
    intro tops ht
    obtain ⟨items, _, rfl, _⟩ := hitems tops ht
    rw [importsOK_items]
    exact hs
  rw [C01_load_accept_iff_no_overrides conv env pkgs s url lines htop hok]
  unfold conformsI conforms
  constructor
  · rintro ⟨tops, ht, hc⟩
    obtain ⟨items, hT, rfl, hl⟩ := hitems tops ht
    rw [docHandlersI_items.C12_denoteI_free conv pkgs s items hs hl] at hc
    exact ⟨items, hT, hc⟩
  · rintro ⟨items, hT, hc⟩
    rw [hT] at hfree
    simp only [Cfg.toOption_ok, Option.map_some] at hfree
    have hTI := Cfg.toOption_eq_some.mp hfree
    obtain ⟨items2, hT2, heq, hl⟩ := hitems _ hTI
    rw [hT] at hT2
    cases hT2
    refine ⟨_, hTI, ?_⟩
    rw [docHandlersI_items.C12_denoteI_free conv pkgs s items hs hl]
    exact hc

/-- **End to end**, from a schema DOCUMENT: for the schema object `S` of any document the schema loader accepts (`hkey` as
    in `C01_end_to_end`), a text whose `%import`s are at top level and bring well-formed components (`compsOK`: what the
    schema loader guarantees of a component it has parsed), specifiers whose section-selecting components are basic
    keys, key types of `S` idempotent.  `schemaOK S` is discharged by C10. -/
theorem C01_end_to_end_general (eenv : Elab.Env) (fuel : Nat) (doc : Elab.Node) (S : Schema)
    (hkey : ∀ (kt s r : Str), s ≠ [] → eenv.conv.key kt s = .ok r → r ≠ [])
    (hS : Elab.elabSchema eenv fuel doc = .ok S)
    (conv : Conv) (env : Env) (pkgs : Str → Pkg) (url : Option Str) (lines : List Str) (specs : List Str)
    (hidem : KeyIdemOn conv S)
    (htop : importsAtTop env url lines)
    (hcomp : ∀ tops, treeOfI env url lines = .ok tops → compsOK pkgs S tops = true)
    (hovs : ∀ ovs, specs.mapM addOption = .ok ovs → OvsOK ovs) :
    (∃ r, load conv env pkgs S url lines specs = .ok r) ↔
      ∃ ovs, specs.mapM addOption = .ok ovs ∧ ∃ tops, treeOfI env url lines = .ok tops ∧
        ∃ tops', editI conv S tops ovs = .ok tops' ∧ conformsI conv S pkgs tops' = true :=
  C01_load_accept_iff conv env pkgs S url lines specs hidem htop
    (fun tops ht => importsOK_of_compsOK pkgs tops S (ZCV.Props.C10.C10_elab_schemaOK eenv fuel doc S hkey hS) (hcomp tops ht))
    hovs

/-- **non-vacuity**: in the world of `ZCV/Lemmas/ImportOvEx.lean` the text with a `%import` line, a section of the imported
    type and a section of a static type, loaded with an override into the latter and a top-level key override, satisfies
    the hypotheses of `C01_load_accept_iff`, and the theorem ACCEPTS it … -/
example : ∃ r, load ExOv.conv ExOv.env ExOv.pkgs ExOv.schema none (ExOv.lines '1') ExOv.specsGood = .ok r :=
  (C01_load_accept_iff ExOv.conv ExOv.env ExOv.pkgs ExOv.schema none (ExOv.lines '1') ExOv.specsGood ExOv.idem ExOv.atTop1
    ExOv.ok1 ExOv.ovsGood_ok).mpr
    ⟨ExOv.ovsGood, ExOv.split_good, ExOv.tops '1', ExOv.tree1, ExOv.topsGood, ExOv.edit_good, by
      unfold conformsI; rw [ExOv.denote_good]; rfl⟩

/-- … and REJECTS the same text loaded with an override into the section of the imported type (the edit against the
    schema the load starts with is impossible) -/
example : ¬ ∃ r, load ExOv.conv ExOv.env ExOv.pkgs ExOv.schema none (ExOv.lines '1') ExOv.specsBad = .ok r := by
  rw [C01_load_accept_iff ExOv.conv ExOv.env ExOv.pkgs ExOv.schema none (ExOv.lines '1') ExOv.specsBad ExOv.idem ExOv.atTop1
    ExOv.ok1 ExOv.ovsBad_ok]
  rintro ⟨ovs, h1, tops, h2, tops', h3, _⟩
  rw [ExOv.split_bad] at h1
  cases h1
  rw [ExOv.tree1] at h2
  cases h2
  rw [ExOv.edit_bad] at h3
  cases h3

end ZCV.Props.C01
