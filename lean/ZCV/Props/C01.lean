import ZCV.Model.Conv
namespace ZCV.Props.C01
open ZCV ZCV.Cfg

/-- name rule of a slot: never `*` or `+` themselves; `+` = name mandatory, `*` = name optional,
    otherwise exactly the fixed name -/
theorem C01_isAllowedName_spec (si : SectInfo) (name : Option Str) :
    isAllowedName si name = true ↔
      (name ≠ some ['*'] ∧ name ≠ some ['+'] ∧
        (si.name = ['+'] → name.isSome) ∧
        (si.name ≠ ['+'] → si.name ≠ ['*'] → name = some si.name)) := by
  unfold isAllowedName
  by_cases h1 : name = some ['*'] <;> by_cases h2 : name = some ['+'] <;>
    by_cases h3 : si.name = ['+'] <;> by_cases h4 : si.name = ['*'] <;> simp_all

end ZCV.Props.C01
