import ZCV.Lemmas.Misc
import ZCV.Lemmas.LoadSpec
import ZCV.Model.Conv
namespace ZCV.Props.C01
open ZCV ZCV.Cfg

/-- name rule of a slot: never `*` or `+` themselves; `+` = name mandatory, `*` = name optional,
    otherwise exactly the fixed name -/
theorem C01_isAllowedName_spec (si : SectInfo) (name : Option Str) :
    isAllowedName si name = true ↔
      (name ≠ some ['*'] ∧ name ≠ some ['+'] ∧
        (si.name = ['+'] → name.isSome) ∧
        (si.name ≠ ['+'] → si.name ≠ ['*'] → name = some si.name)) := by
  unfold isAllowedName
  by_cases h1 : name = some ['*'] <;> by_cases h2 : name = some ['+'] <;>
    by_cases h3 : si.name = ['+'] <;> by_cases h4 : si.name = ['*'] <;> simp_all


/-- which child a key line goes to: the child declared with exactly this (normalised) key wins wherever it stands;
    otherwise the wildcard (`+`) key; the search loop of `addValue` computes exactly this -/
theorem C01_key_routing (children : List (Option Str × Info)) (rk : Str) :
    addValueCore.search rk children none = route children rk := search_eq_route children rk

/-- a key that is neither declared nor captured by a wildcard key is rejected with a configuration error -/
theorem C01_unknown_key_rejected (m : Matcher) (key rk v : Str) (pos : Pos) (h : route m.ty.children rk = none) :
    ∃ e, addValueCore m key rk v pos = .error (.cfg e) ∧ e.kind = .plain :=
  addValueCore_unknown_rejected m key rk v pos h

open ZCV.Conf in
/-- **Accepted ⇔ conforms.**  For every schema the schema loader can produce (`schemaOK`), every family of datatype
    functions and every configuration tree (any size, nesting depth, number of simultaneous faults) whose headers are
    spelled as the parser spells them (`tyCanon`): the loader returns a configuration if and only if the tree conforms
    to the schema (`ZCV/Spec/Conforms.lean`). -/
theorem C01_accept_iff_conforms (conv : Conv) (s : Schema) (items : List Item)
    (hs : schemaOK s = true) (ht : tyCanon s items = true) :
    (∃ v, loadTree conv s items = .ok v) ↔ conforms conv s items = true := by
  have h := loadTree_eq_denote conv s items hs ht
  unfold conforms
  constructor
  · rintro ⟨v, hv⟩
    rw [hv] at h
    simp only [Except.toOption] at h
    rw [← h]; rfl
  · intro hc
    cases hl : loadTree conv s items with
    | ok v => exact ⟨v, rfl⟩
    | error e =>
      rw [hl] at h
      simp only [Except.toOption] at h
      rw [← h] at hc
      simp at hc

open ZCV.Conf in
/-- a non-conforming tree yields no configuration object: the outcome is an error -/
theorem C01_nonconforming_rejected (conv : Conv) (s : Schema) (items : List Item)
    (hs : schemaOK s = true) (ht : tyCanon s items = true) (hn : conforms conv s items = false) :
    ∃ e, loadTree conv s items = .error e := by
  cases hl : loadTree conv s items with
  | error e => exact ⟨e, rfl⟩
  | ok v =>
    have := (C01_accept_iff_conforms conv s items hs ht).mp ⟨v, hl⟩
    rw [hn] at this; cases this

end ZCV.Props.C01
