import ZCV.Lemmas.Misc
import ZCV.Model.Conv
namespace ZCV.Props.C01
open ZCV ZCV.Cfg

/-- name rule of a slot: never `*` or `+` themselves; `+` = name mandatory, `*` = name optional,
    otherwise exactly the fixed name -/
theorem C01_isAllowedName_spec (si : SectInfo) (name : Option Str) :
    isAllowedName si name = true ↔
      (name ≠ some ['*'] ∧ name ≠ some ['+'] ∧
        (si.name = ['+'] → name.isSome) ∧
        (si.name ≠ ['+'] → si.name ≠ ['*'] → name = some si.name)) := by
  unfold isAllowedName
  by_cases h1 : name = some ['*'] <;> by_cases h2 : name = some ['+'] <;>
    by_cases h3 : si.name = ['+'] <;> by_cases h4 : si.name = ['*'] <;> simp_all


/-- which child a key line goes to: the child declared with exactly this (normalised) key wins wherever it stands;
    otherwise the wildcard (`+`) key; the search loop of `addValue` computes exactly this -/
theorem C01_key_routing (children : List (Option Str × Info)) (rk : Str) :
    addValueCore.search rk children none = route children rk := search_eq_route children rk

/-- a key that is neither declared nor captured by a wildcard key is rejected with a configuration error -/
theorem C01_unknown_key_rejected (m : Matcher) (key rk v : Str) (pos : Pos) (h : route m.ty.children rk = none) :
    ∃ e, addValueCore m key rk v pos = .error (.cfg e) ∧ e.kind = .plain :=
  addValueCore_unknown_rejected m key rk v pos h

end ZCV.Props.C01
