import ZCV.Lemmas.Misc
import ZCV.Lemmas.LoadSpec
import ZCV.Lemmas.TextLoad
import ZCV.Model.Conv
namespace ZCV.Props.C01
open ZCV ZCV.Cfg

/-- name rule of a slot: never `*` or `+` themselves; `+` = name mandatory, `*` = name optional,
    otherwise exactly the fixed name -/
theorem C01_isAllowedName_spec (si : SectInfo) (name : Option Str) :
    isAllowedName si name = true ↔
      (name ≠ some ['*'] ∧ name ≠ some ['+'] ∧
        (si.name = ['+'] → name.isSome) ∧
        (si.name ≠ ['+'] → si.name ≠ ['*'] → name = some si.name)) := by
  unfold isAllowedName
  by_cases h1 : name = some ['*'] <;> by_cases h2 : name = some ['+'] <;>
    by_cases h3 : si.name = ['+'] <;> by_cases h4 : si.name = ['*'] <;> simp_all


/-- which child a key line goes to: the child declared with exactly this (normalised) key wins wherever it stands;
    otherwise the wildcard (`+`) key; the search loop of `addValue` computes exactly this -/
theorem C01_key_routing (children : List (Option Str × Info)) (rk : Str) :
    addValueCore.search rk children none = route children rk := search_eq_route children rk

/-- a key that is neither declared nor captured by a wildcard key is rejected with a configuration error -/
theorem C01_unknown_key_rejected (m : Matcher) (key rk v : Str) (pos : Pos) (h : route m.ty.children rk = none) :
    ∃ e, addValueCore m key rk v pos = .error (.cfg e) ∧ e.kind = .plain :=
  addValueCore_unknown_rejected m key rk v pos h

open ZCV.Conf in
/-- **Accepted ⇔ conforms.**  For every schema the schema loader can produce (`schemaOK`), every family of datatype
    functions and every configuration tree (any size, nesting depth, number of simultaneous faults) whose headers are
    spelled as the parser spells them (`tyCanon`): the loader returns a configuration if and only if the tree conforms
    to the schema (`ZCV/Spec/Conforms.lean`). -/
theorem C01_accept_iff_conforms (conv : Conv) (s : Schema) (items : List Item)
    (hs : schemaOK s = true) (ht : tyCanon s items = true) :
    (∃ v, loadTree conv s items = .ok v) ↔ conforms conv s items = true := by
  have h := loadTree_eq_denote conv s items hs ht
  unfold conforms
  constructor
  · rintro ⟨v, hv⟩
    rw [hv] at h
    simp only [Except.toOption] at h
    rw [← h]; rfl
  · intro hc
    cases hl : loadTree conv s items with
    | ok v => exact ⟨v, rfl⟩
    | error e =>
      rw [hl] at h
      simp only [Except.toOption] at h
      rw [← h] at hc
      simp at hc

open ZCV.Conf in
/-- a non-conforming tree yields no configuration object: the outcome is an error -/
theorem C01_nonconforming_rejected (conv : Conv) (s : Schema) (items : List Item)
    (hs : schemaOK s = true) (ht : tyCanon s items = true) (hn : conforms conv s items = false) :
    ∃ e, loadTree conv s items = .error e := by
  cases hl : loadTree conv s items with
  | error e => exact ⟨e, rfl⟩
  | ok v =>
    have := (C01_accept_iff_conforms conv s items hs ht).mp ⟨v, hl⟩
    rw [hn] at this; cases this

open ZCV.Conf in
/-- **The same for configuration TEXT.**  For every text of any length (lines, `%define`s, `%include`s of any depth —
    through the parser model with its generated patterns) that contains no `%import` and is loaded without overrides:
    the loader returns a configuration iff the parser accepts the text and the tree it denotes conforms to the schema.
    `hlow` (lower-casing is idempotent) is a fact about the generated Unicode table that the translator checks whenever
    it writes the table. -/
theorem C01_text_accept_iff_conforms (conv : Conv) (env : Env) (pkgs : Str → Pkg) (s : Schema) (url : Option Str)
    (lines : List Str) (hs : schemaOK s = true) (hlow : ∀ x : Str, lower (lower x) = lower x)
    (hkeys : ∀ p ∈ s.types, lower p.1 = p.1)
    (hni : ∀ l ∈ lines, NoImportLine l) (hres : ∀ u ls, env.res u = some ls → ∀ l ∈ ls, NoImportLine l) :
    (∃ r, load conv env pkgs s url lines [] = .ok r) ↔
      ∃ items, treeOf env url lines = .ok items ∧ conforms conv s items = true := by
  have h := load_eq_loadTree conv env pkgs s url lines hni hres
  constructor
  · rintro ⟨r, hr⟩
    rw [hr] at h
    cases ht : treeOf env url lines with
    | error e => rw [ht] at h; simp [Except.toOption] at h
    | ok items =>
      rw [ht] at h
      refine ⟨items, rfl, ?_⟩
      have hc := treeOf_tyCanon env url lines s items hs hlow hkeys ht
      simp only [Except.toOption, Option.map_some, Option.bind_some] at h
      cases hl : loadTree conv s items with
      | error e => rw [hl] at h; simp at h
      | ok v => exact (C01_accept_iff_conforms conv s items hs hc).mp ⟨v, hl⟩
  · rintro ⟨items, ht, hc⟩
    have hcan := treeOf_tyCanon env url lines s items hs hlow hkeys ht
    obtain ⟨v, hv⟩ := (C01_accept_iff_conforms conv s items hs hcan).mpr hc
    rw [ht] at h
    simp only [Except.toOption, Option.bind_some] at h
    rw [hv] at h
    cases hl : load conv env pkgs s url lines [] with
    | ok r => exact ⟨r, rfl⟩
    | error e => rw [hl] at h; simp at h

end ZCV.Props.C01
