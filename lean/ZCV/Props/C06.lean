import ZCV.Model.Matcher
namespace ZCV.Props.C06
open ZCV ZCV.Cfg

/-- a fragment that leaves a section open is rejected at its own end, whatever the includer looks like -/
theorem C06_unclosed_fragment_rejected {σ} (fuel : Nat) (env : Env) (c : PCtx σ) (active : List Str) (url : Option Str) (n : Nat)
    (st : PS σ) (h : st.stack ≠ []) :
    ∃ e, parseLines fuel env c active url [] n st = .error (.cfg e) ∧ e.kind = .syntax := by
  unfold parseLines
  simp only [bne_iff_ne, ne_eq, h, not_false_eq_true, ↓reduceIte]
  exact ⟨_, rfl, rfl⟩

end ZCV.Props.C06
