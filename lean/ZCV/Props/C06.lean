import ZCV.Lemmas.Include
import ZCV.Lemmas.IncludeGen
import ZCV.Lemmas.IncludeGenEx
import ZCV.Lemmas.IncludeLoad
import ZCV.Lemmas.IncludeLoadEx
/-!
# C06 — `%include` behaves as textual inclusion of a self-contained fragment
-/
namespace ZCV.Props.C06
open ZCV ZCV.Cfg

/-- **Textual inclusion.**  For any lines `A`, `F`, `B` with `F` balanced (never closes what it did not open, leaves
    nothing open): replacing `F` by an `%include` of a resource holding exactly `F` gives the same stream of events to
    the context (hence the same value tree for any context), the same `%define` mapping afterwards and the same open
    sections — or both texts are rejected.  At top level or inside any sections (`st` is arbitrary), for any include
    depth of the surrounding text (`fuel`, `active` arbitrary).
    Partial only in that `F` itself contains no further `%include` line (nested cuts are covered by applying the
    theorem from the inside out) and that the argument contains no `$`. -/
theorem C06_include_eq_inline (fuel : Nat) (env : Env) (active : List Str) (url : Option Str)
    (A F B : List Str) (inc arg u : Str) (n : Nat) (st : PS (List Ev0))
    (hshape : lineShape (strip inc) = .include_ arg)
    (hnodollar : '$' ∉ strip arg)
    (hres : env.resolve url (strip arg) = .url u)
    (hfile : env.res u = some F)
    (hu : u ≠ []) (hact : u ∉ active)
    (hbal : Balanced F) (hni : NoInclude F) :
    outcome (parseLines (fuel + 1) env rec0 active url (A ++ [inc] ++ B) n st) =
    outcome (parseLines (fuel + 1) env rec0 active url (A ++ F ++ B) n st) :=
  include_eq_inline fuel env active url A F B inc arg u n st hshape hnodollar hres hfile hu hact hbal hni

/-- a fragment that leaves a section open is rejected at its own end, whatever the includer looks like -/
theorem C06_unclosed_fragment_rejected {σ} (fuel : Nat) (env : Env) (c : PCtx σ) (active : List Str) (url : Option Str) (n : Nat)
    (st : PS σ) (h : st.stack ≠ []) :
    ∃ e, parseLines fuel env c active url [] n st = .error (.cfg e) ∧ e.kind = .syntax := by
  unfold parseLines
  simp only [bne_iff_ne, ne_eq, h, not_false_eq_true, ↓reduceIte]
  exact ⟨_, rfl, rfl⟩

/-- a fragment that closes a section it did not open is rejected inside the fragment -/
theorem C06_stray_close_rejected (fuel : Nat) (env : Env) (active : List Str) (url : Option Str)
    (F : List Str) (ty : Str) (n : Nat) (st : PS (List Ev0)) (hstack : st.stack = [])
    (h : ∃ l r, F = l :: r ∧ lineShape (strip l) = .close ty) :
    ∃ e, parseLines fuel env rec0 active url F n st = .error (.cfg e) ∧ e.kind = .syntax :=
  include_stray_close_rejected fuel env active url F ty n st hstack h

/-! ## Generalisations: references in the argument, nested `%include`s, relative resolution, flow of definitions

`incgenNoLimit r` (`ZCV/Lemmas/IncludeGen.lean`): the result `r` is not one of the two refusals that depend on HOW a resource is
reached rather than on what it contains — the recursion budget of the model is exhausted (`RecursionError`), or the
resource is already being read ("resource includes itself").  The concrete texts of the examples are in
`ZCV/Lemmas/IncludeGenEx.lean`. -/

/-- **Textual inclusion, with references in the argument.**  As `C06_include_eq_inline`, but the argument of `%include`
    may contain `$` references: `hprep` says that with the definitions in force when the line is reached (those `A` leaves,
    whatever `A` contains — `%define`s, `%include`s …) the argument expands to some `a` that resolves, against the URL of
    the including resource, to `u`.  If `A` is rejected both texts are.  (`F` itself contains no `%include`: see the next
    theorem.) -/
theorem C06_include_eq_inline_subst (fuel : Nat) (env : Env) (active : List Str) (url : Option Str)
    (A F B : List Str) (inc arg u : Str) (n : Nat) (st : PS (List Ev0))
    (hshape : lineShape (strip inc) = .include_ arg)
    (hprep : ∀ sA, runLines (fuel + 1) env rec0 active url A n st = .ok sA →
      ∃ a, replace env sA.defs url (n + A.length + 1) (strip arg) = .ok a ∧ env.resolve url a = .url u)
    (hfile : env.res u = some F)
    (hact : u ∉ active)
    (hbal : Balanced F) (hni : NoInclude F) :
    outcome (parseLines (fuel + 1) env rec0 active url (A ++ [inc] ++ B) n st) =
    outcome (parseLines (fuel + 1) env rec0 active url (A ++ F ++ B) n st) :=
  incgen_inline_subst fuel env active url A F B inc arg u n st hshape hprep hfile hact hbal hni

/-- **Textual inclusion, to any include depth.**  The fragment `F` may itself contain `%include` lines, whose targets may
    contain more, to any depth; its argument may contain references (`hprep` as above).  Two side conditions, both about
    the text WITH the `%include` line:
    * `hrel` — if `F` contains `%include` lines, their arguments resolve against the fragment's URL as they do against the
      includer's (the inlined copy is read under the includer's URL; for a real `urljoin` this holds when fragment and
      includer are in the same directory — see `IncEx.inlined_outside_fails` for what happens otherwise);
    * `hnl` — the including text is not refused for want of fuel or for an include cycle ("enough fuel, no cycle", stated
      on the result: if it succeeds, or fails for any other reason, the hypothesis holds).
    Then both texts give the same events, definitions and open sections, or both are rejected.  Fuel: `fuel + 1` on both
    sides; the fragment's lines are read with `fuel` on the left and `fuel + 1` on the right, and the proof shows that the
    extra unit (and the shorter list of active resources) changes nothing (`C06_fuel_irrelevant`). -/
theorem C06_include_eq_inline_nested (fuel : Nat) (env : Env) (active : List Str) (url : Option Str)
    (A F B : List Str) (inc arg u : Str) (n : Nat) (st : PS (List Ev0))
    (hshape : lineShape (strip inc) = .include_ arg)
    (hprep : ∀ sA, runLines (fuel + 1) env rec0 active url A n st = .ok sA →
      ∃ a, replace env sA.defs url (n + A.length + 1) (strip arg) = .ok a ∧ env.resolve url a = .url u)
    (hfile : env.res u = some F)
    (hact : u ∉ active)
    (hbal : Balanced F)
    (hrel : ∀ l ∈ F, ∀ arg', lineShape (strip l) = .include_ arg' → ∀ a, env.resolve (some u) a = env.resolve url a)
    (hnl : incgenNoLimit (parseLines (fuel + 1) env rec0 active url (A ++ [inc] ++ B) n st)) :
    outcome (parseLines (fuel + 1) env rec0 active url (A ++ [inc] ++ B) n st) =
    outcome (parseLines (fuel + 1) env rec0 active url (A ++ F ++ B) n st) :=
  incgen_inline_nested fuel env active url A F B inc arg u n st hshape hprep hfile hact hbal hrel hnl

/-- in particular: if the text with the `%include` line is accepted, so is the inlined text, with the same outcome -/
theorem C06_include_eq_inline_nested_ok (fuel : Nat) (env : Env) (active : List Str) (url : Option Str)
    (A F B : List Str) (inc arg u : Str) (n : Nat) (st s : PS (List Ev0))
    (hshape : lineShape (strip inc) = .include_ arg)
    (hprep : ∀ sA, runLines (fuel + 1) env rec0 active url A n st = .ok sA →
      ∃ a, replace env sA.defs url (n + A.length + 1) (strip arg) = .ok a ∧ env.resolve url a = .url u)
    (hfile : env.res u = some F)
    (hact : u ∉ active)
    (hbal : Balanced F)
    (hrel : ∀ l ∈ F, ∀ arg', lineShape (strip l) = .include_ arg' → ∀ a, env.resolve (some u) a = env.resolve url a)
    (hok : parseLines (fuel + 1) env rec0 active url (A ++ [inc] ++ B) n st = .ok s) :
    outcome (parseLines (fuel + 1) env rec0 active url (A ++ F ++ B) n st) = some (s.ctx, s.defs, s.stack) := by
  rw [← incgen_inline_nested fuel env active url A F B inc arg u n st hshape hprep hfile hact hbal hrel
    (by rw [hok]; exact incgenNoLimit_ok _), hok]
  rfl

/-- **Textual inclusion, to any include depth — from the inlined text.**  The converse reading: the side condition is about
    the INLINED text.  `hnl`: read with `u` counted among the resources being read (so that it may not itself reach `u`:
    no cycle through the fragment), the inlined text is not refused for want of fuel or for an include cycle.  Then the
    text with the `%include` line, given one more unit of fuel (the fragment sits one level deeper), has the same outcome
    as the inlined text.  Together with `C06_include_eq_inline_nested`: the two texts are accepted or rejected alike, with
    the same events and definitions, as soon as either of them is read with enough fuel and meets no cycle. -/
theorem C06_include_eq_inline_nested_rev (fuel : Nat) (env : Env) (active : List Str) (url : Option Str)
    (A F B : List Str) (inc arg u : Str) (n : Nat) (st : PS (List Ev0))
    (hshape : lineShape (strip inc) = .include_ arg)
    (hprep : ∀ sA, runLines (fuel + 1) env rec0 (u :: active) url A n st = .ok sA →
      ∃ a, replace env sA.defs url (n + A.length + 1) (strip arg) = .ok a ∧ env.resolve url a = .url u)
    (hfile : env.res u = some F)
    (hact : u ∉ active)
    (hbal : Balanced F)
    (hrel : ∀ l ∈ F, ∀ arg', lineShape (strip l) = .include_ arg' → ∀ a, env.resolve (some u) a = env.resolve url a)
    (hnl : incgenNoLimit (parseLines (fuel + 1) env rec0 (u :: active) url (A ++ F ++ B) n st)) :
    outcome (parseLines (fuel + 2) env rec0 active url (A ++ [inc] ++ B) n st) =
    outcome (parseLines (fuel + 1) env rec0 active url (A ++ F ++ B) n st) :=
  incgen_inline_nested_rev fuel env active url A F B inc arg u n st hshape hprep hfile hact hbal hrel hnl

example (fuel : Nat) :
    outcome (parseLines (fuel + 2) IncEx.env rec0 [] IncEx.ut (IncEx.A ++ ["%include $n".toList] ++ IncEx.B) 0 IncEx.s0) =
    outcome (parseLines (fuel + 1) IncEx.env rec0 [] IncEx.ut (IncEx.A ++ IncEx.F ++ IncEx.B) 0 IncEx.s0) :=
  IncEx.nested_rev_instance fuel

/-- the hypotheses are satisfiable by a text with a reference in the argument (`%include $n`), a nested `%include` in the
    fragment, and definitions flowing both ways; the conclusion then gives the outcome of the inlined text -/
example (fuel : Nat) :
    outcome (parseLines (fuel + 2) IncEx.env rec0 [] IncEx.ut (IncEx.A ++ IncEx.F ++ IncEx.B) 0 IncEx.s0) =
      some ([.value "j".toList "2f".toList, .value "i".toList "2".toList], IncEx.dny, []) :=
  IncEx.inlined_outcome fuel

/-- **Fuel is irrelevant once sufficient** (any context).  If a parse with fuel `f` and active resources `active` ends —
    accepted or rejected — without exhausting the recursion budget and without meeting a resource that is already being
    read, then with any larger fuel and any smaller set of active resources it ends in exactly the same way (same state,
    or the very same error). -/
theorem C06_fuel_irrelevant {σ} (env : Env) (c : PCtx σ) (f f' : Nat) (active active' : List Str) (url : Option Str)
    (lines : List Str) (n : Nat) (st : PS σ) (hle : f ≤ f') (hsub : ∀ w, w ∈ active' → w ∈ active)
    (hnl : incgenNoLimit (parseLines f env c active url lines n st)) :
    parseLines f' env c active' url lines n st = parseLines f env c active url lines n st :=
  incgen_mono env c f f' active active' url lines n st hle hsub hnl

/-- **Relative references are resolved against the URL of the including resource.**  An `%include` line on line `line` of
    the resource `url` (any context that supports `%include`): the argument is expanded with the definitions in force,
    and what is opened is `env.resolve url a` — `url` being the URL of the resource that CONTAINS the line.  The target
    is then read by a parser of its own whose URL is `some u` (so that ITS `%include` lines resolve against `u`), at line
    0, with no open section, `u` added to the resources being read, on the includer's context and definitions; the
    includer goes on with the context and definitions that come back, its own open sections untouched. -/
theorem C06_relative_to_includer {σ} (fuel : Nat) (env : Env) (c : PCtx σ) (active : List Str) (url : Option Str) (line : Nat)
    (l arg a u : Str) (F : List Str) (st : PS σ)
    (hshape : lineShape l = .include_ arg) (hci : c.canInclude = true)
    (hrep : replace env st.defs url line (strip arg) = .ok a)
    (hres : env.resolve url a = .url u) (hfile : env.res u = some F) (hact : u = [] ∨ u ∉ active) :
    stepLine (fuel + 1) env c active url line l st =
      parseLines fuel env c (u :: active) (some u) F 0 { ctx := st.ctx, stack := [], defs := st.defs } >>= fun sub =>
        .ok { st with ctx := sub.ctx, defs := sub.defs } :=
  incgen_include_found fuel env c active url line l arg a u F st hshape hci hrep hres hfile hact

/-- … in particular for a nested `%include` it is the FRAGMENT's URL, not the top resource's.  The resource `url`
    includes `u1` (= `resolve url a1`), whose lines are `P ++ inc2 :: Q`; `inc2` is an `%include` whose argument expands
    to `a2`: what is opened is `resolve (some u1) a2`, and the rest `Q` of `u1` is read, still under `some u1`, after it. -/
theorem C06_relative_nested {σ} (fuel : Nat) (env : Env) (c : PCtx σ) (active : List Str) (url : Option Str) (line : Nat)
    (inc1 arg1 a1 u1 : Str) (P Q : List Str) (inc2 arg2 a2 u2 : Str) (G : List Str) (st sP : PS σ)
    (hci : c.canInclude = true)
    (h1shape : lineShape inc1 = .include_ arg1)
    (h1rep : replace env st.defs url line (strip arg1) = .ok a1)
    (h1res : env.resolve url a1 = .url u1) (h1file : env.res u1 = some (P ++ inc2 :: Q)) (h1act : u1 = [] ∨ u1 ∉ active)
    (hP : runLines (fuel + 1) env c (u1 :: active) (some u1) P 0 { ctx := st.ctx, stack := [], defs := st.defs } = .ok sP)
    (h2shape : lineShape (strip inc2) = .include_ arg2)
    (h2rep : replace env sP.defs (some u1) (0 + P.length + 1) (strip arg2) = .ok a2)
    (h2res : env.resolve (some u1) a2 = .url u2) (h2file : env.res u2 = some G) (h2act : u2 = [] ∨ u2 ∉ u1 :: active) :
    stepLine (fuel + 2) env c active url line inc1 st =
      (parseLines fuel env c (u2 :: u1 :: active) (some u2) G 0 { ctx := sP.ctx, stack := [], defs := sP.defs } >>= fun sub2 =>
        parseLines (fuel + 1) env c (u1 :: active) (some u1) Q (0 + P.length + 1)
          { sP with ctx := sub2.ctx, defs := sub2.defs }) >>= fun sub =>
        .ok { st with ctx := sub.ctx, defs := sub.defs } := by
  rw [incgen_include_found (fuel + 1) env c active url line inc1 arg1 a1 u1 _ st h1shape hci h1rep h1res h1file h1act,
    incgen_parse_at_include fuel env c (u1 :: active) (some u1) P Q inc2 arg2 a2 u2 G 0 (subState st) sP hP h2shape hci
      h2rep h2res h2file h2act]
  rfl

/-- observable form: if the nested target cannot be opened, the error names `resolve (some u1) a2` -/
theorem C06_relative_nested_missing {σ} (fuel : Nat) (env : Env) (c : PCtx σ) (active : List Str) (url : Option Str) (line : Nat)
    (inc1 arg1 a1 u1 : Str) (P Q : List Str) (inc2 arg2 a2 u2 : Str) (st sP : PS σ)
    (hci : c.canInclude = true)
    (h1shape : lineShape inc1 = .include_ arg1)
    (h1rep : replace env st.defs url line (strip arg1) = .ok a1)
    (h1res : env.resolve url a1 = .url u1) (h1file : env.res u1 = some (P ++ inc2 :: Q)) (h1act : u1 = [] ∨ u1 ∉ active)
    (hP : runLines fuel env c (u1 :: active) (some u1) P 0 { ctx := st.ctx, stack := [], defs := st.defs } = .ok sP)
    (h2shape : lineShape (strip inc2) = .include_ arg2)
    (h2rep : replace env sP.defs (some u1) (0 + P.length + 1) (strip arg2) = .ok a2)
    (h2res : env.resolve (some u1) a2 = .url u2) (h2file : env.res u2 = none) :
    stepLine (fuel + 1) env c active url line inc1 st =
      .error (.cfg { kind := .plain, url := some u2, tag := "error opening" }) := by
  rw [incgen_include_found fuel env c active url line inc1 arg1 a1 u1 _ st h1shape hci h1rep h1res h1file h1act,
    incgen_parse_at_include_missing fuel env c (u1 :: active) (some u1) P Q inc2 arg2 a2 u2 0 (subState st) sP hP h2shape hci
      h2rep h2res h2file]
  rfl

/-- read from outside the directory `d/`, `%include d/$n` opens `d/f`, inside which `%include g` opens `d/g` (events of
    `d/g` arrive) — whereas the inlined copy of `d/f`, read from outside, looks for `g` and is rejected -/
example (fuel : Nat) :
    parseLines (fuel + 2) IncEx.env rec0 [] none (IncEx.A ++ ["%include d/$n".toList] ++ []) 0 IncEx.s0 =
      .ok { ctx := [.value "j".toList "2f".toList], stack := [], defs := IncEx.dny } ∧
    parseLines (fuel + 2) IncEx.env rec0 [] none (IncEx.A ++ IncEx.F ++ []) 0 IncEx.s0 =
      .error (.cfg { kind := .plain, url := some "g".toList, tag := "error opening" }) :=
  ⟨IncEx.parse_outside fuel, IncEx.inlined_outside_fails (fuel + 2)⟩

/-- **Definitions flow in and out, in reading order** (one line).  The included resource is read with the definitions made
    before the `%include` line (`defs := st.defs` going in); after the line the includer has the events and the
    definitions the resource leaves behind (`sub.ctx`, `sub.defs` coming out), and its own open sections. -/
theorem C06_definitions_flow (fuel : Nat) (env : Env) (active : List Str) (url : Option Str) (line : Nat)
    (l arg a u : Str) (F : List Str) (st : PS (List Ev0))
    (hshape : lineShape l = .include_ arg)
    (hrep : replace env st.defs url line (strip arg) = .ok a)
    (hres : env.resolve url a = .url u) (hfile : env.res u = some F) (hact : u = [] ∨ u ∉ active) :
    outcome (stepLine (fuel + 1) env rec0 active url line l st) =
      (outcome (parseLines fuel env rec0 (u :: active) (some u) F 0 { ctx := st.ctx, stack := [], defs := st.defs })).map
        (fun r => (r.1, r.2.1, st.stack)) :=
  incgen_flow_step fuel env active url line l arg a u F st hshape hrep hres hfile hact

/-- **Definitions flow in and out, in reading order** (whole text).  `A`, then the `%include` line, then `B`: the fragment
    is read with the events and definitions `A` leaves; `B` is read with the events and definitions the fragment leaves,
    and the sections `A` left open. -/
theorem C06_definitions_flow_text (fuel : Nat) (env : Env) (active : List Str) (url : Option Str)
    (A F B : List Str) (inc arg u : Str) (n : Nat) (st : PS (List Ev0))
    (hshape : lineShape (strip inc) = .include_ arg)
    (hprep : ∀ sA, runLines (fuel + 1) env rec0 active url A n st = .ok sA →
      ∃ a, replace env sA.defs url (n + A.length + 1) (strip arg) = .ok a ∧ env.resolve url a = .url u)
    (hfile : env.res u = some F) (hact : u = [] ∨ u ∉ active) :
    outcome (parseLines (fuel + 1) env rec0 active url (A ++ [inc] ++ B) n st) =
      (runLines (fuel + 1) env rec0 active url A n st).toOption.bind fun sA =>
        (outcome (parseLines fuel env rec0 (u :: active) (some u) F 0
            { ctx := sA.ctx, stack := [], defs := sA.defs })).bind fun r =>
          outcome (parseLines (fuel + 1) env rec0 active url B (n + A.length + 1)
            { ctx := r.1, stack := sA.stack, defs := r.2.1 }) :=
  incgen_flow fuel env active url A F B inc arg u n st hshape hprep hfile hact

/-- `n` is defined before the `%include` and used two levels down (`j $y$n` in `d/g`); `y` is defined in the fragment and
    used after the `%include` (`i $y`) -/
example (fuel : Nat) :
    parseLines (fuel + 2) IncEx.env rec0 [] IncEx.ut (IncEx.A ++ ["%include $n".toList] ++ IncEx.B) 0 IncEx.s0 =
      .ok { ctx := [.value "j".toList "2f".toList, .value "i".toList "2".toList], stack := [], defs := IncEx.dny } :=
  IncEx.parse_top fuel

/-! ## The outcome of the LOAD (`Cfg.load`: parser + matcher + datatypes), not only the events

The theorems above are about the recording context `rec0`.  Below: what `ZConfig.loadConfig` returns.  Scope: texts
without `%import` (in `A`, `B` and in every resource that can be opened), no command-line overrides, any schema the schema
loader can produce (`schemaOK`, C10), any datatype family `conv`.  Outcomes are compared as "the configuration value, or
rejection" (`toOption.map (·.value)`): the two texts are not rejected with the same MESSAGE — an error inside the fragment
names the fragment's URL and line in one text and the includer's in the other (C08).

`Conf.activeOf url`: the resources being read when the parse starts — `[u₀]` if `url = some u₀` with `u₀ ≠ ""`, else `[]`;
`u ∉ Conf.activeOf url` says that the fragment is not the including resource itself.
`Conf.recSt0`: no events, no open section, no definitions. -/

/-- **The configuration is a function of the event stream.**  What `load` returns for a text is determined by the events
    the parser delivers (section starts and ends, key/value pairs — without positions): `load` accepts exactly when the
    parser accepts the text (`Conf.recOutcome`: the recording parse, with `load`'s fuel and active resources) and the
    schema gives the recorded events a value (`Conf.valueOfEvents`: rebuild the tree, take the schema's value `denote`), and
    then it returns that value.  Everything proved about events transfers to loads. -/
theorem C06_load_factors_through_events (conv : Conv) (env : Env) (pkgs : Str → Pkg) (s : Schema) (url : Option Str)
    (lines : List Str)
    (hs : Conf.schemaOK s = true)
    (hni : ∀ l ∈ lines, NoImportLine l)
    (hresNI : ∀ u ls, env.res u = some ls → ∀ l ∈ ls, NoImportLine l) :
    (load conv env pkgs s url lines []).toOption.map (·.value) =
      (Conf.recOutcome env url lines).bind (fun o => Conf.valueOfEvents conv s o.1) :=
  Conf.load_value_events conv env pkgs s url lines hs hni hresNI

/-- **Textual inclusion, for the load.**  `A`, `F`, `B` any lines with `F` balanced: replacing `F` by an `%include` line
    whose argument (no `$`) resolves, against the URL of the including resource, to a resource holding exactly `F`, gives
    the same configuration — or both texts are rejected.  At top level or inside any sections (`A` may leave sections open
    that `B` closes).  `F` contains no further `%include` (see `C06_load_include_eq_inline_nested`). -/
theorem C06_load_include_eq_inline (conv : Conv) (env : Env) (pkgs : Str → Pkg) (s : Schema) (url : Option Str)
    (A F B : List Str) (inc arg u : Str)
    (hs : Conf.schemaOK s = true)
    (hniA : ∀ l ∈ A, NoImportLine l) (hniB : ∀ l ∈ B, NoImportLine l)
    (hresNI : ∀ u ls, env.res u = some ls → ∀ l ∈ ls, NoImportLine l)
    (hshape : lineShape (strip inc) = .include_ arg)
    (hnodollar : '$' ∉ strip arg)
    (hres : env.resolve url (strip arg) = .url u)
    (hfile : env.res u = some F)
    (hact : u ∉ Conf.activeOf url)
    (hbal : Balanced F) (hni : NoInclude F) :
    (load conv env pkgs s url (A ++ [inc] ++ B) []).toOption.map (·.value) =
      (load conv env pkgs s url (A ++ F ++ B) []).toOption.map (·.value) :=
  Conf.load_include_eq_inline conv env pkgs s url A F B inc arg u hs hniA hniB hresNI hshape hfile hnodollar hres hact hbal hni

/-- the rejection half, spelled out: the text with the `%include` line is rejected iff the inlined text is -/
theorem C06_load_include_rejected_iff (conv : Conv) (env : Env) (pkgs : Str → Pkg) (s : Schema) (url : Option Str)
    (A F B : List Str) (inc arg u : Str)
    (hs : Conf.schemaOK s = true)
    (hniA : ∀ l ∈ A, NoImportLine l) (hniB : ∀ l ∈ B, NoImportLine l)
    (hresNI : ∀ u ls, env.res u = some ls → ∀ l ∈ ls, NoImportLine l)
    (hshape : lineShape (strip inc) = .include_ arg)
    (hnodollar : '$' ∉ strip arg)
    (hres : env.resolve url (strip arg) = .url u)
    (hfile : env.res u = some F)
    (hact : u ∉ Conf.activeOf url)
    (hbal : Balanced F) (hni : NoInclude F) :
    (∃ e, load conv env pkgs s url (A ++ [inc] ++ B) [] = .error e) ↔
      (∃ e, load conv env pkgs s url (A ++ F ++ B) [] = .error e) :=
  Conf.load_rejected_iff_of_value_eq
    (C06_load_include_eq_inline conv env pkgs s url A F B inc arg u hs hniA hniB hresNI hshape hnodollar hres hfile hact hbal hni)

/-- **Textual inclusion for the load, with references in the argument.**  `hprep`: with the definitions `A` leaves (the
    recording run of `A`: definitions do not depend on the context), the argument expands to some `a` that resolves,
    against the includer's URL, to `u`. -/
theorem C06_load_include_eq_inline_subst (conv : Conv) (env : Env) (pkgs : Str → Pkg) (s : Schema) (url : Option Str)
    (A F B : List Str) (inc arg u : Str)
    (hs : Conf.schemaOK s = true)
    (hniA : ∀ l ∈ A, NoImportLine l) (hniB : ∀ l ∈ B, NoImportLine l)
    (hresNI : ∀ u ls, env.res u = some ls → ∀ l ∈ ls, NoImportLine l)
    (hshape : lineShape (strip inc) = .include_ arg)
    (hprep : ∀ sA, runLines 64 env rec0 (Conf.activeOf url) url A 0 Conf.recSt0 = .ok sA →
      ∃ a, replace env sA.defs url (A.length + 1) (strip arg) = .ok a ∧ env.resolve url a = .url u)
    (hfile : env.res u = some F)
    (hact : u ∉ Conf.activeOf url)
    (hbal : Balanced F) (hni : NoInclude F) :
    (load conv env pkgs s url (A ++ [inc] ++ B) []).toOption.map (·.value) =
      (load conv env pkgs s url (A ++ F ++ B) []).toOption.map (·.value) :=
  Conf.load_include_eq_inline_subst conv env pkgs s url A F B inc arg u hs hniA hniB hresNI hshape hfile hprep hact hbal hni

/-- **Textual inclusion for the load, to any include depth.**  `F` may contain `%include` lines, to any depth.  Side
    conditions as in `C06_include_eq_inline_nested`: `hrel` — the `%include` lines of `F` resolve against the fragment's
    URL as against the includer's (same directory; otherwise inclusion is NOT textual: `IncEx.inlined_outside_fails`);
    `hnl` — the parser does not refuse the text with the `%include` line for want of recursion budget or for an include
    cycle (a statement about the parse only: it holds in particular whenever that text is accepted by the parser). -/
theorem C06_load_include_eq_inline_nested (conv : Conv) (env : Env) (pkgs : Str → Pkg) (s : Schema) (url : Option Str)
    (A F B : List Str) (inc arg u : Str)
    (hs : Conf.schemaOK s = true)
    (hniA : ∀ l ∈ A, NoImportLine l) (hniB : ∀ l ∈ B, NoImportLine l)
    (hresNI : ∀ u ls, env.res u = some ls → ∀ l ∈ ls, NoImportLine l)
    (hshape : lineShape (strip inc) = .include_ arg)
    (hprep : ∀ sA, runLines 64 env rec0 (Conf.activeOf url) url A 0 Conf.recSt0 = .ok sA →
      ∃ a, replace env sA.defs url (A.length + 1) (strip arg) = .ok a ∧ env.resolve url a = .url u)
    (hfile : env.res u = some F)
    (hact : u ∉ Conf.activeOf url)
    (hbal : Balanced F)
    (hrel : ∀ l ∈ F, ∀ arg', lineShape (strip l) = .include_ arg' → ∀ a, env.resolve (some u) a = env.resolve url a)
    (hnl : incgenNoLimit (parseLines 64 env rec0 (Conf.activeOf url) url (A ++ [inc] ++ B) 0 Conf.recSt0)) :
    (load conv env pkgs s url (A ++ [inc] ++ B) []).toOption.map (·.value) =
      (load conv env pkgs s url (A ++ F ++ B) []).toOption.map (·.value) :=
  Conf.load_include_eq_inline_nested conv env pkgs s url A F B inc arg u hs hniA hniB hresNI hshape hfile hprep hact hbal hrel hnl

/-- … and one of the two loads is rejected iff the other is -/
theorem C06_load_include_nested_rejected_iff (conv : Conv) (env : Env) (pkgs : Str → Pkg) (s : Schema) (url : Option Str)
    (A F B : List Str) (inc arg u : Str)
    (hs : Conf.schemaOK s = true)
    (hniA : ∀ l ∈ A, NoImportLine l) (hniB : ∀ l ∈ B, NoImportLine l)
    (hresNI : ∀ u ls, env.res u = some ls → ∀ l ∈ ls, NoImportLine l)
    (hshape : lineShape (strip inc) = .include_ arg)
    (hprep : ∀ sA, runLines 64 env rec0 (Conf.activeOf url) url A 0 Conf.recSt0 = .ok sA →
      ∃ a, replace env sA.defs url (A.length + 1) (strip arg) = .ok a ∧ env.resolve url a = .url u)
    (hfile : env.res u = some F)
    (hact : u ∉ Conf.activeOf url)
    (hbal : Balanced F)
    (hrel : ∀ l ∈ F, ∀ arg', lineShape (strip l) = .include_ arg' → ∀ a, env.resolve (some u) a = env.resolve url a)
    (hnl : incgenNoLimit (parseLines 64 env rec0 (Conf.activeOf url) url (A ++ [inc] ++ B) 0 Conf.recSt0)) :
    (∃ e, load conv env pkgs s url (A ++ [inc] ++ B) [] = .error e) ↔
      (∃ e, load conv env pkgs s url (A ++ F ++ B) [] = .error e) :=
  Conf.load_rejected_iff_of_value_eq
    (C06_load_include_eq_inline_nested conv env pkgs s url A F B inc arg u hs hniA hniB hresNI hshape hprep hfile hact hbal
      hrel hnl)

/-- in particular, with no side condition on limits: if `load` ACCEPTS the text with the `%include` line and returns `r`,
    it accepts the inlined text and returns the same configuration -/
theorem C06_load_include_eq_inline_nested_ok (conv : Conv) (env : Env) (pkgs : Str → Pkg) (s : Schema) (url : Option Str)
    (A F B : List Str) (inc arg u : Str) (r : LoadResult)
    (hs : Conf.schemaOK s = true)
    (hniA : ∀ l ∈ A, NoImportLine l) (hniB : ∀ l ∈ B, NoImportLine l)
    (hresNI : ∀ u ls, env.res u = some ls → ∀ l ∈ ls, NoImportLine l)
    (hshape : lineShape (strip inc) = .include_ arg)
    (hprep : ∀ sA, runLines 64 env rec0 (Conf.activeOf url) url A 0 Conf.recSt0 = .ok sA →
      ∃ a, replace env sA.defs url (A.length + 1) (strip arg) = .ok a ∧ env.resolve url a = .url u)
    (hfile : env.res u = some F)
    (hact : u ∉ Conf.activeOf url)
    (hbal : Balanced F)
    (hrel : ∀ l ∈ F, ∀ arg', lineShape (strip l) = .include_ arg' → ∀ a, env.resolve (some u) a = env.resolve url a)
    (hok : load conv env pkgs s url (A ++ [inc] ++ B) [] = .ok r) :
    (load conv env pkgs s url (A ++ F ++ B) []).toOption.map (·.value) = some r.value :=
  Conf.load_include_eq_inline_nested_ok conv env pkgs s url A F B inc arg u hs hniA hniB hresNI hshape hfile r hprep hact hbal
    hrel hok

/-- **… from the inlined text.**  The side condition is about the INLINED text: read by the parser with `u` counted among
    the resources being read and one unit of recursion budget less (63: the fragment sits one level deeper in the other
    text), it meets neither the recursion limit nor an include cycle.  Then the two texts are loaded alike. -/
theorem C06_load_include_eq_inline_nested_rev (conv : Conv) (env : Env) (pkgs : Str → Pkg) (s : Schema) (url : Option Str)
    (A F B : List Str) (inc arg u : Str)
    (hs : Conf.schemaOK s = true)
    (hniA : ∀ l ∈ A, NoImportLine l) (hniB : ∀ l ∈ B, NoImportLine l)
    (hresNI : ∀ u ls, env.res u = some ls → ∀ l ∈ ls, NoImportLine l)
    (hshape : lineShape (strip inc) = .include_ arg)
    (hprep : ∀ sA, runLines 63 env rec0 (u :: Conf.activeOf url) url A 0 Conf.recSt0 = .ok sA →
      ∃ a, replace env sA.defs url (A.length + 1) (strip arg) = .ok a ∧ env.resolve url a = .url u)
    (hfile : env.res u = some F)
    (hact : u ∉ Conf.activeOf url)
    (hbal : Balanced F)
    (hrel : ∀ l ∈ F, ∀ arg', lineShape (strip l) = .include_ arg' → ∀ a, env.resolve (some u) a = env.resolve url a)
    (hnl : incgenNoLimit (parseLines 63 env rec0 (u :: Conf.activeOf url) url (A ++ F ++ B) 0 Conf.recSt0)) :
    (load conv env pkgs s url (A ++ [inc] ++ B) []).toOption.map (·.value) =
      (load conv env pkgs s url (A ++ F ++ B) []).toOption.map (·.value) :=
  Conf.load_include_eq_inline_nested_rev conv env pkgs s url A F B inc arg u hs hniA hniB hresNI hshape hfile hprep hact hbal
    hrel hnl

/-- the hypotheses of `C06_load_include_eq_inline_nested` are satisfiable: `d/top` = `%define n f`, `%include $n`, `i $y`
    with `d/f` = `%define y 2`, `%include g` and `d/g` = `j $y$n`, loaded under the URL `d/top` with a schema that accepts
    any key — a reference in the argument, a nested `%include`, definitions flowing both ways; any datatypes -/
example (conv : Conv) (pkgs : Str → Pkg) :
    (load conv IncEx.env pkgs IncEx.schema IncEx.ut (IncEx.A ++ ["%include $n".toList] ++ IncEx.B) []).toOption.map (·.value) =
      (load conv IncEx.env pkgs IncEx.schema IncEx.ut (IncEx.A ++ IncEx.F ++ IncEx.B) []).toOption.map (·.value) :=
  IncEx.load_nested_instance conv pkgs

/-- … and the instance is not "both rejected": with datatypes that convert nothing, the inlined text is accepted with the
    configuration `{j: 2f, i: 2}` (derived from the theorem and the events of the text with the `%include` line) -/
example (pkgs : Str → Pkg) :
    (load IncEx.conv0 IncEx.env pkgs IncEx.schema IncEx.ut (IncEx.A ++ IncEx.F ++ IncEx.B) []).toOption.map (·.value) =
      some (.sect [] none [("m".toList, .map [("j".toList, .str "2f".toList), ("i".toList, .str "2".toList)])]) :=
  IncEx.load_inlined_value pkgs

end ZCV.Props.C06
