import ZCV.Lemmas.Include
/-!
# C06 — `%include` behaves as textual inclusion of a self-contained fragment
-/
namespace ZCV.Props.C06
open ZCV ZCV.Cfg

/-- **Textual inclusion.**  For any lines `A`, `F`, `B` with `F` balanced (never closes what it did not open, leaves
    nothing open): replacing `F` by an `%include` of a resource holding exactly `F` gives the same stream of events to
    the context (hence the same value tree for any context), the same `%define` mapping afterwards and the same open
    sections — or both texts are rejected.  At top level or inside any sections (`st` is arbitrary), for any include
    depth of the surrounding text (`fuel`, `active` arbitrary).
    Partial only in that `F` itself contains no further `%include` line (nested cuts are covered by applying the
    theorem from the inside out) and that the argument contains no `$`. -/
theorem C06_include_eq_inline (fuel : Nat) (env : Env) (active : List Str) (url : Option Str)
    (A F B : List Str) (inc arg u : Str) (n : Nat) (st : PS (List Ev0))
    (hshape : lineShape (strip inc) = .include_ arg)
    (hnodollar : '$' ∉ strip arg)
    (hres : env.resolve url (strip arg) = .url u)
    (hfile : env.res u = some F)
    (hu : u ≠ []) (hact : u ∉ active)
    (hbal : Balanced F) (hni : NoInclude F) :
    outcome (parseLines (fuel + 1) env rec0 active url (A ++ [inc] ++ B) n st) =
    outcome (parseLines (fuel + 1) env rec0 active url (A ++ F ++ B) n st) :=
  include_eq_inline fuel env active url A F B inc arg u n st hshape hnodollar hres hfile hu hact hbal hni

/-- a fragment that leaves a section open is rejected at its own end, whatever the includer looks like -/
theorem C06_unclosed_fragment_rejected {σ} (fuel : Nat) (env : Env) (c : PCtx σ) (active : List Str) (url : Option Str) (n : Nat)
    (st : PS σ) (h : st.stack ≠ []) :
    ∃ e, parseLines fuel env c active url [] n st = .error (.cfg e) ∧ e.kind = .syntax := by
  unfold parseLines
  simp only [bne_iff_ne, ne_eq, h, not_false_eq_true, ↓reduceIte]
  exact ⟨_, rfl, rfl⟩

/-- a fragment that closes a section it did not open is rejected inside the fragment -/
theorem C06_stray_close_rejected (fuel : Nat) (env : Env) (active : List Str) (url : Option Str)
    (F : List Str) (ty : Str) (n : Nat) (st : PS (List Ev0)) (hstack : st.stack = [])
    (h : ∃ l r, F = l :: r ∧ lineShape (strip l) = .close ty) :
    ∃ e, parseLines fuel env rec0 active url F n st = .error (.cfg e) ∧ e.kind = .syntax :=
  include_stray_close_rejected fuel env active url F ty n st hstack h

end ZCV.Props.C06
