import ZCV.Lemmas.Resources
import ZCV.Lemmas.Resources2Marks
/-!
# C19 — every resource opened during a load is closed, however the load ends
The model (`ZCV/Model/Resources.lean`) is the `with openResource(url) as r:` discipline of loader.py / schema.py over an
arbitrary resource graph with an arbitrary fault oracle; the check compares its traces with the real loader's.
-/
namespace ZCV.Props.C19
open ZCV ZCV.Res

/-- for every resource graph (any size, any depth) and every set of failing operations: resources are closed in reverse
    order of opening, none stays open when the call returns or raises, and each URL stream is closed before anything else
    is opened -/
theorem C19_all_closed (f : Pt → Bool) (r : Nat) (steps : List Step) : wb (runRes f r steps).1 [] = true :=
  run_wellBracketed f r steps

theorem C19_open_close_count (f : Pt → Bool) (r : Nat) (steps : List Step) :
    ((runRes f r steps).1.filter (fun e => match e with | .ropen _ => true | _ => false)).length =
    ((runRes f r steps).1.filter (fun e => match e with | .rclose _ => true | _ => false)).length :=
  run_open_close_count f r steps

/-- non-vacuity of the fault-free case: without faults the load completes -/
theorem C19_no_fault_ok (r : Nat) (steps : List Step) : (runRes (fun _ => false) r steps).2 = true :=
  run_no_fault_ok r steps

/-!
## Second model: resource graphs, schema loads, the loaders' state (`ZCV/Model/Resources2.lean`)

`Res2.run (faults : List Pt) (sc : Scenario) (st : LState) : Out` — `sc` = table of documents (configuration resources with
`%include` / `%import` lines; schema documents with an `extends` list, `<import src>`, `<import package>`; components), the
public call made and the recursion limit; `st` = `_active_urls`, the schema's components, the schema cache before the call;
the result = events (with parse steps), returned / raised, the state afterwards.
-/
section second
open ZCV.Res2

/-- For every table of resources (include cycles, schemas extending or importing themselves, several bases, diamonds, repeated
    imports, missing or ill-typed members), every entry point (`loadURL` / `loadFile` of a configuration or of a schema), every set
    of failing operations (any `urlopen`, `read`, `decode`, any step of any parser, `sm.finish()`), every recursion limit and every
    prior state of the loader: when the call returns or raises, the `Resource` objects were closed in reverse order of opening and
    none is open; each URL stream was closed by the event right after its opening; and a parser step of a resource happened only
    while that resource was the innermost open one. -/
theorem C19_all_closed2 (faults : List Pt) (sc : Scenario) (st : LState) : Res2.wb (run faults sc st).evs [] = true :=
  run_wb faults sc st

/-- the same about the events the harness records on the real objects (parse steps dropped), with the checker of the first model -/
theorem C19_all_closed2_io (faults : List Pt) (sc : Scenario) (st : LState) :
    Res.wb (ioTrace (run faults sc st).evs) [] = true :=
  ioTrace_wb _ _ (run_wb faults sc st)

/-- "the underlying URL stream is closed as soon as its content has been read": whenever any parser starts a step (step `k` of
    resource `r`), every URL stream opened so far — that of `r` (`r' = r`) and any other — has been closed: up to that point it
    was opened exactly as often as closed.  In particular the stream of `r` is closed before the first parse step of `r`. -/
theorem C19_stream_closed_before_parse (faults : List Pt) (sc : Scenario) (st : LState)
    (pre post : List Res2.Ev) (r k r' : Nat) (h : (run faults sc st).evs = pre ++ .parse r k :: post) :
    pre.count (.sopen r') = pre.count (.sclose r') :=
  wb_streams_closed_at_parse r k post r' pre [] (h ▸ run_wb faults sc st)

/-- … and nothing at all happens between the opening of a URL stream and its closing: the next event is `sclose` (on success
    of `read()` and on its failure — the `try/finally` of `openResource`) -/
theorem C19_stream_closed_at_once (faults : List Pt) (sc : Scenario) (st : LState)
    (pre post : List Res2.Ev) (r : Nat) (h : (run faults sc st).evs = pre ++ .sopen r :: post) :
    ∃ post', post = .sclose r :: post' :=
  wb_stream_closed_next r post pre [] (h ▸ run_wb faults sc st)

/-- `_active_urls` after the call is what it was before the call, however the call ended (returned, refused an include cycle,
    failed at any point in any resource, ran out of stack): the `finally` of `_parse_resource` pops what was pushed, and the
    cycle check raises before anything is pushed. -/
theorem C19_active_restored (faults : List Pt) (sc : Scenario) (st : LState) : (run faults sc st).st.active = st.active :=
  (runRes_keeps _ sc.docs sc.limit _ _ st).active

/-- However the call ended, the only things left in the loader are additions at the end of the component list and of the schema
    cache (`List.IsPrefix`); `_active_urls` is as before. -/
theorem C19_state_only_grows (faults : List Pt) (sc : Scenario) (st : LState) :
    (run faults sc st).st.active = st.active ∧ st.comps <+: (run faults sc st).st.comps ∧ st.cache <+: (run faults sc st).st.cache :=
  let h := runRes_keeps _ sc.docs sc.limit _ _ st
  ⟨h.active, h.comps, h.cache⟩

/-- a schema load (`SchemaLoader.loadURL` / `loadFile`) never touches the component list it was started with: components go to
    the schema object being built -/
theorem C19_schema_load_keeps_comps (faults : List Pt) (docs : List (Nat × Doc)) (limit : Nat) (file : Bool) (r : Nat) (st : LState) :
    (run faults { docs := docs, entry := if file then .schemaFile r else .schemaURL r, limit := limit } st).st.comps = st.comps := by
  cases file <;> exact runRes_load_comps _ docs limit _ r st

/-- "A failed load leaves nothing behind", PARTIAL: for a configuration load in which no `%import` line names a component the
    loader's schema does not have yet (in particular: no `%import` at all), the loader's whole state after the call — returned
    or raised, any fault set — is the state before the call.
    MISSING for the full statement `(run faults sc st).st = st`: loads that `%import` a new component (on success the component
    is legitimately recorded; for failures see `C19_failed_load_restores_partial` and its counterexample) and schema loads (the
    cache of the `SchemaLoader` grows, also when the load fails after a nested `<import src>` returned). -/
theorem C19_state_restored_partial (faults : List Pt) (sc : Scenario) (st : LState)
    (hentry : sc.entry.mode = .top false ∨ sc.entry.mode = .top true) (himp : ImportsKnown sc.docs st.comps) :
    (run faults sc st).st = st := by
  unfold run
  rcases hentry with h | h <;> rw [h] <;> exact runRes_top_fix _ sc.docs st.comps himp sc.limit _ _ st rfl

/-- … hence a later load by the same loader object behaves exactly as it would have without the earlier call (same events, same
    outcome, same state), whatever the later load is -/
theorem C19_later_load_unaffected_partial (faults : List Pt) (sc : Scenario) (st : LState)
    (hentry : sc.entry.mode = .top false ∨ sc.entry.mode = .top true) (himp : ImportsKnown sc.docs st.comps)
    (faults2 : List Pt) (sc2 : Scenario) :
    run faults2 sc2 (run faults sc st).st = run faults2 sc2 st := by
  rw [C19_state_restored_partial faults sc st hentry himp]

/-- the hypotheses of the two theorems above hold for a non-trivial load: an include cycle -/
example : let sc : Scenario := { docs := [(0, .cfg [.work, .incl 1, .work]), (1, .cfg [.work, .incl 0])], entry := .cfgURL 0 }
    (sc.entry.mode = .top false ∨ sc.entry.mode = .top true) ∧ ImportsKnown sc.docs [] ∧ (run [] sc {}).ok = false := by
  refine ⟨Or.inl rfl, ?_, by decide⟩
  intro r lines c h hc
  have hm := mem_of_lookup h
  simp only [List.mem_cons, Prod.mk.injEq, Doc.cfg.injEq, List.mem_nil_iff, or_false] at hm
  rcases hm with ⟨_, rfl⟩ | ⟨_, rfl⟩ <;> simp at hc

/-- configuration 0 = `%import pkg` (component 7) then a key; the component's second element is malformed -/
def importScenario : Scenario := { docs := [(0, .cfg [.imp 7, .work]), (7, .comp [.work, .work])], entry := .cfgURL 0 }

/-- The repaired `importSchemaComponent` (commit 7f61532): a `%import` line that fails — the component cannot be opened, any of
    its elements is bad, a nested `<import>` fails at any depth, the stack overflows — leaves the component marks exactly as
    they were before that line (its own mark and the marks made by nested `<import package>`), whatever the nested calls do. -/
theorem C19_failed_import_restores (rec : Rec) (c : Nat) (st : LState) (h : (cfgLine rec (.imp c) st).ok = false) :
    (cfgLine rec (.imp c) st).st.comps = st.comps :=
  cfgLine_imp_failed rec c st h

/-- the former counterexample (`C19_state_restored_fails_with_import` against the code before the repair) is gone: the failed
    load leaves the loader as it was, and the later load on the same loader equals the load on a fresh one -/
example : (run [.step 7 1] importScenario {}).ok = false ∧ (run [.step 7 1] importScenario {}).st = {} ∧
    run [] importScenario (run [.step 7 1] importScenario {}).st = run [] importScenario {} ∧
    Res2.Ev.ropen 7 ∈ (run [] importScenario {}).evs := by
  decide

/-- Every mark a call leaves — it returned or raised, any entry, any fault set — was there before the call or belongs to a
    component that was read to the end: some `with openResource(component)` block on it returned under this fault oracle.
    (Before the repair a mark could belong to a component that was never, or only partly, read.) -/
theorem C19_marks_justified (faults : List Pt) (sc : Scenario) (st : LState) :
    ∀ c ∈ (run faults sc st).st.comps,
      c ∈ st.comps ∨ ∃ n st0, (runRes (fun p => faults.contains p) sc.docs n .comp c st0).ok = true :=
  run_marks_justified faults sc st

/-- "A failed load leaves `_active_urls` and the component marks as they were", PARTIAL.  Proved for every entry and fault set:
    after a failed call `_active_urls` is as before; the marks are as before for schema loads, and for configuration loads they
    are the old ones followed by marks of components read to the end.
    MISSING for the full statement `ok = false → comps = st.comps`: it is FALSE for configuration loads in which an earlier
    `%import` line (or a `%import` in an included resource that was completed) returned before the failure: `saved` undoes the
    failing import only — see `C19_failed_load_restores_fails_after_successful_import`. -/
theorem C19_failed_load_restores_partial (faults : List Pt) (sc : Scenario) (st : LState) (_h : (run faults sc st).ok = false) :
    (run faults sc st).st.active = st.active ∧
    ((sc.entry.mode = .load false ∨ sc.entry.mode = .load true) → (run faults sc st).st.comps = st.comps) ∧
    st.comps <+: (run faults sc st).st.comps ∧
    ∀ c ∈ (run faults sc st).st.comps,
      c ∈ st.comps ∨ ∃ n st0, (runRes (fun p => faults.contains p) sc.docs n .comp c st0).ok = true := by
  refine ⟨(runRes_keeps _ sc.docs sc.limit _ _ st).active, ?_, (runRes_keeps _ sc.docs sc.limit _ _ st).comps,
    run_marks_justified faults sc st⟩
  intro hm
  unfold run
  rcases hm with hm | hm <;> rw [hm] <;> exact runRes_load_comps _ sc.docs sc.limit _ _ st

/-- configuration 0 = `%import` of component 7 (fine), then `%import` of component 8, which imports component 9 and
    `<import src=5>` and then has a malformed element -/
def twoImports : Scenario :=
  { docs := [(0, .cfg [.imp 7, .imp 8]), (7, .comp [.work]), (8, .comp [.importPkg 9, .importSrc 5, .work]), (9, .comp []),
             (5, .schema [] [])], entry := .cfgURL 0 }

/-- COUNTEREXAMPLE to `ok = false → comps = st.comps`, and what remains of "a failed load leaves nothing behind" after the repair:
    the load fails in the second `%import`; the marks of 8 and of the nested 9 are taken back, the mark of 7 — imported by an
    earlier line of the same failed load — stays in the loader (so do its section types), and schema 5 stays in the private
    loader's cache.  A later load on the same loader therefore does not open component 7 again.
    (Same on the real code: after `%import good` / `%import bad` fails, `ld.schema` has type `good` and its mark, and a later
    load on that loader accepts `<good>` sections without any `%import`.  This is the state a successful load leaves as well.) -/
theorem C19_failed_load_restores_fails_after_successful_import :
    let failed := run [.step 8 2] twoImports {}
    failed.ok = false ∧ failed.st.active = [] ∧ failed.st.comps = [7] ∧ failed.st.cache = [5] ∧
    Res2.Ev.ropen 9 ∈ failed.evs ∧
    (run [] twoImports failed.st).ok = true ∧ Res2.Ev.ropen 7 ∉ (run [] twoImports failed.st).evs ∧
    (run [] twoImports failed.st).st.comps = [7, 8, 9] := by
  decide

/-- What a configuration load that RETURNS has added: every component named by a `%import` line of the top resource is marked
    (and by `C19_marks_justified` nothing is marked that was not read to the end; by `C19_state_only_grows` the old marks and
    cache entries are kept, in order). -/
theorem C19_ok_config_load_marks_imports (faults : List Pt) (sc : Scenario) (st : LState) (h : (run faults sc st).ok = true)
    (hentry : sc.entry.mode = .top false ∨ sc.entry.mode = .top true)
    (lines : List CStep) (hdoc : lookup sc.docs sc.entry.res = some (.cfg lines)) (c : Nat) (hc : CStep.imp c ∈ lines) :
    c ∈ (run faults sc st).st.comps := by
  unfold run at h ⊢
  rcases hentry with hm | hm <;> rw [hm] at h ⊢ <;> exact runRes_top_marks _ sc.docs sc.limit _ _ st lines hdoc c hc h

/-- What a schema load that RETURNS has added: the schema is in the loader's cache (its component list is untouched:
    `C19_schema_load_keeps_comps`). -/
theorem C19_ok_schema_load_cached (faults : List Pt) (sc : Scenario) (st : LState) (h : (run faults sc st).ok = true)
    (hentry : sc.entry.mode = .load false ∨ sc.entry.mode = .load true) :
    sc.entry.res ∈ (run faults sc st).st.cache := by
  unfold run at h ⊢
  rcases hentry with hm | hm <;> rw [hm] at h ⊢ <;> exact runRes_load_cached _ sc.docs sc.limit _ _ st h

/-- "The verdict does not depend on the schema cache", PARTIAL: without faults, for a scenario in which nothing can go wrong
    (`Sound`: every reference exists, is of the right kind, no cycles, enough stack) the load returns whatever the cache holds.
    MISSING for the full statement (`ok` independent of `st.cache` for all faults and scenarios): it is FALSE —
    `C19_cache_relevant_with_faults`, `C19_cache_relevant_without_faults`.  A true general statement needs a cache that is
    consistent with the documents and the oracle (every entry would load again) and stack for the parse the cache saves;
    that replay argument is not proved here. -/
theorem C19_cache_irrelevant_to_outcome_partial (sc : Scenario) (rank : Nat → Nat) (hs : Sound sc rank) (st : LState)
    (hact : st.active = []) (cache1 cache2 : List Nat) :
    (run [] sc { st with cache := cache1 }).ok = (run [] sc { st with cache := cache2 }).ok := by
  exact (run_ok sc rank hs { st with cache := cache1 } hact).trans (run_ok sc rank hs { st with cache := cache2 } hact).symm

/-- schema 0 = `<import src=5>`, schema 5 = one element -/
def importSrcScenario : Scenario := { docs := [(0, .schema [] [.importSrc 5]), (5, .schema [] [.work])], entry := .schemaURL 0 }

/-- COUNTEREXAMPLE 1: the first element of schema 5 fails under the oracle.  With 5 in the cache (loaded by an earlier call
    under another oracle: the document was changed since, or the failure is transient) it is opened but not parsed and the
    load returns; with an empty cache the load fails.  Same events in both cases. -/
theorem C19_cache_relevant_with_faults :
    (run [.step 5 0] importSrcScenario {}).ok = false ∧ (run [.step 5 0] importSrcScenario { cache := [5] }).ok = true ∧
    ioTrace (run [.step 5 0] importSrcScenario {}).evs = ioTrace (run [.step 5 0] importSrcScenario { cache := [5] }).evs := by
  decide

/-- COUNTEREXAMPLE 2, no faults: resource 5 is not a schema (or: has a missing base, or imports itself); a cache that claims
    to hold it — which no load of these documents could have produced — turns failure into success. -/
theorem C19_cache_relevant_without_faults :
    let sc : Scenario := { docs := [(0, .schema [] [.importSrc 5]), (5, .cfg [])], entry := .schemaURL 0 }
    (run [] sc {}).ok = false ∧ (run [] sc { cache := [5] }).ok = true := by
  decide

/-- Without faults the load completes, PROVIDED nothing else can go wrong: the entry resource exists and is of the kind the
    call expects; every reference (`%include`, `%import`, `extends`, `<import>`) goes to an existing resource of the right kind
    and of smaller `rank` (no cycles: ZConfig refuses include cycles and overflows the stack on schema cycles); the nesting
    stays below the recursion limit; no load is in progress in the loader.  (Non-vacuity of the fault-free case.) -/
theorem C19_no_fault_ok2 (sc : Scenario) (rank : Nat → Nat) (hs : Sound sc rank) (st : LState) (hact : st.active = []) :
    (run [] sc st).ok = true :=
  run_ok sc rank hs st hact

/-- the hypotheses of `C19_no_fault_ok2` hold for: a schema with two bases (one of them with a base of its own, shared),
    a component imported by two members, an `<import src>` -/
example : Sound { docs := [(0, .schema [1, 2] [.importPkg 7, .work, .importSrc 5]), (1, .schema [3] [.work]), (2, .schema [3] [.importPkg 7]),
                           (3, .schema [] []), (5, .schema [] [.importPkg 7]), (7, .comp [.work])],
                  entry := .schemaURL 0 } (fun r => 7 - r) :=
  sound_of_soundB (by decide)
/-- … and for a configuration with includes (a diamond) and an `%import` -/
example : Sound { docs := [(0, .cfg [.incl 1, .imp 7, .incl 2]), (1, .cfg [.incl 3]), (2, .cfg [.incl 3, .imp 7]), (3, .cfg [.work]),
                           (7, .comp [.work])],
                  entry := .cfgFile 0 } (fun r => 7 - r) :=
  sound_of_soundB (by decide)

/-!
### Examples (for the driver op; `brief` = ok?, (active, comps, cache) afterwards, recorded events so/sc = stream open/close, ro/rc = Resource open/close)

    def brief (o : Out) : Bool × (List Nat × List Nat × List Nat) × List String :=
      (o.ok, (o.st.active, o.st.comps, o.st.cache), (ioTrace o.evs).map fun
        | .sopen r => s!"so{r}" | .sclose r => s!"sc{r}" | .ropen r => s!"ro{r}" | .rclose r => s!"rc{r}")
    def cyc : Scenario := { docs := [(0, .cfg [.work, .incl 1, .work]), (1, .cfg [.work, .incl 0])], entry := .cfgURL 0 }
    def twoBases : Scenario := { docs := [(0, .schema [1, 2] [.work]), (1, .schema [] [.work]), (2, .schema [] [.work])], entry := .schemaURL 0 }
    def compTwice : Scenario := { docs := [(0, .schema [] [.importPkg 7, .work, .importPkg 7]), (7, .comp [.work])], entry := .schemaURL 0 }
    def srcTwice : Scenario := { docs := [(0, .schema [] [.importSrc 5, .importSrc 5]), (5, .schema [] [.work])], entry := .schemaURL 0 }
    def cfgImport : Scenario := { docs := [(0, .cfg [.imp 7, .work]), (7, .comp [.work, .importSrc 5]), (5, .schema [] [.work])], entry := .cfgURL 0 }
    def selfExt : Scenario := { docs := [(0, .schema [0] [])], entry := .schemaURL 0, limit := 3 }
    def diamond : Scenario := { docs := [(0, .cfg [.incl 1, .incl 2]), (1, .cfg [.incl 3]), (2, .cfg [.incl 3]), (3, .cfg [.work])], entry := .cfgFile 0 }

    -- 1. include cycle 0 → 1 → 0: the inner 0 is opened, refused, closed
    #eval brief (run [] cyc {})                 -- (false, ([], [], []), [so0, sc0, ro0, so1, sc1, ro1, so0, sc0, ro0, rc0, rc1, rc0])
    -- 2. extends="1 2": base 2 is read first, then base 1
    #eval brief (run [] twoBases {})            -- (true, ([], [], [0]), [so0, sc0, ro0, so2, sc2, ro2, rc2, so1, sc1, ro1, rc1, rc0])
    -- 3. the second base in the document (read first) cannot be opened
    #eval brief (run [.urlopen 2] twoBases {})  -- (false, ([], [], []), [so0, sc0, ro0, rc0])
    -- 4. the second base to be read (first in the document) cannot be opened: base 2 was read and closed before
    #eval brief (run [.urlopen 1] twoBases {})  -- (false, ([], [], []), [so0, sc0, ro0, so2, sc2, ro2, rc2, rc0])
    -- 5. component imported twice by one schema: opened once (package resources have no URL stream)
    #eval brief (run [] compTwice {})           -- (true, ([], [], [0]), [so0, sc0, ro0, ro7, rc7, rc0])
    -- 6. <import src=5> twice: opened twice, parsed once (second time served from `_cache`)
    #eval brief (run [] srcTwice {})            -- (true, ([], [], [5, 0]), [so0, sc0, ro0, so5, sc5, ro5, rc5, so5, sc5, ro5, rc5, rc0])
    -- 7. %import whose component fails at its 2nd element: the mark is taken back (repaired code) …
    #eval brief (run [.step 7 1] cfgImport {})  -- (false, ([], [], []), [so0, sc0, ro0, ro7, rc7, rc0])
    -- 8. … the same loader imports it in the next load exactly as 9. a fresh loader does
    #eval brief (run [] cfgImport (run [.step 7 1] cfgImport {}).st)   -- (true, ([], [7], [5]), [so0, sc0, ro0, ro7, so5, sc5, ro5, rc5, rc7, rc0])
    #eval brief (run [] cfgImport {})           -- (true, ([], [7], [5]), [so0, sc0, ro0, ro7, so5, sc5, ro5, rc5, rc7, rc0])
    -- 9a. the component fails at its end, after its <import src=5> returned: mark taken back, schema 5 stays cached
    #eval brief (run [.step 7 2] cfgImport {})  -- (false, ([], [], [5]), [so0, sc0, ro0, ro7, so5, sc5, ro5, rc5, rc7, rc0])
    -- 9b. (twoImports, see above) first %import fine, second fails after a nested <import package=9> and <import src=5>:
    --     marks of 8 and 9 taken back, mark of 7 stays, 5 stays cached; 9c. the next load on that loader skips 7
    #eval brief (run [.step 8 2] twoImports {}) -- (false, ([], [7], [5]), [so0, sc0, ro0, ro7, rc7, ro8, ro9, rc9, so5, sc5, ro5, rc5, rc8, rc0])
    #eval brief (run [] twoImports (run [.step 8 2] twoImports {}).st)  -- (true, ([], [7, 8, 9], [5]), [so0, sc0, ro0, ro8, ro9, rc9, so5, sc5, ro5, rc5, rc8, rc0])
    -- 10. a schema that extends itself, recursion limit 3: RecursionError, everything closed
    #eval brief (run [] selfExt {})             -- (false, ([], [], []), [so0, sc0, ro0, so0, sc0, ro0, so0, sc0, ro0, rc0, rc0, rc0])
    -- 11. loadFile (no stream for 0), diamond 0 → 1 → 3, 0 → 2 → 3; read() of 3 fails
    #eval brief (run [.read 3] diamond {})      -- (false, ([], [], []), [ro0, so1, sc1, ro1, so3, sc3, rc1, rc0])
    -- 12. a resource that does not exist
    #eval brief (run [] { cyc with entry := .cfgURL 9 } {})            -- (false, ([], [], []), [])
    -- with parse steps:
    #eval (run [.step 1 0] cyc {}).evs  -- [sopen 0, sclose 0, ropen 0, parse 0 0, parse 0 1, sopen 1, sclose 1, ropen 1, parse 1 0, rclose 1, rclose 0]

Some of them, checked: -/

example : ioTrace (run [] { docs := [(0, .cfg [.work, .incl 1, .work]), (1, .cfg [.work, .incl 0])], entry := .cfgURL 0 } {}).evs =
    [.sopen 0, .sclose 0, .ropen 0, .sopen 1, .sclose 1, .ropen 1, .sopen 0, .sclose 0, .ropen 0, .rclose 0, .rclose 1, .rclose 0] := by
  decide
example : ioTrace (run [.urlopen 1] { docs := [(0, .schema [1, 2] [.work]), (1, .schema [] [.work]), (2, .schema [] [.work])],
                                      entry := .schemaURL 0 } {}).evs =
    [.sopen 0, .sclose 0, .ropen 0, .sopen 2, .sclose 2, .ropen 2, .rclose 2, .rclose 0] := by
  decide
example : ioTrace (run [] { docs := [(0, .schema [] [.importPkg 7, .work, .importPkg 7]), (7, .comp [.work])], entry := .schemaURL 0 } {}).evs =
    [.sopen 0, .sclose 0, .ropen 0, .ropen 7, .rclose 7, .rclose 0] := by
  decide
example : (run [] { docs := [(0, .schema [0] [])], entry := .schemaURL 0, limit := 3 } {}).ok = false := by decide

end second

end ZCV.Props.C19
