import ZCV.Lemmas.Resources
/-!
# C19 — every resource opened during a load is closed, however the load ends
The model (`ZCV/Model/Resources.lean`) is the `with openResource(url) as r:` discipline of loader.py / schema.py over an
arbitrary resource graph with an arbitrary fault oracle; the check compares its traces with the real loader's.
-/
namespace ZCV.Props.C19
open ZCV ZCV.Res

/-- for every resource graph (any size, any depth) and every set of failing operations: resources are closed in reverse
    order of opening, none stays open when the call returns or raises, and each URL stream is closed before anything else
    is opened -/
theorem C19_all_closed (f : Pt → Bool) (r : Nat) (steps : List Step) : wb (runRes f r steps).1 [] = true :=
  run_wellBracketed f r steps

theorem C19_open_close_count (f : Pt → Bool) (r : Nat) (steps : List Step) :
    ((runRes f r steps).1.filter (fun e => match e with | .ropen _ => true | _ => false)).length =
    ((runRes f r steps).1.filter (fun e => match e with | .rclose _ => true | _ => false)).length :=
  run_open_close_count f r steps

/-- non-vacuity of the fault-free case: without faults the load completes -/
theorem C19_no_fault_ok (r : Nat) (steps : List Step) : (runRes (fun _ => false) r steps).2 = true :=
  run_no_fault_ok r steps

end ZCV.Props.C19
