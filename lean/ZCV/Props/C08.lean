import ZCV.Lemmas.Misc
import ZCV.Model.Matcher
import ZCV.Lemmas.PositionLoader
import ZCV.Lemmas.PositionEx
import ZCV.Lemmas.PositionExLoader
/-!
C08 — a rejected configuration names the resource and line that caused the rejection.

Per-site facts first (`synErr`, `keyValue`, `closeFixup`), then the whole-parse theorems: every failing parse has exactly one
culprit line (`Culprit`, through `%include`s at any depth), the error comes from one of the sites listed in `LineErr` at that
line, and it carries the culprit's number and resource — with the exact list of exceptions.  Definitions are in
`ZCV/Lemmas/Position*.lean`.
-/
namespace ZCV.Props.C08
open ZCV ZCV.Cfg

/-! ## single sites -/

/-- every syntax error the parser itself raises names the line it is processing and the resource's URL -/
theorem C08_synErr_position (url : Option Str) (line : Nat) (tag : String) :
    ∃ e, synErr url line tag = .cfg e ∧ e.line = some (line : Int) ∧ e.url = url ∧ e.kind = .syntax :=
  ⟨_, rfl, rfl, rfl, rfl⟩


/-- a configuration error raised while handling a key line always leaves with a line number … -/
theorem C08_key_line_error_has_line {σ} (env : Env) (c : PCtx σ) (url : Option Str) (line : Nat) (key raw : Str) (st : PS σ)
    (e : Err) (h : keyValue env c url line key raw st = .error (.cfg e)) : e.line ≠ none :=
  keyValue_error_has_line env c url line key raw st e h

/-- … namely this line of this resource whenever the error itself brought no position (unknown key, repeated key,
    undefined or malformed substitution) -/
theorem C08_key_line_error_position {σ} (env : Env) (c : PCtx σ) (url : Option Str) (line : Nat) (key raw : Str) (st : PS σ)
    (hc : ∀ v e', c.value st.ctx key v { line := line, url := url } = .error (.cfg e') → e'.line = none ∧ e'.url = none)
    (e : Err) (h : keyValue env c url line key raw st = .error (.cfg e)) :
    e.line = some (line : Int) ∧ e.url = url :=
  keyValue_error_position env c url line key raw st hc e h

/-- the closing line (either spelling of the section) always gives the error a line number -/
theorem C08_close_error_has_line {σ} (url : Option Str) (line : Nat) (r : M σ) (e : Err)
    (h : closeFixup url line r = .error (.cfg e)) : e.line ≠ none :=
  closeFixup_error_has_line url line r e h

/-! ## whole parses: the culprit line -/

/-- Every failing parse — whatever the context, the lines, the nesting of `%include`s — fails at exactly one place: there is
    a resource `u`, a 1-based line number `n` in it and the parser state `sF` in which that line is read such that
    `Culprit … f u n sF` holds, and any two such descriptions coincide.  (`Culprit` walks down the lines: lines that succeed
    are passed, an `%include` that has opened its resource is entered and lines are counted from 1 again, the first line that
    fails otherwise is the culprit; the end of a resource with sections still open counts as its last line.) -/
theorem C08_failing_parse_has_unique_culprit {σ} (fuel : Nat) (env : Env) (c : PCtx σ) (active : List Str) (url : Option Str)
    (lines : List Str) (lineno : Nat) (st : PS σ) (f : Fail) :
    parseLines fuel env c active url lines lineno st = .error f ↔
      ∃ u n sF, Culprit env c fuel active url lines lineno st f u n sF ∧
        ∀ f' u' n' sF', Culprit env c fuel active url lines lineno st f' u' n' sF' → f' = f ∧ u' = u ∧ n' = n ∧ sF' = sF := by
  constructor
  · intro h
    obtain ⟨u, n, sF, hc⟩ := culprit_complete env c fuel active url lines lineno st f h
    refine ⟨u, n, sF, hc, fun f' u' n' sF' hc' => ?_⟩
    obtain ⟨h1, h2, h3, h4⟩ := culprit_unique hc hc'
    exact ⟨h1.symm, h2.symm, h3.symm, h4.symm⟩
  · rintro ⟨u, n, sF, hc, _⟩
    exact culprit_sound hc

/-- the instance of `ZCV/Lemmas/PositionEx.lean`: the main resource `m` includes `x` on its line 2, and line 2 of `x` is a key
    line the context refuses without giving a position: the culprit is line 2 of `x` -/
example : Culprit PosEx.env PosEx.ctx 1 [['m']] (some ['m']) PosEx.main 0 PosEx.st0 (.cfg PosEx.err) (some ['x']) 2
    (subState PosEx.st0) := PosEx.culprit

/-- The culprit lies in the resource being read or in a resource reached from it through `%include`, and its number lies within
    that resource (for the resource being read: among the lines still to be read, `lineno + 1 … lineno + #lines`, or
    `lineno + #lines` for the end of the resource). -/
theorem C08_culprit_in_this_or_included_resource {σ} {env : Env} {c : PCtx σ} {fuel : Nat} {active : List Str}
    {url : Option Str} {lines : List Str} {lineno : Nat} {st : PS σ} {f : Fail} {u : Option Str} {n : Nat} {sF : PS σ}
    (h : Culprit env c fuel active url lines lineno st f u n sF) :
    Reach env url u ∧
      ((u = url ∧ lineno ≤ n ∧ n ≤ lineno + lines.length) ∨
       (∃ u' L, u = some u' ∧ env.res u' = some L ∧ n ≤ L.length)) :=
  culprit_where h

/-- The culprit in terms of line indices (`firstBad` = index of the first line of *this* resource whose processing fails):
    if all lines are processed the parse can only fail at the end of the resource ("unclosed sections"); otherwise the first
    failing line `k` (numbered `lineno + k + 1`) is the culprit, unless it is an `%include` that has opened its resource — then
    the culprit is the culprit of the parse of that resource, which starts counting at 1. -/
theorem C08_culprit_by_index {σ} {env : Env} {c : PCtx σ} {fuel : Nat} {active : List Str} {url : Option Str}
    {lines : List Str} {lineno : Nat} {st : PS σ} {f : Fail} {u : Option Str} {n : Nat} {sF : PS σ}
    (h : Culprit env c fuel active url lines lineno st f u n sF) :
    (firstBad fuel env c active url lines lineno st = none ∧
        f = synErr url (lineno + lines.length) "unclosed sections" ∧ u = url ∧ n = lineno + lines.length) ∨
    (∃ k l st', firstBad fuel env c active url lines lineno st = some k ∧ lines[k]? = some l ∧
        runLines fuel env c active url (lines.take k) lineno st = .ok st' ∧
        ((u = url ∧ n = lineno + k + 1 ∧ sF = st' ∧
            (∀ fuel' u1 sub, ¬ Enters fuel env c active url (lineno + k + 1) (strip l) st' fuel' u1 sub) ∧
            stepLine fuel env c active url (lineno + k + 1) (strip l) st' = .error f) ∨
         (∃ fuel' u1 sub, Enters fuel env c active url (lineno + k + 1) (strip l) st' fuel' u1 sub ∧
            Culprit env c fuel' (u1 :: active) (some u1) sub 0 (subState st') f u n sF))) := by
  cases hfb : firstBad fuel env c active url lines lineno st with
  | none =>
    obtain ⟨h1, h2, h3, _⟩ := culprit_of_firstBad_none h hfb
    exact .inl ⟨rfl, h1, h2, h3⟩
  | some k =>
    obtain ⟨l, st', h1, h2, h3⟩ := culprit_of_firstBad_some h hfb
    exact .inr ⟨k, l, st', rfl, h1, h2, h3⟩

/-! ## whole parses: the origin and the position of the error -/

/-- A configuration error that ends a parse was raised at the culprit line by one of five sites (`LineErr`): the parser itself
    (syntax, directive and substitution errors, header errors turned into syntax errors, missing/surplus items found on the
    closing line, unclosed sections), `addValue` (fixed up), `endSection` with a conversion error (fixed up),
    `importSchemaComponent` (untouched), or the refusal of an `%include` before its resource is read. -/
theorem C08_error_origin {σ} {env : Env} {c : PCtx σ} {fuel : Nat} {active : List Str} {url : Option Str} {lines : List Str}
    {lineno : Nat} {st : PS σ} {e : Err} {u : Option Str} {n : Nat} {sF : PS σ}
    (h : Culprit env c fuel active url lines lineno st (.cfg e) u n sF) : LineErr c u n sF e :=
  culprit_lineErr h

/-- **Exceptions, exactly.**  Whatever the context does, a configuration error that ends a parse carries a non-negative line
    number, unless it was raised by `importSchemaComponent` (`%import` of an unknown package …: the context's error passes
    through untouched) or it is the refusal of an `%include` (fragment identifier, resource that cannot be opened, resource
    that includes itself: plain errors without line). -/
theorem C08_error_line_or_exception {σ} (fuel : Nat) (env : Env) (c : PCtx σ) (active : List Str) (url : Option Str)
    (lines : List Str) (lineno : Nat) (st : PS σ) (e : Err)
    (h : parseLines fuel env c active url lines lineno st = .error (.cfg e)) :
    (∃ m : Int, e.line = some m ∧ 0 ≤ m) ∨ (∃ s pkg, c.imp s pkg = .error (.cfg e)) ∨ IncludeRefusal e := by
  obtain ⟨u, n, sF, hc⟩ := culprit_complete env c fuel active url lines lineno st _ h
  rcases (culprit_lineErr hc).line_or_exception with h1 | ⟨pkg, h2⟩ | h3
  · exact .inl h1
  · exact .inr (.inl ⟨_, pkg, h2⟩)
  · exact .inr (.inr h3)

/-- **Every line-bound error has a line.**  A syntax, conversion, replacement or substitution-syntax error that ends a parse
    carries a (non-negative) line number — for every context whose `importSchemaComponent` does not itself raise such an
    error without one. -/
theorem C08_error_has_line {σ} (fuel : Nat) (env : Env) (c : PCtx σ) (active : List Str) (url : Option Str)
    (lines : List Str) (lineno : Nat) (st : PS σ) (e : Err)
    (himp : ∀ s pkg e', c.imp s pkg = .error (.cfg e') → lineKind e'.kind → ∃ m : Int, e'.line = some m ∧ 0 ≤ m)
    (h : parseLines fuel env c active url lines lineno st = .error (.cfg e))
    (hk : e.kind = .syntax ∨ e.kind = .conversion ∨ e.kind = .replacement ∨ e.kind = .substSyntax) :
    e.line.isSome = true ∧ ∀ m, e.line = some m → 0 ≤ m := by
  obtain ⟨u, n, sF, hc⟩ := culprit_complete env c fuel active url lines lineno st _ h
  obtain ⟨m, hm, hm0⟩ := (culprit_lineErr hc).has_line hk (himp sF.ctx)
  rw [hm]
  exact ⟨rfl, fun m' h' => by cases h'; exact hm0⟩

/-- non-vacuity: a parse that fails with a syntax error (a closing line without an open section), for any context -/
example {σ} (c : PCtx σ) (s : σ) :
    parseLines 0 PosEx.env c [] none [['<', '/', 'a', '>']] 0 { ctx := s, stack := [], defs := [] } =
      .error (synErr none 1 "unexpected section end") := by
  have hs : lineShape (strip ['<', '/', 'a', '>']) = .close ['a'] := by decide
  rw [parseLines, stepLine]
  simp only [hs]
  rfl

/-- for the schema-driven loader the premise about `importSchemaComponent` holds (it only raises schema errors): every
    syntax, conversion, replacement or substitution-syntax error of a load's parse has a line number -/
theorem C08_loader_error_has_line (fuel : Nat) (env : Env) (active : List Str) (url : Option Str)
    (lines : List Str) (lineno : Nat) (st : PS LS) (e : Err)
    (h : parseLines fuel env loaderCtx active url lines lineno st = .error (.cfg e))
    (hk : e.kind = .syntax ∨ e.kind = .conversion ∨ e.kind = .replacement ∨ e.kind = .substSyntax) :
    e.line.isSome = true ∧ ∀ m, e.line = some m → 0 ≤ m := by
  refine C08_error_has_line fuel env loaderCtx active url lines lineno st e ?_ h hk
  intro s pkg e' hi hk'
  rcases lsImport_error s pkg e' hi with h1 | h1 <;> rw [h1] at hk' <;> rcases hk' with h | h | h | h <;> cases h

/-- **The position is the culprit's.**  Let the context raise its `addValue` errors without a position or with the one it was
    handed (unknown key, repeated key, key that cannot be converted), and its `endSection` conversion errors without a position.
    Then the error that ends the parse names the culprit line and its resource — `e.line = n`, `e.url = u`, where `u` is the
    resource being read or one reached from it by `%include` (`C08_culprit_in_this_or_included_resource`), and `n` is counted
    within `u` — except for the errors of `importSchemaComponent` and the refusals of `%include`. -/
theorem C08_error_in_this_or_included_resource {σ} (fuel : Nat) (env : Env) (c : PCtx σ) (active : List Str)
    (url : Option Str) (lines : List Str) (lineno : Nat) (st : PS σ) (e : Err)
    (hv : ∀ s key v p e', c.value s key v p = .error (.cfg e') → NoPos e' ∨ (e'.line = some p.line ∧ e'.url = p.url))
    (hs : ∀ s ty nm e', c.stop s ty nm = .error (.cfg e') → e'.kind = .conversion → NoPos e')
    (h : parseLines fuel env c active url lines lineno st = .error (.cfg e)) :
    ∃ u n sF, Culprit env c fuel active url lines lineno st (.cfg e) u n sF ∧ Reach env url u ∧
      ((e.line = some (n : Int) ∧ e.url = u) ∨ (∃ pkg, c.imp sF.ctx pkg = .error (.cfg e)) ∨ IncludeRefusal e) := by
  obtain ⟨u, n, sF, hc⟩ := culprit_complete env c fuel active url lines lineno st _ h
  refine ⟨u, n, sF, hc, (culprit_where hc).1, ?_⟩
  exact (culprit_lineErr hc).position (fun key v e' h' => hv _ _ _ _ _ h') (fun ctx ty nm e' _ h' hk => hs _ _ _ _ h' hk)

/-- non-vacuity, and the included resource counting its own lines: in the instance of `PositionEx.lean` the error names line 2
    of the included resource `x`, not line 2 of `m` where the `%include` stands -/
example : parseLines 1 PosEx.env PosEx.ctx [['m']] (some ['m']) PosEx.main 0 PosEx.st0 = .error (.cfg PosEx.err) ∧
    PosEx.err.line = some 2 ∧ PosEx.err.url = some ['x'] := ⟨PosEx.parse_fails, rfl, rfl⟩

/-- **This resource, by line index.**  If line `k` of the lines being read is the first whose processing fails and it is not an
    `%include` line, the error names exactly that line (`lineno + k + 1`) and this resource — under the same premises on the
    context, and except for the errors of `importSchemaComponent`. -/
theorem C08_error_position_at_line {σ} (fuel : Nat) (env : Env) (c : PCtx σ) (active : List Str)
    (url : Option Str) (lines : List Str) (lineno : Nat) (st : PS σ) (e : Err) (k : Nat) (l : Str)
    (hv : ∀ s key v p e', c.value s key v p = .error (.cfg e') → NoPos e' ∨ (e'.line = some p.line ∧ e'.url = p.url))
    (hs : ∀ s ty nm e', c.stop s ty nm = .error (.cfg e') → e'.kind = .conversion → NoPos e')
    (hfb : firstBad fuel env c active url lines lineno st = some k) (hl : lines[k]? = some l)
    (hni : ∀ a, lineShape (strip l) ≠ .include_ a)
    (h : parseLines fuel env c active url lines lineno st = .error (.cfg e)) :
    (e.line = some ((lineno + k + 1 : Nat) : Int) ∧ e.url = url) ∨ (∃ s pkg, c.imp s pkg = .error (.cfg e)) := by
  obtain ⟨u, n, sF, hc⟩ := culprit_complete env c fuel active url lines lineno st _ h
  obtain ⟨l', st', hl', _, hcase⟩ := culprit_of_firstBad_some hc hfb
  rw [hl] at hl'
  cases hl'
  rcases hcase with ⟨rfl, rfl, rfl, _, hstep⟩ | ⟨fuel', u1, sub, ⟨arg, _, hsh, _⟩, _⟩
  · rcases (culprit_lineErr hc).position (fun key v e' h' => hv _ _ _ _ _ h')
        (fun ctx ty nm e' _ h' hk => hs _ _ _ _ h' hk) with h1 | ⟨pkg, h2⟩ | h3
    · exact .inl h1
    · exact .inr ⟨_, pkg, h2⟩
    · -- an `%include` refusal can only come from an `%include` line
      rcases stepLine_noninclude_line _ _ _ _ _ _ _ _ _ hni hstep with h4 | ⟨pkg, h4⟩
      · exact absurd h3.2.1 h4
      · exact .inr ⟨_, pkg, h4⟩
  · exact absurd hsh (hni _)

/-- **This resource, an `%include` line.**  If the first failing line `k` is an `%include` line, then either the error is a
    substitution error in its argument and names that line and this resource, or the resource was refused before being read (the
    listed exceptions), or the included resource has been opened and the error is exactly the error of its parse — to which all
    of the above applies again, with its own URL and its own line count starting at 1. -/
theorem C08_error_position_at_include_line {σ} (fuel : Nat) (env : Env) (c : PCtx σ) (active : List Str)
    (url : Option Str) (lines : List Str) (lineno : Nat) (st : PS σ) (e : Err) (k : Nat) (l a : Str)
    (hfb : firstBad fuel env c active url lines lineno st = some k) (hl : lines[k]? = some l)
    (hi : lineShape (strip l) = .include_ a)
    (h : parseLines fuel env c active url lines lineno st = .error (.cfg e)) :
    (e.line = some ((lineno + k + 1 : Nat) : Int) ∧ e.url = url ∧ (e.kind = .replacement ∨ e.kind = .substSyntax)) ∨
    IncludeRefusal e ∨
    ∃ st' fuel' u sub, runLines fuel env c active url (lines.take k) lineno st = .ok st' ∧
      Enters fuel env c active url (lineno + k + 1) (strip l) st' fuel' u sub ∧
      parseLines fuel' env c (u :: active) (some u) sub 0 (subState st') = .error (.cfg e) := by
  obtain ⟨u, n, sF, hc⟩ := culprit_complete env c fuel active url lines lineno st _ h
  obtain ⟨l', st', hl', hrun, hcase⟩ := culprit_of_firstBad_some hc hfb
  rw [hl] at hl'
  cases hl'
  rcases hcase with ⟨_, _, _, hne, hstep⟩ | ⟨fuel', u1, sub, hen, hsub⟩
  · rcases stepLine_include_error _ _ _ _ _ _ _ _ _ _ hi hstep with ⟨h1, h2, h3, _⟩ | h5 | ⟨f', u', sub', hen, _⟩
    · exact .inl ⟨h1, h2, h3⟩
    · exact .inr (.inl h5)
    · exact absurd hen (hne _ _ _)
  · exact .inr (.inr ⟨st', fuel', u1, sub, hrun, hen, culprit_sound hsub⟩)

/-- **The real loader, all errors that are not conversion errors** (malformed syntax, bad directives, undefined or malformed
    substitutions, unknown or repeated keys, unknown or misplaced section headers, missing or surplus items found on a closing
    line, unclosed sections): no premise is needed — the error names the culprit line and its resource, except for the schema
    errors of `%import` and the refusals of `%include`. -/
theorem C08_loader_error_position (fuel : Nat) (env : Env) (active : List Str) (url : Option Str)
    (lines : List Str) (lineno : Nat) (st : PS LS) (e : Err)
    (h : parseLines fuel env loaderCtx active url lines lineno st = .error (.cfg e)) (hk : e.kind ≠ .conversion) :
    ∃ u n sF, Culprit env loaderCtx fuel active url lines lineno st (.cfg e) u n sF ∧ Reach env url u ∧
      ((e.line = some (n : Int) ∧ e.url = u) ∨
       ((e.kind = .schema ∨ e.kind = .schemaResource) ∧ ∃ pkg, lsImport sF.ctx pkg = .error (.cfg e)) ∨
       IncludeRefusal e) := by
  obtain ⟨u, n, sF, hc⟩ := culprit_complete env loaderCtx fuel active url lines lineno st _ h
  exact ⟨u, n, sF, hc, (culprit_where hc).1, loader_lineErr_position (culprit_lineErr hc) hk⟩

/-! ## `<type/>` behaves like `<type>` followed by `</type>`, errors included -/

/-- The self-closing form does exactly what the opening line followed by the closing line would do if both stood on the line of
    the `<type/>`: same resulting state, same error (kind, text, position). -/
theorem C08_empty_form_eq_open_then_close {σ} (fuel : Nat) (env : Env) (c : PCtx σ) (active : List Str) (url : Option Str)
    (line : Nat) (l l1 l2 ty : Str) (nm : Option Str) (st : PS σ)
    (h : lineShape l = .open_ ty nm true) (h1 : lineShape l1 = .open_ ty nm false) (h2 : lineShape l2 = .close ty) :
    stepLine fuel env c active url line l st =
      (stepLine fuel env c active url line l1 st >>= stepLine fuel env c active url line l2) := by
  rw [stepLine, stepLine]
  simp only [h, h1]
  rw [openSection_empty_eq]
  congr 1
  funext s1
  rw [stepLine]
  simp only [h2]

/-- non-vacuity: `<a/>`, `<a>`, `</a>` are classified as the theorem requires -/
example : lineShape ['<', 'a', '/', '>'] = .open_ ['a'] none true ∧ lineShape ['<', 'a', '>'] = .open_ ['a'] none false ∧
    lineShape ['<', '/', 'a', '>'] = .close ['a'] :=
  ⟨PosEx.lineShape_of_classify ['<', 'a', '/', '>'] (by decide) _ (by decide) (by decide),
   PosEx.lineShape_of_classify ['<', 'a', '>'] (by decide) _ (by decide) (by decide), by decide⟩

/-- … and compared with the two-line spelling (`<type>` on line `line`, `</type>` on line `line2`): if the opening line fails,
    `<type/>` fails with the same error; if the closing line fails, `<type/>` fails with an error of the same kind, text, URL and
    value whose line number is the same when the error brought its own, and is the line of the `<type/>` where the two-line
    spelling has the line of the `</type>`; and `<type/>` fails in no other way. -/
theorem C08_empty_form_errors {σ} (c : PCtx σ) (url : Option Str) (line line2 : Nat) (ty : Str) (nm : Option Str) (st : PS σ)
    (e : Err) :
    openSection c url line ty nm true st = .error (.cfg e) ↔
      openSection c url line ty nm false st = .error (.cfg e) ∨
      ∃ st1 e2, openSection c url line ty nm false st = .ok st1 ∧ closeSection c url line2 ty st1 = .error (.cfg e2) ∧
        closeSection c url line ty st1 = .error (.cfg e) ∧
        e.kind = e2.kind ∧ e.url = e2.url ∧ e.tag = e2.tag ∧ e.value = e2.value ∧
        (e.line = e2.line ∨ (e.line = some (line : Int) ∧ e2.line = some (line2 : Int))) := by
  rw [openSection_empty_eq]
  cases ho : openSection c url line ty nm false st with
  | error f =>
    constructor
    · intro h; exact .inl h
    · rintro (h | ⟨st1, e2, h, _⟩)
      · exact h
      · cases h
  | ok st1 =>
    rw [ok_bind]
    constructor
    · intro h
      obtain ⟨e2, h2, k1, k2, k3, k4, k5⟩ := closeSection_line_shift c url line2 line ty st1 e h
      refine .inr ⟨st1, e2, rfl, h2, h, k1.symm, k2.symm, k3.symm, k4.symm, ?_⟩
      rcases k5 with k5 | ⟨k5, k6⟩
      · exact .inl k5.symm
      · exact .inr ⟨k6, k5⟩
    · rintro (h | ⟨st1', e2, h, _, h3, _⟩)
      · cases h
      · cases h
        exact h3

/-- non-vacuity: a context whose `endSection` reports a missing item: `<a/>` on line 7 fails with a syntax error on line 7 -/
example : openSection { PosEx.ctx with stop := fun _ _ _ => .error (.cfg { kind := .plain, tag := "no values; required" }) }
    (some ['m']) 7 ['a'] none true PosEx.st0 = .error (synErr (some ['m']) 7 "close:no values; required") := rfl

/-- both spellings give the error a line number (restated from the per-site lemma for the `<type/>` form) -/
theorem C08_empty_form_error_has_line {σ} (c : PCtx σ) (url : Option Str) (line : Nat) (ty : Str) (nm : Option Str) (st : PS σ)
    (e : Err) (h : openSection c url line ty nm true st = .error (.cfg e)) : ∃ m : Int, e.line = some m ∧ 0 ≤ m := by
  unfold openSection at h
  split at h
  · cases h; exact ⟨line, rfl, by omega⟩
  · rename_i f hf1 hf2
    cases h
    exact absurd rfl (hf1 e)
  · rename_i ctx1 h1
    simp only [if_true] at h
    cases hcf : closeFixup url line (c.stop ctx1 ty nm) with
    | ok s => rw [hcf] at h; cases h
    | error f =>
      rw [hcf] at h
      cases h
      obtain ⟨e', _, h2⟩ := closeFixup_error _ _ _ _ hcf
      rcases h2 with ⟨_, rfl⟩ | ⟨_, rfl⟩
      · exact fixPos_line _ _ _
      · exact ⟨line, rfl, by omega⟩

/-! ## conversion errors carry the offending text and the position recorded with it -/

/-- `addValue` of the loader: when the key cannot be converted the error carries the key text and exactly the position the
    parser handed in (this line, this resource); all its other errors are plain and carry no position -/
theorem C08_key_conversion_error (st : LS) (key value : Str) (pos : Pos) (e : Err)
    (h : lsValue st key value pos = .error (.cfg e)) :
    (e.kind = .conversion ∧ e.value = some key ∧ e.line = some pos.line ∧ e.url = pos.url) ∨
    (e.kind = .plain ∧ e.line = none ∧ e.url = none ∧ e.value = none) :=
  lsValue_error st key value pos e h

/-- `finish()`/`constuct()` of the loader: a conversion error is about a value the section holds — then it carries the text of
    that value and the position stored with it (`VI.pos`) —, about a default of the schema (its text, its position in the
    schema), about the section datatype (no text, no position), or about a command-line override. -/
theorem C08_finish_conversion_error (conv : Conv) (s : Schema) (m : Matcher) (e : Err)
    (h : finishMatcher conv s m = .error (.cfg e)) (hk : e.kind = .conversion) :
    ConvAbout (matcherVIs m) (typeDflts m.ty) e :=
  finishMatcher_conversion conv s m e h hk

/-- **Whole parse, loader, conversion errors.**  A conversion error that ends the parse is described by `LoaderConv` at the
    culprit line `n` of `u`: the key of that very line (key text, `(n, u)`), a value held by an open section (its text, and the
    position stored with it, fixed up only if that position is not a proper one), a schema default, the section datatype
    (`(n, u)`), or a command-line override. -/
theorem C08_conversion_error_origin (fuel : Nat) (env : Env) (active : List Str) (url : Option Str)
    (lines : List Str) (lineno : Nat) (st : PS LS) (e : Err)
    (h : parseLines fuel env loaderCtx active url lines lineno st = .error (.cfg e)) (hk : e.kind = .conversion) :
    ∃ u n sF, Culprit env loaderCtx fuel active url lines lineno st (.cfg e) u n sF ∧ Reach env url u ∧
      LoaderConv u n sF e := by
  obtain ⟨u, n, sF, hc⟩ := culprit_complete env loaderCtx fuel active url lines lineno st _ h
  exact ⟨u, n, sF, hc, (culprit_where hc).1, loader_lineErr_conversion (culprit_lineErr hc) hk⟩

/-- non-vacuity (instance of `PositionExLoader.lean`): `<s>` / `k v` / `</s>`, the datatype of `k` refusing `v`: the parse fails
    when line 3 is read, the conversion error names line 2 of the resource and carries the text `v` -/
example : parseLines 0 PosEx.env loaderCtx [] (some ['m']) PosEx.text 0 PosEx.ps0 = .error (.cfg PosEx.convErr) ∧
    PosEx.convErr.kind = .conversion ∧ PosEx.convErr.value = some ['v'] ∧ PosEx.convErr.line = some 2 ∧
    PosEx.convErr.url = some ['m'] ∧
    Culprit PosEx.env loaderCtx 0 [] (some ['m']) PosEx.text 0 PosEx.ps0 (.cfg PosEx.convErr) (some ['m']) 3 PosEx.ps2 ∧
    Handed PosEx.env loaderCtx 0 [] (some ['m']) PosEx.text 0 PosEx.ps0 ['k'] ['v'] { line := 2, url := some ['m'] } :=
  ⟨PosEx.parse_conv_fails, rfl, rfl, rfl, rfl, PosEx.culprit_conv, PosEx.handed_conv⟩

/-- **The stored position is the position of the line that gave the value.**  Whatever `(text, position)` pair an open section
    of the loader holds when the culprit line is read was held before the parse started, or was handed over by `keyValue`
    earlier in this parse — at any `%include` depth —: `Handed … key v p` says that a key line was reached whose value, after
    substitution, is `v`, and `p` is that line's number and its resource's URL.  Such a position is a proper one (line ≥ 1), so
    the fix-up on the closing line leaves its line number alone. -/
theorem C08_held_value_was_handed_over {env : Env} {fuel : Nat} {active : List Str} {url : Option Str} {lines : List Str}
    {lineno : Nat} {st : PS LS} {f : Fail} {u : Option Str} {n : Nat} {sF : PS LS}
    (h : Culprit env loaderCtx fuel active url lines lineno st f u n sF) (v : Str) (p : Pos) (hr : RecLS sF.ctx v p) :
    RecLS st.ctx v p ∨
      ∃ key, Handed env loaderCtx fuel active url lines lineno st key v p ∧ Reach env url p.url ∧ 1 ≤ p.line ∧
        fixLine n p.line = p.line := by
  rcases culprit_rec records_loader h v p hr with h1 | ⟨key, h2⟩
  · exact .inl h1
  · obtain ⟨hreach, m, hm, hw⟩ := h2.where_
    have h1 : 1 ≤ p.line := by
      rcases hw with ⟨_, h3, _⟩ | ⟨_, _, _, _, h3, _⟩ <;> omega
    exact .inr ⟨key, h2, hreach, h1, fixLine_nonneg _ _ (by omega)⟩

/-- the same for any context that only stores what `addValue` gives it (`Records c Rec`) -/
theorem C08_recorded_position_was_handed_over {σ} {c : PCtx σ} {Rec : σ → Str → Pos → Prop} (hR : Records c Rec) {env : Env}
    {fuel : Nat} {active : List Str} {url : Option Str} {lines : List Str} {lineno : Nat} {st : PS σ} {f : Fail}
    {u : Option Str} {n : Nat} {sF : PS σ} (h : Culprit env c fuel active url lines lineno st f u n sF) (v : Str) (p : Pos)
    (hr : Rec sF.ctx v p) :
    Rec st.ctx v p ∨ ∃ key, Handed env c fuel active url lines lineno st key v p :=
  culprit_rec hR h v p hr

/-! ## the whole load (`loadConfig` / `loadConfigFile` with command-line overrides) -/

/-- Every syntax, conversion, replacement or substitution-syntax error of a whole load carries a line number: a real one when
    it comes from the parse or from a value of the configuration; the pseudo line `-1` when it is about the command line, about
    a section datatype applied after the last line, or about the schema's own datatype. -/
theorem C08_load_error_has_line (conv : Conv) (env : Env) (pkgs : Str → Pkg) (schema : Schema) (url : Option Str)
    (lines : List Str) (specs : List Str) (e : Err) (h : load conv env pkgs schema url lines specs = .error (.cfg e))
    (hk : e.kind = .syntax ∨ e.kind = .conversion ∨ e.kind = .replacement ∨ e.kind = .substSyntax) :
    e.line.isSome = true := by
  rcases load_error conv env pkgs schema url lines specs e h with hc | ⟨bag, hp | ⟨ps, top, _, _, hf | ⟨_, _, hl, _⟩⟩⟩
  · rw [hc.1]; rfl
  · exact (C08_loader_error_has_line _ _ _ _ _ _ _ e hp hk).1
  · rcases finishMatcher_error _ _ _ _ hf with hconv | hplain
    · cases finishMatcher_conversion _ _ _ _ hf hconv with
      | held w _ _ hl _ => rw [hl]; rfl
      | dflt w _ _ hl _ => rw [hl]; rfl
      | sect _ hl _ => rw [hl]; rfl
      | cmd _ hl _ => rw [hl]; rfl
    · rw [hplain.1] at hk
      rcases hk with h | h | h | h <;> cases h
  · rw [hl]; rfl

/-- **Conversion errors of a whole load.**  Such an error is about the command line; or it ends the parse and is described by
    `C08_conversion_error_origin`; or it is raised after the last line, when the top-level section is finished: then it is about
    a top-level value — and carries that value's text and the position stored with it, which is the line and resource at which
    `keyValue` handed it over during this very parse —, about a schema default, about a command-line override, or about the
    top-level/schema datatype (no text, pseudo line `-1`). -/
theorem C08_load_conversion_error (conv : Conv) (env : Env) (pkgs : Str → Pkg) (schema : Schema) (url : Option Str)
    (lines : List Str) (specs : List Str) (e : Err) (h : load conv env pkgs schema url lines specs = .error (.cfg e))
    (hk : e.kind = .conversion) :
    CmdLineErr e ∨
    ∃ bag,
      (∃ u n sF, Culprit env loaderCtx 64 (loadActive url) url lines 0 (loadState conv pkgs schema bag) (.cfg e) u n sF ∧
        Reach env url u ∧ LoaderConv u n sF e) ∨
      (∃ ps top, parseLines 64 env loaderCtx (loadActive url) url lines 0 (loadState conv pkgs schema bag) = .ok ps ∧
        ps.ctx.stack = [top] ∧
        ((∃ (w : VI) (key : Str), e.value = some w.value ∧ e.line = some w.pos.line ∧ e.url = w.pos.url ∧ 1 ≤ w.pos.line ∧
            Handed env loaderCtx 64 (loadActive url) url lines 0 (loadState conv pkgs schema bag) key w.value w.pos) ∨
         (∃ w : VI, w ∈ typeDflts top.ty ∧ e.value = some w.value ∧ e.line = some w.pos.line ∧ e.url = w.pos.url) ∨
         (e.value.isSome = true ∧ e.line = some (-1) ∧ e.url = some "<command-line option>".toList) ∨
         (e.value = none ∧ e.line = some (-1) ∧ e.url = none))) := by
  rcases load_error conv env pkgs schema url lines specs e h with hc | ⟨bag, hp | ⟨ps, top, hps, htop, hf | ⟨_, hv, hl, hu⟩⟩⟩
  · exact .inl hc
  · exact .inr ⟨bag, .inl (C08_conversion_error_origin _ _ _ _ _ _ _ e hp hk)⟩
  · refine .inr ⟨bag, .inr ⟨ps, top, hps, htop, ?_⟩⟩
    cases finishMatcher_conversion _ _ _ _ hf hk with
    | held w hw hv hl hu =>
      have hr : RecLS ps.ctx w.value w.pos := ⟨top, by rw [htop]; exact List.mem_singleton.mpr rfl, hw⟩
      rcases parse_rec records_loader env _ _ _ _ _ _ _ _ _ hps hr with h0 | ⟨key, hh⟩
      · exact absurd h0 (loadState_holds_nothing _ _ _ _ _ _)
      · obtain ⟨_, m, hm, hw'⟩ := hh.where_
        have h1 : 1 ≤ w.pos.line := by
          rcases hw' with ⟨_, h3, _⟩ | ⟨_, _, _, _, h3, _⟩ <;> omega
        exact .inl ⟨w, key, hv, hl, hu, h1, hh⟩
    | dflt w hw hv hl hu => exact .inr (.inl ⟨w, hw, hv, hl, hu⟩)
    | sect hv hl hu => exact .inr (.inr (.inr ⟨hv, hl, hu⟩))
    | cmd hv hl hu => exact .inr (.inr (.inl ⟨hv, hl, hu⟩))
  · exact .inr ⟨bag, .inr ⟨ps, top, hps, htop, .inr (.inr (.inr ⟨hv, hl, hu⟩))⟩⟩

end ZCV.Props.C08
