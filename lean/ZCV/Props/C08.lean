import ZCV.Model.Matcher
namespace ZCV.Props.C08
open ZCV ZCV.Cfg

/-- every syntax error the parser itself raises names the line it is processing and the resource's URL -/
theorem C08_synErr_position (url : Option Str) (line : Nat) (tag : String) :
    ∃ e, synErr url line tag = .cfg e ∧ e.line = some (line : Int) ∧ e.url = url ∧ e.kind = .syntax :=
  ⟨_, rfl, rfl, rfl, rfl⟩

end ZCV.Props.C08
