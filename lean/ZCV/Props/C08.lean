import ZCV.Lemmas.Misc
import ZCV.Model.Matcher
namespace ZCV.Props.C08
open ZCV ZCV.Cfg

/-- every syntax error the parser itself raises names the line it is processing and the resource's URL -/
theorem C08_synErr_position (url : Option Str) (line : Nat) (tag : String) :
    ∃ e, synErr url line tag = .cfg e ∧ e.line = some (line : Int) ∧ e.url = url ∧ e.kind = .syntax :=
  ⟨_, rfl, rfl, rfl, rfl⟩


/-- a configuration error raised while handling a key line always leaves with a line number … -/
theorem C08_key_line_error_has_line {σ} (env : Env) (c : PCtx σ) (url : Option Str) (line : Nat) (key raw : Str) (st : PS σ)
    (e : Err) (h : keyValue env c url line key raw st = .error (.cfg e)) : e.line ≠ none :=
  keyValue_error_has_line env c url line key raw st e h

/-- … namely this line of this resource whenever the error itself brought no position (unknown key, repeated key,
    undefined or malformed substitution) -/
theorem C08_key_line_error_position {σ} (env : Env) (c : PCtx σ) (url : Option Str) (line : Nat) (key raw : Str) (st : PS σ)
    (hc : ∀ v e', c.value st.ctx key v { line := line, url := url } = .error (.cfg e') → e'.line = none ∧ e'.url = none)
    (e : Err) (h : keyValue env c url line key raw st = .error (.cfg e)) :
    e.line = some (line : Int) ∧ e.url = url :=
  keyValue_error_position env c url line key raw st hc e h

/-- the closing line (either spelling of the section) always gives the error a line number -/
theorem C08_close_error_has_line {σ} (url : Option Str) (line : Nat) (r : M σ) (e : Err)
    (h : closeFixup url line r = .error (.cfg e)) : e.line ≠ none :=
  closeFixup_error_has_line url line r e h

end ZCV.Props.C08
