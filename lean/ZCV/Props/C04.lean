import ZCV.Lemmas.CodeEqSubst
import ZCV.Lemmas.SubstExtra
import ZCV.Lemmas.SubstCor
/-!
# C04 — `$`-substitution computes exactly the documented replacement function

Model: `ZCV.Subst.substitute` (mirrors `substitution.py` with its index arithmetic and the
*generated* `_name_match` pattern).  Spec: `ZCV.SubstSpec.substituteSpec` (recursion on the text).
-/
namespace ZCV.Props.C04
open ZCV ZCV.Subst ZCV.SubstSpec

/-- Main theorem: for every mapping, environment and string (any length, any characters) the
    model of the code returns exactly what the documented function returns — same text, or the
    same error (same raise site; for a missing name: same source text and same name). -/
theorem C04_substitute_eq_spec (defs env : Str → Option Str) (s : Str) :
    conv (substitute defs env s) = substituteSpec defs env s := by
  unfold substitute substituteSpec
  by_cases hd : '$' ∈ s
  · have : s.contains '$' = true := by simpa using hd
    simp only [this, ↓reduceIte]
    rw [loop_eq defs env s _ s [] (by omega)]
    cases spec defs env s s <;> simp
  · have : s.contains '$' = false := by simpa using hd
    simp only [this, Bool.false_eq_true, ↓reduceIte]
    have := spec_prefix defs env s s [] hd
    simp only [List.append_nil, spec_nil, map_ok] at this
    simp [conv, this]

/-- a string without `$` is returned as is -/
theorem C04_no_dollar_id (defs env : Str → Option Str) (s : Str) (h : '$' ∉ s) :
    substitute defs env s = .ok s := by
  unfold substitute
  have : s.contains '$' = false := by simpa using h
  simp only [this, Bool.false_eq_true, ↓reduceIte]

/-- `isname` accepts exactly: a letter or underscore followed by letters, digits, underscores -/
theorem C04_isname_spec (s : Str) : isname s = isnameSpec s := by
  unfold isname isnameSpec
  have := nameMatchAt_eq [] s
  simp only [List.nil_append, List.length_nil, Nat.zero_add] at this
  rw [this]
  cases s with
  | nil => simp [nameSplit]
  | cons c t =>
    simp only [nameSplit]
    by_cases hc : isNameStart c
    · simp only [hc, ↓reduceIte, Option.map_some, Bool.true_and, ← takeWhile_eq_self_iff]
      rw [Bool.eq_iff_iff]; simp
    · simp [hc]

theorem C04_missing_carries_source (defs env : Str → Option Str) (s a b : Str)
    (h : substitute defs env s = .error (.missing a b)) : a = s := by
  have h1 := C04_substitute_eq_spec defs env s
  rw [h] at h1
  simp only [conv, toSpecErr, substituteSpec] at h1
  exact spec_missing_source defs env s s.length s a b (Nat.le_refl _) h1.symm

/-! ## The documented clauses, one `$` construct at a time (corollaries about the MODEL)

Every non-trivial string is `pre ++ "$" ++ t` with `pre` free of `$`; `t` is the text after the first `$`.
`withSource s r` is `r` with the source quoted by a replacement error replaced by `s` (the error raised while
substituting into the rest of the text still quotes the WHOLE text).  The relations `IsRef`, `Replaced`, `Malformed`
(`ZCV/Lemmas/SubstCor.lean`) describe the construct in plain list terms: no regular expression, no index. -/

/-- One construct at a time.  The model, on a text whose first `$` is followed by `t`: a malformed construct gives the
    syntax error; `$$` gives `$`; a reference gives its value (mapping lookups lower-cased, environment lookups not) or
    the replacement error; the text before the `$` is copied, and substitution goes on with the text after the construct
    only. -/
theorem C04_one_construct (defs env : Str → Option Str) (pre t : Str) (hp : '$' ∉ pre) :
    substitute defs env (pre ++ '$' :: t) =
      match firstConstruct t with
      | .malformed c => .error (.syntax c)
      | .esc r => withSource (pre ++ '$' :: t) ((substitute defs env r).map (pre ++ '$' :: ·))
      | .ref name vt r =>
        match lookupRef defs env vt name with
        | none => .error (.missing (pre ++ '$' :: t) name)
        | some v => withSource (pre ++ '$' :: t) ((substitute defs env r).map (pre ++ v ++ ·)) :=
  substcor_model_step defs env pre t hp

/-- Every `$` construct is malformed, or replaced by a value, or a reference without a value — whatever the text. -/
theorem C04_fates (defs env : Str → Option Str) (t : Str) :
    (∃ c, Malformed t c) ∨ (∃ v r, Replaced defs env t v r) ∨
      (∃ name vt r, IsRef t name vt r ∧ lookupRef defs env vt name = none) :=
  substcor_fates defs env t

/-- A construct that is replaced by `v` (`$$` by `$`, a reference by its value): the result is the text before it, then
    `v`, then the substitution of the text AFTER the construct. -/
theorem C04_replaced (defs env : Str → Option Str) (pre t v r : Str) (hp : '$' ∉ pre)
    (h : Replaced defs env t v r) :
    substitute defs env (pre ++ '$' :: t) =
      withSource (pre ++ '$' :: t) ((substitute defs env r).map (pre ++ v ++ ·)) :=
  substcor_replaced defs env pre t v r hp h

/-- `${Ab}` with the mapping knowing `ab` only, its value full of `$`: an instance of `Replaced` -/
example : Replaced (fun k => if k = "ab".toList then some "$x".toList else none) (fun _ => none)
    "{Ab}-".toList "$x".toList "-".toList :=
  .ref (.brace "Ab".toList "-".toList (by decide)) (by decide)

/-- `$$` is replaced by `$`: `pre$$post` gives `pre$` followed by the substitution of `post` (or the error of `post`,
    a replacement error quoting the whole text). -/
theorem C04_dollar_dollar (defs env : Str → Option Str) (pre post : Str) (hp : '$' ∉ pre) :
    substitute defs env (pre ++ '$' :: '$' :: post) =
      withSource (pre ++ '$' :: '$' :: post) ((substitute defs env post).map (pre ++ '$' :: ·)) := by
  have := substcor_replaced defs env pre ('$' :: post) ['$'] post hp (.esc post)
  rw [this]
  congr 2
  funext x
  simp only [List.append_assoc, List.singleton_append]

example : substitute (fun _ => none) (fun _ => none) "a$$$$b".toList = .ok "a$$b".toList := by
  rw [substcor_eval_eq]; decide +kernel

/-- Mapping lookups are lower-cased, environment lookups are not.  `$Name…` and `${Name}…` consult the mapping at
    `lower Name` (and at nothing else); `$(NAME)…` consults the environment at `NAME` as written.  In each case a value
    is spliced in and substitution goes on after the reference; no value gives the replacement error carrying the name
    AS WRITTEN and the whole text. -/
theorem C04_case (defs env : Str → Option Str) (pre name rest : Str) (hp : '$' ∉ pre)
    (hn : isnameSpec name = true) :
    -- `$Name`, the name being maximal
    ((∀ c ∈ rest.head?, isNameChar c = false) →
      substitute defs env (pre ++ '$' :: (name ++ rest)) =
        match defs (lower name) with
        | none => .error (.missing (pre ++ '$' :: (name ++ rest)) name)
        | some v => withSource (pre ++ '$' :: (name ++ rest)) ((substitute defs env rest).map (pre ++ v ++ ·))) ∧
    -- `${Name}`
    (substitute defs env (pre ++ '$' :: '{' :: (name ++ '}' :: rest)) =
        match defs (lower name) with
        | none => .error (.missing (pre ++ '$' :: '{' :: (name ++ '}' :: rest)) name)
        | some v => withSource (pre ++ '$' :: '{' :: (name ++ '}' :: rest))
            ((substitute defs env rest).map (pre ++ v ++ ·))) ∧
    -- `$(NAME)`
    (substitute defs env (pre ++ '$' :: '(' :: (name ++ ')' :: rest)) =
        match env name with
        | none => .error (.missing (pre ++ '$' :: '(' :: (name ++ ')' :: rest)) name)
        | some v => withSource (pre ++ '$' :: '(' :: (name ++ ')' :: rest))
            ((substitute defs env rest).map (pre ++ v ++ ·))) := by
  refine ⟨fun hr => ?_, ?_, ?_⟩
  · rw [substcor_model_step _ _ _ _ hp, (substcor_first_ref _ _ _ _).2 (.bare name rest hn hr)]
    simp only [lookupRef]
    cases defs (lower name) <;> rfl
  · rw [substcor_model_step _ _ _ _ hp, (substcor_first_ref _ _ _ _).2 (.brace name rest hn)]
    simp only [lookupRef]
    cases defs (lower name) <;> rfl
  · rw [substcor_model_step _ _ _ _ hp, (substcor_first_ref _ _ _ _).2 (.paren name rest hn)]
    simp only [lookupRef]
    cases env name <;> rfl

/-- the mapping knows `name` only, the environment `NAME` only: `$NaMe`, `${NAME}` find the first, `$(NAME)` the second,
    `$(name)` nothing -/
example :
    let defs : Str → Option Str := fun k => if k = "name".toList then some "v".toList else none
    let env : Str → Option Str := fun k => if k = "NAME".toList then some "E".toList else none
    substitute defs env "$NaMe ${NAME} $(NAME)".toList = .ok "v v E".toList ∧
    substitute defs env "$(name)".toList = .error (.missing "$(name)".toList "name".toList) := by
  simp only [substcor_eval_eq]; decide +kernel

/-- Replacement text is never rescanned: if the mapping gives `v` for (the lower-cased) `name`, then `pre$name rest`
    (`rest` not continuing the name) is `pre`, then `v` AS IS — whatever it contains, `$` constructs included — then the
    substitution of `rest` alone. -/
theorem C04_no_rescan (defs env : Str → Option Str) (pre name rest v : Str) (hp : '$' ∉ pre)
    (hn : isnameSpec name = true) (hr : ∀ c ∈ rest.head?, isNameChar c = false)
    (hv : defs (lower name) = some v) :
    substitute defs env (pre ++ '$' :: (name ++ rest)) =
      withSource (pre ++ '$' :: (name ++ rest)) ((substitute defs env rest).map (pre ++ v ++ ·)) := by
  rw [(C04_case defs env pre name rest hp hn).1 hr, hv]

/-- the same for `${name}` -/
theorem C04_no_rescan_braces (defs env : Str → Option Str) (pre name rest v : Str) (hp : '$' ∉ pre)
    (hn : isnameSpec name = true) (hv : defs (lower name) = some v) :
    substitute defs env (pre ++ '$' :: '{' :: (name ++ '}' :: rest)) =
      withSource (pre ++ '$' :: '{' :: (name ++ '}' :: rest)) ((substitute defs env rest).map (pre ++ v ++ ·)) := by
  rw [(C04_case defs env pre name rest hp hn).2.1, hv]

/-- the same for `$(NAME)` -/
theorem C04_no_rescan_env (defs env : Str → Option Str) (pre name rest v : Str) (hp : '$' ∉ pre)
    (hn : isnameSpec name = true) (hv : env name = some v) :
    substitute defs env (pre ++ '$' :: '(' :: (name ++ ')' :: rest)) =
      withSource (pre ++ '$' :: '(' :: (name ++ ')' :: rest)) ((substitute defs env rest).map (pre ++ v ++ ·)) := by
  rw [(C04_case defs env pre name rest hp hn).2.2, hv]

/-- values full of `$` constructs (a reference to an undefined name, a lone `$`) come out untouched -/
example :
    let defs : Str → Option Str := fun k => if k = "a".toList then some "${b}$".toList else none
    substitute defs (fun _ => none) "x$a-${A}".toList = .ok "x${b}$-${b}$".toList := by
  simp only [substcor_eval_eq]; decide +kernel

/-- `$name` takes the maximal run of name characters: after a letter or underscore `c`, the name is `c` followed by ALL
    the letters, digits and underscores that follow, and the text goes on where they stop. -/
theorem C04_maximal_name (defs env : Str → Option Str) (pre : Str) (c : Char) (r : Str) (hp : '$' ∉ pre)
    (hc : isNameStart c = true) :
    substitute defs env (pre ++ '$' :: c :: r) =
      match defs (lower (c :: r.takeWhile isNameChar)) with
      | none => .error (.missing (pre ++ '$' :: c :: r) (c :: r.takeWhile isNameChar))
      | some v => withSource (pre ++ '$' :: c :: r)
          ((substitute defs env (r.dropWhile isNameChar)).map (pre ++ v ++ ·)) := by
  have hn : isnameSpec (c :: r.takeWhile isNameChar) = true := by
    simp only [isnameSpec, hc, substcor_all_takeWhile, Bool.and_self]
  have := (C04_case defs env pre (c :: r.takeWhile isNameChar) (r.dropWhile isNameChar) hp hn).1
    (substcor_head_dropWhile _ _)
  simp only [List.cons_append, List.takeWhile_append_dropWhile] at this
  exact this

/-- `$ab1_c-d` looks up `ab1_c`, not `a` nor `ab` -/
example :
    let defs : Str → Option Str := fun k => if k = "ab1_c".toList then some "V".toList else
      if k = "a".toList then some "wrong".toList else none
    substitute defs (fun _ => none) "$ab1_c-d".toList = .ok "V-d".toList := by
  simp only [substcor_eval_eq]; decide +kernel

/-- A malformed construct gives the syntax error, at the raise site the relation names: a trailing lone `$` (0); `$`
    followed by something that is not `$`, `{`, `(`, a letter or an underscore (5); `${` / `$(` followed by no name —
    empty or starting with an illegal character (1 / 3); `${name` / `$(name` not followed by `}` / `)` — unterminated, or an
    illegal character in the name (2 / 4). -/
theorem C04_malformed (defs env : Str → Option Str) (pre t : Str) (c : Nat) (hp : '$' ∉ pre) (h : Malformed t c) :
    substitute defs env (pre ++ '$' :: t) = .error (.syntax c) :=
  substcor_malformed defs env pre t c hp h

example : Malformed "{a-b}".toList 2 := .braceClose "a".toList "-b}".toList (by decide) (by decide)
example : Malformed "(A".toList 4 := .parenClose "A".toList [] (by decide) (by decide)
example : Malformed "-".toList 5 := .other '-' [] (by decide) (by decide) (by decide) (by decide)

/-- When the result is the syntax error.  For a text whose first `$` is followed by `t`: the result is the syntax error
    `c` exactly when the first construct is malformed at site `c` (see `C04_malformed` for the list), or the first
    construct is replaced and the text after it gives the syntax error `c`.  (A reference without a value gives the
    replacement error instead, whatever follows.) -/
theorem C04_syntax_error_iff (defs env : Str → Option Str) (pre t : Str) (c : Nat) (hp : '$' ∉ pre) :
    substitute defs env (pre ++ '$' :: t) = .error (.syntax c) ↔
      Malformed t c ∨ ∃ v r, Replaced defs env t v r ∧ substitute defs env r = .error (.syntax c) :=
  substcor_syntax_iff defs env pre t c hp

/-- the list of malformed constructs, spelled out on lists -/
theorem C04_malformed_iff (t : Str) (c : Nat) :
    Malformed t c ↔
      (t = [] ∧ c = 0) ∨
      (∃ d r, t = d :: r ∧ d ≠ '$' ∧ d ≠ '{' ∧ d ≠ '(' ∧ isNameStart d = false ∧ c = 5) ∨
      (∃ r, t = '{' :: r ∧ (∀ x ∈ r.head?, isNameStart x = false) ∧ c = 1) ∨
      (∃ n r, t = '{' :: (n ++ r) ∧ isnameSpec n = true ∧ (∀ x ∈ r.head?, isNameChar x = false ∧ x ≠ '}') ∧ c = 2) ∨
      (∃ r, t = '(' :: r ∧ (∀ x ∈ r.head?, isNameStart x = false) ∧ c = 3) ∨
      (∃ n r, t = '(' :: (n ++ r) ∧ isnameSpec n = true ∧ (∀ x ∈ r.head?, isNameChar x = false ∧ x ≠ ')') ∧ c = 4) := by
  constructor
  · intro h
    cases h with
    | lone => exact .inl ⟨rfl, rfl⟩
    | other d r h1 h2 h3 h4 => exact .inr (.inl ⟨d, r, rfl, h1, h2, h3, h4, rfl⟩)
    | braceName r k => exact .inr (.inr (.inl ⟨r, rfl, k, rfl⟩))
    | braceClose n r hn hr => exact .inr (.inr (.inr (.inl ⟨n, r, rfl, hn, hr, rfl⟩)))
    | parenName r k => exact .inr (.inr (.inr (.inr (.inl ⟨r, rfl, k, rfl⟩))))
    | parenClose n r hn hr => exact .inr (.inr (.inr (.inr (.inr ⟨n, r, rfl, hn, hr, rfl⟩))))
  · rintro (⟨rfl, rfl⟩ | ⟨d, r, rfl, h1, h2, h3, h4, rfl⟩ | ⟨r, rfl, k, rfl⟩ | ⟨n, r, rfl, hn, hr, rfl⟩ |
      ⟨r, rfl, k, rfl⟩ | ⟨n, r, rfl, hn, hr, rfl⟩)
    · exact .lone
    · exact .other d r h1 h2 h3 h4
    · exact .braceName r k
    · exact .braceClose n r hn hr
    · exact .parenName r k
    · exact .parenClose n r hn hr

/-- one text per raise site; `${a}}` and `$a{` are fine -/
example :
    let S := fun (s : String) => substitute (fun _ => some []) (fun _ => some []) s.toList
    S "x$" = .error (.syntax 0) ∧ S "$-" = .error (.syntax 5) ∧ S "$1" = .error (.syntax 5) ∧
    S "${}" = .error (.syntax 1) ∧ S "${1a}" = .error (.syntax 1) ∧ S "${a" = .error (.syntax 2) ∧
    S "${a-b}" = .error (.syntax 2) ∧ S "$()" = .error (.syntax 3) ∧ S "$(A" = .error (.syntax 4) ∧
    S "$(A}" = .error (.syntax 4) ∧ S "$$$" = .error (.syntax 0) ∧ S "${a}}" = .ok "}".toList ∧
    S "$a{" = .ok "{".toList := by
  simp only [substcor_eval_eq]; decide +kernel

/-- A reference without a value, as the first construct: the replacement error carries exactly the name as written
    (not lower-cased, nothing more, nothing less) and the whole source text. -/
theorem C04_missing_first (defs env : Str → Option Str) (pre t name : Str) (vt : VT) (r : Str) (hp : '$' ∉ pre)
    (h : IsRef t name vt r) (hv : lookupRef defs env vt name = none) :
    substitute defs env (pre ++ '$' :: t) = .error (.missing (pre ++ '$' :: t) name) :=
  substcor_unresolved defs env pre t name vt r hp h hv

example : IsRef "ab1-c".toList "ab1".toList .define "-c".toList :=
  .bare "ab1".toList "-c".toList (by decide) (by decide)

/-- The replacement error carries exactly the name as written and the whole source text: whenever `substitute` raises
    it, the source is the text given, and the name is that of a reference occurring in the text (`$name` taken
    maximally, `${name}` or `$(NAME)`), exactly as written there, whose lookup (mapping at the lower-cased name,
    environment at the name as written) finds nothing. -/
theorem C04_missing_carries_name (defs env : Str → Option Str) (s a b : Str)
    (h : substitute defs env s = .error (.missing a b)) :
    a = s ∧ ∃ pre t vt rest, s = pre ++ '$' :: t ∧ IsRef t b vt rest ∧ lookupRef defs env vt b = none :=
  substcor_model_missing defs env s a b h

example :
    substitute (fun k => if k = "a".toList then some [] else none) (fun _ => none) "$a ${Bc_1} $a".toList =
      .error (.missing "$a ${Bc_1} $a".toList "Bc_1".toList) := by
  simp only [substcor_eval_eq]; decide +kernel

end ZCV.Props.C04

/-!
# C04, restated for the code as it is now (generated by `harness/zcv/pytrans.py`)

`ZCV.Gen.Code.substitute / _split / isname` (`ZCV/Gen/CodeSubstitution.lean`) are the translation of the Python source of
`ZConfig/substitution.py`, regenerated from the working tree on every run; `mapping.get` and `os.getenv` are the
parameters `defs` and `env`, `_name_match` is the generated pattern.  `ZCV/Lemmas/CodeEqSubst.lean` proves them equal to
the hand-written model for all arguments.  `embedSpec` re-tags the documented function's outcome as the exception CLASS the
code raises (the raise-site number stands for the message and is dropped; a missing name keeps source text and name).
-/
namespace ZCV.Props.C04
open ZCV ZCV.Subst ZCV.SubstSpec ZCV.CodeEq

/-- the documented function's outcome in the generated code's vocabulary -/
def embedSpec : Except SubstSpec.Err Str → Except Py.PyExc Str
  | .ok v => .ok v
  | .error (.syntax _) => .error .SubstitutionSyntaxError
  | .error (.missing src name) => .error (.SubstitutionReplacementError src (some name))

theorem embedS_eq_embedSpec_conv (x : Except Subst.Err Str) : embedS x = embedSpec (conv x) := by
  cases x with
  | ok v => rfl
  | error e => cases e <;> rfl

/-! ## (i) generated code = model -/

theorem C04_code_isname_eq (s : Str) : Gen.Code.isname s = .ok (Subst.isname s) := code_isname_eq s
/-- `_split`: the Python 5-tuple `(prefix, name, namecase, suffix, vtype)` is the model's triple with `name = namecase.lower()`;
    the suffix is `None` exactly when the text has no `$` -/
theorem C04_code_split_eq (s : Str) : Gen.Code._split s = embedSplit (s.contains '$') (Subst.split s) := code_split_eq s
/-- `substitute(s, mapping)` with `mapping.get = defs`, `os.getenv = env`: the `while` loop, run with fuel `len(s) + 1`,
    is the model's -/
theorem C04_code_substitute_eq (defs env : Str → Option Str) (s : Str) :
    Gen.Code.substitute env s defs = embedS (Subst.substitute defs env s) := code_substitute_eq defs env s
/-- what `embedS` forgets: nothing but the raise-site number of a syntax error -/
theorem C04_code_embedS_injective_upto (a b : Except Subst.Err Str) (h : embedS a = embedS b) :
    a = b ∨ ∃ i j, a = .error (.syntax i) ∧ b = .error (.syntax j) := embedS_injective_upto a b h
example : embedS (.error (.syntax 1) : Except Subst.Err Str) = embedS (.error (.syntax 2)) := rfl
example : embedS (.ok ['a'] : Except Subst.Err Str) ≠ embedS (.ok ['b']) := by simp [embedS]

/-! ## (ii) the contracts, for the generated code -/

/-- Main theorem for the code: for every mapping, environment and string the translation of `substitute` returns what the
    documented function returns — the same text, or the same class of error (for a missing name: with the same source
    text and the same name). -/
theorem C04_code_substitute_eq_spec (defs env : Str → Option Str) (s : Str) :
    Gen.Code.substitute env s defs = embedSpec (substituteSpec defs env s) := by
  rw [code_substitute_eq, embedS_eq_embedSpec_conv, C04_substitute_eq_spec]

/-- `isname` (the code) accepts exactly: a letter or underscore followed by letters, digits, underscores -/
theorem C04_code_isname_spec (s : Str) : Gen.Code.isname s = .ok (isnameSpec s) := by
  rw [code_isname_eq, C04_isname_spec]

/-- a string without `$` is returned as is (the code) -/
theorem C04_code_no_dollar_id (defs env : Str → Option Str) (s : Str) (h : '$' ∉ s) :
    Gen.Code.substitute env s defs = .ok s := by
  rw [code_substitute_eq, C04_no_dollar_id defs env s h]; rfl
example : Gen.Code.substitute (fun _ => none) "a{b}".toList (fun _ => none) = .ok "a{b}".toList :=
  C04_code_no_dollar_id _ _ _ (by decide)

/-- the code raises `SubstitutionSyntaxError` exactly when the documented function reports a malformed construct -/
theorem C04_code_syntax_error_iff (defs env : Str → Option Str) (s : Str) :
    Gen.Code.substitute env s defs = .error .SubstitutionSyntaxError ↔ ∃ c, substituteSpec defs env s = .error (.syntax c) := by
  rw [C04_code_substitute_eq_spec]
  cases substituteSpec defs env s with
  | ok v => simp [embedSpec]
  | error e => cases e <;> simp [embedSpec]
example : Gen.Code.substitute (fun _ => none) "a$".toList (fun _ => none) = .error .SubstitutionSyntaxError :=
  have hm : Subst.substitute (fun _ => none) (fun _ => none) "a$".toList = .error (.syntax 0) := by
    rw [substcor_eval_eq]; decide +kernel
  (C04_code_syntax_error_iff _ _ _).mpr ⟨0, by rw [← C04_substitute_eq_spec, hm]; rfl⟩

/-- a `SubstitutionReplacementError` of the code carries the WHOLE source text and the name as written -/
theorem C04_code_missing_carries_source (defs env : Str → Option Str) (s a : Str) (b : Option Str)
    (h : Gen.Code.substitute env s defs = .error (.SubstitutionReplacementError a b)) : a = s ∧ ∃ n, b = some n := by
  rw [code_substitute_eq] at h
  cases hm : Subst.substitute defs env s with
  | ok v => rw [hm] at h; simp [embedS] at h
  | error e =>
    rw [hm] at h
    cases e with
    | «syntax» c => simp [embedS, embedSErr] at h
    | «missing» src name =>
      simp only [embedS, embedSErr, Except.error.injEq, Py.PyExc.SubstitutionReplacementError.injEq] at h
      obtain ⟨h1, h2⟩ := h
      subst h1
      exact ⟨C04_missing_carries_source defs env s _ _ hm, name, h2.symm⟩
example : Gen.Code.substitute (fun _ => none) "-$Ab".toList (fun _ => none) =
    .error (.SubstitutionReplacementError "-$Ab".toList (some "Ab".toList)) := by
  have hm : Subst.substitute (fun _ => none) (fun _ => none) "-$Ab".toList = .error (.missing "-$Ab".toList "Ab".toList) := by
    rw [substcor_eval_eq]; decide +kernel
  rw [C04_code_substitute_eq, hm]; rfl

end ZCV.Props.C04
