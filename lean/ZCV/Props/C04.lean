import ZCV.Lemmas.SubstExtra
/-!
# C04 — `$`-substitution computes exactly the documented replacement function

Model: `ZCV.Subst.substitute` (mirrors `substitution.py` with its index arithmetic and the
*generated* `_name_match` pattern).  Spec: `ZCV.SubstSpec.substituteSpec` (recursion on the text).
-/
namespace ZCV.Props.C04
open ZCV ZCV.Subst ZCV.SubstSpec

/-- Main theorem: for every mapping, environment and string (any length, any characters) the
    model of the code returns exactly what the documented function returns — same text, or the
    same error (same raise site; for a missing name: same source text and same name). -/
theorem C04_substitute_eq_spec (defs env : Str → Option Str) (s : Str) :
    conv (substitute defs env s) = substituteSpec defs env s := by
  unfold substitute substituteSpec
  by_cases hd : '$' ∈ s
  · have : s.contains '$' = true := by simpa using hd
    simp only [this, ↓reduceIte]
    rw [loop_eq defs env s _ s [] (by omega)]
    cases spec defs env s s <;> simp
  · have : s.contains '$' = false := by simpa using hd
    simp only [this, Bool.false_eq_true, ↓reduceIte]
    have := spec_prefix defs env s s [] hd
    simp only [List.append_nil, spec_nil, map_ok] at this
    simp [conv, this]

/-- a string without `$` is returned as is -/
theorem C04_no_dollar_id (defs env : Str → Option Str) (s : Str) (h : '$' ∉ s) :
    substitute defs env s = .ok s := by
  unfold substitute
  have : s.contains '$' = false := by simpa using h
  simp only [this, Bool.false_eq_true, ↓reduceIte]

/-- `isname` accepts exactly: a letter or underscore followed by letters, digits, underscores -/
theorem C04_isname_spec (s : Str) : isname s = isnameSpec s := by
  unfold isname isnameSpec
  have := nameMatchAt_eq [] s
  simp only [List.nil_append, List.length_nil, Nat.zero_add] at this
  rw [this]
  cases s with
  | nil => simp [nameSplit]
  | cons c t =>
    simp only [nameSplit]
    by_cases hc : isNameStart c
    · simp only [hc, ↓reduceIte, Option.map_some, Bool.true_and, ← takeWhile_eq_self_iff]
      rw [Bool.eq_iff_iff]; simp
    · simp [hc]

theorem C04_missing_carries_source (defs env : Str → Option Str) (s a b : Str)
    (h : substitute defs env s = .error (.missing a b)) : a = s := by
  have h1 := C04_substitute_eq_spec defs env s
  rw [h] at h1
  simp only [conv, toSpecErr, substituteSpec] at h1
  exact spec_missing_source defs env s s.length s a b (Nat.le_refl _) h1.symm

end ZCV.Props.C04
