import ZCV.Model.Matcher
namespace ZCV.Props.C16
open ZCV ZCV.Cfg
end ZCV.Props.C16
