import ZCV.Model.Conv
import ZCV.Lemmas.Except
import ZCV.Lemmas.Handlers
import ZCV.Lemmas.HandlersSpec
import ZCV.Lemmas.HandlersText
import ZCV.Lemmas.HandlersCall
import ZCV.Lemmas.HandlersDemo
import ZCV.Lemmas.NoInternalLower
import ZCV.Lemmas.DischargeElab
import ZCV.Lemmas.DischargeExamples
import ZCV.Props.C10
import ZCV.Lemmas.ImportOvFree
import ZCV.Lemmas.ImportOvEx
namespace ZCV.Props.C16
open ZCV ZCV.Cfg

/-- closing a section appends to the shared handler list exactly the entries of that section's own handler-bearing
    items, in schema order, after everything appended before (in particular after the entries of the sections nested in
    it, which were closed earlier) -/
theorem C16_stop_appends_own_entries (st st' : LS) (ty : Str) (nm : Option Str) (child parent : Matcher) (below : List Matcher)
    (hst : st.stack = child :: parent :: below) (h : lsStop st ty nm = .ok st') :
    ∃ v hs, finishMatcher st.conv st.schema child = .ok (v, hs) ∧ st'.handlers = st.handlers ++ hs := by
  unfold lsStop at h
  rw [hst] at h
  simp only [bind, Except.bind] at h
  split at h
  · simp at h
  · rename_i r hr
    obtain ⟨v, hs⟩ := r
    split at h
    · simp at h
    · simp only [pure, Except.pure, Except.ok.injEq] at h
      exact ⟨v, hs, hr, by rw [← h]⟩

open ZCV.Conf

/-! ## the handler list is the post-order of the handler-bearing items -/

/-- `loadTreeH` (the tree-driven loader returning the configuration AND the handler list, assembled as `Cfg.load`
    assembles it) is `loadTree` when the handler list is forgotten: everything C01/C02 say about `loadTree` is about
    the first component of `loadTreeH`. -/
theorem C16_loadTreeH_value (conv : Conv) (s : Schema) (items : List Item) :
    (loadTreeH conv s items).map (·.1) = loadTree conv s items :=
  loadTreeH_value conv s items

/-- **The composite handler list is the post-order of the handler-bearing items.**  For every well-formed schema, every
    datatype family and every tree (any size, any nesting depth): the loader accepts the tree iff it conforms, and then
    the handler list it returns is `handlersOf` of the top-level container — for each section in file order (the order
    in which sections are closed) that section's own `handlersOf` recursively, then the container's OWN handler-bearing
    items in schema order, each with the value `denote` gives that attribute — followed, last, by the schema-level
    handler with the configuration object itself (when the schema has a handler). -/
theorem C16_handlers_postorder (conv : Conv) (s : Schema) (items : List Item)
    (hs : schemaOK s = true) (ht : tyCanon s items = true) :
    (loadTreeH conv s items).toOption =
      (denote conv s items).map fun v =>
        (v, handlersOf conv s s.top items ++ (match s.handler with | some h => [(h, v)] | none => [])) := by
  rw [loadTreeH_eq conv s items hs ht]
  cases hd : denote conv s items with
  | none => rfl
  | some v =>
    simp only [Option.map_some, docHandlers, hd]
    cases s.handler <;> rfl

/-- the same, read from an accepted load: the handler list IS the post-order list (and the value IS `denote`) -/
theorem C16_accepted_handlers (conv : Conv) (s : Schema) (items : List Item)
    (hs : schemaOK s = true) (ht : tyCanon s items = true) (v : Val) (hh : List (Str × Val))
    (h : loadTreeH conv s items = .ok (v, hh)) :
    denote conv s items = some v ∧
      hh = handlersOf conv s s.top items ++ (match s.handler with | some h => [(h, v)] | none => []) := by
  have e := C16_handlers_postorder conv s items hs ht
  rw [h] at e
  cases hd : denote conv s items with
  | none => rw [hd] at e; cases e
  | some v' =>
    rw [hd] at e
    simp only [Except.toOption, Option.map_some, Option.some.injEq, Prod.mk.injEq] at e
    obtain ⟨e1, e2⟩ := e
    subst e1
    exact ⟨rfl, e2⟩

/-- the same for configuration TEXT (no `%import`, no overrides): the handler object returned with the configuration
    of an accepted text holds the post-order list of the tree the parser builds from the text.  (`hlow`: lower-casing
    is idempotent, a fact about the generated Unicode table; `hkeys`: type names are stored lower-cased.) -/
theorem C16_text_handlers_postorder (conv : Conv) (env : Env) (pkgs : Str → Pkg) (s : Schema) (url : Option Str)
    (lines : List Str) (r : LoadResult) (hs : schemaOK s = true) (hlow : ∀ x : Str, lower (lower x) = lower x)
    (hkeys : ∀ p ∈ s.types, lower p.1 = p.1)
    (hni : ∀ l ∈ lines, NoImportLine l) (hres : ∀ u ls, env.res u = some ls → ∀ l ∈ ls, NoImportLine l)
    (h : load conv env pkgs s url lines [] = .ok r) :
    ∃ items, treeOf env url lines = .ok items ∧ denote conv s items = some r.value ∧
      r.handlers =
        handlersOf conv s s.top items ++ (match s.handler with | some h => [(h, r.value)] | none => []) := by
  obtain ⟨items, htree, hc, hl⟩ := load_ok_loadTreeH conv env pkgs s url lines hs hlow hkeys hni hres r h
  obtain ⟨h1, h2⟩ := C16_accepted_handlers conv s items hs hc r.value r.handlers hl
  exact ⟨items, htree, h1, h2⟩

/-! ## its length -/

/-- **`len(handler)`**: the handler list of an accepted tree has exactly one entry per handler-bearing schema item the
    text instantiates (`nHandled`: for every section of the text, at every depth, the handler-bearing children of its
    type; those of the schema itself; one more for a schema-level handler) — a number that depends on the schema and
    the shape of the text only, not on any value. -/
theorem C16_len (conv : Conv) (s : Schema) (items : List Item)
    (hs : schemaOK s = true) (ht : tyCanon s items = true) (v : Val) (hh : List (Str × Val))
    (h : loadTreeH conv s items = .ok (v, hh)) : hh.length = nHandled s items := by
  obtain ⟨h1, h2⟩ := loadTreeH_handlers conv s items hs ht v hh h
  rw [h2, docHandlers_length conv s items v h1]

/-- the same for TEXT -/
theorem C16_text_len (conv : Conv) (env : Env) (pkgs : Str → Pkg) (s : Schema) (url : Option Str)
    (lines : List Str) (r : LoadResult) (hs : schemaOK s = true) (hlow : ∀ x : Str, lower (lower x) = lower x)
    (hkeys : ∀ p ∈ s.types, lower p.1 = p.1)
    (hni : ∀ l ∈ lines, NoImportLine l) (hres : ∀ u ls, env.res u = some ls → ∀ l ∈ ls, NoImportLine l)
    (h : load conv env pkgs s url lines [] = .ok r) :
    ∃ items, treeOf env url lines = .ok items ∧ r.handlers.length = nHandled s items := by
  obtain ⟨items, htree, hc, hl⟩ := load_ok_loadTreeH conv env pkgs s url lines hs hlow hkeys hni hres r h
  exact ⟨items, htree, C16_len conv s items hs hc r.value r.handlers hl⟩

/-! ## the values are the tree's values -/

/-- **Each entry's value is the value the value tree holds for that item.**  For any container of the text (the
    document, or a section at any depth) that conforms to its type `t`: the container's value is a section value whose
    attribute names are `t`'s children's, in schema order, and the container's own entries in the handler list are,
    position by position, the handler-bearing children of `t` with the value stored at the same position of that
    section value.  (The section value is the one `denote` builds for the section before the section's own datatype is
    applied to it: with the default `null` section datatype it is the section object of the tree itself.) -/
theorem C16_values_are_tree_values (conv : Conv) (s : Schema) (t : SType) (nm : Option Str) (items : List Item) (v : Val)
    (h : containerVal conv s t nm items (itemVals conv s items) = some v) :
    ∃ attrs, v = Val.sect (t.name.getD []) nm attrs ∧ attrs.map (·.1) = t.children.map (·.2.attr) ∧
      ownHandlers conv s t items =
        (t.children.zip attrs).filterMap fun ca => ca.1.2.handler.map fun h => (h, ca.2.2) :=
  ownHandlers_of_value conv s t nm items v h

/-- the same by attribute NAME, for a type of a well-formed schema (attribute names are distinct): the entry of a
    handler-bearing child `c` is `(c's handler, the value found under c's attribute in the section value)` -/
theorem C16_values_by_attribute (conv : Conv) (s : Schema) (t : SType) (hT : stypeOK s t = true) (nm : Option Str)
    (items : List Item) (v : Val) (h : containerVal conv s t nm items (itemVals conv s items) = some v) :
    ∃ attrs, v = Val.sect (t.name.getD []) nm attrs ∧
      ownHandlers conv s t items =
        t.children.filterMap fun c => c.2.handler.bind fun h => (attrs.lookup c.2.attr).map fun x => (h, x) :=
  ownHandlers_lookup conv s t (stypeOK_prop s t hT) nm items v h

/-- the document's own entries are read off the top-level section value of which the configuration is the image under
    the schema's datatype; the schema-level entry holds the configuration itself (see `C16_handlers_postorder`) -/
theorem C16_top_values (conv : Conv) (s : Schema) (items : List Item) (v : Val) (h : denote conv s items = some v) :
    ∃ attrs, (conv.sect s.top.datatype (Val.sect (s.top.name.getD []) none attrs)).toOption = some v ∧
      attrs.map (·.1) = s.top.children.map (·.2.attr) ∧
      ownHandlers conv s s.top items =
        (s.top.children.zip attrs).filterMap fun ca => ca.1.2.handler.map fun h => (h, ca.2.2) := by
  unfold denote at h
  cases hc : containerVal conv s s.top none items (itemVals conv s items) with
  | none => rw [hc] at h; cases h
  | some v0 =>
    rw [hc] at h
    obtain ⟨attrs, h1, h2, h3⟩ := ownHandlers_of_value conv s s.top none items v0 hc
    subst h1
    exact ⟨attrs, h, h2, h3⟩

/-! ## non-vacuity: a schema with handlers at every level and a text instantiating them -/

section demo
open ZCV.Demo16

/-- the hypotheses of `C16_handlers_postorder` hold for a conforming text: the loader accepts it, and the handler names
    are the two sections' `p` entries first (file order), then the document's own `k` and `ss`, the schema handler last -/
example : ((loadTreeH demoConv demoSchema demoItems).toOption.map fun r => r.2.map (·.1)) =
    some [['h', 'p'], ['h', 'p'], ['h', 'k'], ['h', 's'], ['h', 'a']] := by
  rw [C16_handlers_postorder demoConv demoSchema demoItems demo_schemaOK demo_tyCanon]
  decide +kernel

/-- the hypotheses of `C16_len` hold: the loader returns something, and it has 5 entries -/
example : ∃ v hh, loadTreeH demoConv demoSchema demoItems = .ok (v, hh) ∧ hh.length = 5 := by
  have e := C16_handlers_postorder demoConv demoSchema demoItems demo_schemaOK demo_tyCanon
  have hd : (denote demoConv demoSchema demoItems).isSome = true := by decide +kernel
  cases hl : loadTreeH demoConv demoSchema demoItems with
  | error x =>
    rw [hl] at e
    cases hden : denote demoConv demoSchema demoItems with
    | none => rw [hden] at hd; cases hd
    | some v => rw [hden] at e; cases e
  | ok r =>
    obtain ⟨v, hh⟩ := r
    refine ⟨v, hh, rfl, ?_⟩
    rw [C16_len demoConv demoSchema demoItems demo_schemaOK demo_tyCanon v hh hl]
    decide +kernel

/-- the hypothesis of `C16_values_are_tree_values` holds for the document container of the demo -/
example : (containerVal demoConv demoSchema demoSchema.top none demoItems (itemVals demoConv demoSchema demoItems)).isSome
    = true := by decide +kernel

end demo

/-! ## calling the composite handler

`callHandlers` (in `ZCV/Lemmas/HandlersCall.lean`) is a small pure model of `CompositeHandler.__call__`
(`ZConfig/loader.py`) that is HAND-WRITTEN IN THE PROOF FILES: it is not part of `ZCV/Model`, the driver does not run
it, and it is tied to the code only by the exploration of the C16 check (`harness/zcv/props/c16.py`), which calls the
real handler object with complete / incomplete / None-containing / case-variant-duplicate maps and recording
callables.  `hs` is ANY handler list (in particular the one of `C16_handlers_postorder`); the handler map is a list
of `(name, some callable-id | none)` items; the result is the outcome together with the log of the calls made. -/

open ZCV.Call

/-- **A mapped-to-None entry is skipped, everything else is called exactly once, in order.**  If every supplied name
    is a valid basic-key, no two supplied names normalise to the same key, and every handler name of the list is
    supplied (after normalisation) — `cb h` being what is supplied for `h`, a callable or None — then the call
    succeeds and the log of calls is the handler list in order, each entry delivered once to its callable with its own
    value, the entries mapped to None left out.  (Model of `__call__` hand-written in the proof files, see above.) -/
theorem C16_none_skipped (hs : List (Str × Val)) (hm : HMap) (cb : Str → Option Nat)
    (hv : Valid hm) (hn : ((keyed hm).map (·.1)).Nodup)
    (hc : ∀ e ∈ hs, ∃ p ∈ hm, DT.basicKey p.1 = .ok e.1 ∧ p.2 = cb e.1) :
    callHandlers hs hm = { err := none, log := hs.filterMap fun e => (cb e.1).map fun f => (f, e.2) } := by
  unfold callHandlers
  rw [(normMap_nil_iff hm (keyed hm)).mpr ⟨hv, hn, rfl⟩]
  simp only
  have hmem : ∀ e ∈ hs, (e.1, cb e.1) ∈ keyed hm := fun e he => (mem_keyed hm e.1 (cb e.1)).mpr (hc e he)
  have hL : (hs.filterMap fun e => if (keyed hm).any (·.1 == e.1) then none else some e.1) = [] := by
    rw [List.filterMap_eq_nil_iff]
    intro e he
    rw [any_of_mem (keyed hm) e.1 (cb e.1) (hmem e he)]
    rfl
  rw [hL]
  simp only [List.isEmpty_nil, Bool.not_true, Bool.false_eq_true, if_false, CallResult.mk.injEq, true_and]
  apply Conf.filterMap_congr'
  intro e he
  rw [dget_of_mem (keyed hm) e.1 (cb e.1) hn (hmem e he)]
  cases cb e.1 <;> rfl

/-- **A complete map without None: every entry is delivered exactly once, in order.**  Under the hypotheses of
    `C16_none_skipped` with a callable `g h` supplied for every handler name `h`: the log of calls is the handler list
    itself, entry by entry — same length, same order, the i-th call handing the i-th entry's value to the callable
    supplied for the i-th entry's name. -/
theorem C16_call_exactly_once (hs : List (Str × Val)) (hm : HMap) (g : Str → Nat)
    (hv : Valid hm) (hn : ((keyed hm).map (·.1)).Nodup)
    (hc : ∀ e ∈ hs, ∃ p ∈ hm, DT.basicKey p.1 = .ok e.1 ∧ p.2 = some (g e.1)) :
    callHandlers hs hm = { err := none, log := hs.map fun e => (g e.1, e.2) } := by
  rw [C16_none_skipped hs hm (fun h => some (g h)) hv hn hc]
  simp only [Option.map_some, CallResult.mk.injEq, true_and]
  induction hs with
  | nil => rfl
  | cons e l ih =>
    rw [List.filterMap_cons, List.map_cons]
    simp only
    rw [ih (fun e he => hc e (List.mem_cons_of_mem _ he))]

/-- whenever the call raises, nothing has been called -/
theorem C16_error_empty_log (hs : List (Str × Val)) (hm : HMap) (h : (callHandlers hs hm).err.isSome = true) :
    (callHandlers hs hm).log = [] := by
  unfold callHandlers at h ⊢
  cases hnm : normMap [] hm with
  | error e => rfl
  | ok d =>
    rw [hnm] at h
    simp only at h ⊢
    split
    · rfl
    · rename_i hL
      rw [if_neg hL] at h
      cases h

/-- **All or nothing.**  If some handler name of the list is not supplied (no supplied name normalises to it), or two
    of the supplied items have names that normalise to the same basic-key, the call raises and NOTHING has been called
    (the log is empty) — whatever else the map contains, and in whatever order. -/
theorem C16_all_or_nothing (hs : List (Str × Val)) (hm : HMap)
    (h : (∃ e ∈ hs, ∀ p ∈ hm, DT.basicKey p.1 ≠ .ok e.1) ∨
         (∃ a p b q c n, hm = a ++ p :: (b ++ q :: c) ∧ DT.basicKey p.1 = .ok n ∧ DT.basicKey q.1 = .ok n)) :
    (callHandlers hs hm).err.isSome = true ∧ (callHandlers hs hm).log = [] := by
  have herr : (callHandlers hs hm).err.isSome = true := by
    unfold callHandlers
    cases hnm : normMap [] hm with
    | error e => rfl
    | ok d =>
      obtain ⟨hv, hn, hd⟩ := (normMap_nil_iff hm d).mp hnm
      subst hd
      rcases h with ⟨e, he, hmiss⟩ | ⟨a, p, b, q, c, n, hhm, hp, hq⟩
      · simp only
        have hne : (hs.filterMap fun e => if (keyed hm).any (·.1 == e.1) then none else some e.1) ≠ [] := by
          intro hnil
          rw [List.filterMap_eq_nil_iff] at hnil
          have := hnil e he
          by_cases hany : (keyed hm).any (·.1 == e.1) = true
          · rw [List.any_eq_true] at hany
            obtain ⟨x, hx, hxe⟩ := hany
            obtain ⟨p, hp, hk, _⟩ := (mem_keyed hm x.1 x.2).mp hx
            rw [beq_iff_eq.mp hxe] at hk
            exact hmiss p hp hk
          · rw [if_neg hany] at this
            cases this
        have : (!(hs.filterMap fun e => if (keyed hm).any (·.1 == e.1) then none else some e.1).isEmpty) = true := by
          cases hl : (hs.filterMap fun e => if (keyed hm).any (·.1 == e.1) then none else some e.1) with
          | nil => exact absurd hl hne
          | cons x l => rfl
        rw [if_pos this]
        rfl
      · exfalso
        subst hhm
        have hk : keyed (a ++ p :: (b ++ q :: c)) = keyed a ++ (n, p.2) :: (keyed b ++ (n, q.2) :: keyed c) := by
          unfold keyed
          rw [List.filterMap_append, List.filterMap_cons, List.filterMap_append, List.filterMap_cons]
          simp only [hp, hq]
        rw [hk] at hn
        simp only [List.map_append, List.map_cons] at hn
        have := (List.nodup_append.mp hn).2.1
        rw [List.nodup_cons] at this
        exact this.1 (List.mem_append_right _ List.mem_cons_self)
  exact ⟨herr, C16_error_empty_log hs hm herr⟩

/-- sharper, for a map of valid names: a missing handler name is reported as "undefined handlers" (a configuration
    error listing every missing entry's name, in list order), duplicates as "not unique" (a configuration error naming
    one of the supplied names); in both cases nothing has been called. -/
theorem C16_refusals_are_configuration_errors (hs : List (Str × Val)) (hm : HMap) (hv : Valid hm)
    (h : (callHandlers hs hm).err.isSome = true) :
    (∃ e, (callHandlers hs hm).err = some e ∧ e.isCfg = true) ∧ (callHandlers hs hm).log = [] := by
  refine ⟨?_, C16_error_empty_log hs hm h⟩
  unfold callHandlers at h ⊢
  cases hnm : normMap [] hm with
  | error e =>
    obtain ⟨p, _, he⟩ := normMap_error_valid hm [] e hv hnm
    exact ⟨e, rfl, by rw [he]; rfl⟩
  | ok d =>
    rw [hnm] at h
    simp only at h ⊢
    split
    · exact ⟨_, rfl, rfl⟩
    · rename_i hL
      rw [if_neg hL] at h
      cases h

/-- exactly when the call goes through: all supplied names are valid basic-keys, pairwise distinct after
    normalisation, and every handler name of the list is among them -/
theorem C16_call_ok_iff (hs : List (Str × Val)) (hm : HMap) :
    (callHandlers hs hm).err = none ↔
      Valid hm ∧ ((keyed hm).map (·.1)).Nodup ∧ ∀ e ∈ hs, e.1 ∈ (keyed hm).map (·.1) := by
  constructor
  · intro h
    unfold callHandlers at h
    cases hnm : normMap [] hm with
    | error e => rw [hnm] at h; cases h
    | ok d =>
      rw [hnm] at h
      obtain ⟨hv, hn, hd⟩ := (normMap_nil_iff hm d).mp hnm
      subst hd
      refine ⟨hv, hn, ?_⟩
      intro e he
      simp only at h
      split at h
      · cases h
      · rename_i hL
        have hnil : (hs.filterMap fun e => if (keyed hm).any (·.1 == e.1) then none else some e.1) = [] := by
          cases hl : (hs.filterMap fun e => if (keyed hm).any (·.1 == e.1) then none else some e.1) with
          | nil => rfl
          | cons x l => rw [hl] at hL; exact absurd rfl hL
        rw [List.filterMap_eq_nil_iff] at hnil
        have := hnil e he
        by_cases hany : (keyed hm).any (·.1 == e.1) = true
        · rw [List.any_eq_true] at hany
          obtain ⟨x, hx, hxe⟩ := hany
          rw [← beq_iff_eq.mp hxe]
          exact List.mem_map_of_mem hx
        · rw [if_neg hany] at this
          cases this
  · intro ⟨hv, hn, hc⟩
    have hc' : ∀ e ∈ hs, ∃ p ∈ hm, DT.basicKey p.1 = .ok e.1 ∧ p.2 = ((dget (keyed hm) e.1).getD none) := by
      intro e he
      obtain ⟨x, hx, hxe⟩ := List.mem_map.mp (hc e he)
      obtain ⟨p, hp, hk, hp2⟩ := (mem_keyed hm x.1 x.2).mp hx
      refine ⟨p, hp, by rw [hk, hxe], ?_⟩
      have : dget (keyed hm) e.1 = some x.2 := by
        rw [← hxe]
        exact dget_of_mem (keyed hm) x.1 x.2 hn hx
      rw [this, hp2]
      rfl
    rw [C16_none_skipped hs hm (fun h => (dget (keyed hm) h).getD none) hv hn hc']

/-! non-vacuity: a complete map with a case-variant name and a None; a missing name; case-variant duplicates -/

section demoCall
open ZCV.Demo16
/-- complete map, case-variant names: three calls, in list order, `hp`'s callable twice -/
example : callHandlers demoList [(['H', 'p'], some 7), (['h', 'K'], some 8)] =
    { err := none, log := [(7, .int 1), (8, .int 2), (7, .int 3)] } := by
  simp [callHandlers, normMap, bk1, bk2, dget, demoList]
/-- `hk` mapped to None: skipped -/
example : callHandlers demoList [(['H', 'p'], some 7), (['h', 'K'], none)] =
    { err := none, log := [(7, .int 1), (7, .int 3)] } := by
  simp [callHandlers, normMap, bk1, bk2, dget, demoList]
/-- the hypotheses of `C16_call_exactly_once` are satisfiable -/
example : Valid [(['H', 'p'], some 7), (['h', 'K'], some 8)] ∧
    ((keyed [(['H', 'p'], some 7), (['h', 'K'], some 8)]).map (·.1)).Nodup := by
  refine ⟨?_, ?_⟩
  · intro p hp
    simp only [List.mem_cons, List.not_mem_nil, or_false] at hp
    rcases hp with rfl | rfl
    · exact ⟨_, bk1⟩
    · exact ⟨_, bk2⟩
  · simp [keyed, bk1, bk2]
/-- `hk` missing: refused, nothing called (first alternative of `C16_all_or_nothing`) -/
example : ∃ e ∈ demoList, ∀ p ∈ [((['H', 'p'] : Str), some 7)], DT.basicKey p.1 ≠ .ok e.1 := by
  refine ⟨(['h', 'k'], .int 2), by simp [demoList], ?_⟩
  intro p hp
  simp only [List.mem_cons, List.not_mem_nil, or_false] at hp
  subst hp
  rw [bk1]
  simp
/-- `Hp` and `hP` both supplied: refused (second alternative of `C16_all_or_nothing`) -/
example : (callHandlers demoList [(['H', 'p'], some 7), (['h', 'K'], some 8), (['h', 'P'], none)]).err.isSome = true ∧
    (callHandlers demoList [(['H', 'p'], some 7), (['h', 'K'], some 8), (['h', 'P'], none)]).log = [] :=
  C16_all_or_nothing _ _ (.inr ⟨[], (['H', 'p'], some 7), [(['h', 'K'], some 8)], (['h', 'P'], none), [], ['h', 'p'],
    rfl, bk1, bk3⟩)
end demoCall

/-! ## the table hypotheses discharged -/

/-- `C16_text_handlers_postorder` without the table hypothesis: `hlow` is discharged by the proved `lower_idem` -/
theorem C16_text_handlers_postorder' (conv : Conv) (env : Env) (pkgs : Str → Pkg) (s : Schema) (url : Option Str)
    (lines : List Str) (r : LoadResult) (hs : schemaOK s = true) (hkeys : ∀ p ∈ s.types, lower p.1 = p.1)
    (hni : ∀ l ∈ lines, NoImportLine l) (hres : ∀ u ls, env.res u = some ls → ∀ l ∈ ls, NoImportLine l)
    (h : load conv env pkgs s url lines [] = .ok r) :
    ∃ items, treeOf env url lines = .ok items ∧ denote conv s items = some r.value ∧
      r.handlers =
        handlersOf conv s s.top items ++ (match s.handler with | some h => [(h, r.value)] | none => []) :=
  C16_text_handlers_postorder conv env pkgs s url lines r hs ZCV.lower_idem hkeys hni hres h

/-- `C16_text_len` without the table hypothesis (`hlow` discharged by `lower_idem`) -/
theorem C16_text_len' (conv : Conv) (env : Env) (pkgs : Str → Pkg) (s : Schema) (url : Option Str)
    (lines : List Str) (r : LoadResult) (hs : schemaOK s = true) (hkeys : ∀ p ∈ s.types, lower p.1 = p.1)
    (hni : ∀ l ∈ lines, NoImportLine l) (hres : ∀ u ls, env.res u = some ls → ∀ l ∈ ls, NoImportLine l)
    (h : load conv env pkgs s url lines [] = .ok r) :
    ∃ items, treeOf env url lines = .ok items ∧ r.handlers.length = nHandled s items :=
  C16_text_len conv env pkgs s url lines r hs ZCV.lower_idem hkeys hni hres h

/-- **End to end.**  For the schema object `S` of ANY schema document the schema loader accepts (`hkey`: its key types
    never turn a non-empty name into the empty string — true of the stock key types), every datatype family and every
    text without `%import` loaded without overrides: the handler object returned with the configuration holds the
    post-order handler list of the tree of the text (then the schema-level handler), and its length is `nHandled`.
    `schemaOK`, `hlow`, `hkeys` are discharged (C10, `lower_idem`, `elab_types_keys_lower`). -/
theorem C16_end_to_end (eenv : Elab.Env) (fuel : Nat) (doc : Elab.Node) (S : Schema)
    (hkey : ∀ (kt s r : Str), s ≠ [] → eenv.conv.key kt s = .ok r → r ≠ [])
    (hS : Elab.elabSchema eenv fuel doc = .ok S)
    (conv : Conv) (env : Env) (pkgs : Str → Pkg) (url : Option Str) (lines : List Str) (r : LoadResult)
    (hni : ∀ l ∈ lines, NoImportLine l) (hres : ∀ u ls, env.res u = some ls → ∀ l ∈ ls, NoImportLine l)
    (h : load conv env pkgs S url lines [] = .ok r) :
    ∃ items, treeOf env url lines = .ok items ∧ denote conv S items = some r.value ∧
      r.handlers =
        handlersOf conv S S.top items ++ (match S.handler with | some h => [(h, r.value)] | none => []) ∧
      r.handlers.length = nHandled S items := by
  have hs := ZCV.Props.C10.C10_elab_schemaOK eenv fuel doc S hkey hS
  have hk := Elab.elab_types_keys_lower hS
  obtain ⟨items, h1, h2, h3⟩ := C16_text_handlers_postorder' conv env pkgs S url lines r hs hk hni hres h
  obtain ⟨items', h1', h4⟩ := C16_text_len' conv env pkgs S url lines r hs hk hni hres h
  rw [h1] at h1'
  cases h1'
  exact ⟨items, h1, h2, h3, h4⟩

/-- the hypotheses are satisfiable (accepted schema document with a base schema and a component, stock key types;
    import-free text; no includable resources) -/
example : ∃ S, Elab.elabSchema Elab.Example.env 1 Elab.Example.doc = .ok S ∧
    ∀ r, load Ex.conv Ex.env Ex.pkgs S none DischargeEx.lines [] = .ok r →
      ∃ items, treeOf Ex.env none DischargeEx.lines = .ok items ∧ r.handlers.length = nHandled S items := by
  obtain ⟨S, hS⟩ := DischargeEx.dis_ex_doc_accepted
  refine ⟨S, hS, fun r hr => ?_⟩
  obtain ⟨items, h1, _, _, h4⟩ := C16_end_to_end Elab.Example.env 1 _ S
    (by intro kt s r hs hr; exact Elab.stockConv_key_ne_nil kt s r hs hr) hS _ _ _ _ _ r
    DischargeEx.dis_ex_lines_noImport DischargeEx.dis_ex_res hr
  exact ⟨items, h1, h4⟩

end ZCV.Props.C16

/-! ## the general form: texts with `%import` lines, loaded with command-line overrides (C16 with C12 and C14) -/

namespace ZCV.Props.C16
open ZCV ZCV.Cfg ZCV.Conf ZCV.Call

/-- **The handler list is the post-order listing of the EDITED top-level items, in general.**  For every text (lines,
    `%define`s, `%include`s of any depth, `%import`s) that meets no `%import` inside a section and whose imports keep the
    schema of the load well-formed, every list of specifiers whose section-selecting components are basic keys, and key
    types of the schema `S` the load starts with idempotent: whenever the loader returns a configuration, the handler
    object returned with it holds `docHandlersI` (`ZCV/Spec/HandlersImport.lean`) of the top-level items of the text edited
    as the specifiers ask (`editI`, against `S`): for each top-level section in file order its post-order entries —
    listed, like its value, against the schema in force at its position —, then the document's own handler-bearing items
    in schema order with the values `denoteI` holds for those attributes, the schema-level handler with the
    configuration itself last.  The entries of overridden keys carry the override values (they are entries of the
    EDITED items). -/
theorem C16_handlers_postorder_general (conv : Conv) (env : Env) (pkgs : Str → Pkg) (S : Schema) (url : Option Str)
    (lines : List Str) (specs : List Str) (r : LoadResult)
    (hidem : KeyIdemOn conv S)
    (htop : importsAtTop env url lines)
    (hok : ∀ tops, treeOfI env url lines = .ok tops → importsOK pkgs S tops = true)
    (hovs : ∀ ovs, specs.mapM addOption = .ok ovs → OvsOK ovs)
    (h : load conv env pkgs S url lines specs = .ok r) :
    ∃ ovs tops tops', specs.mapM addOption = .ok ovs ∧ treeOfI env url lines = .ok tops ∧
      editI conv S tops ovs = .ok tops' ∧ denoteI conv S pkgs tops' = some r.value ∧
      r.handlers = docHandlersI conv S pkgs tops' := by
  obtain ⟨ovs, tops, tops', h1, h2, h3, h4, h5, _⟩ := load_ov_result conv env pkgs S url lines specs true (fun _ => hidem)
    htop hok hovs r h
  exact ⟨ovs, tops, tops', h1, h2, h3, h4, h5⟩

/-- the same with the supplied lines spelled with the normalised key (`editNormI`): no assumption on the key types -/
theorem C16_handlers_postorder_general_norm (conv : Conv) (env : Env) (pkgs : Str → Pkg) (S : Schema) (url : Option Str)
    (lines : List Str) (specs : List Str) (r : LoadResult)
    (htop : importsAtTop env url lines)
    (hok : ∀ tops, treeOfI env url lines = .ok tops → importsOK pkgs S tops = true)
    (hovs : ∀ ovs, specs.mapM addOption = .ok ovs → OvsOK ovs)
    (h : load conv env pkgs S url lines specs = .ok r) :
    ∃ ovs tops tops', specs.mapM addOption = .ok ovs ∧ treeOfI env url lines = .ok tops ∧
      editNormI conv S tops ovs = .ok tops' ∧ denoteI conv S pkgs tops' = some r.value ∧
      r.handlers = docHandlersI conv S pkgs tops' := by
  obtain ⟨ovs, tops, tops', h1, h2, h3, h4, h5, _⟩ := load_ov_result conv env pkgs S url lines specs false
    (fun h => by cases h) htop hok hovs r h
  exact ⟨ovs, tops, tops', h1, h2, h3, h4, h5⟩

/-- **Special case: no `%import` lines and no overrides** — the statement of `C16_text_handlers_postorder'`, recovered from
    the general form: `docHandlersI` of a text without `%import` lines is `docHandlers` (`hkeys` is not needed). -/
theorem C16_text_handlers_postorder_from_general (conv : Conv) (env : Env) (pkgs : Str → Pkg) (s : Schema) (url : Option Str)
    (lines : List Str) (r : LoadResult) (hs : schemaOK s = true)
    (hni : ∀ l ∈ lines, NoImportLine l) (hres : ∀ u ls, env.res u = some ls → ∀ l ∈ ls, NoImportLine l)
    (h : load conv env pkgs s url lines [] = .ok r) :
    ∃ items, treeOf env url lines = .ok items ∧ denote conv s items = some r.value ∧
      r.handlers =
        handlersOf conv s s.top items ++ (match s.handler with | some h => [(h, r.value)] | none => []) := by
  obtain ⟨hfree, htop⟩ := treeOfI_import_free env url lines hni hres
  have hitems : ∀ tops, treeOfI env url lines = .ok tops →
      ∃ items, treeOf env url lines = .ok items ∧ tops = items.map .item ∧ lowItems items = true := by
    intro tops ht
    have hl := treeOfI_low env url lines tops ht
    rw [ht] at hfree
    cases hT : treeOf env url lines with
    | error e => rw [hT] at hfree; cases hfree
    | ok items =>
      rw [hT] at hfree
      simp only [Cfg.toOption_ok, Option.map_some, Option.some.injEq] at hfree
      subst hfree
      rw [lowTops_items] at hl
      exact ⟨items, rfl, rfl, hl⟩
  have hok : ∀ tops, treeOfI env url lines = .ok tops → importsOK pkgs s tops = true := by
    intro tops ht
    obtain ⟨items, _, rfl, _⟩ := hitems tops ht
    rw [importsOK_items]
    exact hs
  obtain ⟨ovs, tops, tops', h1, h2, h3, h4, h5⟩ := C16_handlers_postorder_general_norm conv env pkgs s url lines [] r htop hok
    (by
      intro ovs h
      simp only [List.mapM_nil, pure, Except.pure, Except.ok.injEq] at h
      subst h
      intro o ho; cases ho) h
  simp only [List.mapM_nil, pure, Except.pure, Except.ok.injEq] at h1
  subst h1
  rw [show editNormI conv s tops [] = .ok tops from editBodyI_nil conv s false tops] at h3
  cases h3
  obtain ⟨items, hT, rfl, hl⟩ := hitems tops h2
  rw [docHandlersI_items.C12_denoteI_free conv pkgs s items hs hl] at h4
  rw [docHandlersI_items conv pkgs s items hs hl] at h5
  refine ⟨items, hT, h4, ?_⟩
  rw [h5]
  unfold docHandlers
  rw [h4]
  cases s.handler <;> rfl

/-- **`callHandlers`, unchanged**: the theorems on calling the composite handler (`C16_call_exactly_once`,
    `C16_none_skipped`, `C16_all_or_nothing`, `C16_call_ok_iff`) hold for ANY handler list, hence for the list of a load
    with `%import` lines and overrides; e.g. a complete map of callables delivers every entry of `docHandlersI` of the
    edited items exactly once, in order. -/
theorem C16_general_call_exactly_once (conv : Conv) (env : Env) (pkgs : Str → Pkg) (S : Schema) (url : Option Str)
    (lines : List Str) (specs : List Str) (r : LoadResult)
    (hidem : KeyIdemOn conv S)
    (htop : importsAtTop env url lines)
    (hok : ∀ tops, treeOfI env url lines = .ok tops → importsOK pkgs S tops = true)
    (hovs : ∀ ovs, specs.mapM addOption = .ok ovs → OvsOK ovs)
    (h : load conv env pkgs S url lines specs = .ok r)
    (hm : HMap) (g : Str → Nat) (hv : Valid hm) (hn : ((keyed hm).map (·.1)).Nodup)
    (hc : ∀ e ∈ r.handlers, ∃ p ∈ hm, DT.basicKey p.1 = .ok e.1 ∧ p.2 = some (g e.1)) :
    ∃ ovs tops tops', specs.mapM addOption = .ok ovs ∧ treeOfI env url lines = .ok tops ∧
      editI conv S tops ovs = .ok tops' ∧
      callHandlers r.handlers hm = { err := none, log := (docHandlersI conv S pkgs tops').map fun e => (g e.1, e.2) } := by
  obtain ⟨ovs, tops, tops', h1, h2, h3, _, h5⟩ := C16_handlers_postorder_general conv env pkgs S url lines specs r hidem htop
    hok hovs h
  refine ⟨ovs, tops, tops', h1, h2, h3, ?_⟩
  rw [C16_call_exactly_once r.handlers hm g hv hn hc, h5]

/-- … and a map that misses one of the names, or supplies two names that normalise alike, calls NOTHING -/
theorem C16_general_all_or_nothing (r : LoadResult) (hm : HMap)
    (h : (∃ e ∈ r.handlers, ∀ p ∈ hm, DT.basicKey p.1 ≠ .ok e.1) ∨
         (∃ a p b q c n, hm = a ++ p :: (b ++ q :: c) ∧ DT.basicKey p.1 = .ok n ∧ DT.basicKey q.1 = .ok n)) :
    (callHandlers r.handlers hm).err.isSome = true ∧ (callHandlers r.handlers hm).log = [] :=
  C16_all_or_nothing r.handlers hm h

/-- **End to end**, from a schema DOCUMENT (hypotheses as in `C01_end_to_end_general`) -/
theorem C16_end_to_end_general (eenv : Elab.Env) (fuel : Nat) (doc : Elab.Node) (S : Schema)
    (hkey : ∀ (kt s r : Str), s ≠ [] → eenv.conv.key kt s = .ok r → r ≠ [])
    (hS : Elab.elabSchema eenv fuel doc = .ok S)
    (conv : Conv) (env : Env) (pkgs : Str → Pkg) (url : Option Str) (lines : List Str) (specs : List Str) (r : LoadResult)
    (hidem : KeyIdemOn conv S)
    (htop : importsAtTop env url lines)
    (hcomp : ∀ tops, treeOfI env url lines = .ok tops → compsOK pkgs S tops = true)
    (hovs : ∀ ovs, specs.mapM addOption = .ok ovs → OvsOK ovs)
    (h : load conv env pkgs S url lines specs = .ok r) :
    ∃ ovs tops tops', specs.mapM addOption = .ok ovs ∧ treeOfI env url lines = .ok tops ∧
      editI conv S tops ovs = .ok tops' ∧ denoteI conv S pkgs tops' = some r.value ∧
      r.handlers = docHandlersI conv S pkgs tops' :=
  C16_handlers_postorder_general conv env pkgs S url lines specs r hidem htop
    (fun tops ht => importsOK_of_compsOK pkgs tops S (ZCV.Props.C10.C10_elab_schemaOK eenv fuel doc S hkey hS) (hcomp tops ht))
    hovs h

/-- **non-vacuity**: in the world of `ZCV/Lemmas/ImportOvEx.lean` (handlers on the key `k` of both section types, on the
    slot and on the schema; text with a `%import` line, a section of the imported type and a section of a static type;
    an override into the latter and a top-level key override) the load is accepted and the theorem gives its handler
    list: `hk` of section `a` (value from the text), `hk` of section `b` (the OVERRIDE value), `hs` with both sections,
    `hall` with the configuration -/
example : ∃ r, load ExOv.conv ExOv.env ExOv.pkgs ExOv.schema none (ExOv.lines '1') ExOv.specsGood = .ok r ∧
    r.handlers = [("hk".toList, .str ['1']), ("hk".toList, .str ['2']),
                  ("hs".toList, .list [ExOv.vLeak '1', ExOv.vSt '2']), ("hall".toList, ExOv.vGood)] := by
  have hacc : ∃ r, load ExOv.conv ExOv.env ExOv.pkgs ExOv.schema none (ExOv.lines '1') ExOv.specsGood = .ok r := by
    have e := load_ov_eq_denoteI ExOv.conv ExOv.env ExOv.pkgs ExOv.schema none (ExOv.lines '1') ExOv.specsGood true
      (fun _ => ExOv.idem) ExOv.atTop1 ExOv.ok1 ExOv.ovsGood_ok
    rw [ExOv.split_good, ExOv.tree1] at e
    simp only [Cfg.toOption_ok, Option.bind_some] at e
    rw [show editBodyI ExOv.conv ExOv.schema true (ExOv.tops '1') ExOv.ovsGood = .ok ExOv.topsGood from ExOv.edit_good] at e
    simp only [Cfg.toOption_ok, Option.bind_some] at e
    rw [ExOv.denote_good] at e
    cases hl : load ExOv.conv ExOv.env ExOv.pkgs ExOv.schema none (ExOv.lines '1') ExOv.specsGood with
    | ok r => exact ⟨r, rfl⟩
    | error x => rw [hl] at e; cases e
  obtain ⟨r, hr⟩ := hacc
  refine ⟨r, hr, ?_⟩
  obtain ⟨ovs, tops, tops', h1, h2, h3, _, h5⟩ := C16_handlers_postorder_general ExOv.conv ExOv.env ExOv.pkgs ExOv.schema none
    (ExOv.lines '1') ExOv.specsGood r ExOv.idem ExOv.atTop1 ExOv.ok1 ExOv.ovsGood_ok hr
  rw [ExOv.split_good] at h1
  cases h1
  rw [ExOv.tree1] at h2
  cases h2
  rw [ExOv.edit_good] at h3
  cases h3
  rw [h5, ExOv.handlers_good]

end ZCV.Props.C16
