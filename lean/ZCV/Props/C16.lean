import ZCV.Model.Conv
import ZCV.Lemmas.Except
namespace ZCV.Props.C16
open ZCV ZCV.Cfg

/-- closing a section appends to the shared handler list exactly the entries of that section's own handler-bearing
    items, in schema order, after everything appended before (in particular after the entries of the sections nested in
    it, which were closed earlier) -/
theorem C16_stop_appends_own_entries (st st' : LS) (ty : Str) (nm : Option Str) (child parent : Matcher) (below : List Matcher)
    (hst : st.stack = child :: parent :: below) (h : lsStop st ty nm = .ok st') :
    ∃ v hs, finishMatcher st.conv st.schema child = .ok (v, hs) ∧ st'.handlers = st.handlers ++ hs := by
  unfold lsStop at h
  rw [hst] at h
  simp only [bind, Except.bind] at h
  split at h
  · simp at h
  · rename_i r hr
    obtain ⟨v, hs⟩ := r
    split at h
    · simp at h
    · simp only [pure, Except.pure, Except.ok.injEq] at h
      exact ⟨v, hs, hr, by rw [← h]⟩

end ZCV.Props.C16
