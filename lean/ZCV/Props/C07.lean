import ZCV.Model.Matcher
namespace ZCV.Props.C07
open ZCV ZCV.Cfg

/-- the directive names `handle_directive` lets through all have a handler method: with the *generated* tuple,
    reading one line can never end in the AttributeError of a missing `handle_<name>` -/
theorem C07_lineShape_no_internal (l : Str) (e : String) : lineShape l ≠ .internal e := by
  unfold lineShape
  dsimp only
  repeat' split
  all_goals first
    | (intro h; cases h; done)
    | skip
  rename_i name arg hdir harg h1 h2 h3
  have hd : Gen.directives = ["define".toList, "import".toList, "include".toList] := rfl
  rw [hd] at hdir
  simp only [List.contains_cons, List.contains_nil, Bool.or_false, Bool.not_eq_true', Bool.or_eq_false_iff] at hdir
  simp_all

end ZCV.Props.C07
