import ZCV.Lemmas.NoInternalLoader
import ZCV.Lemmas.NoInternalLower
import ZCV.Lemmas.NoInternalSchemaless
import ZCV.Lemmas.NoInternalExamples
import ZCV.Lemmas.Validator
/-!
# C07 — user input can only produce configuration errors, never internal exceptions

The models make every partial Python operation explicit: `Fail.internal exc` is "a Python exception outside the ZConfig
error family escaped" (TypeError, KeyError, IndexError, AttributeError, RecursionError, NotImplementedError …);
`Fail.dtExc` is an exception raised by a datatype function itself (allowed to pass through by the property).

Main statements
* `C07_no_internal` — `load` (the `ConfigLoader` / `ExtendedConfigLoader` model: parser, matcher, option bags,
  `%define` / `%import` / `%include`) never ends in `.internal`, over ALL texts, ALL override lists, ALL datatype
  tables and ALL include graphs, under four hypotheses, each of which is shown necessary by a closed counterexample below;
* `C07_outcomes` — the same in positive form;
* `C07_schemaless_no_internal` — the schema-less loader: only the deliberate `NotImplementedError`, and only for a
  text with a `%define` / `%include` line;
* `C07_parser_no_internal` — the parser alone, for an arbitrary context.

Proofs: `ZCV/Lemmas/NoInternal*.lean`.
-/
namespace ZCV.Props.C07
open ZCV ZCV.Cfg

/-! ## the loader with a schema -/

/-- the directive names `handle_directive` lets through all have a handler method: with the *generated* tuple,
    reading one line can never end in the AttributeError of a missing `handle_<name>` -/
theorem C07_lineShape_no_internal (l : Str) (e : String) : lineShape l ≠ .internal e :=
  lineShape_no_internal l e

/-- **No input produces an internal exception.**  Whatever the text `lines` of the configuration, whatever the texts of
    the resources it includes (`env.res`), whatever the command-line override specifiers `ovs`, whatever the datatype
    functions do (`conv`; they may reject with ValueError or raise anything else, which passes through as `.dtExc`),
    loading never ends in a Python exception outside the ZConfig error family, provided

    * `hs`: the schema is well-formed in the sense of `schemaWF` — the schema-independent part of `schemaOK`, which the
      schema loader guarantees (distinct attribute names per type, a key is stored under its own non-empty name, a
      required single key has no default, a concrete type is stored under its own name);
    * `hp`: so are the types of every schema component a `%import` can bring in;
    * `henv.resolved`: resolving an `%include` argument always answers (`.unknown` only marks arguments outside the
      table the test harness computed);
    * `henv.bounded`, `hlen`: the resources that can be opened have non-empty URLs out of a list of at most 64 (the model
      represents Python's recursion limit by 64 nested includes; nesting cannot exceed the number of distinct resources
      because a resource that is already being read is refused — which the loader only checks for non-empty URLs).

    No hypothesis on the text, the overrides, the datatypes, the include graph (cycles included), `%define`s or the
    environment variables. -/
theorem C07_no_internal (conv : Conv) (env : Env) (pkgs : Str → Pkg) (s : Schema) (url : Option Str)
    (lines : List Str) (ovs : List Str) (urls : List Str)
    (hs : schemaWF s = true) (hp : ∀ p, pkgWF (pkgs p) = true) (henv : EnvOK env urls) (hlen : urls.length ≤ 64)
    (e : String) : load conv env pkgs s url lines ovs ≠ .error (.internal e) :=
  load_no_internal lower_idem conv env pkgs s url lines ovs urls hs hp henv hlen e

/-- the same for a schema that passes the full structural check `schemaOK` (what the harness verifies on every schema) -/
theorem C07_no_internal_schemaOK (conv : Conv) (env : Env) (pkgs : Str → Pkg) (s : Schema) (url : Option Str)
    (lines : List Str) (ovs : List Str) (urls : List Str)
    (hs : Conf.schemaOK s = true) (hp : ∀ p, pkgWF (pkgs p) = true) (henv : EnvOK env urls) (hlen : urls.length ≤ 64)
    (e : String) : load conv env pkgs s url lines ovs ≠ .error (.internal e) :=
  C07_no_internal conv env pkgs s url lines ovs urls (schemaOK_schemaWF s hs) hp henv hlen e

/-- positive form: a load returns a configuration, or raises an exception of the configuration-error family, or lets an
    exception of a datatype function through -/
theorem C07_outcomes (conv : Conv) (env : Env) (pkgs : Str → Pkg) (s : Schema) (url : Option Str)
    (lines : List Str) (ovs : List Str) (urls : List Str)
    (hs : schemaWF s = true) (hp : ∀ p, pkgWF (pkgs p) = true) (henv : EnvOK env urls) (hlen : urls.length ≤ 64) :
    (∃ r, load conv env pkgs s url lines ovs = .ok r) ∨
    (∃ err, load conv env pkgs s url lines ovs = .error (.cfg err)) ∨
    (∃ n, load conv env pkgs s url lines ovs = .error (.dtExc n)) := by
  have h := C07_no_internal conv env pkgs s url lines ovs urls hs hp henv hlen
  cases hl : load conv env pkgs s url lines ovs with
  | ok r => exact .inl ⟨r, rfl⟩
  | error f =>
    cases f with
    | cfg err => exact .inr (.inl ⟨err, rfl⟩)
    | dtExc n => exact .inr (.inr ⟨n, rfl⟩)
    | internal x => exact absurd hl (h x)

/-- without `%include` in play (nothing can be opened) the two resource hypotheses reduce to "`resolve` answers" -/
theorem C07_no_internal_no_resources (conv : Conv) (env : Env) (pkgs : Str → Pkg) (s : Schema) (url : Option Str)
    (lines : List Str) (ovs : List Str)
    (hs : schemaWF s = true) (hp : ∀ p, pkgWF (pkgs p) = true)
    (hres : ∀ b a, env.resolve b a ≠ .unknown) (hnone : ∀ u, env.res u = none)
    (e : String) : load conv env pkgs s url lines ovs ≠ .error (.internal e) :=
  C07_no_internal conv env pkgs s url lines ovs [] hs hp
    ⟨hres, fun _ _ u _ ho => by rw [hnone u] at ho; cases ho⟩ (Nat.zero_le _) e

/-! ### the hypotheses are satisfiable by non-trivial instances -/

namespace Sat
open ZCV.Cfg.Ex

example : schemaWF sNice = true := by decide
example : Conf.schemaOK sNice = true := by decide
/-- a component that is fine -/
example : pkgWF (.component "u".toList [("t".toList, .concrete (sty "t".toList []))] []) = true := by decide
example : ∀ p, pkgWF (pkgs0 p) = true := fun _ => rfl
/-- an include environment with 65 resources satisfies `EnvOK` (so `hlen` is the only hypothesis it violates) -/
example : EnvOK envChain chain := envChain_ok.1
/-- one with nothing to include -/
example : EnvOK env0 [] := ⟨fun _ _ h => (by cases h), fun _ _ _ _ ho => (by cases ho)⟩

/-- and loads do succeed: the empty text against the empty schema -/
example : ∃ r, load conv0 env0 pkgs0 sEmpty none [] [] = .ok r := by
  rw [load_no_overrides]
  unfold loadTail
  simp only [parseLines_nil]
  exact ⟨_, rfl⟩

end Sat

/-! ### each hypothesis is needed (closed counterexamples) -/

namespace Needed
open ZCV.Cfg.Ex

/-- `hs`, "a required single key has no default": `default[:]` on a ValueInfo raises TypeError when the key is missing.
    (Empty text, no overrides, nothing importable or includable.) -/
example : load conv0 env0 pkgs0 (sch [(some "k".toList, .key (key1 "k" "k" false 1 (.one vi0)))] []) none [] [] =
    .error (.internal "TypeError") := by
  rw [load_no_overrides]
  unfold loadTail
  simp only [parseLines_nil]
  rfl
example : schemaWF (sch [(some "k".toList, .key (key1 "k" "k" false 1 (.one vi0)))] []) = false := by decide

/-- `hs`, "distinct attribute names": a key and a multikey sharing the attribute `x` — the multikey finds the other's
    `None` where it expects its list. -/
example : load conv0 env0 pkgs0
    (sch [(some "a".toList, .key (key1 "a" "x" false 0 .none)), (some "b".toList, .key (key1 "b" "x" true 0 (.many [])))] [])
    none [] [] = .error (.internal "TypeError") := by
  rw [load_no_overrides]
  unfold loadTail
  simp only [parseLines_nil]
  rfl
example : schemaWF
    (sch [(some "a".toList, .key (key1 "a" "x" false 0 .none)), (some "b".toList, .key (key1 "b" "x" true 0 (.many [])))] [])
    = false := by decide

/-- `hs`, "a key is stored under its own name": a key child without a key is taken for a section slot by
    `getsectioninfo` (`info.sectiontype` on a KeyInfo: AttributeError) as soon as the text opens a section. -/
example : load conv0 env0 pkgs0 sWrongKey none ["<a/>".toList] [] = .error (.internal "AttributeError") :=
  wrongKey_counterexample
example : schemaWF sWrongKey = false := by decide

/-- `hs`, "a concrete type is stored under its own name": the table maps `a` to a type that calls itself `b`; both
    implement the abstract type of the only section slot.  `<a/>` is accepted, its value is labelled `b`, and when the
    schema matcher finishes, `gettype("b")` for the section datatype finds nothing the loader expects. -/
example : load conv0 env0 pkgs0 sMisnamed none ["<a/>".toList] [] = .error (.internal "AttributeError") :=
  misnamed_counterexample
example : schemaWF sMisnamed = false := by decide

/-- `hp`: the application schema is fine, the imported component declares a type with a required key that has a
    default; the text imports the component and uses the type (`%import p`, then `<t/>`). -/
example : load conv0 env0 pkgsBad sHost none ["%import p".toList, "<t/>".toList] [] = .error (.internal "TypeError") :=
  pkg_counterexample
example : schemaWF sHost = true := by decide
example : pkgWF (pkgsBad []) = false := by decide

/-- `henv.resolved`: an include argument outside the harness table. -/
example : load conv0 { env0 with resolve := fun _ _ => .unknown } pkgs0 sEmpty none [inc] [] =
    .error (.internal "unresolved-by-harness") := by
  rw [load_no_overrides]
  unfold loadTail
  simp only [parseLines_cons, incStep_inc _ _ loaderCtx rfl]
  rfl

/-- `henv.bounded`, "non-empty URL": a resource whose URL is the empty string and which includes itself is never
    refused ("resource includes itself" is only tested for a true `resource.url`), the nesting is unbounded.
    Every other hypothesis holds (`urls := [[]]`). -/
example : load conv0 envSelf pkgs0 sEmpty none [inc] [] = .error (.internal "RecursionError") := by
  rw [load_no_overrides]
  unfold loadTail
  simp only [bind, Except.bind]
  rw [self_runs_out loaderCtx rfl]
example : (∀ b a, envSelf.resolve b a ≠ .unknown) ∧
    (∀ b a u, envSelf.resolve b a = .url u → (envSelf.res u).isSome = true → u ∈ [([] : Str)]) :=
  ⟨fun _ _ h => (by cases h), fun _ _ u h _ => (by cases h; exact List.mem_cons_self)⟩

/-- `hlen`: 65 resources `x`, `xx`, … each including the next exhaust the 64 levels of the model: the bound is tight
    (`envChain` satisfies `EnvOK` with a list of 65 URLs, see `Sat`). -/
example : load conv0 envChain pkgs0 sEmpty none [inc] [] = .error (.internal "RecursionError") := by
  rw [load_no_overrides]
  unfold loadTail
  simp only [parseLines_cons, incStep_inc _ _ loaderCtx rfl]
  have hres : envChain.resolve none "y".toList = .url (List.replicate 1 'x') := rfl
  have hopen : envChain.res (List.replicate 1 'x') = some [inc] := by
    simp only [envChain, chain_mem 0 (by omega), if_true]
  rw [hres]
  simp only
  rw [hopen]
  simp only [List.contains_nil, Bool.and_false, Bool.false_eq_true, if_false]
  rw [chain_runs_out loaderCtx rfl 63 1 _ _ rfl (by intro a ha; simp at ha; subst ha; simp)]
  rfl
example : chain.length = 65 := envChain_ok.2

end Needed

/-! ## the schema-less loader -/

/-- **Schema-less loader**: the only internal outcome of `schemaless.loadConfigFile` is the deliberate
    `NotImplementedError`, and it needs a `%define` or `%include` line in the text. -/
theorem C07_schemaless_no_internal (getenv : Str → Option Str) (url : Option Str) (lines : List Str) (e : String)
    (h : slLoad getenv url lines = .error (.internal e)) :
    e = "NotImplementedError" ∧ ∃ l ∈ lines, ∃ a, lineShape (strip l) = .define a ∨ lineShape (strip l) = .include_ a :=
  slLoad_internal getenv url lines e h

/-- a text without `%define` and `%include` lines never makes the schema-less loader fail internally -/
theorem C07_schemaless_plain_no_internal (getenv : Str → Option Str) (url : Option Str) (lines : List Str)
    (hplain : ∀ l ∈ lines, ∀ a, lineShape (strip l) ≠ .define a ∧ lineShape (strip l) ≠ .include_ a) (e : String) :
    slLoad getenv url lines ≠ .error (.internal e) := by
  intro h
  obtain ⟨_, l, hl, a, ha⟩ := C07_schemaless_no_internal getenv url lines e h
  rcases ha with ha | ha
  · exact (hplain l hl a).1 ha
  · exact (hplain l hl a).2 ha

/-- the exception is real: `%define` makes the schema-less loader raise `NotImplementedError` (and so does `%include`) -/
example : slLoad (fun _ => none) none ["%define a b".toList] = .error (.internal "NotImplementedError") := by
  unfold slLoad
  have hs : lineShape (strip "%define a b".toList) = .define "a b".toList := shape_define _ _ (by decide) (by decide)
  simp only [parseLines_cons, stepLine_define _ _ _ _ _ _ _ _ _ hs]
  rfl

/-- an ordinary text is loaded -/
example : ∃ r, slLoad (fun _ => none) none [] = .ok r := by
  unfold slLoad
  simp only [parseLines_nil]
  exact ⟨_, rfl⟩

/-! ## the parser alone -/

/-- **The parser for an arbitrary context** (`ZConfigParser` driving any object with `startSection` / `endSection` /
    `addValue` / `importSchemaComponent`): if the four callbacks never raise an internal exception on states satisfying
    an invariant `Inv n` (`n` = sections that may still be closed) and preserve it, a parse from a state satisfying
    `Inv st.stack.length` — over any text and include graph, with enough fuel for the resources not yet being read —
    never ends in an internal exception other than the `NotImplementedError` of a context that refuses `%define` or
    `%include`; and a successful parse ends with all sections closed, in a state satisfying `Inv 0`. -/
theorem C07_parser_no_internal {σ} (c : PCtx σ) (Inv : Nat → σ → Prop) (hc : CtxOK c Inv) (env : Env) (urls : List Str)
    (henv : c.canInclude = true → EnvOK env urls) (fuel : Nat) (active : List Str) (url : Option Str) (lines : List Str)
    (n : Nat) (st : PS σ) (hfuel : (urls.filter fun u => !active.contains u).length ≤ fuel)
    (hinv : Inv st.stack.length st.ctx) :
    (∀ e, parseLines fuel env c active url lines n st = .error (.internal e) →
      e = "NotImplementedError" ∧ (c.canDefine = false ∨ c.canInclude = false)) ∧
    (∀ st', parseLines fuel env c active url lines n st = .ok st' → st'.stack = [] ∧ Inv 0 st'.ctx) := by
  obtain ⟨h1, h2⟩ := parseLines_no_internal c Inv hc env urls henv fuel active url lines n st 0 hfuel
    (by rw [Nat.zero_add]; exact hinv)
  exact ⟨fun e h => (h1 e h).1, h2⟩

/-- the two contexts of the library satisfy the hypothesis on the callbacks -/
example : CtxOK loaderCtx LSInv := loaderCtx_ok lower_idem
example : CtxOK schemalessCtx SLInv := schemalessCtx_ok

/-! ### the validator command (`ZConfig/validator.py`), given a loadable schema -/

section ValidatorCmd
open ZCV.Validator

/-- THE CONSEQUENCE stated in the property, for the loop of `validator.main`: if no load lets anything but a configuration
    error out, the command ends (no exception escapes) with status 0 when every file is valid and 1 otherwise, having printed
    exactly one message per invalid file, in file order. -/
theorem C07_validator_exit (files : List Outcome) (hf : ∀ o ∈ files, isInternal o = false) :
    run files = .exit (if files.any isInvalid then 1 else 0) (files.filterMap msgOf) ∧
    (files.filterMap msgOf).length = files.countP isInvalid := by
  refine ⟨?_, filterMap_msgOf_length files⟩
  have := loop_spec files hf false []
  simpa [run] using this

/-- status 0 ⇔ all files valid -/
theorem C07_validator_status_zero_iff (files : List Outcome) (hf : ∀ o ∈ files, isInternal o = false) :
    run files = .exit 0 [] ↔ ∀ o ∈ files, o = .valid := by
  rw [(C07_validator_exit files hf).1]
  constructor
  · intro h o ho
    cases o with
    | valid => rfl
    | cfgError m =>
      have : files.any isInvalid = true := List.any_eq_true.mpr ⟨_, ho, rfl⟩
      simp [this] at h
    | internal e => have := hf _ ho; simp [isInternal] at this
  · intro h
    have h1 : files.any isInvalid = false := by
      rw [List.any_eq_false]; intro o ho; rw [h o ho]; simp [isInvalid]
    have h2 : files.filterMap msgOf = [] := by
      rw [List.filterMap_eq_nil_iff]; intro o ho; rw [h o ho]; rfl
    simp [h1, h2]

/-- conversely the loop protects nothing else: the first non-configuration exception ends the command there -/
theorem C07_validator_escape (pre : List Outcome) (hpre : ∀ o ∈ pre, isInternal o = false) (e : Str) (post : List Outcome) :
    run (pre ++ .internal e :: post) = .escaped e (pre.filterMap msgOf) := by
  have := loop_escapes pre hpre e post false []
  simpa [run] using this

/-- with the loader model in the loop: for a well-formed schema and datatypes that fail only with ValueError
    (`hdt`: no load ends in an exception of a datatype function — the exception the property makes), whatever the texts are,
    the validator ends with status 0 or 1 and one message per rejected text. -/
theorem C07_validator_on_loads (conv : Conv) (env : Env) (pkgs : Str → Pkg) (s : Schema) (render : Err → Str)
    (texts : List (Option Str × List Str)) (urls : List Str)
    (hs : schemaWF s = true) (hp : ∀ p, pkgWF (pkgs p) = true) (henv : EnvOK env urls) (hlen : urls.length ≤ 64)
    (hdt : ∀ t ∈ texts, ∀ n, load conv env pkgs s t.1 t.2 [] ≠ .error (.dtExc n)) :
    let outs := texts.map fun t => outcomeOf render (load conv env pkgs s t.1 t.2 [])
    ∃ status msgs, run outs = .exit status msgs ∧ (status = 0 ∨ status = 1) ∧
      (status = 0 ↔ ∀ t ∈ texts, ∃ r, load conv env pkgs s t.1 t.2 [] = .ok r) ∧
      msgs.length = (texts.filter fun t => !(load conv env pkgs s t.1 t.2 []).toBool).length := by
  intro outs
  have hf : ∀ o ∈ outs, isInternal o = false := by
    intro o ho
    obtain ⟨t, ht, rfl⟩ := List.mem_map.mp ho
    have hni := C07_no_internal conv env pkgs s t.1 t.2 [] urls hs hp henv hlen
    cases hl : load conv env pkgs s t.1 t.2 [] with
    | ok r => rfl
    | error f =>
      cases f with
      | cfg e => rfl
      | dtExc n => exact absurd hl (hdt t ht n)
      | internal x => exact absurd hl (hni x)
  obtain ⟨hrun, hlen'⟩ := C07_validator_exit outs hf
  refine ⟨_, _, hrun, ?_, ?_, ?_⟩
  · by_cases h : outs.any isInvalid = true <;> simp [h]
  · have hinv : ∀ t : Option Str × List Str,
        isInvalid (outcomeOf render (load conv env pkgs s t.1 t.2 [])) = true →
        ¬ ∃ r, load conv env pkgs s t.1 t.2 [] = .ok r := by
      intro t h ⟨r, hr⟩; rw [hr] at h; simp [outcomeOf, isInvalid] at h
    constructor
    · intro h t ht
      by_cases ha : outs.any isInvalid = true
      · simp [ha] at h
      · cases hl : load conv env pkgs s t.1 t.2 [] with
        | ok r => exact ⟨r, rfl⟩
        | error f =>
          exfalso
          have hni := C07_no_internal conv env pkgs s t.1 t.2 [] urls hs hp henv hlen
          cases f with
          | cfg e =>
            apply ha
            exact List.any_eq_true.mpr ⟨_, List.mem_map.mpr ⟨t, ht, rfl⟩, by rw [hl]; rfl⟩
          | dtExc n => exact hdt t ht n hl
          | internal x => exact hni x hl
    · intro h
      have : outs.any isInvalid = false := by
        rw [List.any_eq_false]
        intro o ho
        obtain ⟨t, ht, rfl⟩ := List.mem_map.mp ho
        obtain ⟨r, hr⟩ := h t ht
        rw [hr]; simp [outcomeOf, isInvalid]
      simp [this]
  · rw [hlen']
    show (texts.map _).countP isInvalid = _
    rw [List.countP_map, List.countP_eq_length_filter]
    congr 1
    apply List.filter_congr
    intro t ht
    have hni := C07_no_internal conv env pkgs s t.1 t.2 [] urls hs hp henv hlen
    cases hl : load conv env pkgs s t.1 t.2 [] with
    | ok r => simp [hl, outcomeOf, isInvalid, Except.toBool]
    | error f =>
      cases f with
      | cfg e => simp [hl, outcomeOf, isInvalid, Except.toBool]
      | dtExc n => exact absurd hl (hdt t ht n)
      | internal x => exact absurd hl (hni x)

example : run [.valid, .cfgError "m1".toList, .valid, .cfgError "m2".toList] = .exit 1 ["m1".toList, "m2".toList] := by decide
example : run [.valid, .valid] = .exit 0 [] := by decide
example : run [.cfgError "m".toList, .internal "KeyError".toList, .cfgError "n".toList] = .escaped "KeyError".toList ["m".toList] := by decide

end ValidatorCmd

end ZCV.Props.C07
