import ZCV.Model.Matcher
namespace ZCV.Props.C07
open ZCV ZCV.Cfg

/-- the header/closer/directive dispatch of one line never produces an internal error by itself:
    a malformed directive line is a syntax error -/
theorem C07_directive_total (url : Option Str) (line : Nat) (rest : Str) :
    (∃ d, directive url line rest = .ok d) ∨ (∃ e, directive url line rest = .error (.cfg e) ∧ e.kind = .syntax) ∨
    directive url line rest = .error (.internal "AttributeError") := by
  unfold directive
  dsimp only
  repeat' split
  all_goals first
    | exact Or.inl ⟨_, rfl⟩
    | exact Or.inr (Or.inl ⟨_, rfl, rfl⟩)
    | exact Or.inr (Or.inr rfl)

end ZCV.Props.C07
