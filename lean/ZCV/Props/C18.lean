import ZCV.Lemmas.CodeEqUrl
import ZCV.Lemmas.Url
import ZCV.Lemmas.UrlPathDir
/-!
# C18 — path, URL and file-object entry points reach the same resource (the URL algebra part)
What the operating system does with a path (cwd, `abspath`, `urlopen`) is explored on real trees by the check and is
not a theorem.

The second half of the file is about the standard-library functions ZConfig builds its `file:` URLs with
(`ZCV.UrlPath`, a model of CPython 3.12 `urllib.parse.quote / unquote / urlsplit / urljoin / urldefrag` on POSIX):
strings are lists of Unicode scalar values (everything but lone surrogates, on which `quote` raises), bytes are UTF-8.
Not covered: Windows paths (`nturl2path`), `urlsplit`'s `ValueError`s (brackets in a network location), references
with a query or with parameters, empty segments (`//`) in a reference that starts at the root; references to
directories (ending in `/`, `.`, `..`) are covered for quoted relative references only (`C18_join_eq_resolve_any`).
-/
namespace ZCV.Props.C18
open ZCV
open ZCV.UrlPath (quote unquote pathToUrl urlToPath join zjoin defrag defragUrl defragFrag zdefragUrl tabCrLf)
open ZCV.UrlPathSpec (segments resolve normalize render absDir relFileRef urlNeutral absFilePath normalFilePath namesFile)

/-- the live `_pathsep_rx`, used as `isPath` uses it: a string is a file-system path unless a scheme of at least two
    characters precedes a colon at its start (one letter = a drive) — for every string -/
theorem C18_isPath_spec (s : Str) : Url.isPath s = UrlSpec.isPath s := Url.isPath_eq_spec s

/-- whatever `urlnormalize` returns is in the `file:///` normal form (any letter case of the scheme) -/
theorem C18_urlnormalize_form (u : Str) : UrlSpec.normalForm (Url.urlnormalize u) = true := Url.urlnormalize_normalForm' u

theorem C18_urlnormalize_idempotent (u : Str) : Url.urlnormalize (Url.urlnormalize u) = Url.urlnormalize u :=
  Url.urlnormalize_idempotent' u

/-- a URL already in normal form is returned unchanged -/
theorem C18_urlnormalize_fixed (u : Str) (h : UrlSpec.normalForm u = true) : Url.urlnormalize u = u :=
  Url.urlnormalize_fixed u h

/-! ## quoting -/

/-- `unquote(quote(s)) == s` for every string: space, `%`, `#`, `?`, `;`, `[`, control characters, non-ASCII letters
    (UTF-8 encoded and decoded) all come back -/
theorem C18_unquote_quote (s : Str) : unquote (quote s) = s := UrlPath.up_unquote_quote s

/-- the path `normalizeURL` turned into `"file://" + pathname2url(p)` is recovered exactly by `url2pathname(url[7:])`
    — for every string `p`, not only absolute paths -/
theorem C18_quote_roundtrip (p : Str) : urlToPath (pathToUrl p) = p := by
  show unquote (quote p) = p
  exact UrlPath.up_unquote_quote p

example : pathToUrl "/tmp/my dir/é#%?;[.conf".toList = "file:///tmp/my%20dir/%C3%A9%23%25%3F%3B%5B.conf".toList := by
  decide

/-- different paths get different URLs -/
theorem C18_pathToUrl_injective (p q : Str) (h : pathToUrl p = pathToUrl q) : p = q := by
  rw [← C18_quote_roundtrip p, h, C18_quote_roundtrip]

/-- for an absolute POSIX path `p`: the URL built from it is in `file:///` normal form, `urlnormalize` leaves it alone,
    `isPath` says "URL" for it and "path" for `p` itself -/
theorem C18_pathToUrl_normal (p : Str) (h : p.head? = some '/') :
    UrlSpec.normalForm (pathToUrl p) = true ∧ Url.urlnormalize (pathToUrl p) = pathToUrl p ∧
    Url.isPath (pathToUrl p) = false ∧ Url.isPath p = true :=
  ⟨UrlPath.up_pathToUrl_normalForm p h, UrlPath.up_pathToUrl_urlnormalize p h, UrlPath.up_pathToUrl_not_isPath p,
    UrlPath.up_isPath_abs p h⟩

/-- any string (e.g. a relative path) with no colon before its first slash is taken for a path; a name like
    `ab:c/d` is not (it is read as scheme `ab`) -/
theorem C18_isPath_of_nocolon (p : Str) (h : ∀ c ∈ p.takeWhile (· != '/'), c ≠ ':') : Url.isPath p = true :=
  UrlPath.up_isPath_of_nocolon p h

example : ∀ c ∈ "my dir/x:y.conf".toList.takeWhile (· != '/'), c ≠ ':' := by decide

/-! ## fragments -/

/-- the URL built from a path never has a fragment: `urldefrag` returns it unchanged with an empty fragment, even when
    the file name contains `#` (it is quoted as `%23`); whereas in any string the text after the first `#` is the
    fragment (tab, CR, LF removed), so a URL carrying `#frag` has a non-empty one — what `normalizeURL` rejects -/
theorem C18_quoted_has_no_fragment :
    (∀ p : Str, defrag (pathToUrl p) = (pathToUrl p, [])) ∧
    (∀ u frag : Str, '#' ∉ u → defragFrag (u ++ '#' :: frag) = frag.filter (fun c => !tabCrLf c)) ∧
    (∀ u frag : Str, '#' ∉ u → (∃ c ∈ frag, tabCrLf c = false) → defragFrag (u ++ '#' :: frag) ≠ []) := by
  refine ⟨UrlPath.up_defrag_pathToUrl, UrlPath.up_defrag_fragment, ?_⟩
  intro u frag hu ⟨c, hc, hcs⟩ he
  rw [UrlPath.up_defrag_fragment u frag hu] at he
  have : c ∈ frag.filter (fun c => !tabCrLf c) := List.mem_filter.2 ⟨hc, by simp [hcs]⟩
  rw [he] at this
  simp at this

example : defragFrag "file:///a/b.conf#sec".toList = "sec".toList := by decide
example : defrag (pathToUrl "/a/b#sec".toList) = ("file:///a/b%23sec".toList, []) := by decide

/-- **the entry points agree on the URL.**  `normalizeURL` applied to an absolute path `p` (the `isPath` branch:
    `"file://" + pathname2url(p)`, then `ZConfig.url.urldefrag`) and applied to the `file:` URL of `p` (the URL branch:
    `urldefrag` only) return the same URL, with no fragment to complain about; `_url_from_file` computes that same
    `"file://" + pathname2url(p)` for an open file named `p`. -/
theorem C18_entry_points_agree (p : Str) (h : p.head? = some '/') :
    Url.isPath p = true ∧ Url.isPath (pathToUrl p) = false ∧
    zdefragUrl (pathToUrl p) = pathToUrl p ∧ defragFrag (pathToUrl p) = [] := by
  refine ⟨UrlPath.up_isPath_abs p h, UrlPath.up_pathToUrl_not_isPath p, ?_, ?_⟩
  · unfold zdefragUrl defragUrl
    rw [UrlPath.up_defrag_pathToUrl, UrlPath.up_znormalize_eq]
    exact UrlPath.up_pathToUrl_urlnormalize p h
  · unfold defragFrag
    rw [UrlPath.up_defrag_pathToUrl]

/-! ## joining = resolving against the containing directory -/

/-- **joining is lexical resolution.**  Base: the URL of the file `dir/file` (`dir` absolute, `""` for the root; any
    characters in the names).  Reference: any relative path to a file (`ref` does not start with `/`, its last
    segment is not empty, `.` or `..`), quoted.  The file the joined URL names is `/` + the segments of `dir`
    followed by those of `ref`, with `.` and empty segments skipped and `..` removing the segment before it (never
    above the root) — `file` itself plays no role. -/
theorem C18_join_eq_resolve (dir file ref : Str) (hd : absDir dir) (hf : '/' ∉ file) (hr : relFileRef ref) :
    urlToPath (join (pathToUrl (dir ++ '/' :: file)) (quote ref)) =
      render (resolve (segments dir) (segments ref)) :=
  UrlPath.up_join_eq_resolve dir file ref hd hf hr

example : absDir "/etc/my app".toList ∧ '/' ∉ "top#1.conf".toList ∧ relFileRef "../d/./e f%.conf".toList :=
  ⟨Or.inr rfl, by decide, by decide, "e f%.conf".toList, by decide, by decide⟩
example : render (resolve (segments "/etc/my app".toList) (segments "../d/./e f%.conf".toList)) =
    "/etc/d/e f%.conf".toList := by decide
example : render (resolve (segments "/a".toList) (segments "../../../x".toList)) = "/x".toList := by decide

/-- the complete statement for relative references: every non-empty `ref` that does not start with `/`, also one that
    names a directory (last segment empty, `.` or `..`) — then the result keeps a trailing slash (`/` alone for the
    root).  (`ref = ""` returns the base itself.) -/
theorem C18_join_eq_resolve_any (dir file ref : Str) (hd : absDir dir) (hf : '/' ∉ file) (hne : ref ≠ [])
    (hrel : ref.head? ≠ some '/') :
    urlToPath (join (pathToUrl (dir ++ '/' :: file)) (quote ref)) =
      render (resolve (segments dir) (segments ref) ++ (if namesFile ref then [] else [[]])) :=
  UrlPath.up_join_eq_resolve_any dir file ref hd hf hne hrel

example : render (resolve (segments "/a/b".toList) (segments "c/..".toList) ++
    (if namesFile "c/..".toList then [] else [[]])) = "/a/b/".toList := by decide
example : render (resolve (segments "/a".toList) (segments "../..".toList) ++
    (if namesFile "../..".toList then [] else [[]])) = "/".toList := by decide

/-- the same for a reference used as written (what `%include`, `src=` and `extends=` do), provided it is made of
    URL-neutral characters: no `%`, `#`, `?`, tab, CR, LF, no leading space or control character, no colon before the
    first slash.  Spaces, `;`, `[`, `&`, `+`, `~`, non-ASCII letters are fine. -/
theorem C18_join_raw_eq_resolve (dir file ref : Str) (hd : absDir dir) (hf : '/' ∉ file) (hr : relFileRef ref)
    (hn : urlNeutral ref) :
    urlToPath (join (pathToUrl (dir ++ '/' :: file)) ref) = render (resolve (segments dir) (segments ref)) :=
  UrlPath.up_join_raw_eq_resolve dir file ref hd hf hr hn

example : urlNeutral "../d é/e f;[&+~].conf".toList ∧ relFileRef "../d é/e f;[&+~].conf".toList :=
  ⟨⟨by decide, by decide, by decide⟩, by decide, "e f;[&+~].conf".toList, by decide, by decide⟩

/-- at URL level: the joined URL is exactly the URL `normalizeURL` builds from the resolved path (so it is again in
    `file:///` normal form and nothing is quoted twice) -/
theorem C18_join_is_pathToUrl (dir file ref : Str) (hd : absDir dir) (hf : '/' ∉ file) (hr : relFileRef ref) :
    join (pathToUrl (dir ++ '/' :: file)) (quote ref) = pathToUrl (render (resolve (segments dir) (segments ref))) :=
  UrlPath.up_join_is_pathToUrl dir file ref hd hf hr

example : join "file:///a/b%20c/top.conf".toList "../d/e%20f.conf".toList = "file:///a/d/e%20f.conf".toList := by decide

/-- `ZConfig.url.urljoin` (which repairs `file:/x` results) returns the same URL as `urllib`'s `urljoin` here -/
theorem C18_zjoin_eq_join (dir file ref : Str) (hd : absDir dir) (hf : '/' ∉ file) (hr : relFileRef ref) :
    zjoin (pathToUrl (dir ++ '/' :: file)) (quote ref) = join (pathToUrl (dir ++ '/' :: file)) (quote ref) := by
  rw [C18_join_is_pathToUrl dir file ref hd hf hr]
  exact UrlPath.up_zjoin_pathToUrl _ _ _ rfl (C18_join_is_pathToUrl dir file ref hd hf hr)

/-- **a reference that starts at the root replaces the base.**  For an absolute path `q` to a file (no `//`, last
    segment a name), given quoted or as a whole `file:///` URL, the result is the URL of `q` with its `.`/`..` worked
    off — whatever the base; and it is the URL of `q` itself when `q` is in normal form. -/
theorem C18_join_absolute (b q : Str) (hb : b.head? = some '/') (hq : absFilePath q) :
    join (pathToUrl b) (quote q) = pathToUrl (render (normalize (segments q))) ∧
    join (pathToUrl b) (pathToUrl q) = pathToUrl (render (normalize (segments q))) ∧
    (normalFilePath q → join (pathToUrl b) (quote q) = pathToUrl q ∧ join (pathToUrl b) (pathToUrl q) = pathToUrl q) := by
  refine ⟨UrlPath.up_join_absolute_path b q hb hq, UrlPath.up_join_absolute_url b q hb hq, ?_⟩
  intro hn
  rw [UrlPath.up_join_absolute_path b q hb hq, UrlPath.up_join_absolute_url b q hb hq, UrlPath.up_render_normal q hn]
  exact ⟨rfl, rfl⟩

example : absFilePath "/x/../y/z.conf".toList :=
  ⟨["x".toList, "..".toList, "y".toList], "z.conf".toList, by decide, by decide, by decide⟩
example : normalFilePath "/y/z w.conf".toList :=
  ⟨["y".toList, "z w.conf".toList], by decide, by decide, by decide⟩
example : render (normalize (segments "/x/../y/z.conf".toList)) = "/y/z.conf".toList := by decide

/-- a path in normal form is an absolute path to a file -/
theorem C18_normal_is_abs (q : Str) (h : normalFilePath q) : absFilePath q := UrlPath.up_normal_abs q h

/-- **nested references resolve against the containing resource.**  When the resource reached through `r1` refers to
    `r2`, the file named is `r2` resolved against the base directory followed by the directory part of `r1` (all
    segments of `r1` but the last) -/
theorem C18_join_nested (dir file r1 r2 : Str) (hd : absDir dir) (hf : '/' ∉ file) (hr1 : relFileRef r1)
    (hr2 : relFileRef r2) :
    urlToPath (join (join (pathToUrl (dir ++ '/' :: file)) (quote r1)) (quote r2)) =
      render (resolve (segments dir ++ (segments r1).dropLast) (segments r2)) :=
  UrlPath.up_join_nested dir file r1 r2 hd hf hr1 hr2

example : render (resolve (segments "/etc/app".toList ++ (segments "inc/a.conf".toList).dropLast)
    (segments "../lib/b.conf".toList)) = "/etc/app/lib/b.conf".toList := by decide

/-- the same at URL level: the result is exactly the URL of that path -/
theorem C18_join_nested_url (dir file r1 r2 : Str) (hd : absDir dir) (hf : '/' ∉ file) (hr1 : relFileRef r1)
    (hr2 : relFileRef r2) :
    join (join (pathToUrl (dir ++ '/' :: file)) (quote r1)) (quote r2) =
      pathToUrl (render (resolve (segments dir ++ (segments r1).dropLast) (segments r2))) :=
  UrlPath.up_join_nested_url dir file r1 r2 hd hf hr1 hr2

/-- the same for references used as written (URL-neutral characters) -/
theorem C18_join_nested_raw (dir file r1 r2 : Str) (hd : absDir dir) (hf : '/' ∉ file) (hr1 : relFileRef r1)
    (hn1 : urlNeutral r1) (hr2 : relFileRef r2) (hn2 : urlNeutral r2) :
    urlToPath (join (join (pathToUrl (dir ++ '/' :: file)) r1) r2) =
      render (resolve (segments dir ++ (segments r1).dropLast) (segments r2)) :=
  UrlPath.up_join_nested_raw dir file r1 r2 hd hf hr1 hn1 hr2 hn2

/-- resolving in two steps = resolving the concatenation (the specification's own compositionality) -/
theorem C18_resolve_compositional (a b c : List Str) : resolve (resolve a b) c = resolve (a ++ b) c :=
  UrlPath.up_resolve_normalize (a ++ b) c

end ZCV.Props.C18

/-!
# C18, the `ZConfig.url` wrappers restated for the code as it is now (generated by `harness/zcv/pytrans.py`)

`Gen.Code.urlnormalize / urldefrag / urljoin` (`ZCV/Gen/CodeUrl.lean`) are the translation of the Python source of
`ZConfig/url.py`, regenerated from the working tree on every run.  `urllib.parse.urljoin` and `urllib.parse.urldefrag` are
PARAMETERS of the generated code; the theorems instantiate them with the models `UrlPath.join` / `UrlPath.defrag` the rest
of this file is about.  `ZCV/Lemmas/CodeEqUrl.lean` proves the equalities for all arguments (values are strings: no
re-tagging).
-/
namespace ZCV.Props.C18
open ZCV ZCV.CodeEq
open ZCV.UrlPath (quote pathToUrl urlToPath join zjoin defrag defragFrag zdefragUrl)
open ZCV.UrlPathSpec (segments resolve render absDir relFileRef)

/-- the urllib functions as the generated code takes them, instantiated with the models -/
abbrev modelJoin : Str → Str → Except Py.PyExc Str := fun b r => .ok (join b r)
abbrev modelDefrag : Str → Except Py.PyExc (Str × Str) := fun u => .ok (defrag u)

/-! ## (i) generated code = model -/
theorem C18_code_urlnormalize_eq (u : Str) : Gen.Code.urlnormalize u = .ok (Url.urlnormalize u) := code_urlnormalize_eq u
theorem C18_code_urldefrag_eq (u : Str) : Gen.Code.urldefrag modelDefrag u = .ok (zdefragUrl u, defragFrag u) :=
  code_urldefrag_eq u
theorem C18_code_urljoin_eq (b r : Str) : Gen.Code.urljoin modelJoin b r = .ok (zjoin b r) := code_urljoin_eq b r
/-- an exception of the urllib function (its `ValueError`s are outside the models) passes through the wrappers unchanged -/
theorem C18_code_url_wrappers_propagate (e : Py.PyExc) (b r : Str) :
    Gen.Code.urljoin (fun _ _ => .error e) b r = .error e ∧ Gen.Code.urldefrag (fun _ => .error e) b = .error e :=
  code_url_wrappers_propagate e b r

/-! ## (ii) the contracts, for the generated code -/
/-- whatever `urlnormalize` (the code) returns is in the `file:///` normal form -/
theorem C18_code_urlnormalize_form (u : Str) : ∃ v, Gen.Code.urlnormalize u = .ok v ∧ UrlSpec.normalForm v = true :=
  ⟨_, code_urlnormalize_eq u, C18_urlnormalize_form u⟩
/-- `urlnormalize` (the code) is idempotent -/
theorem C18_code_urlnormalize_idempotent (u v : Str) (h : Gen.Code.urlnormalize u = .ok v) : Gen.Code.urlnormalize v = .ok v := by
  rw [code_urlnormalize_eq] at h
  have hv : v = Url.urlnormalize u := by injection h with h; exact h.symm
  rw [code_urlnormalize_eq, hv, C18_urlnormalize_idempotent]
example : Gen.Code.urlnormalize "file:///x".toList = .ok "file:///x".toList :=
  C18_code_urlnormalize_idempotent "FILE:/x".toList _ (by rw [code_urlnormalize_eq]; exact congrArg _ (by decide))
/-- a URL already in normal form is returned unchanged (the code) -/
theorem C18_code_urlnormalize_fixed (u : Str) (h : UrlSpec.normalForm u = true) : Gen.Code.urlnormalize u = .ok u := by
  rw [code_urlnormalize_eq, C18_urlnormalize_fixed u h]
example : UrlSpec.normalForm "file:///etc/x".toList = true := by decide
/-- `urljoin` (the code): the file the joined URL names is the base's directory followed by the reference, `.`/`..` worked off -/
theorem C18_code_urljoin_eq_resolve (dir file ref : Str) (hd : absDir dir) (hf : '/' ∉ file) (hr : relFileRef ref) :
    ∃ v, Gen.Code.urljoin modelJoin (pathToUrl (dir ++ '/' :: file)) (quote ref) = .ok v ∧
      urlToPath v = render (resolve (segments dir) (segments ref)) := by
  refine ⟨_, code_urljoin_eq _ _, ?_⟩
  rw [C18_zjoin_eq_join dir file ref hd hf hr]
  exact C18_join_eq_resolve dir file ref hd hf hr
example : absDir "/etc/my app".toList ∧ '/' ∉ "top#1.conf".toList ∧ relFileRef "../d/./e f%.conf".toList :=
  ⟨Or.inr rfl, by decide, by decide, "e f%.conf".toList, by decide, by decide⟩
/-- `urldefrag` (the code) leaves the URL of a path alone and finds no fragment in it -/
theorem C18_code_urldefrag_pathToUrl (p : Str) (h : p.head? = some '/') :
    Gen.Code.urldefrag modelDefrag (pathToUrl p) = .ok (pathToUrl p, []) := by
  rw [code_urldefrag_eq]
  have := C18_entry_points_agree p h
  simp only [this.2.2.1, this.2.2.2]
example : ("/a b#c".toList).head? = some '/' := rfl

end ZCV.Props.C18
