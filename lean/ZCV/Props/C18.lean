import ZCV.Lemmas.Url
/-!
# C18 — path, URL and file-object entry points reach the same resource (the URL algebra part)
What the operating system does with a path (cwd, `abspath`, `urlopen`) is explored on real trees by the check and is
not a theorem.
-/
namespace ZCV.Props.C18
open ZCV

/-- the live `_pathsep_rx`, used as `isPath` uses it: a string is a file-system path unless a scheme of at least two
    characters precedes a colon at its start (one letter = a drive) — for every string -/
theorem C18_isPath_spec (s : Str) : Url.isPath s = UrlSpec.isPath s := Url.isPath_eq_spec s

/-- whatever `urlnormalize` returns is in the `file:///` normal form (any letter case of the scheme) -/
theorem C18_urlnormalize_form (u : Str) : UrlSpec.normalForm (Url.urlnormalize u) = true := Url.urlnormalize_normalForm' u

theorem C18_urlnormalize_idempotent (u : Str) : Url.urlnormalize (Url.urlnormalize u) = Url.urlnormalize u :=
  Url.urlnormalize_idempotent' u

/-- a URL already in normal form is returned unchanged -/
theorem C18_urlnormalize_fixed (u : Str) (h : UrlSpec.normalForm u = true) : Url.urlnormalize u = u :=
  Url.urlnormalize_fixed u h

end ZCV.Props.C18
