import ZCV.Lemmas.CodeEqCfgparser
import ZCV.Lemmas.Grammar
import ZCV.Lemmas.Nesting
/-!
# C03 — configuration text is read by the documented line grammar and nothing else
-/
namespace ZCV.Props.C03
open ZCV ZCV.Cfg ZCV.Nesting

/-- the live `_keyvalue_rx`, used as the code uses it, computes the documented key/value split -/
theorem C03_keyvalue_rx_spec (s : Str) (hn : '\n' ∉ s) : kvMatch s = Grammar.keyValue s :=
  kvMatch_eq_keyValue s hn

/-- the live `_section_start_rx` accepts exactly `type` / `type name` and captures them -/
theorem C03_section_rx_spec (s : Str) (hn : '\n' ∉ s) : hdrMatch s = Grammar.header s :=
  hdrMatch_eq_header s hn

/-- every physical line (any characters except the line terminator, any length) is classified by the code
    exactly as the documented grammar classifies it -/
theorem C03_classify_eq_spec (line : Str) (hn : '\n' ∉ line) :
    toSpec (lineShape (strip line)) = Grammar.classify line :=
  lineShape_eq_classify line hn

/-! ## The multi-line clause: accepted exactly when the sections are properly nested and all closed

The specification is the tree grammar of `ZCV/Spec/Nesting.lean`: a text is well formed when its classified,
non-skipped lines (`shapes lines`) are the listing `flatten t` of a forest `t` of items (key/value, `<t n>…</t>`,
`<t n/>`, `%import`).  The statements are about the parser driving the recording context `rec0` (every context call
succeeds and is logged), from any line counter `n`, with any events `ctx0` already recorded and any definitions `defs`,
on texts of any length and nesting depth whose lines are `Plain`: no line terminator inside a line, no `%define` and no
`%include` line, and `$`-free values and `%import` arguments — so that substitution is the identity.
(`%import` lines are *included*; `fuel`, `env`, `active` play no part without `%include`, and are arbitrary.) -/

/-- the parser state before the first line: nothing open -/
def st0 (ctx0 : List Ev0) (defs : List (Str × Str)) : PS (List Ev0) := { ctx := ctx0, stack := [], defs := defs }

/-- **Acceptance = proper nesting.**  A text of `Plain` lines is accepted by `parse` if and only if its non-skipped
    lines, classified by the documented line grammar, are the listing of a forest: every line is a key/value line, an
    `%import`, a `<type [name]/>`, or belongs to a `<type [name]>` … `</type>` pair enclosing a well-formed body, the
    closer naming the (lower-cased) type of its opener. -/
theorem C03_accept_iff_nested (fuel : Nat) (env : Env) (active : List Str) (url : Option Str) (lines : List Str) (n : Nat)
    (ctx0 : List Ev0) (defs : List (Str × Str)) (hp : ∀ l ∈ lines, Plain l) :
    (∃ st', parseLines fuel env rec0 active url lines n (st0 ctx0 defs) = .ok st') ↔
      ∃ t : List Node, (lines.map Grammar.classify).filter (· ≠ .skip) = flatten t := by
  show _ ↔ Nested (shapes lines)
  obtain ⟨hok, hopen, herr⟩ := parse_sim fuel env active url lines n (st0 ctx0 defs) hp
  rw [nested_iff_mrun]
  constructor
  · rintro ⟨st', h⟩
    cases hm : mrun [] (shapes lines) with
    | none =>
      obtain ⟨e, k, he, _⟩ := herr hm
      rw [he] at h; cases h
    | some p =>
      obtain ⟨S', E⟩ := p
      cases S' with
      | nil => exact ⟨E, rfl⟩
      | cons f S' =>
        have := hopen _ _ hm (by simp only [ne_eq, reduceCtorEq, not_false_eq_true])
        rw [this] at h; cases h
  · rintro ⟨E, h⟩
    obtain ⟨st', h1, _⟩ := hok E h
    exact ⟨st', h1⟩

/-- **Events in document order.**  When a text of `Plain` lines is accepted, and `t` is a forest whose listing is the
    text, the context has been told exactly `events t` — each section announced, then its body, then its end with the
    type and name of the *opener* (the same for `<t n/>` and `<t n>` `</t>`), each key with its value unchanged, each
    `%import` with its argument stripped — after whatever was recorded before; no section is left open and the
    definitions are untouched.  (`t` is unique: `C03_tree_unique`.) -/
theorem C03_events_preorder (fuel : Nat) (env : Env) (active : List Str) (url : Option Str) (lines : List Str) (n : Nat)
    (ctx0 : List Ev0) (defs : List (Str × Str)) (hp : ∀ l ∈ lines, Plain l) (st' : PS (List Ev0))
    (h : parseLines fuel env rec0 active url lines n (st0 ctx0 defs) = .ok st')
    (t : List Node) (ht : (lines.map Grammar.classify).filter (· ≠ .skip) = flatten t) :
    st'.ctx.map toEv = ctx0.map toEv ++ events t ∧ st'.stack = [] ∧ st'.defs = defs := by
  change shapes lines = flatten t at ht
  obtain ⟨hok, _, _⟩ := parse_sim fuel env active url lines n (st0 ctx0 defs) hp
  have hm : mrun [] (shapes lines) = some ([], events t) := by rw [ht]; exact mrun_flatten_nil t []
  obtain ⟨st'', h1, h2, h3, h4⟩ := hok _ hm
  rw [h1] at h
  cases h
  exact ⟨h3, h2, h4⟩

/-- a properly nested text has exactly one tree: the listing determines the forest -/
theorem C03_tree_unique (t t' : List Node) (h : flatten t = flatten t') : t = t' := flatten_injective h

/-- **Every other text is a configuration syntax error, raised where the nesting breaks.**  If the non-skipped lines of
    a text of `Plain` lines are not the listing of any forest, `parse` raises `ConfigurationSyntaxError` for this
    resource (`e.url = url`), and its line number is determined by the grammar alone:
    * either there is a line `k+1` (counting from 1; the parser was started with its counter at `n`, so it reports
      `n+k+1`) such that the first `k` lines can still be continued to a properly nested text but the first `k+1` cannot
      — a line of no documented shape, an unknown or argument-less directive, a closer that does not name the innermost
      open section, or a closer with nothing open — and the error carries that line number (this `k` is unique:
      `C03_first_bad_line_unique`);
    * or the whole text can still be continued — sections are left open at the end — and the error carries the number
      of the last line. -/
theorem C03_reject_is_syntax (fuel : Nat) (env : Env) (active : List Str) (url : Option Str) (lines : List Str) (n : Nat)
    (ctx0 : List Ev0) (defs : List (Str × Str)) (hp : ∀ l ∈ lines, Plain l)
    (hno : ¬ ∃ t : List Node, (lines.map Grammar.classify).filter (· ≠ .skip) = flatten t) :
    ∃ e, parseLines fuel env rec0 active url lines n (st0 ctx0 defs) = .error (.cfg e) ∧ e.kind = .syntax ∧ e.url = url ∧
      ((∃ k, k < lines.length ∧ Completable (shapes (lines.take k)) ∧ ¬ Completable (shapes (lines.take (k + 1))) ∧
          e.line = some ((n + k + 1 : Nat) : Int)) ∨
       (Completable (shapes lines) ∧ e.line = some ((n + lines.length : Nat) : Int))) := by
  change ¬ Nested (shapes lines) at hno
  obtain ⟨_, hopen, herr⟩ := parse_sim fuel env active url lines n (st0 ctx0 defs) hp
  cases hm : mrun [] (shapes lines) with
  | none =>
    obtain ⟨e, k, he, hk, hu, hlt, hline, hsome, hnone⟩ := herr hm
    refine ⟨e, he, hk, hu, Or.inl ⟨k, hlt, ?_, ?_, hline⟩⟩
    · rw [completable_iff_mrun]; exact hsome
    · rw [completable_iff_mrun]
      show ¬ (mrun [] (shapes (lines.take (k + 1)))).isSome = true
      have : mrun [] (shapes (lines.take (k + 1))) = none := hnone
      rw [this]; exact fun h => by cases h
  | some p =>
    obtain ⟨S', E⟩ := p
    cases S' with
    | nil => exact absurd ((nested_iff_mrun _).2 ⟨E, hm⟩) hno
    | cons f S' =>
      have he := hopen _ _ hm (by simp only [ne_eq, reduceCtorEq, not_false_eq_true])
      refine ⟨_, he, rfl, rfl, Or.inr ⟨?_, rfl⟩⟩
      rw [completable_iff_mrun, hm]; rfl

/-- being completable is lost once and for all: a beginning of a completable beginning is completable -/
theorem C03_completable_mono (lines : List Str) (j k : Nat) (hjk : j ≤ k)
    (h : Completable (shapes (lines.take k))) : Completable (shapes (lines.take j)) := by
  have e : lines.take k = lines.take j ++ (lines.take k).drop j := by
    have := (List.take_append_drop j (lines.take k)).symm
    rwa [List.take_take, Nat.min_eq_left hjk] at this
  rw [e, shapes_append] at h
  exact completable_prefix _ _ h

/-- the line at which a text stops being completable is unique — it is the first such line -/
theorem C03_first_bad_line_unique (lines : List Str) (k k' : Nat)
    (h1 : Completable (shapes (lines.take k))) (h2 : ¬ Completable (shapes (lines.take (k + 1))))
    (h1' : Completable (shapes (lines.take k'))) (h2' : ¬ Completable (shapes (lines.take (k' + 1)))) : k = k' := by
  rcases Nat.lt_trichotomy k k' with h | h | h
  · exact absurd (C03_completable_mono lines (k + 1) k' h h1') h2
  · exact h
  · exact absurd (C03_completable_mono lines (k' + 1) k h h1) h2'

/-! ### which line it is that breaks a completable beginning (the cases listed in the property) -/

/-- a key/value line, an `%import` line or a section opener (either spelling) can always follow: such a line is never
    the one reported by `C03_reject_is_syntax` -/
theorem C03_item_never_breaks (s : List Grammar.Shape) (x : Grammar.Shape) (h : Completable s)
    (hx : (∃ k v, x = .kv k v) ∨ (∃ a, x = .import_ a) ∨ (∃ ty nm e, x = .open_ ty nm e)) : Completable (s ++ [x]) :=
  completable_snoc_item x h hx

/-- a line of no documented shape — which includes unknown and argument-less directives, classified `.bad` by
    `Grammar.classify` — always breaks (and so would `%define`/`%include` lines, which `Plain` excludes and the tree
    grammar does not describe) -/
theorem C03_bad_line_breaks (s : List Grammar.Shape) (x : Grammar.Shape)
    (hx : x = .bad ∨ x = .skip ∨ (∃ a, x = .define a) ∨ (∃ a, x = .include_ a)) : ¬ Completable (s ++ [x]) :=
  not_completable_snoc_bad s x hx

/-- a closer `</ty>` can follow exactly when `ty` is the type of the innermost section still open: what precedes it is a
    completable beginning, then an opener `<ty [name]>`, then whole items.  Every other closer — mismatched, or surplus
    because nothing is open — breaks. -/
theorem C03_closer_ok_iff_innermost (s : List Grammar.Shape) (ty : Str) :
    Completable (s ++ [.close ty]) ↔
      ∃ pre nm body, s = pre ++ .open_ ty nm false :: flatten body ∧ Completable pre :=
  completable_snoc_close s ty

/-- a text all of whose beginnings are completable but which is not properly nested has a section left open: it is a
    completable beginning, an opener, and whole items up to the end (the "unclosed section" case) -/
theorem C03_unclosed_shape (s : List Grammar.Shape) (h : Completable s) (hn : ¬ Nested s) :
    ∃ pre ty nm body, s = pre ++ .open_ ty nm false :: flatten body ∧ Completable pre :=
  completable_not_nested s h hn

/-! ### the hypotheses are satisfiable, the statements are not vacuous -/

/-- a seven-line text (mixed case, padding, a comment, a blank line, both section spellings, an `%import`, a closer with
    trailing blanks) made of `Plain` lines, and its tree -/
example :
    let lines := ["<A>".toList, " k  v w ".toList, "# c".toList, "".toList, "<b X/>".toList, "%import p.q".toList,
      "</a >".toList]
    (∀ l ∈ lines, '\n' ∉ l) ∧
    (lines.map Grammar.classify).filter (· ≠ .skip) =
      flatten [.sect "a".toList none [.kv "k".toList "v w".toList, .esect "b".toList (some "x".toList), .imp "p.q".toList]] ∧
    events [.sect "a".toList none [.kv "k".toList "v w".toList, .esect "b".toList (some "x".toList), .imp "p.q".toList]] =
      [.start "a".toList none, .value "k".toList "v w".toList, .start "b".toList (some "x".toList),
       .stop "b".toList (some "x".toList), .imp "p.q".toList, .stop "a".toList none] := by
  decide

/-- `Plain` lines of every kind: opener, key/value, `%import`, closer, comment, and two malformed lines -/
example : Plain "<A>".toList ∧ Plain " k  v w ".toList ∧ Plain "%import p.q".toList ∧ Plain "</a >".toList ∧
    Plain "# c".toList ∧ Plain "<a".toList ∧ Plain "%define".toList := by
  simp only [plain_iff]
  decide

/-- texts that are no listing of a forest: a mismatched closer (stuck at line 2), a surplus closer (line 1), a malformed
    line (line 2), and an unclosed section (completable to the end) -/
example :
    (¬ Completable (shapes ["<a>".toList, "</b>".toList]) ∧ Completable (shapes ["<a>".toList])) ∧
    ¬ Completable (shapes ["</a>".toList]) ∧
    (¬ Completable (shapes ["k v".toList, "<a b c>".toList]) ∧ Completable (shapes ["k v".toList])) ∧
    (Completable (shapes ["<a>".toList, "k".toList]) ∧ ¬ Nested (shapes ["<a>".toList, "k".toList])) := by
  simp only [completable_iff_mrun, nested_iff_mrun_fst]
  decide

end ZCV.Props.C03

/-!
# C03, the key/value and directive lines restated for the code as it is now (generated by `harness/zcv/pytrans.py`)

`ZConfigParser`'s methods are not pure (they drive the context and the section objects); what IS pure is the beginning of
`handle_key_value` and of `handle_directive`: the match against `_keyvalue_rx`, the named groups, the directive tuple, the
"missing argument" test, the syntax errors at (`self.url`, `self.lineno`).  `Gen.Code.handle_key_value_prefix` /
`handle_directive_prefix` (`ZCV/Gen/CodeCfgparser.lean`) are the translation of exactly those statements, regenerated from
the working tree on every run; `ZCV/Lemmas/CodeEqCfgparser.lean` proves them equal to the corresponding pieces of the parser
model `Cfg.lineShape`.  The `if/elif` chain of `parse`, `start_section` and `end_section` are NOT translated (DESIGN §13).
-/
namespace ZCV.Props.C03
open ZCV ZCV.Cfg ZCV.CodeEq

/-- (i) generated prefix of `handle_key_value` = the model's `kvMatch` (a missing `key` group read as `""`) -/
theorem C03_code_handle_key_value_eq (url : Option Str) (lineno : Int) (rest : Str) :
    (Gen.Code.handle_key_value_prefix url lineno () rest).map (fun kv => (kv.1.getD [], kv.2)) =
      match kvMatch rest with
      | none => .error (parserError url lineno)
      | some kv => .ok kv := code_handle_key_value_eq url lineno rest

/-- (i) generated prefix of `handle_directive` = the `%` branch of the model -/
theorem C03_code_handle_directive_eq (url : Option Str) (lineno : Int) (rest : Str) :
    (Gen.Code.handle_directive_prefix url lineno () rest).map (fun na => (na.1.getD [], na.2)) =
      match kvMatch rest with
      | none => .error (parserError url lineno)
      | some (name, arg?) =>
        if !Gen.directives.contains name then .error (parserError url lineno)
        else if arg?.getD [] == [] then .error (parserError url lineno)
        else .ok (name, arg?.getD []) := code_handle_directive_eq url lineno rest

/-- (ii) the documented key/value split, for the code: the prefix of `handle_key_value` yields `Grammar.keyValue`, or the
    parser's syntax error when the line has no such split -/
theorem C03_code_keyvalue_spec (url : Option Str) (lineno : Int) (rest : Str) (hn : '\n' ∉ rest) :
    (Gen.Code.handle_key_value_prefix url lineno () rest).map (fun kv => (kv.1.getD [], kv.2)) =
      match Grammar.keyValue rest with
      | none => .error (parserError url lineno)
      | some kv => .ok kv := by
  rw [code_handle_key_value_eq, C03_keyvalue_rx_spec rest hn]
  cases Grammar.keyValue rest <;> rfl
example : '\n' ∉ "key  value x".toList := by decide

/-- (ii) a line that is neither blank, comment, section line nor directive is classified as the prefix of
    `handle_key_value` says (syntax errors compared as such: the raise-site tag is dropped) -/
theorem C03_code_keyvalue_lineShape (url : Option Str) (lineno : Int) (c : Char) (t : Str)
    (h1 : c ≠ '#') (h2 : c ≠ '<') (h3 : c ≠ '%') :
    forgetTag (lineShape (c :: t)) = kvShape (Gen.Code.handle_key_value_prefix url lineno () (c :: t)) :=
  code_keyvalue_lineShape url lineno c t h1 h2 h3
example : ('k' : Char) ≠ '#' ∧ ('k' : Char) ≠ '<' ∧ ('k' : Char) ≠ '%' := by decide

/-- (ii) a `%` line is classified as the prefix of `handle_directive` says -/
theorem C03_code_directive_lineShape (url : Option Str) (lineno : Int) (rest : Str) :
    forgetTag (lineShape ('%' :: rest)) = directiveShape (Gen.Code.handle_directive_prefix url lineno () rest) :=
  code_directive_lineShape url lineno rest

/-- forgetting the raise-site tag does not change the documented classification -/
theorem C03_code_toSpec_forgetTag (sh : LineShape) : toSpec (forgetTag sh) = toSpec sh := by
  cases sh <;> rfl

/-- (ii) hence the DOCUMENTED classification of a physical `%` line is the one the generated prefix determines -/
theorem C03_code_directive_classify (url : Option Str) (lineno : Int) (line rest : Str) (hn : '\n' ∉ line)
    (hs : strip line = '%' :: rest) :
    Grammar.classify line = toSpec (directiveShape (Gen.Code.handle_directive_prefix url lineno () rest)) := by
  rw [← C03_classify_eq_spec line hn, hs, ← code_directive_lineShape url lineno rest, C03_code_toSpec_forgetTag]
example : strip " %define a b ".toList = '%' :: "define a b".toList := by decide

/-- (ii) …and of a physical key/value line -/
theorem C03_code_keyvalue_classify (url : Option Str) (lineno : Int) (line : Str) (c : Char) (t : Str) (hn : '\n' ∉ line)
    (hs : strip line = c :: t) (h1 : c ≠ '#') (h2 : c ≠ '<') (h3 : c ≠ '%') :
    Grammar.classify line = toSpec (kvShape (Gen.Code.handle_key_value_prefix url lineno () (c :: t))) := by
  rw [← C03_classify_eq_spec line hn, hs, ← code_keyvalue_lineShape url lineno c t h1 h2 h3, C03_code_toSpec_forgetTag]
example : strip "  key v ".toList = 'k' :: "ey v".toList := by decide

end ZCV.Props.C03
