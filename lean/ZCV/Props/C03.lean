import ZCV.Lemmas.Grammar
/-!
# C03 — configuration text is read by the documented line grammar and nothing else
-/
namespace ZCV.Props.C03
open ZCV ZCV.Cfg

/-- the live `_keyvalue_rx`, used as the code uses it, computes the documented key/value split -/
theorem C03_keyvalue_rx_spec (s : Str) (hn : '\n' ∉ s) : kvMatch s = Grammar.keyValue s :=
  kvMatch_eq_keyValue s hn

/-- the live `_section_start_rx` accepts exactly `type` / `type name` and captures them -/
theorem C03_section_rx_spec (s : Str) (hn : '\n' ∉ s) : hdrMatch s = Grammar.header s :=
  hdrMatch_eq_header s hn

/-- every physical line (any characters except the line terminator, any length) is classified by the code
    exactly as the documented grammar classifies it -/
theorem C03_classify_eq_spec (line : Str) (hn : '\n' ∉ line) :
    toSpec (lineShape (strip line)) = Grammar.classify line :=
  lineShape_eq_classify line hn

end ZCV.Props.C03
