import ZCV.Lemmas.ElabNoInt
import ZCV.Lemmas.ElabNoIntFlat
import ZCV.Lemmas.NoInternalLower
import ZCV.Lemmas.ElabInv
import ZCV.Lemmas.ElabRulesDoc
import ZCV.Lemmas.ElabCompleteDoc
import ZCV.Lemmas.ElabCompleteConvDoc
import ZCV.Lemmas.ElabCompleteFacts
/-!
# C10 — schema documents are accepted exactly when they obey the schema language rules

One theorem per static rule, about the handler of the schema-loader model (`ZCV/Model/Elab.lean`) that enforces it.
Each says: an element that breaks the rule makes the handler return `.error (.schema _)` — a `SchemaError`, raised
while the schema is loaded — whatever the rest of the loader state is; and, where the code is an "if and only if",
that the handler does not fail for that reason otherwise.

Handlers that run other checks *before* the rule (e.g. `start_sectiontype` resolves the `prefix` attribute and the
datatype attributes before it registers the name) get two statements: `…_refused` (unconditional: the handler does
not succeed) and the exact `SchemaError` once the earlier steps of the same handler are known to pass.

The last sentence of the property — "every document that satisfies the rules is accepted" — and its converse against the
same judgement are at the end of the file: `C10_rules_accepted`, `C10_accepted_iff_rules` (one document) and
`C10_rules_accepted_imports`, `C10_accepted_iff_rules_imports` (with `<import package=…>`), for the rule-by-rule
judgement `DocRules` / `DocRulesN` of `ZCV/Spec/SchemaRules.lean`.

Notation used below (defined in `ZCV/Lemmas/ElabRules.lean`):
`es.typeNames` — the keys of the type table; `DupKey ch key` / `DupAttr ch a` — `key` (non-empty) is already the key
of a child in `ch` / `a` (non-empty) already the attribute name of a child; `effName attrs dflt` — the `name`
attribute or the handler's default; `e.isSchema` — the failure `e` is a `SchemaError`.
-/
namespace ZCV.Props.C10
open ZCV ZCV.Elab
open ZCV.Cfg (VI SectInfo Default)

/-! ## 1. unique type names -/

/-- `SchemaType.addtype`: a type name that is already a key of the type table is a `SchemaError`; any other name is
appended to the table, and nothing else changes.  `addtype` fails for no other reason. -/
theorem C10_unique_type_names (es : ES) (n : Str) (e : EEntry) :
    ((∃ t, addType es n e = .error (.schema t)) ↔ n ∈ es.types.map (·.1)) ∧
    (n ∈ es.types.map (·.1) → addType es n e = .error (.schema "type name cannot be redefined")) ∧
    (n ∉ es.types.map (·.1) → addType es n e = .ok { es with types := es.types ++ [(n, e)] }) ∧
    (∀ err, addType es n e = .error err → err = .schema "type name cannot be redefined") := by
  refine ⟨⟨?_, ?_⟩, addType_dup es n e, addType_fresh es n e, fun err h => (addType_error h).2⟩
  · rintro ⟨t, ht⟩; exact (addType_error ht).1
  · intro h; exact ⟨_, addType_dup es n e h⟩

example : ∃ es : ES, "a".toList ∈ es.types.map (·.1) ∧ "b".toList ∉ es.types.map (·.1) :=
  ⟨{ emptyES with types := [("a".toList, .abstract_ "a".toList [] false)] }, by decide, by decide⟩

/-- `<abstracttype name=v>`: the name is normalised as a basic-key first (`n`); the element is refused with a
`SchemaError` iff `n` is already defined, and otherwise registers the empty abstract type `n` and opens it. -/
theorem C10_unique_type_names_abstracttype (st : PSt) (attrs : Attrs) (v n : Str)
    (hv : attr attrs "name" = some v) (hn : basicKeyE v = .ok n) :
    (n ∈ st.es.types.map (·.1) → startAbstracttype st attrs = .error (.schema "type name cannot be redefined")) ∧
    (n ∉ st.es.types.map (·.1) →
      startAbstracttype st attrs =
        .ok { st with es := { st.es with types := st.es.types ++ [(n, .abstract_ n [] false)] },
                      stack := .atype n :: st.stack }) := by
  rw [startAbstracttype_named st attrs v n hv hn]
  constructor
  · intro h; rw [addType_dup _ _ _ h]; rfl
  · intro h; rw [addType_fresh _ _ _ h]; rfl

/-- every way `<abstracttype>` can fail (no name, ill-formed name, redefinition) is a `SchemaError` -/
theorem C10_abstracttype_errors_are_schema (st : PSt) (attrs : Attrs) (e : EFail)
    (h : startAbstracttype st attrs = .error e) : ∃ t, e = .schema t :=
  (EFail.isSchema_iff e).1 (startAbstracttype_error h)

/-- `<sectiontype name=v>` succeeds only if the (basic-key normalised) name is new; it then appends exactly that name
to the type table (as a concrete type) and opens it. -/
theorem C10_unique_type_names_sectiontype (env : Env) (st st' : PSt) (attrs : Attrs)
    (h : startSectiontype env st attrs = .ok st') :
    ∃ v n, attr attrs "name" = some v ∧ basicKeyE v = .ok n ∧ n ∉ st.es.types.map (·.1) ∧
      st'.es.types.map (·.1) = st.es.types.map (·.1) ++ [n] ∧ st'.stack = .stype n :: st.stack := by
  obtain ⟨v, n, t, h1, h2, h3, h4, h5, _⟩ := startSectiontype_result h
  exact ⟨v, n, h1, h2, h3, h4, h5⟩

/-- …so a `<sectiontype>` whose name is already defined is never accepted -/
theorem C10_unique_type_names_sectiontype_refused (env : Env) (st st' : PSt) (attrs : Attrs) (v n : Str)
    (hv : attr attrs "name" = some v) (hn : basicKeyE v = .ok n) (hdup : n ∈ st.es.types.map (·.1)) :
    startSectiontype env st attrs ≠ .ok st' := by
  intro h
  obtain ⟨v', n', h1, h2, h3, _⟩ := C10_unique_type_names_sectiontype env st st' attrs h
  rw [hv] at h1; cases h1
  rw [hn] at h2; cases h2
  exact h3 hdup

/-- …and it is reported as the `SchemaError` "type name cannot be redefined" as soon as the attributes that
`start_sectiontype` looks at before (prefix; key type / datatype) are acceptable — here without `extends` -/
theorem C10_unique_type_names_sectiontype_error (env : Env) (st st1 : PSt) (attrs : Attrs) (v n kt dt : Str)
    (hv : attr attrs "name" = some v) (hn : basicKeyE v = .ok n) (hp : pushPrefix st attrs = .ok st1)
    (hx : attr attrs "extends" = none) (hi : getSectTypeinfo env st1 attrs none = .ok (kt, dt))
    (hdup : n ∈ st.es.types.map (·.1)) :
    startSectiontype env st attrs = .error (.schema "type name cannot be redefined") := by
  apply startSectiontype_of_base_error env st attrs v n st1 _ hv hn hp
  apply sectiontypeBase_dup_plain env st1 attrs n kt dt hx hi
  obtain ⟨p, rfl⟩ := pushPrefix_ok hp
  exact hdup

/-- …the same with `extends` naming a concrete base -/
theorem C10_unique_type_names_sectiontype_error_ext (env : Env) (st st1 : PSt) (attrs : Attrs)
    (v n b bn key kt dt : Str) (base : EType)
    (hv : attr attrs "name" = some v) (hn : basicKeyE v = .ok n) (hp : pushPrefix st attrs = .ok st1)
    (hx : attr attrs "extends" = some b) (hb : basicKeyE b = .ok bn)
    (hg : st.es.gettype bn = some (key, .concrete base))
    (hi : getSectTypeinfo env st1 attrs (some (base.keytype, base.datatype)) = .ok (kt, dt))
    (hdup : n ∈ st.es.types.map (·.1)) :
    startSectiontype env st attrs = .error (.schema "type name cannot be redefined") := by
  apply startSectiontype_of_base_error env st attrs v n st1 _ hv hn hp
  obtain ⟨p, rfl⟩ := pushPrefix_ok hp
  exact sectiontypeBase_dup_ext env _ attrs n b bn key kt dt base hx hb hg hi hdup

/-! ## 2. unique key names and attribute names per container, inherited ones included -/

/-- `SectionType._add_child` on the container on top of the stack, whose children are `ch`:
a `SchemaError` iff the key is non-empty and already the key of a child, or the attribute name is non-empty and
already the attribute name of a child; otherwise the child is appended (and can be read back).  If there is no
container on top of the stack the failure is not a `SchemaError` (and not this rule's business). -/
theorem C10_unique_children (st : PSt) (key : Option Str) (info : EInfo) :
    ((∃ t, addChild st key info = .error (.schema t)) ↔
        ∃ ch, topChildren st = .ok ch ∧ (DupKey ch key ∨ DupAttr ch info.attr)) ∧
    (∀ ch, topChildren st = .ok ch → DupKey ch key →
        addChild st key info = .error (.schema "child name … already used")) ∧
    (∀ ch, topChildren st = .ok ch → ¬ DupKey ch key → DupAttr ch info.attr →
        addChild st key info = .error (.schema "child attribute name … already used")) ∧
    (∀ ch, topChildren st = .ok ch → ¬ DupKey ch key → ¬ DupAttr ch info.attr →
        addChild st key info = .ok (setTopChildren st (ch ++ [(key, info)])) ∧
        topChildren (setTopChildren st (ch ++ [(key, info)])) = .ok (ch ++ [(key, info)])) := by
  refine ⟨addChild_schema_iff st key info, fun ch h1 h2 => addChild_dupKey key info h1 h2,
    fun ch h1 h2 h3 => addChild_dupAttr key info h1 h2 h3, fun ch h1 h2 h3 => ⟨addChild_fresh key info h1 h2 h3, ?_⟩⟩
  exact topChildren_setTopChildren _ h1

/-- what the two clash conditions mean, spelled out -/
theorem C10_unique_children_conditions (ch : List (Option Str × EInfo)) (key : Option Str) (a : Str) :
    (DupKey ch key ↔ (∃ k, key = some k ∧ k ≠ []) ∧ key ∈ ch.map (·.1)) ∧
    (DupAttr ch a ↔ a ≠ [] ∧ a ∈ ch.map (·.2.attr)) := by
  refine ⟨?_, Iff.rfl⟩
  unfold DupKey
  constructor
  · rintro ⟨h1, h2⟩
    refine ⟨?_, h2⟩
    cases key with
    | none => cases h1
    | some k => cases k with
      | nil => cases h1
      | cons c cs => exact ⟨_, rfl, by simp⟩
  · rintro ⟨⟨k, rfl, hk⟩, h2⟩
    refine ⟨?_, h2⟩
    cases k with
    | nil => exact absurd rfl hk
    | cons c cs => rfl

private def exSect : SectInfo :=
  { name := "k".toList, attr := "k".toList, multi := false, minOccurs := 0, ty := "t".toList, handler := none }
example : DupKey [(some "k".toList, EInfo.sect exSect)] (some "k".toList) := ⟨rfl, by simp⟩
example : DupAttr [(some "k".toList, EInfo.sect exSect)] "k".toList := ⟨by decide, by simp [EInfo.attr, exSect]⟩

/-- inherited names count: after `<sectiontype extends=b>` the new type — the container now on top of the stack —
already has the base's children: same keys, same attribute names, in the same order.  So by `C10_unique_children` a
key or attribute name of the base cannot be used again in the derived type. -/
theorem C10_unique_children_inherited (env : Env) (st st' : PSt) (attrs : Attrs) (b : Str)
    (hx : attr attrs "extends" = some b) (h : startSectiontype env st attrs = .ok st') :
    ∃ bn key base ch, basicKeyE b = .ok bn ∧ st.es.gettype bn = some (key, .concrete base) ∧
      topChildren st' = .ok ch ∧ ch.map (·.1) = base.children.map (·.1) ∧
      ch.map (·.2.attr) = base.children.map (·.2.attr) := by
  obtain ⟨name, st1, bn, key, base, t, _, h2, h3, _, _, h6, _, h8⟩ := startSectiontype_extends_result hx h
  exact ⟨bn, key, base, t.children, h2, h3, h6, deriveChildren_keys h8, deriveChildren_attrs h8⟩

/-- …hence: re-using in the derived type a key of the base is a `SchemaError` -/
theorem C10_inherited_key_refused (env : Env) (st st' : PSt) (attrs : Attrs) (b : Str) (k : Str) (info : EInfo)
    (hx : attr attrs "extends" = some b) (h : startSectiontype env st attrs = .ok st') (hk : k ≠ [])
    (hin : ∀ bn key base, basicKeyE b = .ok bn → st.es.gettype bn = some (key, .concrete base) →
      some k ∈ base.children.map (·.1)) :
    addChild st' (some k) info = .error (.schema "child name … already used") := by
  obtain ⟨bn, key, base, ch, h1, h2, h3, h4, _⟩ := C10_unique_children_inherited env st st' attrs b hx h
  refine addChild_dupKey _ _ h3 ⟨?_, ?_⟩
  · cases k with
    | nil => exact absurd rfl hk
    | cons c cs => rfl
  · rw [h4]; exact hin bn key base h1 h2

/-- …and re-using an attribute name of the base is a `SchemaError` too -/
theorem C10_inherited_attribute_refused (env : Env) (st st' : PSt) (attrs : Attrs) (b : Str) (key : Option Str)
    (info : EInfo) (hx : attr attrs "extends" = some b) (h : startSectiontype env st attrs = .ok st')
    (ha : info.attr ≠ [])
    (hin : ∀ bn key base, basicKeyE b = .ok bn → st.es.gettype bn = some (key, .concrete base) →
      info.attr ∈ base.children.map (·.2.attr)) :
    ∃ t, addChild st' key info = .error (.schema t) := by
  obtain ⟨bn, bkey, base, ch, h1, h2, h3, _, h5⟩ := C10_unique_children_inherited env st st' attrs b hx h
  exact (addChild_schema_iff st' key info).2 ⟨ch, h3, Or.inr ⟨ha, by rw [h5]; exact hin bn bkey base h1 h2⟩⟩

/-! ## 3. types are defined before they are used -/

/-- `get_sectiontype` (the `type` attribute of `<section>` / `<multisection>`): a `SchemaError` iff the attribute is
missing or empty, or its lower-cased value is not (yet) a key of the type table; otherwise the result is that key.
It fails for no other reason. -/
theorem C10_types_defined_before_use (st : PSt) (attrs : Attrs) :
    ((∃ t, getSectiontype st attrs = .error (.schema t)) ↔
        (attr attrs "type").getD [] = [] ∨ lower ((attr attrs "type").getD []) ∉ st.es.types.map (·.1)) ∧
    (∀ e, getSectiontype st attrs = .error e → ∃ t, e = .schema t) ∧
    (∀ n, getSectiontype st attrs = .ok n →
        n = lower ((attr attrs "type").getD []) ∧ n ∈ st.es.types.map (·.1)) := by
  rcases getSectiontype_cases st attrs with ⟨h0, h1⟩ | ⟨v, ha, hv, hm, h1⟩ | ⟨v, ha, hv, hm, h1⟩
  · refine ⟨⟨fun _ => Or.inl h0, fun _ => ⟨_, h1⟩⟩, ?_, ?_⟩
    · intro e he; rw [h1] at he; cases he; exact ⟨_, rfl⟩
    · intro n hn; rw [h1] at hn; cases hn
  · have hg : (attr attrs "type").getD [] = v := by rw [ha]; rfl
    refine ⟨⟨fun _ => Or.inr (by rw [hg]; exact hm), fun _ => ⟨_, h1⟩⟩, ?_, ?_⟩
    · intro e he; rw [h1] at he; cases he; exact ⟨_, rfl⟩
    · intro n hn; rw [h1] at hn; cases hn
  · have hg : (attr attrs "type").getD [] = v := by rw [ha]; rfl
    refine ⟨⟨?_, ?_⟩, ?_, ?_⟩
    · rintro ⟨t, ht⟩; rw [h1] at ht; cases ht
    · rw [hg]
      rintro (h | h)
      · exact absurd h hv
      · exact absurd hm h
    · intro e he; rw [h1] at he; cases he
    · intro n hn; rw [h1] at hn; cases hn; rw [hg]; exact ⟨rfl, hm⟩

/-- `<section>` / `<multisection>` start by resolving `type`, so an undefined type makes them fail with that
`SchemaError`, whatever their other attributes are -/
theorem C10_section_type_undefined (env : Env) (st : PSt) (attrs : Attrs) (e : EFail)
    (h : getSectiontype st attrs = .error e) :
    startSection env st attrs = .error e ∧ startMultisection env st attrs = .error e := by
  constructor
  · unfold startSection; simp only [h, bind, Except.bind]
  · unfold startMultisection; simp only [h, bind, Except.bind]

/-- `<sectiontype extends=b>` with `b` not (yet) defined: `SchemaError` "unknown type name" — right after the name and
the prefix of the element have been accepted -/
theorem C10_extends_defined (env : Env) (st st1 : PSt) (attrs : Attrs) (v n b bn : Str)
    (hv : attr attrs "name" = some v) (hn : basicKeyE v = .ok n) (hp : pushPrefix st attrs = .ok st1)
    (hx : attr attrs "extends" = some b) (hb : basicKeyE b = .ok bn) (hg : lower bn ∉ st.es.types.map (·.1)) :
    startSectiontype env st attrs = .error (.schema "unknown type name") := by
  apply startSectiontype_of_base_error env st attrs v n st1 _ hv hn hp
  obtain ⟨p, rfl⟩ := pushPrefix_ok hp
  exact sectiontypeBase_unknown env _ attrs n b bn hx hb ((gettype_none_iff _ _).2 hg)

/-- `<sectiontype implements=i>` with `i` naming nothing (neither an earlier type nor the new type itself):
`SchemaError` "unknown type name" — once the `extends` step has passed -/
theorem C10_implements_defined (env : Env) (st st1 : PSt) (attrs : Attrs) (v n i ifn : Str) (es2 : ES)
    (hv : attr attrs "name" = some v) (hn : basicKeyE v = .ok n) (hp : pushPrefix st attrs = .ok st1)
    (h2 : sectiontypeBase env st1 attrs n = .ok es2)
    (hi : attr attrs "implements" = some i) (hb : basicKeyE i = .ok ifn)
    (hg : lower ifn ∉ st.es.types.map (·.1)) (hself : lower ifn ≠ n) :
    startSectiontype env st attrs = .error (.schema "unknown type name") := by
  apply startSectiontype_of_implements_error env st attrs v n st1 es2 _ hv hn hp h2
  obtain ⟨_, t, _, rfl⟩ := sectiontypeBase_ok h2
  obtain ⟨p, rfl⟩ := pushPrefix_ok hp
  apply sectiontypeImplements_unknown _ attrs n i ifn hi hb
  rw [gettype_append_concrete, (gettype_none_iff _ _).2 hg]
  simp only
  rw [if_neg (fun e => hself e.symm)]

/-- a `<sectiontype>` that is accepted names, in `extends`, a type defined earlier, and in `implements` too -/
theorem C10_types_defined_before_use_sectiontype (env : Env) (st st' : PSt) (attrs : Attrs)
    (h : startSectiontype env st attrs = .ok st') :
    (∀ b, attr attrs "extends" = some b → ∃ bn, basicKeyE b = .ok bn ∧ lower bn ∈ st.es.types.map (·.1)) ∧
    (∀ i, attr attrs "implements" = some i → ∃ ifn, basicKeyE i = .ok ifn ∧ lower ifn ∈ st.es.types.map (·.1)) := by
  constructor
  · intro b hx
    obtain ⟨_, _, bn, key, base, _, _, h2, h3, _⟩ := startSectiontype_extends_result hx h
    exact ⟨bn, h2, gettype_some_mem h3⟩
  · intro i hi
    obtain ⟨_, _, ifn, an, nm, subs, d, h1, h2, _⟩ := startSectiontype_implements hi h
    exact ⟨ifn, h1, gettype_some_mem h2⟩

/-! ## 4. `extends` names a concrete type, `implements` an abstract one -/

/-- `<sectiontype extends=b>` with `b` an abstract type: `SchemaError` "sectiontype cannot extend an abstract type";
and an accepted `<sectiontype extends=b>` has a concrete `b`. -/
theorem C10_extends_concrete (env : Env) (st : PSt) (attrs : Attrs) (b : Str) (hx : attr attrs "extends" = some b) :
    (∀ st1 v n bn key an subs d, attr attrs "name" = some v → basicKeyE v = .ok n → pushPrefix st attrs = .ok st1 →
        basicKeyE b = .ok bn → st.es.gettype bn = some (key, .abstract_ an subs d) →
        startSectiontype env st attrs = .error (.schema "sectiontype cannot extend an abstract type")) ∧
    (∀ st', startSectiontype env st attrs = .ok st' →
        ∃ bn key base, basicKeyE b = .ok bn ∧ st.es.gettype bn = some (key, .concrete base)) := by
  constructor
  · intro st1 v n bn key an subs d hv hn hp hb hg
    apply startSectiontype_of_base_error env st attrs v n st1 _ hv hn hp
    obtain ⟨p, rfl⟩ := pushPrefix_ok hp
    exact sectiontypeBase_abstract env _ attrs n b bn key an subs d hx hb hg
  · intro st' h
    obtain ⟨_, _, bn, key, base, _, _, h2, h3, _⟩ := startSectiontype_extends_result hx h
    exact ⟨bn, key, base, h2, h3⟩

/-- `<sectiontype implements=i>` with `i` a concrete type — an earlier one, or the new type itself —: `SchemaError`
"type specified by implements is not an abstracttype" (once the `extends` step has passed); and an accepted
`<sectiontype implements=i>` has an abstract `i`, defined earlier. -/
theorem C10_implements_abstract (env : Env) (st : PSt) (attrs : Attrs) (i : Str)
    (hi : attr attrs "implements" = some i) :
    (∀ st1 v n ifn es2, attr attrs "name" = some v → basicKeyE v = .ok n → pushPrefix st attrs = .ok st1 →
        sectiontypeBase env st1 attrs n = .ok es2 → basicKeyE i = .ok ifn →
        ((∃ key t, st.es.gettype ifn = some (key, .concrete t)) ∨ (st.es.gettype ifn = none ∧ lower ifn = n)) →
        startSectiontype env st attrs = .error (.schema "type specified by implements is not an abstracttype")) ∧
    (∀ st', startSectiontype env st attrs = .ok st' →
        ∃ ifn an nm subs d, basicKeyE i = .ok ifn ∧ st.es.gettype ifn = some (an, .abstract_ nm subs d)) := by
  constructor
  · intro st1 v n ifn es2 hv hn hp h2 hb hc
    apply startSectiontype_of_implements_error env st attrs v n st1 es2 _ hv hn hp h2
    obtain ⟨_, t, _, rfl⟩ := sectiontypeBase_ok h2
    obtain ⟨p, rfl⟩ := pushPrefix_ok hp
    rcases hc with ⟨key, t', hg⟩ | ⟨hg, hs⟩
    · apply sectiontypeImplements_concrete _ attrs n i ifn key t' hi hb
      rw [gettype_append_concrete, hg]
    · apply sectiontypeImplements_concrete _ attrs n i ifn n t hi hb
      rw [gettype_append_concrete, hg]
      simp only
      rw [if_pos hs.symm]
  · intro st' h
    obtain ⟨_, _, ifn, an, nm, subs, d, h1, h2, _⟩ := startSectiontype_implements hi h
    exact ⟨ifn, an, nm, subs, d, h1, h2⟩

/-- the `implements` step never fails with anything but a `SchemaError` -/
theorem C10_implements_errors_are_schema (es2 : ES) (attrs : Attrs) (n : Str) (e : EFail)
    (h : sectiontypeImplements es2 attrs n = .error e) : ∃ t, e = .schema t :=
  (EFail.isSchema_iff e).1 (sectiontypeImplements_error h)

/-! ## 5. wildcard names carry an attribute; `*` is not a key name -/

/-- `get_name_info` with the name `*` or `+` (given, or the default of `<section>`): without a non-empty `attribute`
it is the `SchemaError` "container attribute must be specified"; with one it succeeds iff the attribute name is an
identifier not starting with `getSection`, and every failure is a `SchemaError`.  The stack and the key type play no
role for wildcard names. -/
theorem C10_wildcard_needs_attribute (env : Env) (st : PSt) (attrs : Attrs) (dflt : Option Str) (n : Str)
    (hn : effName attrs dflt = some n) (hw : n = ['*'] ∨ n = ['+']) :
    ((attr attrs "attribute").getD [] = [] →
        getNameInfo env st attrs dflt = .error (.schema "container attribute must be specified")) ∧
    (∀ a, attr attrs "attribute" = some a → a ≠ [] →
        (DTSpec.isIdent a = true ∧ startsWith a Gen.reservedAttrPrefix = false →
            getNameInfo env st attrs dflt = .ok (some n, none, some a)) ∧
        (¬ (DTSpec.isIdent a = true ∧ startsWith a Gen.reservedAttrPrefix = false) →
            ∃ t, getNameInfo env st attrs dflt = .error (.schema t))) ∧
    (∀ e, getNameInfo env st attrs dflt = .error e → ∃ t, e = .schema t) := by
  refine ⟨getNameInfo_wild_noattr env st attrs dflt n hn hw, ?_, fun e he =>
    (EFail.isSchema_iff e).1 (getNameInfo_wild_error hn hw he)⟩
  intro a ha hne
  cases a with
  | nil => exact absurd rfl hne
  | cons c cs =>
    have hA : attrNameE attrs =
        if DTSpec.isIdent (c :: cs) then
          if startsWith (c :: cs) Gen.reservedAttrPrefix then serr "attribute names may not start with 'getSection'"
          else .ok (some (c :: cs))
        else serr "not a valid Python identifier" := by
      unfold attrNameE; rw [ha]
    constructor
    · rintro ⟨h1, h2⟩
      apply getNameInfo_wild_attr env st attrs dflt n (c :: cs) hn hw
      rw [hA, if_pos h1, if_neg (by simp [h2])]
    · intro hnot
      rw [getNameInfo_wild env st attrs dflt n hn hw, hA]
      by_cases h1 : DTSpec.isIdent (c :: cs) = true
      · rw [if_pos h1]
        by_cases h2 : startsWith (c :: cs) Gen.reservedAttrPrefix = true
        · rw [if_pos h2]; exact ⟨_, rfl⟩
        · exact absurd ⟨h1, by simpa using h2⟩ hnot
      · rw [if_neg h1]; exact ⟨_, rfl⟩

example : effName [("name".toList, ['+'])] none = some ['+'] := by decide

/-- a missing or empty name is a `SchemaError` for every element that has one -/
theorem C10_name_required (env : Env) (st : PSt) (attrs : Attrs) (dflt : Option Str)
    (h : (effName attrs dflt).getD [] = []) :
    getNameInfo env st attrs dflt = .error (.schema "name must be specified and non-empty") :=
  getNameInfo_noname env st attrs dflt h

/-- `name="*"` on `<key>` / `<multikey>`: always a `SchemaError` (`get_key_info`, hence `start_key` and
`start_multikey`), whatever the other attributes and the state are -/
theorem C10_star_key_refused (env : Env) (h : Hooks) (st : PSt) (attrs : Attrs) (hn : attr attrs "name" = some ['*']) :
    (∃ t, getKeyInfo env st attrs = .error (.schema t)) ∧
    (∃ t, startKey env st attrs = .error (.schema t)) ∧
    (∃ t, startMultikey env st attrs = .error (.schema t)) ∧
    (∃ t, startHandled env h "key".toList attrs st = .error (.schema t)) :=
  ⟨getKeyInfo_star env st attrs hn, startKey_star env st attrs hn, startMultikey_star env st attrs hn,
   startKey_star env st attrs hn⟩

/-! ## 6. multisections are named `*` or `+` -/

/-- `<multisection>` is accepted only if its name (default `*`) is `*` or `+`; with any other name that
`get_name_info` accepts the failure is the `SchemaError` "multisection must specify '*' or '+' for the name". -/
theorem C10_multisection_names (env : Env) (st : PSt) (attrs : Attrs) :
    (∀ st', startMultisection env st attrs = .ok st' →
        ∃ n, effName attrs (some ['*']) = some n ∧ (n = ['*'] ∨ n = ['+']) ∧ Gen.multisectionNames.contains n = true) ∧
    (∀ ty req nm an, getSectiontype st attrs = .ok ty → getRequired attrs = .ok req →
        getNameInfo env st attrs (some ['*']) = .ok (none, nm, an) →
        startMultisection env st attrs = .error (.schema "multisection must specify '*' or '+' for the name")) := by
  constructor
  · intro st' h
    obtain ⟨n, h1, h2⟩ := startMultisection_ok_name h
    exact ⟨n, h1, h2, (multisectionNames_iff n).2 h2⟩
  · intro ty req nm an h1 h2 h3
    exact startMultisection_fixed_name env st attrs ty req nm an h1 h2 h3

/-- a fixed name reaches that point with the any-name component empty: the hypothesis of the second part of
`C10_multisection_names` is what `get_name_info` returns for every name other than `*` and `+` -/
theorem C10_multisection_names_fixed (env : Env) (st : PSt) (attrs : Attrs) (r : Option Str × Option Str × Option Str)
    (n : Str) (hn : effName attrs (some ['*']) = some n) (hw : ¬ (n = ['*'] ∨ n = ['+']))
    (h : getNameInfo env st attrs (some ['*']) = .ok r) : r.1 = none := by
  obtain ⟨n', a, h1, _, _, _, h5⟩ := getNameInfo_ok h
  rw [hn] at h1; cases h1
  rcases h5 with ⟨hw', _⟩ | ⟨_, h6, _⟩
  · exact absurd hw' hw
  · exact h6

/-! ## 7. no default on a required key -/

/-- both spellings.  (a) `<key required="yes" default=…>`: never accepted, and the `SchemaError` "required key cannot
have a default value" as soon as the name/datatype/handler attributes are acceptable.  (b) a `<default>` element inside
a key whose `minOccurs` is not 0: the `SchemaError` "required key cannot have default values"; and `required="yes"`
is what makes `minOccurs` non-zero in the key frame that `<key>` / `<multikey>` push. -/
theorem C10_required_no_default (env : Env) (st : PSt) (attrs : Attrs) :
    (∀ d, attr attrs "required" = some "yes".toList → attr attrs "default" = some d →
        (∀ st', startKey env st attrs ≠ .ok st') ∧
        (∀ r, getKeyInfo env st attrs = .ok r →
            startKey env st attrs = .error (.schema "required key cannot have a default value"))) ∧
    (∀ isC dattrs data k rest, st.stack = .key k :: rest → k.minOccurs ≠ 0 →
        charactersTag isC "default".toList dattrs data st =
          .error (.schema "required key cannot have default values")) ∧
    (∀ st', attr attrs "required" = some "yes".toList →
        (startKey env st attrs = .ok st' ∨ startMultikey env st attrs = .ok st') →
        ∃ k, st'.stack = .key k :: st.stack ∧ k.minOccurs = 1) := by
  refine ⟨fun d hr hd => ⟨fun st' => startKey_required_default_fails env st st' attrs d hr hd,
    fun r hk => startKey_required_default env st attrs r d hk hr hd⟩,
    fun isC dattrs data k rest hs hm => charactersTag_default_required isC dattrs data st k rest hs hm, ?_⟩
  intro st' hr h
  have hy := getRequired_yes attrs hr
  rcases h with h | h
  · obtain ⟨k, req, h1, h2, h3, _⟩ := startKey_ok_stack h
    rw [hy] at h1; cases h1
    exact ⟨k, h2, h3⟩
  · obtain ⟨k, req, h1, h2, h3, _⟩ := startMultikey_ok_stack h
    rw [hy] at h1; cases h1
    exact ⟨k, h2, h3⟩

/-- for an optional key the `<default>` element is handed to `adddefault` with its `key` attribute -/
theorem C10_default_element_optional (isC : Bool) (attrs : Attrs) (data : Str) (st : PSt) (k : EKey) (rest : List Frame)
    (hs : st.stack = .key k :: rest) (hm : k.minOccurs = 0) :
    charactersTag isC "default".toList attrs data st =
      (addDefault k data (attr attrs "key")).map fun k' => { st with stack := .key k' :: rest } :=
  charactersTag_default_optional isC attrs data st k rest hs hm

/-- `<multikey default=…>` is a `SchemaError` (defaults of a multikey are given by `<default>` elements) -/
theorem C10_multikey_default_attribute (env : Env) (st : PSt) (attrs : Attrs) (h : hasAttr attrs "default" = true) :
    startMultikey env st attrs =
      .error (.schema "default values for multikey must be given using 'default' elements") := by
  rw [startMultikey_eq, if_pos h]; rfl

/-! ## 8. defaults are keyed exactly when the key is a wildcard, and do not collide after key normalisation -/

/-- `BaseKeyInfo.adddefault`: it succeeds only on an unfinished key and only if a `key` is given exactly when the key's
name is `+`; the two mismatches are `SchemaError`s.  For a single-valued `+` key a key that is already present is the
`SchemaError` "duplicate default value for key", a new one is appended; for a single-valued fixed key a second
default is a `SchemaError`. -/
theorem C10_default_keying (k : EKey) (v : Str) (key : Option Str) :
    (∀ k', addDefault k v key = .ok k' → k.finished = false ∧ (k.name = ['+'] ↔ key.isSome = true)) ∧
    (k.finished = false → k.name = ['+'] → key = none →
        addDefault k v key = .error (.schema "default values must be keyed for name='+'")) ∧
    (k.finished = false → k.name ≠ ['+'] → key.isSome = true →
        addDefault k v key = .error (.schema "unexpected key for default value")) ∧
    (k.finished = true → addDefault k v key = .error (.schema "cannot add default values to finished KeyInfo")) ∧
    (∀ kk m, k.finished = false → k.multi = false → k.name = ['+'] → k.dflt = .keyed m → key = some kk →
        (kk ∈ m.map (·.1) → addDefault k v key = .error (.schema "duplicate default value for key")) ∧
        (kk ∉ m.map (·.1) →
            addDefault k v key = .ok { k with dflt := .keyed (m ++ [(kk, { value := v, pos := defaultPos })]) })) ∧
    (∀ vi0, k.finished = false → k.multi = false → k.name ≠ ['+'] → k.dflt = .one vi0 → key = none →
        addDefault k v key =
          .error (.schema "cannot set more than one default to key with maxOccurs == 1")) := by
  refine ⟨fun k' h => ⟨(addDefault_ok h).1, (addDefault_ok h).2.1⟩, ?_, ?_, addDefault_finished k v key, ?_, ?_⟩
  · rintro hf hn rfl; exact addDefault_unkeyed_wild k v hf hn
  · intro hf hn hk
    cases key with
    | none => cases hk
    | some kk => exact addDefault_keyed_fixed k v kk hf hn
  · rintro kk m hf hm hn hd rfl
    have hw : k.name = ['+'] ↔ (some kk).isSome = true := by simp [hn]
    rw [addDefault_wellkeyed k v (some kk) hf hw]
    exact ⟨addValueInfo_single_dup k _ kk m hm hn hd, addValueInfo_single_new k _ kk m hm hn hd⟩
  · rintro vi0 hf hm hn hd rfl
    have hw : k.name = ['+'] ↔ (none : Option Str).isSome = true := by simp [hn]
    rw [addDefault_wellkeyed k v none hf hw]
    exact addValueInfo_single_second k _ vi0 none hm hn hd

/-- `KeyInfo.computedefault(keytype)` for a single-valued `+` key whose defaults as written are `m`: when the key type
accepts every key as written (normalising them to `ks`), the result is the `SchemaError` "duplicate default value for
key" iff two of the normalised keys coincide; otherwise the defaults become the normalised keys paired, in order, with
the values, and the keys as written are remembered (`raw`).  Conversely success implies that every key was accepted and
that the normalised keys are pairwise distinct. -/
theorem C10_default_keys_collide (env : Env) (kt : Str) (k : EKey) (m : List (Str × VI))
    (hn : k.name = ['+']) (hm : k.multi = false) (hraw : k.raw.getD k.dflt = .keyed m) :
    (∀ ks, normKeys env kt m = .ok ks →
        (¬ ks.Nodup → computeDefault env kt k = .error (.schema "duplicate default value for key")) ∧
        (ks.Nodup → computeDefault env kt k =
            .ok { k with raw := some (.keyed m), dflt := .keyed (ks.zip (m.map (·.2))) })) ∧
    (∀ k', computeDefault env kt k = .ok k' →
        ∃ ks, normKeys env kt m = .ok ks ∧ ks.Nodup ∧
          k' = { k with raw := some (.keyed m), dflt := .keyed (ks.zip (m.map (·.2))) }) := by
  constructor
  · intro ks hks
    have := computeDefault_single env kt k m ks hn hm hraw hks
    exact ⟨this.2, this.1⟩
  · intro k' h
    exact computeDefault_single_ok hn hm hraw h

private def exEnv : Env :=
  { conv := { key := fun _ s => .ok (asciiLower s), val := fun _ s => .ok (.str s), sect := fun _ v => .ok v },
    dotted := fun _ => .valueError, comps := fun _ _ => .notImportable, bases := fun _ => none }
private def exVI : VI := { value := "v".toList, pos := defaultPos }
/-- two keys as written, `A` and `a`, that a lower-casing key type makes collide -/
example : normKeys exEnv [] [("A".toList, exVI), ("a".toList, exVI)] = .ok ["a".toList, "a".toList] ∧
    ¬ ["a".toList, "a".toList].Nodup := ⟨rfl, by decide⟩

/-- …and the collision is reported while the schema is loaded: when the `<key name="+">` element ends, the defaults
collected from its `<default key=…>` children are normalised under the key type of the enclosing container, and two
that coincide make `</key>` fail with the `SchemaError` -/
theorem C10_default_keys_collide_at_end_of_key (env : Env) (st : PSt) (k : EKey) (rest : List Frame) (kt : Str)
    (m : List (Str × VI)) (ks : List Str) (hs : st.stack = .key k :: rest) (hn : k.name = ['+'])
    (hm : k.multi = false) (hkt : topKeytype { st with stack := rest } = .ok kt)
    (hraw : k.raw.getD k.dflt = .keyed m) (hks : normKeys env kt m = .ok ks) (hdup : ¬ ks.Nodup) :
    endKey env st = .error (.schema "duplicate default value for key") ∧
    endHandled env "key".toList st = .error (.schema "duplicate default value for key") :=
  ⟨endKey_collision env st k rest kt m ks hs hn hm hkt hraw hks hdup,
   endKey_collision env st k rest kt m ks hs hn hm hkt hraw hks hdup⟩

/-- …and again when a type is derived: a wildcard key inherited from the base whose defaults — as written in the base —
collide under the *derived* type's key type makes `<sectiontype extends=…>` fail with the `SchemaError`, as soon as
the earlier steps of the element pass and the base's children before that key are derivable -/
theorem C10_default_keys_collide_in_derived_type (env : Env) (st st1 : PSt) (attrs : Attrs)
    (v n b bn bkey kt dt : Str) (base : EType) (pre post pre' : List (Option Str × EInfo)) (key : Option Str)
    (k : EKey) (m : List (Str × VI)) (ks : List Str)
    (hv : attr attrs "name" = some v) (hb : basicKeyE v = .ok n) (hp : pushPrefix st attrs = .ok st1)
    (hx : attr attrs "extends" = some b) (hbn : basicKeyE b = .ok bn)
    (hg : st.es.gettype bn = some (bkey, .concrete base))
    (hi : getSectTypeinfo env st1 attrs (some (base.keytype, base.datatype)) = .ok (kt, dt))
    (hfresh : n ∉ st.es.types.map (·.1))
    (hch : base.children = pre ++ (key, .key k) :: post) (hpre : deriveChildren env kt pre = .ok pre')
    (hn : k.name = ['+']) (hm : k.multi = false) (hraw : k.raw.getD k.dflt = .keyed m)
    (hks : normKeys env kt m = .ok ks) (hdup : ¬ ks.Nodup) :
    startSectiontype env st attrs = .error (.schema "duplicate default value for key") := by
  apply startSectiontype_of_base_error env st attrs v n st1 _ hv hb hp
  obtain ⟨p, rfl⟩ := pushPrefix_ok hp
  apply sectiontypeBase_derive_error env { st with prefixes := p :: st.prefixes } attrs n b bn bkey kt dt base _
    hx hbn hg hi hfresh
  rw [hch]
  exact deriveChildren_collision env kt pre post pre' key k m ks hpre hn hm hraw hks hdup

/-- nothing is wrongly refused for a multi-valued `+` key: whenever the key type accepts every key as written,
`computedefault` succeeds (defaults whose keys coincide after normalisation are merged) -/
theorem C10_multikey_defaults_never_collide (env : Env) (kt : Str) (k : EKey) (m : List (Str × List VI))
    (hn : k.name = ['+']) (hm : k.multi = true) (hraw : k.raw.getD k.dflt = .keyedMany m)
    (hks : ∀ p ∈ m, ∃ key, convDefaultKey env kt p.1 = .ok key) :
    ∃ m', computeDefault env kt k = .ok { k with raw := some (.keyedMany m), dflt := .keyedMany m' } :=
  computeDefault_multi_ok env kt k m hn hm hraw hks

/-- a key as written that the key type rejects is a `DataConversionError`, one it accepts is normalised -/
theorem C10_default_key_conversion (env : Env) (kt rk : Str) :
    (env.conv.key kt rk = .error .valueError → convDefaultKey env kt rk = .error (.conversion "default key")) ∧
    (∀ r, env.conv.key kt rk = .ok r → convDefaultKey env kt rk = .ok r) := by
  constructor
  · intro h; unfold convDefaultKey; rw [h]
  · intro r h; unfold convDefaultKey; rw [h]

/-! ## 9. `required` is `yes` or `no` -/

/-- `required`: absent means no, `yes` / `no` mean what they say, anything else is a `SchemaError` -/
theorem C10_required_values (attrs : Attrs) :
    (attr attrs "required" = none → getRequired attrs = .ok false) ∧
    (attr attrs "required" = some "yes".toList → getRequired attrs = .ok true) ∧
    (attr attrs "required" = some "no".toList → getRequired attrs = .ok false) ∧
    (∀ v, attr attrs "required" = some v → v ≠ "yes".toList → v ≠ "no".toList →
        getRequired attrs = .error (.schema "value for 'required' must be 'yes' or 'no'")) ∧
    (∀ e, getRequired attrs = .error e → ∃ t, e = .schema t) := by
  refine ⟨?_, ?_, ?_, ?_, fun e h => (EFail.isSchema_iff e).1 (getRequired_error h)⟩
  · intro h; rw [getRequired_eq, h]
  · intro h; rw [getRequired_eq, h]; rfl
  · intro h; rw [getRequired_eq, h]; rfl
  · intro v h h1 h2; rw [getRequired_eq, h]; simp only [h1, h2, ↓reduceIte]

/-! ## 10. element nesting as in the DTD, no stray text, the document element -/

/-- the nesting check of `startElement`: an element `name` is accepted below `parent` iff the table
`BaseParser._allowed_parents` (generated from the source) has an entry for `name` that lists `parent`; every refusal
is a `SchemaError` (unknown element, or wrong place). -/
theorem C10_nesting (parent name : Str) :
    (nestingCheck parent name = .ok () ↔ ∃ ps, (name, ps) ∈ Gen.allowedParents ∧ parent ∈ ps) ∧
    (∀ e, nestingCheck parent name = .error e → ∃ t, e = .schema t) :=
  ⟨nestingCheck_ok_iff parent name, fun e h => (EFail.isSchema_iff e).1 (nestingCheck_error h)⟩

/-- an element in the wrong place fails when it starts, before any handler runs -/
theorem C10_nesting_enforced (env : Env) (h : Hooks) (d : DocKind) (parent : Str) (st : PSt) (t : Str) (a : Attrs)
    (c : List Node) (e : EFail) (hn : nestingCheck parent t = .error e) :
    visitElem env h d (some parent) st (.elem t a c) = .error e :=
  visitElem_nesting_error env h d parent st t a c e hn

private theorem tbl (name : String) (ps : List String)
    (h : Gen.allowedParents.find? (·.1 == name.toList) = some (name.toList, ps.map String.toList)) (parent : Str) :
    nestingCheck parent name.toList = .ok () ↔ parent ∈ ps.map String.toList :=
  nestingCheck_of_table parent name.toList _ h

/-- the table, read off the generated constant: where each element of the schema language may appear -/
theorem C10_nesting_table (parent : Str) :
    (nestingCheck parent "key".toList = .ok () ↔ parent ∈ ["schema", "sectiontype"].map String.toList) ∧
    (nestingCheck parent "multikey".toList = .ok () ↔ parent ∈ ["schema", "sectiontype"].map String.toList) ∧
    (nestingCheck parent "section".toList = .ok () ↔ parent ∈ ["schema", "sectiontype"].map String.toList) ∧
    (nestingCheck parent "multisection".toList = .ok () ↔ parent ∈ ["schema", "sectiontype"].map String.toList) ∧
    (nestingCheck parent "default".toList = .ok () ↔ parent ∈ ["key", "multikey"].map String.toList) ∧
    (nestingCheck parent "sectiontype".toList = .ok () ↔ parent ∈ ["component", "schema"].map String.toList) ∧
    (nestingCheck parent "abstracttype".toList = .ok () ↔ parent ∈ ["component", "schema"].map String.toList) ∧
    (nestingCheck parent "import".toList = .ok () ↔ parent ∈ ["component", "schema"].map String.toList) ∧
    (nestingCheck parent "metadefault".toList = .ok () ↔
        parent ∈ ["key", "multikey", "multisection", "section"].map String.toList) ∧
    (nestingCheck parent "example".toList = .ok () ↔
        parent ∈ ["key", "multikey", "multisection", "schema", "section", "sectiontype"].map String.toList) ∧
    (nestingCheck parent "description".toList = .ok () ↔
        parent ∈ ["abstracttype", "component", "key", "multikey", "multisection", "schema", "section", "sectiontype"].map String.toList) ∧
    (nestingCheck parent "schema".toList = .error (.schema "Unknown tag")) ∧
    (nestingCheck parent "component".toList = .error (.schema "Unknown tag")) := by
  refine ⟨tbl _ _ (by decide +kernel) _, tbl _ _ (by decide +kernel) _, tbl _ _ (by decide +kernel) _,
    tbl _ _ (by decide +kernel) _, tbl _ _ (by decide +kernel) _, tbl _ _ (by decide +kernel) _,
    tbl _ _ (by decide +kernel) _, tbl _ _ (by decide +kernel) _, tbl _ _ (by decide +kernel) _,
    tbl _ _ (by decide +kernel) _, tbl _ _ (by decide +kernel) _, ?_, ?_⟩
  · rw [nestingCheck_eq]
    have : Gen.allowedParents.find? (·.1 == "schema".toList) = none := by decide +kernel
    rw [this]
  · rw [nestingCheck_eq]
    have : Gen.allowedParents.find? (·.1 == "component".toList) = none := by decide +kernel
    rw [this]

/-- character data between the elements of a non-character-data element: blank text is skipped, anything else is the
`SchemaError` "unexpected non-blank character data" -/
theorem C10_stray_text (env : Env) (h : Hooks) (d : DocKind) (parent : Str) (st : PSt) (s : Str) (r : List Node) :
    ((strip s).isEmpty = false →
        visitChildren env h d parent st (.text s :: r) = .error (.schema "unexpected non-blank character data")) ∧
    ((strip s).isEmpty = true →
        visitChildren env h d parent st (.text s :: r) = visitChildren env h d parent st r) := by
  rw [visitChildren_text]
  constructor
  · intro hb; rw [if_neg (by simp [hb])]
  · intro hb; rw [if_pos hb]

/-- so when the children of an element are read successfully, every text node among them is blank and every element
among them is one the table allows there -/
theorem C10_children_wellformed (env : Env) (h : Hooks) (d : DocKind) (parent : Str) (l : List Node) (st st' : PSt)
    (hv : visitChildren env h d parent st l = .ok st') :
    (∀ s, Node.text s ∈ l → (strip s).isEmpty = true) ∧
    (∀ t a c, Node.elem t a c ∈ l → nestingCheck parent t = .ok ()) :=
  ⟨fun _ hs => visitChildren_ok_all hv _ hs, fun _ _ _ ht => visitChildren_ok_all hv _ ht⟩

/-- a document whose root element is not `schema` (for a schema) / `component` (for a component) is refused with
`UnknownDocumentTypeError` — a `SchemaError` — before anything else is looked at -/
theorem C10_unknown_document_type (env : Env) (h : Hooks) (d : DocKind) (st : PSt) (t : Str) (a : Attrs) (c : List Node)
    (ht : t ≠ d.topLevel) :
    visitElem env h d none st (.elem t a c) = .error (.schema "UnknownDocumentTypeError") :=
  visitElem_wrong_root env h d st t a c ht

/-- …in particular for `loadSchema` -/
theorem C10_unknown_document_type_schema (env : Env) (fuel : Nat) (t : Str) (a : Attrs) (c : List Node)
    (ht : t ≠ "schema".toList) :
    elabES env fuel (.elem t a c) = .error (.schema "UnknownDocumentTypeError") := by
  unfold elabES
  rw [visitElem_wrong_root env _ (.schema none) _ t a c (by exact ht)]
  rfl

/-! ## 11. well-formed names -/

/-- names that the schema language takes as basic-keys (type names, `handler`) are accepted exactly when they are a
letter followed by letters, digits, `-`, `.`, `_`, and are lower-cased; names taken as identifiers (`attribute`)
exactly when they are a letter or `_` followed by letters, digits, `_`.  Everything else is a `SchemaError`. -/
theorem C10_wellformed_names (s : Str) :
    (basicKeyE s = if DTSpec.isBasicKey s then .ok (asciiLower s)
                   else .error (.schema "value did not match regular expression")) ∧
    (identifierE s = if DTSpec.isIdent s then .ok s else .error (.schema "not a valid Python identifier")) ∧
    (∀ r, basicKeyE s = .ok r ↔ DT.basicKey s = .ok r) ∧
    (∀ r, identifierE s = .ok r ↔ DT.identifier s = .ok r) := by
  refine ⟨basicKeyE_eq s, identifierE_eq s, ?_, ?_⟩
  · intro r
    unfold basicKeyE
    cases DT.basicKey s with
    | ok a => simp
    | error e => simp [serr]
  · intro r
    unfold identifierE
    cases DT.identifier s with
    | ok a => simp
    | error e => simp [serr]

example : DTSpec.isBasicKey "My-Type.1".toList = true ∧ DTSpec.isBasicKey "1x".toList = false := by decide

/-- the `attribute` attribute of any named element: if present and non-empty it must be an identifier that does not
start with `getSection`, otherwise the element is refused with a `SchemaError` — whatever its name is -/
theorem C10_attribute_names (env : Env) (st : PSt) (attrs : Attrs) (dflt : Option Str) (n a : Str)
    (hn : effName attrs dflt = some n) (hne : n ≠ []) (ha : attr attrs "attribute" = some a) (hae : a ≠ []) :
    (DTSpec.isIdent a = false → getNameInfo env st attrs dflt = .error (.schema "not a valid Python identifier")) ∧
    (DTSpec.isIdent a = true → startsWith a Gen.reservedAttrPrefix = true →
        getNameInfo env st attrs dflt = .error (.schema "attribute names may not start with 'getSection'")) := by
  cases a with
  | nil => exact absurd rfl hae
  | cons c cs =>
    have hA : attrNameE attrs =
        if DTSpec.isIdent (c :: cs) then
          if startsWith (c :: cs) Gen.reservedAttrPrefix then serr "attribute names may not start with 'getSection'"
          else .ok (some (c :: cs))
        else serr "not a valid Python identifier" := by
      unfold attrNameE; rw [ha]
    constructor
    · intro h1
      apply getNameInfo_attr_error env st attrs dflt n _ hn hne
      rw [hA, if_neg (by simp [h1])]; rfl
    · intro h1 h2
      apply getNameInfo_attr_error env st attrs dflt n _ hn hne
      rw [hA, if_pos h1, if_pos h2]; rfl

/-- a fixed name (not `*`, not `+`) is normalised by the key type of the enclosing container: a name the key type
rejects is the `SchemaError` "could not convert key name to keytype"; an accepted one is kept in its normalised form,
and when no `attribute` is given the attribute name is derived from it (basic-key, `-` replaced by `_`, which must
give an identifier — otherwise a `SchemaError`) -/
theorem C10_fixed_names (env : Env) (st : PSt) (attrs : Attrs) (dflt : Option Str) (n kt : Str) (aname : Option Str)
    (hn : effName attrs dflt = some n) (hne : n ≠ []) (hw : ¬ (n = ['*'] ∨ n = ['+']))
    (ha : attrNameE attrs = .ok aname) (hkt : topKeytype st = .ok kt) :
    (env.conv.key kt n = .error .valueError →
        getNameInfo env st attrs dflt = .error (.schema "could not convert key name to keytype")) ∧
    (∀ nm, env.conv.key kt n = .ok nm →
        (∀ a, aname = some a → getNameInfo env st attrs dflt = .ok (none, some nm, some a)) ∧
        (aname = none → DTSpec.isBasicKey nm = false →
            getNameInfo env st attrs dflt = .error (.schema "value did not match regular expression")) ∧
        (aname = none → DTSpec.isBasicKey nm = true →
            getNameInfo env st attrs dflt =
              (identifierE ((asciiLower nm).map fun ch => if ch == '-' then '_' else ch)).map
                fun a' => (none, some nm, some a'))) := by
  constructor
  · intro h
    exact getNameInfo_fixed_badkey env st attrs dflt n kt aname _ hn hne hw ha hkt ((convKeyName_cases env kt n).2 h)
  · intro nm h
    have hf := getNameInfo_fixed env st attrs dflt n kt nm aname hn hne hw ha hkt ((convKeyName_cases env kt n).1 nm h)
    refine ⟨?_, ?_, ?_⟩
    · rintro a rfl; exact hf
    · rintro rfl hb
      rw [hf]; simp only [basicKeyE_eq, hb, bind, Except.bind]; rfl
    · rintro rfl hb
      rw [hf]; simp only [basicKeyE_eq, hb, bind, Except.bind, ↓reduceIte]
      cases identifierE _ <;> rfl

/-- datatype names (`datatype`, `keytype`, `valuetype`): a name without a dot must be a basic-key naming a stock
datatype; a dotted name is looked up by the registry, whose `ValueError` is a `SchemaError`.  (Only an exception
*raised by the import itself* is passed through unchanged, as in Python.) -/
theorem C10_datatype_names (env : Env) (name : Str) :
    (name.contains '.' = false → DTSpec.isBasicKey name = false →
        regGet env name = .error (.schema "value did not match regular expression")) ∧
    (name.contains '.' = false → DTSpec.isBasicKey name = true → Gen.stockNames.contains (asciiLower name) = false →
        regGet env name = .error (.schema "unloadable datatype name")) ∧
    (name.contains '.' = false → DTSpec.isBasicKey name = true → Gen.stockNames.contains (asciiLower name) = true →
        regGet env name = .ok (asciiLower name)) ∧
    (name.contains '.' = true → env.dotted name = .valueError →
        regGet env name = .error (.schema "datatype (registry ValueError)")) ∧
    (∀ c, name.contains '.' = true → env.dotted name = .found c → regGet env name = .ok c) ∧
    (∀ x, name.contains '.' = true → env.dotted name = .raises x → regGet env name = .error (.internal x)) :=
  regGet_cases env name

/-- the `handler` attribute is a basic-key -/
theorem C10_handler_name (attrs : Attrs) :
    (attr attrs "handler" = none → getHandler attrs = .ok none) ∧
    (∀ v, attr attrs "handler" = some v →
        getHandler attrs = if DTSpec.isBasicKey v then .ok (some (asciiLower v))
                           else .error (.schema "value did not match regular expression")) := by
  constructor
  · intro h; unfold getHandler; rw [h]
  · intro v h
    unfold getHandler; rw [h]
    simp only [basicKeyE_eq]
    split <;> rfl

/-! ## the rules, for whole documents

`Occurs none root q n`: the node `n` occurs somewhere in the tree `root`, directly below an element with tag `q`
(`q = none`: `n` is the root).  The statements hold for schemas and for components, and whatever the hooks that read
imported components and base schemas are. -/

/-- in a document the loader accepts: the root is the document element; every element, at any depth, stands where the
nesting table allows; and every text node outside the character-data elements is blank -/
theorem C10_accepted_document_shape (env : Env) (h : Hooks) (d : DocKind) (st st' : PSt) (root : Node)
    (hv : visitElem env h d none st root = .ok st') :
    (∀ t a c, root = .elem t a c → t = d.topLevel) ∧
    (∀ par t a c, Occurs none root (some par) (.elem t a c) → ∃ ps, (t, ps) ∈ Gen.allowedParents ∧ par ∈ ps) ∧
    (∀ par s, Occurs none root (some par) (.text s) →
        (strip s).isEmpty = true ∨ Gen.cdataTags.contains par = true) := by
  refine ⟨?_, ?_, ?_⟩
  · intro t a c hr
    exact (accepted_elements .here hv t a c hr).1
  · intro par t a c ho
    exact (nestingCheck_ok_iff par t).1 (accepted_elements ho hv t a c rfl).1
  · intro par s ho
    rcases accepted_text ho hv s par rfl rfl with ⟨h0, _⟩ | h1
    · cases h0
    · exact h1

/-- in a document the loader accepts, every element with a handler — at any depth — had its start handler succeed in
some loader state; so every "the handler succeeds only if …" statement above holds for every element of an accepted
document.  Spelled out for the rules that only involve the element's own attributes: -/
theorem C10_accepted_document_rules (env : Env) (h : Hooks) (d : DocKind) (st st' : PSt) (root : Node)
    (hv : visitElem env h d none st root = .ok st') :
    (∀ q a c, Occurs none root q (.elem "key".toList a c) →
        attr a "name" ≠ some ['*'] ∧ (∃ req, getRequired a = .ok req) ∧
        ¬ (attr a "required" = some "yes".toList ∧ (attr a "default").isSome = true)) ∧
    (∀ q a c, Occurs none root q (.elem "multikey".toList a c) →
        attr a "name" ≠ some ['*'] ∧ (∃ req, getRequired a = .ok req) ∧ (attr a "default").isSome = false) ∧
    (∀ q a c, Occurs none root q (.elem "section".toList a c) →
        (attr a "type").getD [] ≠ [] ∧ (∃ req, getRequired a = .ok req)) ∧
    (∀ q a c, Occurs none root q (.elem "multisection".toList a c) →
        (attr a "type").getD [] ≠ [] ∧ (∃ req, getRequired a = .ok req) ∧
        ∃ n, effName a (some ['*']) = some n ∧ (n = ['*'] ∨ n = ['+'])) ∧
    (∀ q a c, Occurs none root q (.elem "sectiontype".toList a c) →
        ∃ v, attr a "name" = some v ∧ DTSpec.isBasicKey v = true) ∧
    (∀ q a c, Occurs none root q (.elem "abstracttype".toList a c) →
        ∃ v, attr a "name" = some v ∧ DTSpec.isBasicKey v = true) := by
  have typed : ∀ (s : PSt) (a : Attrs) (ty : Str), getSectiontype s a = .ok ty → (attr a "type").getD [] ≠ [] := by
    intro s a ty hty h0
    rw [getSectiontype_missing s a h0] at hty; cases hty
  refine ⟨?_, ?_, ?_, ?_, ?_, ?_⟩
  · intro q a c ho
    obtain ⟨s0, s1, hs⟩ := accepted_start ho hv (by decide +kernel)
    rw [startHandled_key] at hs
    refine ⟨?_, ?_, ?_⟩
    · intro hn
      obtain ⟨t, ht⟩ := startKey_star env s0 a hn
      rw [ht] at hs; cases hs
    · obtain ⟨k, req, h1, _⟩ := startKey_ok_stack hs
      exact ⟨req, h1⟩
    · rintro ⟨hr, hd⟩
      cases hdd : attr a "default" with
      | none => rw [hdd] at hd; cases hd
      | some dv => exact startKey_required_default_fails env s0 s1 a dv hr hdd hs
  · intro q a c ho
    obtain ⟨s0, s1, hs⟩ := accepted_start ho hv (by decide +kernel)
    rw [startHandled_multikey] at hs
    refine ⟨?_, ?_, ?_⟩
    · intro hn
      obtain ⟨t, ht⟩ := startMultikey_star env s0 a hn
      rw [ht] at hs; cases hs
    · obtain ⟨k, req, h1, _⟩ := startMultikey_ok_stack hs
      exact ⟨req, h1⟩
    · cases hd : (attr a "default").isSome with
      | false => rfl
      | true =>
        rw [C10_multikey_default_attribute env s0 a hd] at hs; cases hs
  · intro q a c ho
    obtain ⟨s0, s1, hs⟩ := accepted_start ho hv (by decide +kernel)
    rw [startHandled_section] at hs
    obtain ⟨ty, req, h1, h2⟩ := startSection_ok_type hs
    exact ⟨typed s0 a ty h1, req, h2⟩
  · intro q a c ho
    obtain ⟨s0, s1, hs⟩ := accepted_start ho hv (by decide +kernel)
    rw [startHandled_multisection] at hs
    obtain ⟨ty, req, h1, h2⟩ := startMultisection_ok_type hs
    exact ⟨typed s0 a ty h1, ⟨req, h2⟩, startMultisection_ok_name hs⟩
  · intro q a c ho
    obtain ⟨s0, s1, hs⟩ := accepted_start ho hv (by decide +kernel)
    rw [startHandled_sectiontype] at hs
    obtain ⟨v, n, _, h1, h2, _⟩ := startSectiontype_result hs
    exact ⟨v, h1, (basicKeyE_ok h2).1⟩
  · intro q a c ho
    obtain ⟨s0, s1, hs⟩ := accepted_start ho hv (by decide +kernel)
    rw [startHandled_abstracttype] at hs
    cases hv' : attr a "name" with
    | none => rw [startAbstracttype_noname s0 a (by rw [hv']; rfl)] at hs; cases hs
    | some v =>
      cases hb : basicKeyE v with
      | ok n => exact ⟨v, rfl, (basicKeyE_ok hb).1⟩
      | error e =>
        by_cases hne : v = []
        · subst hne; rw [startAbstracttype_noname s0 a (by rw [hv']; rfl)] at hs; cases hs
        · rw [startAbstracttype_badname s0 a v e hv' hne hb] at hs; cases hs

/-- the same for `loadSchema`: a successful load is a successful pass over the document, to which the two theorems
above apply -/
theorem C10_accepted_schema (env : Env) (fuel : Nat) (tree : Node) (es : ES) (h : elabES env fuel tree = .ok es) :
    ∃ st', visitElem env (hooks env fuel) (.schema none) none { es := emptyES } tree = .ok st' ∧ st'.es = es :=
  elabES_ok h

/-- the hypotheses of the document-level theorems are satisfiable by a document with an inner element:
`<schema><abstracttype name="a"/></schema>` is accepted, for every environment -/
example (env : Env) (fuel : Nat) :
    (∃ es, elabES env fuel exDoc = .ok es) ∧
    Occurs none exDoc (some "schema".toList) (.elem "abstracttype".toList [("name".toList, "a".toList)] []) :=
  ⟨exDoc_accepted env fuel, .child (by simp) .here⟩


/-- **Nothing is left for load time.**  Every schema document the loader accepts — any element tree, any components and
    base schemas reached through it, any nesting of imports — yields a schema object satisfying the structural invariant
    `schemaOK` that the configuration-loading theorems C01/C02/C07/C14/C16 assume: attribute names and keys are unique
    per type (inherited ones included), keys are stored under their own non-empty name with a default of the right shape,
    section slots refer to types that exist, type names equal their table keys.  `hkey` (key types never turn a non-empty
    name into the empty string) holds of the stock key types (`stockConv_key_ne_nil`). -/
theorem C10_elab_schemaOK (env : Elab.Env) (fuel : Nat) (t : Elab.Node) (S : Cfg.Schema)
    (hkey : ∀ (kt s r : Str), s ≠ [] → env.conv.key kt s = .ok r → r ≠ [])
    (h : Elab.elabSchema env fuel t = .ok S) : Conf.schemaOK S = true :=
  Elab.elab_schemaOK' env fuel t S hkey ZCV.lower_idem h

/-- the same for the stock key types (basic-key, identifier, ipaddr-or-hostname, string): no hypothesis left -/
theorem C10_elab_schemaOK_stock (env : Elab.Env) (fuel : Nat) (t : Elab.Node) (S : Cfg.Schema)
    (hconv : env.conv = Cfg.stockConv) (h : Elab.elabSchema env fuel t = .ok S) : Conf.schemaOK S = true :=
  C10_elab_schemaOK env fuel t S (by intro kt s r hs hr; rw [hconv] at hr; exact Elab.stockConv_key_ne_nil kt s r hs hr) h


/-- **Violations are reported as schema errors when the schema is loaded.**  Whatever the document (and the components and base
    schemas it pulls in), the schema loader ends in a schema object, a `SchemaError`, a `SchemaResourceError` or — only for a keyed
    default whose key the key type rejects — a `DataConversionError`; never in a Python exception outside the ZConfig family.
    Hypotheses (`EnvNI`): the datatype registry does not raise for dotted names, key types reject with ValueError only and never
    turn a fixed name into `*`/`+`; no document uses `<import src=…>` (not modelled); the nesting of documents does not exhaust
    the fuel (Python: no RecursionError).  A closed counterexample for each hypothesis is in `ZCV/Lemmas/ElabNoIntEx.lean`. -/
theorem C10_errors_are_schema_errors (env : Elab.Env) (fuel : Nat) (t : Elab.Node)
    (he : Elab.EnvNI env) (htr : Elab.EnvTrees Elab.NoSrc env) (hsrc : Elab.NoSrc t)
    (hfuel : Elab.elabSchema env fuel t ≠ .error (.internal "RecursionError")) :
    (∃ S, Elab.elabSchema env fuel t = .ok S) ∨ (∃ m, Elab.elabSchema env fuel t = .error (.schema m)) ∨
    (∃ m, Elab.elabSchema env fuel t = .error (.schemaResource m)) ∨ (∃ m, Elab.elabSchema env fuel t = .error (.conversion m)) :=
  Elab.elab_errors_are_schema_errors env fuel t he htr hsrc hfuel

/-- for a single document without `<import>` and without `extends` on `<schema>`: no internal error for any fuel -/
theorem C10_no_internal_single_document (env : Elab.Env) (fuel : Nat) (t : Elab.Node) (e : String)
    (he : Elab.EnvNI env) (hflat : Elab.flatDoc t = true) : Elab.elabSchema env fuel t ≠ .error (.internal e) :=
  Elab.elab_no_internal_flat env fuel t e he hflat

/-! ## completeness: every document that satisfies the rules is accepted

The rules are the judgement `SchemaRules.DocRules env kind root` of `ZCV/Spec/SchemaRules.lean`: a Boolean checker
written rule by rule from the statement of the property (the list of the rules, those of the statement and the
"further rules" of the code, is in the header of that file).  It is decidable, so closed instances are settled by
`decide`. -/

/-- **Every document that satisfies the rules is accepted.**  A schema document — one document: no `<import>` child, no
`extends` on `<schema>` (`standalone`) — that satisfies the static rules of the schema language (`DocRules`) is loaded
successfully by the loader model, for every environment (datatype registry, key types) and every fuel (a standalone
document never reads another one, so the recursion bound plays no role).  Nothing is restricted inside the document:
`prefix`, `keytype`/`valuetype`/`datatype`, `handler`, abstract / concrete / derived / implementing section types,
keys and multikeys with `default=` / `<default>` / keyed defaults, sections and multisections, `<description>`,
`<example>`, `<metadefault>`. -/
theorem C10_rules_accepted (env : Elab.Env) (fuel : Nat) (root : Elab.Node)
    (hst : SchemaRules.standalone root = true) (hr : SchemaRules.DocRules env .schema root) :
    ∃ S, Elab.elabSchema env fuel root = .ok S :=
  SchemaRules.rules_accepted env fuel root hst hr

/-- …and the schema object obtained satisfies the structural invariant the configuration-loading theorems assume -/
theorem C10_rules_accepted_schemaOK (env : Elab.Env) (fuel : Nat) (root : Elab.Node)
    (hkey : ∀ (kt s r : Str), s ≠ [] → env.conv.key kt s = .ok r → r ≠ [])
    (hst : SchemaRules.standalone root = true) (hr : SchemaRules.DocRules env .schema root) :
    ∃ S, Elab.elabSchema env fuel root = .ok S ∧ Conf.schemaOK S = true := by
  obtain ⟨S, hS⟩ := C10_rules_accepted env fuel root hst hr
  exact ⟨S, hS, C10_elab_schemaOK env fuel root S hkey hS⟩

/-- **An accepted document satisfies the rules** — all of them at once, against the same judgement: a standalone
schema document that the loader model accepts satisfies `DocRules` (so the per-rule theorems above are not a partial
list: nothing the judgement demands is left unchecked by the loader, and the judgement demands nothing more than the
loader does). -/
theorem C10_accepted_rules (env : Elab.Env) (fuel : Nat) (root : Elab.Node) (S : Cfg.Schema)
    (hst : SchemaRules.standalone root = true) (h : Elab.elabSchema env fuel root = .ok S) :
    SchemaRules.DocRules env .schema root :=
  SchemaRules.accepted_rules env fuel root S hst h

/-- **Schema documents are accepted exactly when they obey the schema language rules** (one document: an element
without `extends`, without `<import>` child): acceptance by the loader model and the rule-by-rule judgement coincide,
for every environment and every fuel.  In particular acceptance of a standalone document is decidable by the rule
checker `SchemaRules.docRules`, and does not depend on the fuel. -/
theorem C10_accepted_iff_rules (env : Elab.Env) (fuel : Nat) (root : Elab.Node)
    (hst : SchemaRules.standalone root = true) :
    (∃ S, Elab.elabSchema env fuel root = .ok S) ↔ SchemaRules.DocRules env .schema root :=
  ⟨fun ⟨S, h⟩ => C10_accepted_rules env fuel root S hst h, C10_rules_accepted env fuel root hst⟩

/-- a document that breaks a rule is refused (contrapositive of `C10_accepted_rules`) -/
theorem C10_rule_violation_refused (env : Elab.Env) (fuel : Nat) (root : Elab.Node)
    (hst : SchemaRules.standalone root = true) (hr : ¬ SchemaRules.DocRules env .schema root) :
    ∃ e, Elab.elabSchema env fuel root = .error e := by
  cases h : Elab.elabSchema env fuel root with
  | error e => exact ⟨e, rfl⟩
  | ok S => exact absurd (C10_accepted_rules env fuel root S hst h) hr

/-! ### with `<import package=…>`: components, nested

`DocRulesN env n .schema root`: the document and the components it imports — looked up in `env.comps`, each merged once,
nested at most `n` deep — obey the rules (`SchemaRules.level`; `n = 0` is `DocRules`).  Only `extends` on `<schema>`
remains outside (`noExtends`). -/

/-- **Every document that satisfies the rules is accepted — imports included.**  A schema document without `extends`
on `<schema>` that satisfies the rules together with the components it imports (nested at most `n` deep) is loaded
successfully whenever the recursion bound allows `n` levels of nested documents. -/
theorem C10_rules_accepted_imports (env : Elab.Env) (n fuel : Nat) (root : Elab.Node)
    (hx : SchemaRules.noExtends root = true) (hr : SchemaRules.DocRulesN env n .schema root) (hfuel : n ≤ fuel) :
    ∃ S, Elab.elabSchema env fuel root = .ok S :=
  SchemaRules.rules_accepted_imports env n fuel root hx hr hfuel

/-- **An accepted document satisfies the rules — imports included**: a schema document without `extends` that the
loader accepts with recursion bound `fuel` satisfies the rules, and so does every component it read (they nest at most
`fuel` deep). -/
theorem C10_accepted_rules_imports (env : Elab.Env) (fuel : Nat) (root : Elab.Node) (S : Cfg.Schema)
    (hx : SchemaRules.noExtends root = true) (h : Elab.elabSchema env fuel root = .ok S) :
    SchemaRules.DocRulesN env fuel .schema root :=
  SchemaRules.accepted_rules_imports env fuel root S hx h

/-- **Schema documents are accepted exactly when they obey the schema language rules — imports included.**  For a
document without `extends` on `<schema>`: the loader with recursion bound `fuel` accepts it iff the document and the
components it imports, nested at most `fuel` deep, satisfy the rules. -/
theorem C10_accepted_iff_rules_imports (env : Elab.Env) (fuel : Nat) (root : Elab.Node)
    (hx : SchemaRules.noExtends root = true) :
    (∃ S, Elab.elabSchema env fuel root = .ok S) ↔ SchemaRules.DocRulesN env fuel .schema root :=
  ⟨fun ⟨S, h⟩ => C10_accepted_rules_imports env fuel root S hx h,
   fun hr => C10_rules_accepted_imports env fuel fuel root hx hr (Nat.le_refl _)⟩

/-- what the judgement means, order-free: in a document that satisfies the rules (with its imports), the names of all
types of the signature it ends with — `<abstracttype>` and `<sectiontype>` declarations of the document and of the
components it imports, after basic-key normalisation — are pairwise distinct; every concrete type of that signature
(members of the base first, then the type's own) has pairwise distinct attribute names and pairwise distinct non-empty
keys — inherited ones included — and so has the top-level container -/
theorem C10_rules_unique_names (env : Elab.Env) (n : Nat) (t : Str) (a : Attrs) (c : List Elab.Node)
    (h : SchemaRules.DocRulesN env n .schema (.elem t a c)) :
    ((SchemaRules.topAfter env (SchemaRules.level env n) (SchemaRules.prefixOf none a) [] [] c).1.names).Nodup ∧
    (∀ nm kt ms, (nm, SchemaRules.TySig.concrete kt ms) ∈
          (SchemaRules.topAfter env (SchemaRules.level env n) (SchemaRules.prefixOf none a) [] [] c).1 →
        (ms.map (·.attr)).Nodup ∧ (SchemaRules.memberKeys ms).Nodup) ∧
    ((SchemaRules.membersOf env (SchemaRules.keytypeOf env (SchemaRules.prefixOf none a) a none) c).map (·.attr)).Nodup ∧
    (SchemaRules.memberKeys
      (SchemaRules.membersOf env (SchemaRules.keytypeOf env (SchemaRules.prefixOf none a) a none) c)).Nodup :=
  ⟨(SchemaRules.docRules_signature_wf h).1, fun nm kt ms hm => (SchemaRules.docRules_signature_wf h).2 nm kt ms hm,
   SchemaRules.docRules_top_wf h⟩

namespace RulesEx
open SchemaRules

/-- an environment for closed instances: the key type `basic-key` as documented (structural definition), every other
key type the identity; one dotted datatype name, `my.dt`, is known -/
def env : Elab.Env :=
  { conv := { key := fun kt s => if kt == "basic-key".toList then DTSpec.basicKey s else .ok s,
              val := fun _ s => .ok (.str s), sect := fun _ v => .ok v },
    dotted := fun n => if n == "my.dt".toList then .found n else .valueError,
    comps := fun _ _ => .notImportable, bases := fun _ => none }

def E (t : String) (a : List (String × String)) (c : List Node) : Node :=
  .elem t.toList (a.map fun p => (p.1.toList, p.2.toList)) c
def T (s : String) : Node := .text s.toList
/-- `<schema>` with children `c` -/
def S (c : List Node) : Node := E "schema" [] c

/-- a document with a prefix and a dotted datatype, an abstract type, a concrete type implementing it (own key type,
a key with a `default` attribute and notes, a multikey with `<default>`s, a single-valued `+` key with keyed
defaults, a required multikey), a type derived from it (a key with datatype and handler, a section of its own type,
a multisection), and a section, a multi-valued `+` key whose default keys coincide after normalisation, and a key at
top level -/
def good : Node :=
  E "schema" [("prefix", "my"), ("datatype", ".dt")] [
    T "\n  ",
    E "description" [] [T "a schema"],
    E "abstracttype" [("name", "Abs")] [E "description" [] [T "x"]],
    E "sectiontype" [("name", "Base"), ("implements", "abs"), ("keytype", "string")] [
      E "key" [("name", "Alpha"), ("default", "1")]
        [E "description" [] [T "d"], E "metadefault" [] [], E "metadefault" [] []],
      E "multikey" [("name", "beta"), ("attribute", "betas")] [E "default" [] [T "1"], E "default" [] [T "2"]],
      E "key" [("name", "+"), ("attribute", "rest")]
        [E "default" [("key", "A")] [T "1"], E "default" [("key", "a")] [T "2"]],
      E "multikey" [("name", "gamma"), ("required", "yes")] []
    ],
    E "sectiontype" [("name", "derived"), ("extends", "BASE")] [
      E "key" [("name", "delta"), ("datatype", "integer"), ("handler", "h")] [],
      E "section" [("type", "derived"), ("name", "inner"), ("attribute", "inner")] [],
      E "multisection" [("type", "abs"), ("name", "+"), ("attribute", "many")] [E "example" [] [T "e"]]
    ],
    E "section" [("type", "abs"), ("attribute", "one")] [],
    E "multikey" [("name", "+"), ("attribute", "more")]
      [E "default" [("key", "x")] [T "1"], E "default" [("key", "X")] [T "2"]],
    E "key" [("name", "top-key")] []
  ]

/-- non-vacuity of `C10_rules_accepted`: the document above is standalone and satisfies the rules… -/
example : standalone good = true ∧ DocRules env .schema good := by decide +kernel
/-- …hence is accepted -/
example (fuel : Nat) : ∃ S, Elab.elabSchema env fuel good = .ok S :=
  C10_rules_accepted env fuel good (by decide +kernel) (by decide +kernel)

/-- a component read on its own: type declarations and descriptions only -/
example : DocRules env .component
    (E "component" [("prefix", "my")] [E "description" [] [T "a"], E "description" [] [T "b"],
      E "abstracttype" [("name", "a")] [], E "sectiontype" [("name", "t"), ("implements", "a")] []]) := by
  decide +kernel

/-! `DocRules` is false on a document that breaks a rule — one (or more) per rule family -/

-- 1. unique type names, after normalisation
example : ¬ DocRules env .schema (S [E "sectiontype" [("name", "T")] [], E "abstracttype" [("name", "t")] []]) := by
  decide +kernel
/-- …and such a document is refused by the loader, e.g. this one -/
example (fuel : Nat) : ∃ e, Elab.elabSchema env fuel
    (S [E "sectiontype" [("name", "T")] [], E "abstracttype" [("name", "t")] []]) = .error e :=
  C10_rule_violation_refused env fuel _ (by decide +kernel) (by decide +kernel)
-- 2. unique key names after the key type (`a` / `A` under basic-key), unique attribute names, inherited ones included
example : ¬ DocRules env .schema (S [E "key" [("name", "a")] [], E "key" [("name", "A")] []]) := by decide +kernel
example : ¬ DocRules env .schema (S [E "key" [("name", "a")] [], E "key" [("name", "b"), ("attribute", "a")] []]) := by
  decide +kernel
example : ¬ DocRules env .schema (S [E "sectiontype" [("name", "b")] [E "key" [("name", "k")] []],
    E "sectiontype" [("name", "d"), ("extends", "b")] [E "multikey" [("name", "K")] []]]) := by decide +kernel
example : ¬ DocRules env .schema (S [E "sectiontype" [("name", "b")] [E "key" [("name", "k")] []],
    E "sectiontype" [("name", "d"), ("extends", "b")] [E "key" [("name", "other"), ("attribute", "k")] []]]) := by
  decide +kernel
-- 3. types defined before use
example : ¬ DocRules env .schema (S [E "section" [("type", "t"), ("name", "s")] [], E "sectiontype" [("name", "t")] []]) := by
  decide +kernel
example : ¬ DocRules env .schema (S [E "sectiontype" [("name", "d"), ("extends", "b")] [], E "sectiontype" [("name", "b")] []]) := by
  decide +kernel
example : ¬ DocRules env .schema (S [E "sectiontype" [("name", "d"), ("implements", "a")] []]) := by decide +kernel
-- 4. `extends` names a concrete type, `implements` an abstract one
example : ¬ DocRules env .schema (S [E "abstracttype" [("name", "a")] [], E "sectiontype" [("name", "d"), ("extends", "a")] []]) := by
  decide +kernel
example : ¬ DocRules env .schema (S [E "sectiontype" [("name", "b")] [], E "sectiontype" [("name", "d"), ("implements", "b")] []]) := by
  decide +kernel
-- 5. wildcard names carry an attribute; `*` is not a key name
example : ¬ DocRules env .schema (S [E "key" [("name", "+")] []]) := by decide +kernel
example : ¬ DocRules env .schema (S [E "sectiontype" [("name", "t")] [], E "section" [("type", "t")] []]) := by decide +kernel
example : ¬ DocRules env .schema (S [E "key" [("name", "*"), ("attribute", "a")] []]) := by decide +kernel
-- 6. multisections are named `*` or `+`
example : ¬ DocRules env .schema
    (S [E "sectiontype" [("name", "t")] [], E "multisection" [("type", "t"), ("name", "s"), ("attribute", "a")] []]) := by
  decide +kernel
-- 7. no default on a required key
example : ¬ DocRules env .schema (S [E "key" [("name", "k"), ("required", "yes"), ("default", "1")] []]) := by decide +kernel
example : ¬ DocRules env .schema (S [E "multikey" [("name", "k"), ("required", "yes")] [E "default" [] [T "1"]]]) := by
  decide +kernel
-- 8. defaults keyed exactly for `+`; no collision after normalisation, in the type itself and in a derived type
example : ¬ DocRules env .schema (S [E "multikey" [("name", "k")] [E "default" [("key", "x")] [T "1"]]]) := by decide +kernel
example : ¬ DocRules env .schema (S [E "multikey" [("name", "+"), ("attribute", "a")] [E "default" [] [T "1"]]]) := by
  decide +kernel
example : ¬ DocRules env .schema (S [E "key" [("name", "+"), ("attribute", "a")]
    [E "default" [("key", "X")] [T "1"], E "default" [("key", "x")] [T "2"]]]) := by decide +kernel
example : ¬ DocRules env .schema (S [E "key" [("name", "+"), ("attribute", "a")] [E "default" [("key", "not a key")] [T "1"]]]) := by
  decide +kernel
example : ¬ DocRules env .schema (S [
    E "sectiontype" [("name", "b"), ("keytype", "string")] [E "key" [("name", "+"), ("attribute", "a")]
      [E "default" [("key", "X")] [T "1"], E "default" [("key", "x")] [T "2"]]],
    E "sectiontype" [("name", "d"), ("extends", "b"), ("keytype", "basic-key")] []]) := by decide +kernel
-- …the same base is fine on its own, and a derived type that keeps its key type too
example : DocRules env .schema (S [
    E "sectiontype" [("name", "b"), ("keytype", "string")] [E "key" [("name", "+"), ("attribute", "a")]
      [E "default" [("key", "X")] [T "1"], E "default" [("key", "x")] [T "2"]]],
    E "sectiontype" [("name", "d"), ("extends", "b")] []]) := by decide +kernel
-- 9. `required`
example : ¬ DocRules env .schema (S [E "key" [("name", "k"), ("required", "maybe")] []]) := by decide +kernel
-- 10. nesting, stray text, document element
example : ¬ DocRules env .schema (S [E "key" [("name", "k")] [E "key" [("name", "l")] []]]) := by decide +kernel
example : ¬ DocRules env .schema (S [E "sectiontype" [("name", "t")] [E "abstracttype" [("name", "a")] []]]) := by
  decide +kernel
example : ¬ DocRules env .schema (S [E "default" [] [T "1"]]) := by decide +kernel
example : ¬ DocRules env .schema (S [T "stray"]) := by decide +kernel
example : ¬ DocRules env .schema (S [E "key" [("name", "k")] [E "description" [] [E "b" [] []]]]) := by decide +kernel
example : ¬ DocRules env .schema (E "component" [] []) := by decide +kernel
example : ¬ DocRules env .schema (S [E "frobnicate" [] []]) := by decide +kernel
-- 11. well-formed names, attributes, handlers, datatype names
example : ¬ DocRules env .schema (S [E "sectiontype" [("name", "1t")] []]) := by decide +kernel
example : ¬ DocRules env .schema (S [E "key" [("name", "k"), ("attribute", "not-an-identifier")] []]) := by decide +kernel
example : ¬ DocRules env .schema (S [E "key" [("name", "k"), ("attribute", "getSectionX")] []]) := by decide +kernel
example : ¬ DocRules env .schema (S [E "key" [("name", "not a key")] []]) := by decide +kernel
example : ¬ DocRules env .schema (S [E "key" [("name", "k"), ("datatype", "no-such-type")] []]) := by decide +kernel
example : ¬ DocRules env .schema (S [E "key" [("name", "k"), ("datatype", "not.known")] []]) := by decide +kernel
example : ¬ DocRules env .schema (E "schema" [("keytype", "nope")] []) := by decide +kernel
example : ¬ DocRules env .schema (S [E "key" [("name", "k"), ("handler", "1h")] []]) := by decide +kernel
example : ¬ DocRules env .schema (S [E "key" [] []]) := by decide +kernel
-- further rules F1–F5
example : ¬ DocRules env .schema (E "schema" [("prefix", ".rel")] []) := by decide +kernel
example : ¬ DocRules env .schema (S [E "key" [("name", "k")] [E "description" [] [], E "description" [] []]]) := by
  decide +kernel
example : ¬ DocRules env .schema (S [E "example" [] [], E "example" [] []]) := by decide +kernel
example : ¬ DocRules env .schema (S [E "key" [("name", "a.b")] []]) := by decide +kernel
example : DocRules env .schema (S [E "key" [("name", "a.b"), ("attribute", "ab")] []]) := by decide +kernel
example : ¬ DocRules env .schema (S [E "key" [("name", "k")] [E "default" [] [T "1"]]]) := by decide +kernel
example : ¬ DocRules env .schema (S [E "multikey" [("name", "k"), ("default", "1")] []]) := by decide +kernel
example : ¬ DocRules env .schema (S [E "key" [("name", "+"), ("attribute", "a"), ("default", "1")] []]) := by decide +kernel
-- not one document
example : ¬ DocRules env .schema (S [E "import" [("package", "p")] []]) := by decide +kernel
example : standalone (E "schema" [("extends", "base.xml")] []) = false := by decide +kernel

/-! ### documents with imports -/

/-- the component `pkg`: a prefix, two descriptions (allowed in a component), an abstract and a concrete type, and an
import of `pkg.sub` by a name relative to the prefix -/
def compPkg : Node :=
  E "component" [("prefix", "pkg")] [
    E "description" [] [T "one"], E "description" [] [T "two"],
    E "abstracttype" [("name", "service")] [],
    E "import" [("package", ".sub")] [T " "],
    E "sectiontype" [("name", "server"), ("implements", "service"), ("extends", "sub-base")]
      [E "key" [("name", "port"), ("datatype", "port-number")] [E "description" [] [], E "description" [] []]]
  ]
/-- the component `pkg.sub`, which imports `pkg` back (a no-op: `pkg` is being merged already) -/
def compSub : Node :=
  E "component" [] [
    E "import" [("package", "pkg")] [],
    E "sectiontype" [("name", "sub-base")] [E "key" [("name", "host")] []]
  ]
/-- a component that breaks a rule (two keys with one name) -/
def compBad : Node :=
  E "component" [] [E "sectiontype" [("name", "t")] [E "key" [("name", "k")] [], E "key" [("name", "K")] []]]

/-- `env` with three packages; `nofile` is a package without `component.xml` -/
def envI : Elab.Env :=
  { env with comps := fun p f =>
      if f == "component.xml".toList then
        if p == "pkg".toList then .doc compPkg
        else if p == "pkg.sub".toList then .doc compSub
        else if p == "bad".toList then .doc compBad
        else if p == "nofile".toList then .noFile
        else .notImportable
      else if p == "pkg".toList || p == "pkg.sub".toList || p == "bad".toList || p == "nofile".toList then .noFile
      else .notImportable }

/-- a schema that imports `pkg` (twice: the second import is a no-op) and uses its types -/
def withImports : Node :=
  S [E "import" [("package", "pkg")] [], E "import" [("package", "pkg"), ("file", "component.xml")] [],
     E "sectiontype" [("name", "mine"), ("extends", "server")] [E "key" [("name", "extra")] []],
     E "multisection" [("type", "service"), ("attribute", "servers")] [],
     E "section" [("type", "sub-base"), ("name", "base"), ("attribute", "base")] []]

/-- non-vacuity of `C10_rules_accepted_imports`: components nested two deep -/
example : noExtends withImports = true ∧ DocRulesN envI 2 .schema withImports := by decide +kernel
example (fuel : Nat) (hf : 2 ≤ fuel) : ∃ S, Elab.elabSchema envI fuel withImports = .ok S :=
  C10_rules_accepted_imports envI 2 fuel withImports (by decide +kernel) (by decide +kernel) hf
/-- the signature it ends with: the types of the components, in the order in which they were merged, then its own -/
example : (match withImports with
    | .elem _ a c => (topAfter envI (level envI 2) (prefixOf none a) [] [] c).1.names
    | .text _ => []) =
    ["service".toList, "sub-base".toList, "server".toList, "mine".toList] := by decide +kernel
-- one level of nesting is not enough for this document; a document is not standalone when it imports
example : ¬ DocRulesN envI 1 .schema withImports := by decide +kernel
example : standalone withImports = false := by decide +kernel
-- a component that breaks a rule; a package that does not exist; a package without component file; a clash between a
-- type of the schema and a type of a component; `src`; something inside `<import>`
example : ¬ DocRulesN envI 3 .schema (S [E "import" [("package", "bad")] []]) := by decide +kernel
example : ¬ DocRulesN envI 3 .schema (S [E "import" [("package", "nowhere")] []]) := by decide +kernel
example : ¬ DocRulesN envI 3 .schema (S [E "import" [("package", "nofile")] []]) := by decide +kernel
example : ¬ DocRulesN envI 3 .schema (S [E "abstracttype" [("name", "Server")] [], E "import" [("package", "pkg")] []]) := by
  decide +kernel
example : ¬ DocRulesN envI 3 .schema (S [E "import" [("src", "http://x/y.xml")] []]) := by decide +kernel
example : ¬ DocRulesN envI 3 .schema (S [E "import" [("package", "pkg")] [E "description" [] []]]) := by decide +kernel
example : ¬ DocRulesN envI 3 .schema (S [E "import" [("package", "pkg"), ("file", "a/b.xml")] []]) := by decide +kernel
example : ¬ DocRulesN envI 3 .schema (S [E "import" [("package", "pkg..sub")] []]) := by decide +kernel
-- types of a component are defined only after the import
example : ¬ DocRulesN envI 3 .schema
    (S [E "section" [("type", "server"), ("attribute", "s")] [], E "import" [("package", "pkg")] []]) := by decide +kernel

end RulesEx

end ZCV.Props.C10
