import ZCV.Model.TreeLoad
namespace ZCV.Props.C10
open ZCV
end ZCV.Props.C10
