import ZCV.Lemmas.Misc
namespace ZCV.Props.C12
open ZCV ZCV.Cfg

/-- a header naming a concrete type is admitted by an abstract slot only if that type implements the slot's abstract type
    (as the schema, extended by the `%import`s read so far, records it) -/
theorem C12_abstract_slot_admits_only_implementers (s : Schema) (t : SType) (ty : Str) (name : Option Str) (si : SectInfo)
    (hconc : isAbstract s ty = false)
    (h : getsectioninfo s t ty name = .ok si) (ha : isAbstract s si.ty = true) : isSubtype s si.ty ty = true :=
  getsectioninfo_abstract_implies_subtype s t ty name si hconc h ha

/-- the abstract type itself is never admitted: the header is refused before any slot is looked at -/
theorem C12_abstract_itself_refused (st : LS) (ty : Str) (nm : Option Str) (p : Matcher) (below : List Matcher)
    (hs : st.stack = p :: below) (n : Str) (subs : List Str) (h : st.schema.gettype ty = some (.abstract_ n subs)) :
    ∃ e, lsStart st ty nm = .error (.cfg e) :=
  lsStart_abstract_refused st ty nm p below hs n subs h

end ZCV.Props.C12
