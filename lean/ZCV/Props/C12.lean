import ZCV.Lemmas.Misc
import ZCV.Lemmas.SlotsLoad
import ZCV.Lemmas.SlotsElab
import ZCV.Lemmas.SlotsEx
namespace ZCV.Props.C12
open ZCV ZCV.Cfg

/-- a header naming a concrete type is admitted by an abstract slot only if that type implements the slot's abstract type
    (as the schema, extended by the `%import`s read so far, records it) -/
theorem C12_abstract_slot_admits_only_implementers (s : Schema) (t : SType) (ty : Str) (name : Option Str) (si : SectInfo)
    (hconc : isAbstract s ty = false)
    (h : getsectioninfo s t ty name = .ok si) (ha : isAbstract s si.ty = true) : isSubtype s si.ty ty = true :=
  getsectioninfo_abstract_implies_subtype s t ty name si hconc h ha

/-- the abstract type itself is never admitted: the header is refused before any slot is looked at -/
theorem C12_abstract_itself_refused (st : LS) (ty : Str) (nm : Option Str) (p : Matcher) (below : List Matcher)
    (hs : st.stack = p :: below) (n : Str) (subs : List Str) (h : st.schema.gettype ty = some (.abstract_ n subs)) :
    ∃ e, lsStart st ty nm = .error (.cfg e) :=
  lsStart_abstract_refused st ty nm p below hs n subs h

/-! ### which headers an abstract slot admits -/

/-- **An abstract slot admits exactly the implementers.**  In a well-formed schema (`schemaOK`), let `t` be the schema
    itself or one of its concrete section types, and `<ty name>` a header whose type `ty` is a known concrete type.
    `getsectioninfo` hands the header to a slot `si` of ABSTRACT type if and only if
    * `si` belongs to the first child of `t`, in schema order, that claims the header (a fixed-name child claims the
      headers carrying its name; a `*`/`+` slot claims the headers of its own type or of a type implementing its type), and
    * `ty` is among the implementers the schema records for `si`'s type at this moment
      (`Conf.implementers`: the static ones plus those registered by the `%import` lines read so far). -/
theorem C12_slot_admits_iff (s : Schema) (hs : Conf.schemaOK s = true) (t : SType)
    (ht : t = s.top ∨ ∃ pt, s.gettype pt = some (.concrete t))
    (ty : Str) (tt : SType) (hty : s.gettype ty = some (.concrete tt)) (name : Option Str) (si : SectInfo) :
    (getsectioninfo s t ty name = .ok si ∧ isAbstract s si.ty = true) ↔
      (isAbstract s si.ty = true ∧
        ∃ c, t.children.find? (Conf.claims s ty name) = some c ∧ c.2 = .sect si ∧ ty ∈ Conf.implementers s si.ty) := by
  have hOK := stypeOK_of_schemaOK s hs t ht
  have hconc := isAbstract_concrete s ty tt hty
  constructor
  · intro ⟨h, ha⟩
    exact ⟨ha, (slot_admits_iff s t hOK ty name si hconc ha).mp h⟩
  · intro ⟨ha, h⟩
    exact ⟨(slot_admits_iff s t hOK ty name si hconc ha).mpr h, ha⟩

/-- the same for any container type that is structurally well-formed (`stypeOK`), without the rest of the schema -/
theorem C12_slot_admits_iff_stype (s : Schema) (t : SType) (hOK : Conf.stypeOK s t = true) (ty : Str) (name : Option Str)
    (si : SectInfo) (hconc : isAbstract s ty = false) (ha : isAbstract s si.ty = true) :
    getsectioninfo s t ty name = .ok si ↔
      ∃ c, t.children.find? (Conf.claims s ty name) = some c ∧ c.2 = .sect si ∧ ty ∈ Conf.implementers s si.ty :=
  slot_admits_iff s t hOK ty name si hconc ha

/-- only-if half, as the property words it: whatever slot of abstract type takes the header, the header's type is one
    of that abstract type's implementers, and the slot is a child of the container -/
theorem C12_admitted_is_implementer (s : Schema) (hs : Conf.schemaOK s = true) (t : SType)
    (ht : t = s.top ∨ ∃ pt, s.gettype pt = some (.concrete t))
    (ty : Str) (tt : SType) (hty : s.gettype ty = some (.concrete tt)) (name : Option Str) (si : SectInfo)
    (h : getsectioninfo s t ty name = .ok si) (ha : isAbstract s si.ty = true) :
    ty ∈ Conf.implementers s si.ty ∧ ∃ key, (key, Info.sect si) ∈ t.children := by
  obtain ⟨_, c, hf, hc, hm⟩ := (C12_slot_admits_iff s hs t ht ty tt hty name si).mp ⟨h, ha⟩
  refine ⟨hm, c.1, ?_⟩
  have := List.mem_of_find?_eq_some hf
  rw [← hc]
  exact this

/-- **Unnamed (`*` / `+`) slot of abstract type, exactly.**  If no child before the slot claims the header, the slot takes
    the header when the header's type is a recorded implementer of the slot's type, and otherwise PASSES IT ON to the
    children after it (a type that does not implement — the abstract type's extenders included — is not admitted here). -/
theorem C12_unnamed_slot_exact (s : Schema) (t : SType) (hOK : Conf.stypeOK s t = true) (ty : Str) (name : Option Str)
    (si : SectInfo) (pre post : List (Option Str × Info)) (hch : t.children = pre ++ (none, .sect si) :: post)
    (hpre : ∀ c ∈ pre, Conf.claims s ty name c = false)
    (hconc : isAbstract s ty = false) (ha : isAbstract s si.ty = true) :
    getsectioninfo s t ty name =
      if isSubtype s si.ty ty then .ok si else getsectioninfo.go s ty name post := by
  have hsh : ∀ c ∈ pre, Conf.keyShapeOK c := fun c hc => stypeOK_shape s t hOK c (by rw [hch]; exact List.mem_append_left _ hc)
  unfold getsectioninfo
  rw [hch, go_skip s ty name pre _ hsh hpre, go_at_unnamed_abstract s ty name si post hconc ha]

/-- the converse half of the property for such a slot: an implementer is admitted -/
theorem C12_unnamed_slot_admits_implementer (s : Schema) (t : SType) (hOK : Conf.stypeOK s t = true) (ty : Str)
    (name : Option Str) (si : SectInfo) (pre post : List (Option Str × Info))
    (hch : t.children = pre ++ (none, .sect si) :: post) (hpre : ∀ c ∈ pre, Conf.claims s ty name c = false)
    (hconc : isAbstract s ty = false) (hsub : isSubtype s si.ty ty = true) :
    getsectioninfo s t ty name = .ok si := by
  rw [C12_unnamed_slot_exact s t hOK ty name si pre post hch hpre hconc (isAbstract_of_isSubtype s _ _ hsub), hsub, if_pos rfl]

/-- **Fixed-name slot of abstract type, exactly.**  A child stored under the key `k` whose section type is abstract, and a
    header `<ty k>` that no `*`/`+` slot before it claims (other fixed names cannot: keys are distinct): the header is
    admitted if `ty` is a recorded implementer of the abstract type and REFUSED otherwise — nothing after the child is
    consulted.  So a type that merely extends an implementer, and declares nothing itself, is refused under that name. -/
theorem C12_fixed_name_slot_exact (s : Schema) (t : SType) (hOK : Conf.stypeOK s t = true) (ty k : Str)
    (si : SectInfo) (pre post : List (Option Str × Info)) (hch : t.children = pre ++ (some k, .sect si) :: post)
    (hpre : ∀ c ∈ pre, c.1 = none → Conf.claims s ty (some k) c = false)
    (ha : isAbstract s si.ty = true) :
    getsectioninfo s t ty (some k) =
      if isSubtype s si.ty ty then .ok si else .error (plainErr "section type not allowed for name") := by
  have hmem : ∀ c ∈ pre, c ∈ t.children := fun c hc => by rw [hch]; exact List.mem_append_left _ hc
  have hsh : ∀ c ∈ pre, Conf.keyShapeOK c := fun c hc => stypeOK_shape s t hOK c (hmem c hc)
  have hk : k ≠ [] :=
    (stypeOK_shape s t hOK (some k, .sect si) (by rw [hch]; exact List.mem_append_right _ List.mem_cons_self)).1 k rfl
  have hpre' : ∀ c ∈ pre, Conf.claims s ty (some k) c = false := by
    intro c hc
    cases hck : c.1 with
    | none => exact hpre c hc hck
    | some k' => exact keyed_before_not_claim s t hOK ty k pre post _ hch c hc k' hck
  unfold getsectioninfo
  rw [hch, go_skip s ty (some k) pre _ hsh hpre', go_at_named_abstract s ty k si post hk ha]

/-- admitted under the fixed name iff implementer -/
theorem C12_fixed_name_slot_admits_iff (s : Schema) (t : SType) (hOK : Conf.stypeOK s t = true) (ty k : Str)
    (si : SectInfo) (pre post : List (Option Str × Info)) (hch : t.children = pre ++ (some k, .sect si) :: post)
    (hpre : ∀ c ∈ pre, c.1 = none → Conf.claims s ty (some k) c = false)
    (ha : isAbstract s si.ty = true) :
    (∃ si', getsectioninfo s t ty (some k) = .ok si') ↔ ty ∈ Conf.implementers s si.ty := by
  rw [C12_fixed_name_slot_exact s t hOK ty k si pre post hch hpre ha, ← isSubtype_iff_mem]
  cases isSubtype s si.ty ty <;> simp

/-! ### … and what the loader does with the answer -/

/-- **The header of an implementer opens a section.**  The loader is inside a section whose type has a `*`/`+` slot of
    abstract type; the header `<ty nm>` names a concrete type of the load's CURRENT schema, spelled as the schema spells
    it (the parser lower-cases headers), which is a recorded implementer; no earlier child claims the header and the
    slot's name rule admits `nm`.  Then `startSection` succeeds and pushes a fresh matcher for `ty`. -/
theorem C12_implementer_header_admitted (st : LS) (ty : Str) (nm : Option Str) (parent : Matcher) (below : List Matcher)
    (tt : SType) (si : SectInfo) (pre post : List (Option Str × Info))
    (hs : st.stack = parent :: below) (hb : parent.bag = none)
    (hg : st.schema.gettype ty = some (.concrete tt)) (hcanon : tt.name = some ty)
    (hOK : Conf.stypeOK st.schema parent.ty = true)
    (hch : parent.ty.children = pre ++ (none, .sect si) :: post)
    (hpre : ∀ c ∈ pre, Conf.claims st.schema ty nm c = false)
    (hsub : isSubtype st.schema si.ty ty = true)
    (hname : isAllowedName si nm = true) (hun : (nm.isSome || allowUnnamed si) = true) :
    lsStart st ty nm = .ok { st with stack := newMatcher tt nm none :: parent :: below } :=
  lsStart_admitted_unnamed st ty nm parent below tt si pre post hs hb hg hcanon hch
    (fun c hc => stypeOK_shape _ _ hOK c (by rw [hch]; exact List.mem_append_left _ hc)) hpre hsub hname hun

/-- the same under a fixed name -/
theorem C12_implementer_header_admitted_fixed_name (st : LS) (ty k : Str) (parent : Matcher) (below : List Matcher)
    (tt : SType) (si : SectInfo) (pre post : List (Option Str × Info))
    (hs : st.stack = parent :: below) (hb : parent.bag = none)
    (hg : st.schema.gettype ty = some (.concrete tt)) (hcanon : tt.name = some ty)
    (hOK : Conf.stypeOK st.schema parent.ty = true)
    (hch : parent.ty.children = pre ++ (some k, .sect si) :: post)
    (hpre : ∀ c ∈ pre, Conf.claims st.schema ty (some k) c = false)
    (hsub : isSubtype st.schema si.ty ty = true) (hname : isAllowedName si (some k) = true) :
    lsStart st ty (some k) = .ok { st with stack := newMatcher tt (some k) none :: parent :: below } :=
  lsStart_admitted_named st ty k parent below tt si pre post hs hb hg hcanon hch
    ((stypeOK_shape _ _ hOK (some k, .sect si) (by rw [hch]; exact List.mem_append_right _ List.mem_cons_self)).1 k rfl)
    (fun c hc => stypeOK_shape _ _ hOK c (by rw [hch]; exact List.mem_append_left _ hc)) hpre hsub hname

/-- **A header nobody claims is refused**: when every section child of the container is a slot whose type neither is
    the header's type nor lists it as implementer (and no child carries the header's name), `startSection` raises
    "no matching section defined" -/
theorem C12_non_implementer_header_refused (st : LS) (ty : Str) (nm : Option Str) (parent : Matcher) (below : List Matcher)
    (tt : SType) (hs : st.stack = parent :: below)
    (hg : st.schema.gettype ty = some (.concrete tt)) (hcanon : tt.name = some ty)
    (hOK : Conf.stypeOK st.schema parent.ty = true)
    (hnone : ∀ c ∈ parent.ty.children, Conf.claims st.schema ty nm c = false) :
    lsStart st ty nm = .error (plainErr "no matching section defined") :=
  lsStart_unclaimed_refused st ty nm parent below tt hs hg hcanon (stypeOK_shape _ _ hOK) hnone

/-- whatever the loader admits, it admitted by looking the type up in, and asking `getsectioninfo` of, the schema the
    load holds at that line; in particular a header taken by an abstract slot names an implementer recorded THERE -/
theorem C12_admitted_by_current_schema (st st' : LS) (ty : Str) (nm : Option Str) (h : lsStart st ty nm = .ok st') :
    ∃ parent below tt ci, st.stack = parent :: below ∧ st.schema.gettype ty = some (.concrete tt) ∧
      getsectioninfo st.schema parent.ty (tt.name.getD []) nm = .ok ci ∧
      (tt.name = some ty → isAbstract st.schema ci.ty = true → ty ∈ Conf.implementers st.schema ci.ty) := by
  obtain ⟨parent, below, tt, ci, hs, hg, hgi, _, _⟩ := lsStart_ok_inv st st' ty nm h
  refine ⟨parent, below, tt, ci, hs, hg, hgi, ?_⟩
  intro hcanon ha
  rw [hcanon] at hgi
  exact (isSubtype_iff_mem _ _ _).mp
    (getsectioninfo_abstract_implies_subtype _ _ _ _ _ (isAbstract_concrete _ _ _ hg) hgi ha)

/-! ### extending is not implementing -/

/-- **`isSubtype` is membership in the recorded list** and nothing else: the model of a schema has no `extends`
    relation at all, so a type that extends an implementer is an implementer only if its own name was recorded -/
theorem C12_extender_not_implementer (s : Schema) (a ty : Str) :
    isSubtype s a ty = true ↔ ty ∈ Conf.implementers s a :=
  isSubtype_iff_mem s a ty

/-- … and the schema loader records a name only on `implements`: a `<sectiontype name=… extends=…>` element WITHOUT an
    `implements` attribute leaves every abstract type's implementer list as it was (whatever it extends) -/
theorem C12_extends_registers_nothing (env : Elab.Env) (st st' : Elab.PSt) (attrs : Elab.Attrs)
    (h : Elab.startSectiontype env st attrs = .ok st') (hni : Elab.attr attrs "implements" = none) (a ty : Str) :
    isSubtype st'.es.toSchema a ty = isSubtype st.es.toSchema a ty :=
  Elab.startSectiontype_registers_nothing env st st' attrs h hni a ty

/-- … whereas `implements="i"` does record the new type under `i` -/
theorem C12_implements_registers (env : Elab.Env) (st st' : Elab.PSt) (attrs : Elab.Attrs) (i : Str)
    (h : Elab.startSectiontype env st attrs = .ok st') (hi : Elab.attr attrs "implements" = some i) :
    ∃ nameAttr name ifname, Elab.attr attrs "name" = some nameAttr ∧ Elab.basicKeyE nameAttr = .ok name ∧
      Elab.basicKeyE i = .ok ifname ∧ isSubtype st'.es.toSchema ifname name = true :=
  Elab.startSectiontype_registers env st st' attrs i h hi

/-! ### `%import` -/

/-- **`%import` is idempotent.**  A package whose component is already among the schema's components: nothing is read,
    nothing changes (the load merely owns a private schema from now on) -/
theorem C12_import_idempotent (st : LS) (pkg url : Str) (types : List (Str × TypeEntry)) (impls : List (Str × Str))
    (hp : st.pkgs pkg = .component url types impls) (hin : st.schema.components.contains url = true) :
    lsImport st pkg = .ok { st with privateSchema := true } := by
  rw [lsImport_component st pkg url types impls hp, hin, if_pos rfl]

/-- importing a package twice in a row: the second `%import` returns the state unchanged -/
theorem C12_import_twice (st st1 : LS) (pkg : Str) (h : lsImport st pkg = .ok st1) : lsImport st1 pkg = .ok st1 :=
  lsImport_again st st1 pkg h

/-- … and so does an `%import` of the same package anywhere later in the same load, whatever was read in between
    (sections, keys, other `%import`s, `%include`d resources with their own `%import`s): the schema, the values read so
    far and the handlers are untouched -/
theorem C12_import_again_later (env : Env) (fuel : Nat) (active : List Str) (url : Option Str) (lines : List Str) (n : Nat)
    (st : LS) (ps0 ps : PS LS) (pkg : Str) (h : lsImport st pkg = .ok ps0.ctx)
    (hrun : runLines fuel env loaderCtx active url lines n ps0 = .ok ps) :
    lsImport ps.ctx pkg = .ok { ps.ctx with privateSchema := true } :=
  lsImport_again_later env fuel active url lines n st ps0 ps pkg h hrun

/-- **An imported implementer is an implementer from then on.**  After a successful `%import` of a component not seen
    before, every type `c` of the component declared `implements="a"` — `a` an abstract type the schema already had,
    written in its canonical (lower-case) spelling — is recorded among the implementers of `a` -/
theorem C12_import_adds_implementers (st st1 : LS) (pkg url : Str) (types : List (Str × TypeEntry))
    (impls : List (Str × Str)) (hp : st.pkgs pkg = .component url types impls)
    (hnew : st.schema.components.contains url = false) (himp : lsImport st pkg = .ok st1)
    (c a : Str) (hmem : (c, a) ∈ impls) (hc : c ∈ types.map (·.1))
    (hla : lower a = a) (habs : isAbstract st.schema a = true) :
    isSubtype st1.schema a c = true := by
  obtain ⟨te, hte, rfl⟩ := List.mem_map.mp hc
  exact (lsImport_defines_and_registers st st1 pkg url types impls hp hnew himp te.1 a te.2 hmem hte hla habs).1

/-- the same when the abstract type `a` is defined by the component itself, before `c` -/
theorem C12_import_adds_implementers_of_own_abstract (st st1 : LS) (pkg url : Str) (impls : List (Str × Str))
    (p1 p2 p3 : List (Str × TypeEntry)) (c a n : Str) (subs : List Str) (e : TypeEntry)
    (hp : st.pkgs pkg = .component url (p1 ++ (a, .abstract_ n subs) :: (p2 ++ (c, e) :: p3)) impls)
    (hnew : st.schema.components.contains url = false) (himp : lsImport st pkg = .ok st1)
    (hmem : (c, a) ∈ impls) (hla : lower a = a) :
    isSubtype st1.schema a c = true := by
  obtain ⟨sch, hfold, rfl⟩ := lsImport_ok_new st st1 pkg url _ impls hp hnew himp
  rw [isSubtype_iff_mem]
  have hfold' : ((p1 ++ (a, TypeEntry.abstract_ n subs) :: p2) ++ (c, e) :: p3).foldlM (addStep impls)
      { st.schema with components := st.schema.components ++ [url] } = .ok sch := by
    rw [List.append_assoc, List.cons_append]; exact hfold
  refine fold_registers impls c a hla hmem _ p3 e _ sch hfold' ?_
  intro sc1 h1
  exact fold_defines_abstract impls a n subs hla p1 p2 _ sc1 h1

/-- the component's concrete types are known types from then on -/
theorem C12_import_adds_types (st st1 : LS) (pkg url : Str) (types : List (Str × TypeEntry))
    (impls : List (Str × Str)) (hp : st.pkgs pkg = .component url types impls)
    (hnew : st.schema.components.contains url = false) (himp : lsImport st pkg = .ok st1)
    (c : Str) (tc : SType) (hc : (c, .concrete tc) ∈ types) (hlc : lower c = c) :
    st1.schema.gettype c = some (.concrete tc) := by
  obtain ⟨sch, hfold, rfl⟩ := lsImport_ok_new st st1 pkg url types impls hp hnew himp
  obtain ⟨pre, post, rfl⟩ := List.append_of_mem hc
  exact fold_defines impls c tc hlc pre post _ sch hfold

/-- **… and nothing else is added** to the abstract types the schema had: an implementer recorded after the import was
    recorded before, or is a type of the component that the component declares as implementing this abstract type.
    The concrete types the schema had are unchanged, as are its top level and handler. -/
theorem C12_import_adds_only_declared (st st1 : LS) (pkg url : Str) (types : List (Str × TypeEntry))
    (impls : List (Str × Str)) (hp : st.pkgs pkg = .component url types impls)
    (hnew : st.schema.components.contains url = false) (himp : lsImport st pkg = .ok st1) :
    (∀ a y, isAbstract st.schema a = true → isSubtype st1.schema a y = true →
        isSubtype st.schema a y = true ∨ (y ∈ types.map (·.1) ∧ (y, lower a) ∈ impls)) ∧
    (∀ a y, isAbstract st.schema a = true → isSubtype st.schema a y = true → isSubtype st1.schema a y = true) ∧
    (∀ x t, st.schema.gettype x = some (.concrete t) → st1.schema.gettype x = some (.concrete t)) ∧
    st1.schema.top = st.schema.top ∧ st1.schema.handler = st.schema.handler := by
  have hext := lsImport_ext st st1 pkg url types impls hp hnew himp
  refine ⟨?_, ?_, fun x t h => hext.conc x t h, hext.top, hext.handler⟩
  · intro a y ha hy
    rw [isSubtype_iff_mem] at hy
    rcases hext.only a y ha hy with h | h
    · exact .inl ((isSubtype_iff_mem _ _ _).mpr h)
    · exact .inr h
  · intro a y ha hy
    rw [isSubtype_iff_mem] at hy ⊢
    exact hext.mono a y ha hy

/-- **`%import` is refused for names that are not importable packages providing a component**: the four refusal
    classes give configuration errors (SchemaError for an illegal name, SchemaResourceError for the rest) -/
theorem C12_import_refused (st : LS) (pkg : Str) :
    (st.pkgs pkg = .illegalName → ∃ e, lsImport st pkg = .error (.cfg e) ∧ e.kind = .schema) ∧
    (st.pkgs pkg = .notImportable → ∃ e, lsImport st pkg = .error (.cfg e) ∧ e.kind = .schemaResource) ∧
    (st.pkgs pkg = .notPackage → ∃ e, lsImport st pkg = .error (.cfg e) ∧ e.kind = .schemaResource) ∧
    (st.pkgs pkg = .noComponent → ∃ e, lsImport st pkg = .error (.cfg e) ∧ e.kind = .schemaResource) := by
  refine ⟨?_, ?_, ?_, ?_⟩ <;> intro h <;> unfold lsImport <;> rw [h] <;> exact ⟨_, rfl, rfl⟩

/-- conversely only a package providing a component is imported, and the only other way an `%import` fails is a
    component that redefines a type: every failure of `%import` is a configuration error -/
theorem C12_import_refused_iff (st : LS) (pkg : Str) :
    ((∃ st', lsImport st pkg = .ok st') ∨ (∃ e, lsImport st pkg = .error (.cfg e))) ∧
    ((∃ st', lsImport st pkg = .ok st') → ∃ url types impls, st.pkgs pkg = .component url types impls) := by
  cases hp : st.pkgs pkg with
  | component url types impls =>
    refine ⟨?_, fun _ => ⟨url, types, impls, rfl⟩⟩
    rw [lsImport_component st pkg url types impls hp]
    split
    · exact .inl ⟨_, rfl⟩
    · cases hf : types.foldlM (addStep impls) { st.schema with components := st.schema.components ++ [url] } with
      | ok sch => exact .inl ⟨_, rfl⟩
      | error f =>
        right
        rw [fold_error impls types _ f hf]
        exact ⟨_, rfl⟩
  | notImportable => unfold lsImport; rw [hp]; exact ⟨.inr ⟨_, rfl⟩, fun ⟨_, h⟩ => by cases h⟩
  | notPackage => unfold lsImport; rw [hp]; exact ⟨.inr ⟨_, rfl⟩, fun ⟨_, h⟩ => by cases h⟩
  | noComponent => unfold lsImport; rw [hp]; exact ⟨.inr ⟨_, rfl⟩, fun ⟨_, h⟩ => by cases h⟩
  | illegalName => unfold lsImport; rw [hp]; exact ⟨.inr ⟨_, rfl⟩, fun ⟨_, h⟩ => by cases h⟩

/-- a component that defines a type name the load's schema already has is refused (SchemaError) -/
theorem C12_import_redefinition_refused (st : LS) (pkg url : Str) (types : List (Str × TypeEntry))
    (impls : List (Str × Str)) (hp : st.pkgs pkg = .component url types impls)
    (hnew : st.schema.components.contains url = false)
    (hclash : ∃ te ∈ types, te.1 ∈ st.schema.types.map (·.1)) :
    lsImport st pkg = .error (.cfg { kind := .schema, tag := "type name cannot be redefined" }) := by
  rw [lsImport_component st pkg url types impls hp, hnew]
  simp only [Bool.false_eq_true, if_false]
  rw [fold_clash_fails impls types { st.schema with components := st.schema.components ++ [url] } hclash]
  rfl

/-- **An `%import` is visible only from its line onward.**  Take any accepted text `A ++ [l] ++ B` where the part `A`
    before the header line `l = <ty nm>` has no `%import` line (nor have the resources it can `%include`).  Then the
    header was judged by the schema the load STARTED with — `ty` is a concrete type of that schema and one of that
    schema's slots takes it — whatever `%import` lines follow in `B`. -/
theorem C12_import_visible_only_after (env : Env)
    (hres : ∀ u ls, env.res u = some ls → ∀ l ∈ ls, NoImportLine l)
    (fuel : Nat) (active : List Str) (url : Option Str) (A B : List Str) (l : Str) (n : Nat) (st st' : PS LS)
    (hA : ∀ x ∈ A, NoImportLine x) (ty : Str) (nm : Option Str) (e : Bool)
    (hs : lineShape (strip l) = .open_ ty nm e)
    (h : parseLines fuel env loaderCtx active url (A ++ l :: B) n st = .ok st') :
    ∃ st1 parent below t ci, runLines fuel env loaderCtx active url A n st = .ok st1 ∧
      st1.ctx.stack = parent :: below ∧ st.ctx.schema.gettype ty = some (.concrete t) ∧
      getsectioninfo st.ctx.schema parent.ty (t.name.getD []) nm = .ok ci ∧ isAllowedName ci nm = true :=
  header_before_import env hres fuel active url A B l n st st' hA ty nm e hs h

/-- in particular a type that only a LATER `%import` would provide cannot be used: the text is rejected -/
theorem C12_use_before_import_rejected (env : Env)
    (hres : ∀ u ls, env.res u = some ls → ∀ l ∈ ls, NoImportLine l)
    (fuel : Nat) (active : List Str) (url : Option Str) (A B : List Str) (l : Str) (n : Nat) (st : PS LS)
    (hA : ∀ x ∈ A, NoImportLine x) (ty : Str) (nm : Option Str) (e : Bool)
    (hs : lineShape (strip l) = .open_ ty nm e) (hunknown : st.ctx.schema.gettype ty = none) :
    ∀ st', parseLines fuel env loaderCtx active url (A ++ l :: B) n st ≠ .ok st' := by
  intro st' h
  obtain ⟨_, _, _, _, _, _, _, hg, _⟩ := header_before_import env hres fuel active url A B l n st st' hA ty nm e hs h
  rw [hunknown] at hg
  cases hg

/-- **… and from its line onward it IS visible.**  Before the `%import` the type `c` is unknown and its header refused;
    right after a successful `%import` of a component defining `c` with `implements="a"`, the header `<c nm>` is admitted
    by a `*`/`+` slot of type `a` of the section the loader is in. -/
theorem C12_imported_implementer_admitted (st st1 : LS) (pkg url : Str) (types : List (Str × TypeEntry))
    (impls : List (Str × Str)) (hp : st.pkgs pkg = .component url types impls)
    (hnew : st.schema.components.contains url = false) (himp : lsImport st pkg = .ok st1)
    (c a : Str) (tc : SType) (hmem : (c, a) ∈ impls) (hc : (c, .concrete tc) ∈ types) (hcanon : tc.name = some c)
    (hlc : lower c = c) (hla : lower a = a) (habs : isAbstract st.schema a = true)
    (hunknown : st.schema.gettype c = none)
    (nm : Option Str) (parent : Matcher) (below : List Matcher) (si : SectInfo) (pre post : List (Option Str × Info))
    (hs : st.stack = parent :: below) (hb : parent.bag = none)
    (hOK : Conf.stypeOK st.schema parent.ty = true)
    (hch : parent.ty.children = pre ++ (none, .sect si) :: post) (hty : si.ty = a)
    (hpre : ∀ c' ∈ pre, Conf.claims st1.schema c nm c' = false)
    (hname : isAllowedName si nm = true) (hun : (nm.isSome || allowUnnamed si) = true) :
    lsStart st c nm = .error (.cfg { kind := .schema, tag := "unknown type name" }) ∧
    lsStart st1 c nm = .ok { st1 with stack := newMatcher tc nm none :: parent :: below } := by
  refine ⟨lsStart_unknown_refused st c nm parent below hs hunknown, ?_⟩
  obtain ⟨hsub, hdef⟩ := lsImport_defines_and_registers st st1 pkg url types impls hp hnew himp c a _ hmem hc hla habs
  obtain ⟨hstack, _, _, _, _⟩ := lsImport_frame st st1 pkg himp
  exact lsStart_admitted_unnamed st1 c nm parent below tc si pre post (by rw [hstack, hs]) hb (hdef tc rfl hlc) hcanon hch
    (fun c' hc' => stypeOK_shape _ _ hOK c' (by rw [hch]; exact List.mem_append_left _ hc')) hpre (by rw [hty]; exact hsub)
    hname hun

/-- **Counter-fact (known findings C13-implementers-leak / C12-import-leak-accepts).**  "`%import` extends the vocabulary
    of that load only" does NOT hold for the implementer tables, in the model as in ZConfig: after loading the one-line
    text `%import p`, the APPLICATION's schema (`schemaAfter`) records the imported type `leak` as an implementer of its
    abstract type `ab` — which it did not before the load — so a later load against the same schema object would find
    `ab`'s slot open to a type named `leak`. -/
theorem C12_import_this_load_only_counterexample :
    ∃ r, load Ex.conv Ex.env Ex.pkgs Ex.schema none ["%import p".toList] [] = .ok r ∧
      isSubtype Ex.schema "ab".toList "leak".toList = false ∧
      isSubtype r.schemaAfter "ab".toList "leak".toList = true := by
  obtain ⟨r, hr, hs⟩ := Ex.load_import_p
  exact ⟨r, hr, by decide, by rw [hs]; decide⟩

/-- whole loads, closed: with package `p` providing `leak` (which implements `ab`) and a schema whose top level has a `*`
    slot of type `ab`, the text `%import p` / `<leak/>` is ACCEPTED and yields the section in the slot's attribute … -/
theorem C12_example_import_then_use :
    ∃ r, load Ex.conv Ex.env Ex.pkgs Ex.schema none ["%import p".toList, "<leak/>".toList] [] = .ok r ∧
      r.value = .sect [] none [("s".toList, .list [.sect "leak".toList none []])] :=
  Ex.load_import_then_use

/-- … and the same two lines in the other order are REJECTED at line 1: `leak` is not a known type yet -/
theorem C12_example_use_then_import :
    load Ex.conv Ex.env Ex.pkgs Ex.schema none ["<leak/>".toList, "%import p".toList] [] =
      .error (.cfg { kind := .syntax, line := some 1, url := none, tag := "start:unknown type name" }) :=
  Ex.load_use_then_import

/-! ### closed instances (the hypotheses above are satisfiable; the statements are not vacuous) -/

/-- the example schemas are well-formed -/
example : Conf.schemaOK Ex.schema = true ∧ Conf.schemaOK Ex.schema' = true ∧ Conf.schemaOK Ex.schema2 = true ∧
    Conf.schemaOK Ex.schema3 = true := by decide

/-- schema2 = abstract `ab` implemented by `impl`; `ext` extends `impl` without `implements`; the top level has a `*` slot
    and a slot named `fx`, both of type `ab`.  `<impl>` goes to the `*` slot (instance of
    `C12_unnamed_slot_admits_implementer`); `<ext>` is claimed by no child and refused. -/
example : getsectioninfo Ex.schema2 Ex.top2 "impl".toList none = .ok Ex.slot :=
  C12_unnamed_slot_admits_implementer Ex.schema2 Ex.top2 (by decide) "impl".toList none Ex.slot []
    [(some "fx".toList, .sect Ex.fixedSlot)] rfl (fun _ h => by cases h) (by decide) (by decide)
example : getsectioninfo Ex.schema2 Ex.top2 "ext".toList none = .error (plainErr "no matching section defined") :=
  go_none_claims Ex.schema2 "ext".toList none Ex.top2.children (stypeOK_shape Ex.schema2 Ex.top2 (by decide)) (by decide)
/-- under the fixed name (schema3: only the `fx` slot; instances of `C12_fixed_name_slot_exact`): `<impl fx>` is admitted
    and `<ext fx>` refused -/
example : getsectioninfo Ex.schema3 Ex.top3 "impl".toList (some "fx".toList) = .ok Ex.fixedSlot := by
  rw [C12_fixed_name_slot_exact Ex.schema3 Ex.top3 (by decide) "impl".toList "fx".toList Ex.fixedSlot [] [] rfl
    (fun _ h => by cases h) (by decide)]
  rw [show isSubtype Ex.schema3 Ex.fixedSlot.ty "impl".toList = true by decide, if_pos rfl]
example : getsectioninfo Ex.schema3 Ex.top3 "ext".toList (some "fx".toList) =
    .error (plainErr "section type not allowed for name") := by
  rw [C12_fixed_name_slot_exact Ex.schema3 Ex.top3 (by decide) "ext".toList "fx".toList Ex.fixedSlot [] [] rfl
    (fun _ h => by cases h) (by decide)]
  rw [show isSubtype Ex.schema3 Ex.fixedSlot.ty "ext".toList = false by decide]
  rfl
/-- `C12_slot_admits_iff` for schema2: `ext` is a known concrete type and no abstract slot takes it -/
example : ¬ (getsectioninfo Ex.schema2 Ex.schema2.top "ext".toList none = .ok Ex.slot ∧
    isAbstract Ex.schema2 Ex.slot.ty = true) := by
  rw [C12_slot_admits_iff Ex.schema2 (by decide) Ex.schema2.top (.inl rfl) "ext".toList Ex.ext rfl none Ex.slot]
  intro ⟨_, c, _, _, hm⟩
  revert hm
  decide

/-- use before / after `%import p` (package `p` provides `leak`, which implements `ab`): refused, then admitted
    — an instance of `C12_imported_implementer_admitted`, all of whose hypotheses hold here -/
example : lsStart Ex.st0 "leak".toList none = .error (.cfg { kind := .schema, tag := "unknown type name" }) ∧
    lsStart Ex.st1 "leak".toList none =
      .ok { Ex.st1 with stack := newMatcher Ex.leak none none :: newMatcher Ex.top none none :: [] } :=
  C12_imported_implementer_admitted Ex.st0 Ex.st1 "p".toList "u".toList [("leak".toList, .concrete Ex.leak)]
    [("leak".toList, "ab".toList)] rfl (by decide) Ex.import_p "leak".toList "ab".toList Ex.leak
    (List.Mem.head _) (List.Mem.head _) rfl (by decide) (by decide) (by decide) (by decide)
    none (newMatcher Ex.top none none) [] Ex.slot [] [] rfl rfl (by decide) rfl rfl (fun _ h => by cases h)
    (by decide) (by decide)
example : lsImport Ex.st1 "p".toList = .ok Ex.st1 := C12_import_twice Ex.st0 Ex.st1 "p".toList Ex.import_p
example : isSubtype Ex.st0.schema "ab".toList "leak".toList = false ∧ isSubtype Ex.st1.schema "ab".toList "leak".toList = true := by
  decide
/-- `C12_use_before_import_rejected` at work: `<leak/>` on line 1 and `%import p` on line 2 is rejected -/
example : ∀ st', parseLines 64 Ex.env loaderCtx [] none ["<leak/>".toList, "%import p".toList] 0
    { ctx := Ex.st0, stack := [], defs := [] } ≠ .ok st' :=
  C12_use_before_import_rejected Ex.env (fun _ _ h => by cases h) 64 [] none [] ["%import p".toList] "<leak/>".toList 0
    { ctx := Ex.st0, stack := [], defs := [] } (fun _ h => by cases h) "leak".toList none true
    (shape_of_classify _ (by decide) (.open_ "leak".toList none true) (by simp) (by decide)) rfl
/-- the refusal classes -/
example : (∃ e, lsImport Ex.st0 "bad name".toList = .error (.cfg e) ∧ e.kind = .schema) ∧
    (∃ e, lsImport Ex.st0 "os".toList = .error (.cfg e) ∧ e.kind = .schemaResource) ∧
    (∃ e, lsImport Ex.st0 "os.path".toList = .error (.cfg e) ∧ e.kind = .schemaResource) ∧
    (∃ e, lsImport Ex.st0 "nosuch".toList = .error (.cfg e) ∧ e.kind = .schemaResource) :=
  ⟨⟨_, rfl, rfl⟩, ⟨_, rfl, rfl⟩, ⟨_, rfl, rfl⟩, ⟨_, rfl, rfl⟩⟩

end ZCV.Props.C12
