import ZCV.Lemmas.Misc
import ZCV.Lemmas.SlotsLoad
import ZCV.Lemmas.SlotsElab
import ZCV.Lemmas.SlotsEx
import ZCV.Lemmas.ImportLoadEx
import ZCV.Lemmas.HistoryEx
namespace ZCV.Props.C12
open ZCV ZCV.Cfg

/-- a header naming a concrete type is admitted by an abstract slot only if that type implements the slot's abstract type
    (as the schema, extended by the `%import`s read so far, records it) -/
theorem C12_abstract_slot_admits_only_implementers (s : Schema) (t : SType) (ty : Str) (name : Option Str) (si : SectInfo)
    (hconc : isAbstract s ty = false)
    (h : getsectioninfo s t ty name = .ok si) (ha : isAbstract s si.ty = true) : isSubtype s si.ty ty = true :=
  getsectioninfo_abstract_implies_subtype s t ty name si hconc h ha

/-- the abstract type itself is never admitted: the header is refused before any slot is looked at -/
theorem C12_abstract_itself_refused (st : LS) (ty : Str) (nm : Option Str) (p : Matcher) (below : List Matcher)
    (hs : st.stack = p :: below) (n : Str) (subs : List Str) (h : st.schema.gettype ty = some (.abstract_ n subs)) :
    ∃ e, lsStart st ty nm = .error (.cfg e) :=
  lsStart_abstract_refused st ty nm p below hs n subs h

/-! ### which headers an abstract slot admits -/

/-- **An abstract slot admits exactly the implementers.**  In a well-formed schema (`schemaOK`), let `t` be the schema
    itself or one of its concrete section types, and `<ty name>` a header whose type `ty` is a known concrete type.
    `getsectioninfo` hands the header to a slot `si` of ABSTRACT type if and only if
    * `si` belongs to the first child of `t`, in schema order, that claims the header (a fixed-name child claims the
      headers carrying its name; a `*`/`+` slot claims the headers of its own type or of a type implementing its type), and
    * `ty` is among the implementers the schema records for `si`'s type at this moment
      (`Conf.implementers`: the static ones plus those registered by the `%import` lines read so far). -/
theorem C12_slot_admits_iff (s : Schema) (hs : Conf.schemaOK s = true) (t : SType)
    (ht : t = s.top ∨ ∃ pt, s.gettype pt = some (.concrete t))
    (ty : Str) (tt : SType) (hty : s.gettype ty = some (.concrete tt)) (name : Option Str) (si : SectInfo) :
    (getsectioninfo s t ty name = .ok si ∧ isAbstract s si.ty = true) ↔
      (isAbstract s si.ty = true ∧
        ∃ c, t.children.find? (Conf.claims s ty name) = some c ∧ c.2 = .sect si ∧ ty ∈ Conf.implementers s si.ty) := by
  have hOK := stypeOK_of_schemaOK s hs t ht
  have hconc := isAbstract_concrete s ty tt hty
  constructor
  · intro ⟨h, ha⟩
    exact ⟨ha, (slot_admits_iff s t hOK ty name si hconc ha).mp h⟩
  · intro ⟨ha, h⟩
    exact ⟨(slot_admits_iff s t hOK ty name si hconc ha).mpr h, ha⟩

/-- the same for any container type that is structurally well-formed (`stypeOK`), without the rest of the schema -/
theorem C12_slot_admits_iff_stype (s : Schema) (t : SType) (hOK : Conf.stypeOK s t = true) (ty : Str) (name : Option Str)
    (si : SectInfo) (hconc : isAbstract s ty = false) (ha : isAbstract s si.ty = true) :
    getsectioninfo s t ty name = .ok si ↔
      ∃ c, t.children.find? (Conf.claims s ty name) = some c ∧ c.2 = .sect si ∧ ty ∈ Conf.implementers s si.ty :=
  slot_admits_iff s t hOK ty name si hconc ha

/-- only-if half, as the property words it: whatever slot of abstract type takes the header, the header's type is one
    of that abstract type's implementers, and the slot is a child of the container -/
theorem C12_admitted_is_implementer (s : Schema) (hs : Conf.schemaOK s = true) (t : SType)
    (ht : t = s.top ∨ ∃ pt, s.gettype pt = some (.concrete t))
    (ty : Str) (tt : SType) (hty : s.gettype ty = some (.concrete tt)) (name : Option Str) (si : SectInfo)
    (h : getsectioninfo s t ty name = .ok si) (ha : isAbstract s si.ty = true) :
    ty ∈ Conf.implementers s si.ty ∧ ∃ key, (key, Info.sect si) ∈ t.children := by
  obtain ⟨_, c, hf, hc, hm⟩ := (C12_slot_admits_iff s hs t ht ty tt hty name si).mp ⟨h, ha⟩
  refine ⟨hm, c.1, ?_⟩
  have := List.mem_of_find?_eq_some hf
  rw [← hc]
  exact this

/-- **Unnamed (`*` / `+`) slot of abstract type, exactly.**  If no child before the slot claims the header, the slot takes
    the header when the header's type is a recorded implementer of the slot's type, and otherwise PASSES IT ON to the
    children after it (a type that does not implement — the abstract type's extenders included — is not admitted here). -/
theorem C12_unnamed_slot_exact (s : Schema) (t : SType) (hOK : Conf.stypeOK s t = true) (ty : Str) (name : Option Str)
    (si : SectInfo) (pre post : List (Option Str × Info)) (hch : t.children = pre ++ (none, .sect si) :: post)
    (hpre : ∀ c ∈ pre, Conf.claims s ty name c = false)
    (hconc : isAbstract s ty = false) (ha : isAbstract s si.ty = true) :
    getsectioninfo s t ty name =
      if isSubtype s si.ty ty then .ok si else getsectioninfo.go s ty name post := by
  have hsh : ∀ c ∈ pre, Conf.keyShapeOK c := fun c hc => stypeOK_shape s t hOK c (by rw [hch]; exact List.mem_append_left _ hc)
  unfold getsectioninfo
  rw [hch, go_skip s ty name pre _ hsh hpre, go_at_unnamed_abstract s ty name si post hconc ha]

/-- the converse half of the property for such a slot: an implementer is admitted -/
theorem C12_unnamed_slot_admits_implementer (s : Schema) (t : SType) (hOK : Conf.stypeOK s t = true) (ty : Str)
    (name : Option Str) (si : SectInfo) (pre post : List (Option Str × Info))
    (hch : t.children = pre ++ (none, .sect si) :: post) (hpre : ∀ c ∈ pre, Conf.claims s ty name c = false)
    (hconc : isAbstract s ty = false) (hsub : isSubtype s si.ty ty = true) :
    getsectioninfo s t ty name = .ok si := by
  rw [C12_unnamed_slot_exact s t hOK ty name si pre post hch hpre hconc (isAbstract_of_isSubtype s _ _ hsub), hsub, if_pos rfl]

/-- **Fixed-name slot of abstract type, exactly.**  A child stored under the key `k` whose section type is abstract, and a
    header `<ty k>` that no `*`/`+` slot before it claims (other fixed names cannot: keys are distinct): the header is
    admitted if `ty` is a recorded implementer of the abstract type and REFUSED otherwise — nothing after the child is
    consulted.  So a type that merely extends an implementer, and declares nothing itself, is refused under that name. -/
theorem C12_fixed_name_slot_exact (s : Schema) (t : SType) (hOK : Conf.stypeOK s t = true) (ty k : Str)
    (si : SectInfo) (pre post : List (Option Str × Info)) (hch : t.children = pre ++ (some k, .sect si) :: post)
    (hpre : ∀ c ∈ pre, c.1 = none → Conf.claims s ty (some k) c = false)
    (ha : isAbstract s si.ty = true) :
    getsectioninfo s t ty (some k) =
      if isSubtype s si.ty ty then .ok si else .error (plainErr "section type not allowed for name") := by
  have hmem : ∀ c ∈ pre, c ∈ t.children := fun c hc => by rw [hch]; exact List.mem_append_left _ hc
  have hsh : ∀ c ∈ pre, Conf.keyShapeOK c := fun c hc => stypeOK_shape s t hOK c (hmem c hc)
  have hk : k ≠ [] :=
    (stypeOK_shape s t hOK (some k, .sect si) (by rw [hch]; exact List.mem_append_right _ List.mem_cons_self)).1 k rfl
  have hpre' : ∀ c ∈ pre, Conf.claims s ty (some k) c = false := by
    intro c hc
    cases hck : c.1 with
    | none => exact hpre c hc hck
    | some k' => exact keyed_before_not_claim s t hOK ty k pre post _ hch c hc k' hck
  unfold getsectioninfo
  rw [hch, go_skip s ty (some k) pre _ hsh hpre', go_at_named_abstract s ty k si post hk ha]

/-- admitted under the fixed name iff implementer -/
theorem C12_fixed_name_slot_admits_iff (s : Schema) (t : SType) (hOK : Conf.stypeOK s t = true) (ty k : Str)
    (si : SectInfo) (pre post : List (Option Str × Info)) (hch : t.children = pre ++ (some k, .sect si) :: post)
    (hpre : ∀ c ∈ pre, c.1 = none → Conf.claims s ty (some k) c = false)
    (ha : isAbstract s si.ty = true) :
    (∃ si', getsectioninfo s t ty (some k) = .ok si') ↔ ty ∈ Conf.implementers s si.ty := by
  rw [C12_fixed_name_slot_exact s t hOK ty k si pre post hch hpre ha, ← isSubtype_iff_mem]
  cases isSubtype s si.ty ty <;> simp

/-! ### … and what the loader does with the answer -/

/-- **The header of an implementer opens a section.**  The loader is inside a section whose type has a `*`/`+` slot of
    abstract type; the header `<ty nm>` names a concrete type of the load's CURRENT schema, spelled as the schema spells
    it (the parser lower-cases headers), which is a recorded implementer; no earlier child claims the header and the
    slot's name rule admits `nm`.  Then `startSection` succeeds and pushes a fresh matcher for `ty`. -/
theorem C12_implementer_header_admitted (st : LS) (ty : Str) (nm : Option Str) (parent : Matcher) (below : List Matcher)
    (tt : SType) (si : SectInfo) (pre post : List (Option Str × Info))
    (hs : st.stack = parent :: below) (hb : parent.bag = none)
    (hg : st.schema.gettype ty = some (.concrete tt)) (hcanon : tt.name = some ty)
    (hOK : Conf.stypeOK st.schema parent.ty = true)
    (hch : parent.ty.children = pre ++ (none, .sect si) :: post)
    (hpre : ∀ c ∈ pre, Conf.claims st.schema ty nm c = false)
    (hsub : isSubtype st.schema si.ty ty = true)
    (hname : isAllowedName si nm = true) (hun : (nm.isSome || allowUnnamed si) = true) :
    lsStart st ty nm = .ok { st with stack := newMatcher tt nm none :: parent :: below } :=
  lsStart_admitted_unnamed st ty nm parent below tt si pre post hs hb hg hcanon hch
    (fun c hc => stypeOK_shape _ _ hOK c (by rw [hch]; exact List.mem_append_left _ hc)) hpre hsub hname hun

/-- the same under a fixed name -/
theorem C12_implementer_header_admitted_fixed_name (st : LS) (ty k : Str) (parent : Matcher) (below : List Matcher)
    (tt : SType) (si : SectInfo) (pre post : List (Option Str × Info))
    (hs : st.stack = parent :: below) (hb : parent.bag = none)
    (hg : st.schema.gettype ty = some (.concrete tt)) (hcanon : tt.name = some ty)
    (hOK : Conf.stypeOK st.schema parent.ty = true)
    (hch : parent.ty.children = pre ++ (some k, .sect si) :: post)
    (hpre : ∀ c ∈ pre, Conf.claims st.schema ty (some k) c = false)
    (hsub : isSubtype st.schema si.ty ty = true) (hname : isAllowedName si (some k) = true) :
    lsStart st ty (some k) = .ok { st with stack := newMatcher tt (some k) none :: parent :: below } :=
  lsStart_admitted_named st ty k parent below tt si pre post hs hb hg hcanon hch
    ((stypeOK_shape _ _ hOK (some k, .sect si) (by rw [hch]; exact List.mem_append_right _ List.mem_cons_self)).1 k rfl)
    (fun c hc => stypeOK_shape _ _ hOK c (by rw [hch]; exact List.mem_append_left _ hc)) hpre hsub hname

/-- **A header nobody claims is refused**: when every section child of the container is a slot whose type neither is
    the header's type nor lists it as implementer (and no child carries the header's name), `startSection` raises
    "no matching section defined" -/
theorem C12_non_implementer_header_refused (st : LS) (ty : Str) (nm : Option Str) (parent : Matcher) (below : List Matcher)
    (tt : SType) (hs : st.stack = parent :: below)
    (hg : st.schema.gettype ty = some (.concrete tt)) (hcanon : tt.name = some ty)
    (hOK : Conf.stypeOK st.schema parent.ty = true)
    (hnone : ∀ c ∈ parent.ty.children, Conf.claims st.schema ty nm c = false) :
    lsStart st ty nm = .error (plainErr "no matching section defined") :=
  lsStart_unclaimed_refused st ty nm parent below tt hs hg hcanon (stypeOK_shape _ _ hOK) hnone

/-- whatever the loader admits, it admitted by looking the type up in, and asking `getsectioninfo` of, the schema the
    load holds at that line; in particular a header taken by an abstract slot names an implementer recorded THERE -/
theorem C12_admitted_by_current_schema (st st' : LS) (ty : Str) (nm : Option Str) (h : lsStart st ty nm = .ok st') :
    ∃ parent below tt ci, st.stack = parent :: below ∧ st.schema.gettype ty = some (.concrete tt) ∧
      getsectioninfo st.schema parent.ty (tt.name.getD []) nm = .ok ci ∧
      (tt.name = some ty → isAbstract st.schema ci.ty = true → ty ∈ Conf.implementers st.schema ci.ty) := by
  obtain ⟨parent, below, tt, ci, hs, hg, hgi, _, _⟩ := lsStart_ok_inv st st' ty nm h
  refine ⟨parent, below, tt, ci, hs, hg, hgi, ?_⟩
  intro hcanon ha
  rw [hcanon] at hgi
  exact (isSubtype_iff_mem _ _ _).mp
    (getsectioninfo_abstract_implies_subtype _ _ _ _ _ (isAbstract_concrete _ _ _ hg) hgi ha)

/-! ### extending is not implementing -/

/-- **`isSubtype` is membership in the recorded list** and nothing else: the model of a schema has no `extends`
    relation at all, so a type that extends an implementer is an implementer only if its own name was recorded -/
theorem C12_extender_not_implementer (s : Schema) (a ty : Str) :
    isSubtype s a ty = true ↔ ty ∈ Conf.implementers s a :=
  isSubtype_iff_mem s a ty

/-- … and the schema loader records a name only on `implements`: a `<sectiontype name=… extends=…>` element WITHOUT an
    `implements` attribute leaves every abstract type's implementer list as it was (whatever it extends) -/
theorem C12_extends_registers_nothing (env : Elab.Env) (st st' : Elab.PSt) (attrs : Elab.Attrs)
    (h : Elab.startSectiontype env st attrs = .ok st') (hni : Elab.attr attrs "implements" = none) (a ty : Str) :
    isSubtype st'.es.toSchema a ty = isSubtype st.es.toSchema a ty :=
  Elab.startSectiontype_registers_nothing env st st' attrs h hni a ty

/-- … whereas `implements="i"` does record the new type under `i` -/
theorem C12_implements_registers (env : Elab.Env) (st st' : Elab.PSt) (attrs : Elab.Attrs) (i : Str)
    (h : Elab.startSectiontype env st attrs = .ok st') (hi : Elab.attr attrs "implements" = some i) :
    ∃ nameAttr name ifname, Elab.attr attrs "name" = some nameAttr ∧ Elab.basicKeyE nameAttr = .ok name ∧
      Elab.basicKeyE i = .ok ifname ∧ isSubtype st'.es.toSchema ifname name = true :=
  Elab.startSectiontype_registers env st st' attrs i h hi

/-! ### `%import` -/

/-- **`%import` is idempotent.**  A package whose component is already among the schema's components: nothing is read,
    nothing changes (the load merely owns a private schema from now on) -/
theorem C12_import_idempotent (st : LS) (pkg url : Str) (types : List (Str × TypeEntry)) (impls : List (Str × Str))
    (hp : st.pkgs pkg = .component url types impls) (hin : st.schema.components.contains url = true) :
    lsImport st pkg = .ok { st with privateSchema := true } := by
  rw [lsImport_component st pkg url types impls hp, hin, if_pos rfl]

/-- importing a package twice in a row: the second `%import` returns the state unchanged -/
theorem C12_import_twice (st st1 : LS) (pkg : Str) (h : lsImport st pkg = .ok st1) : lsImport st1 pkg = .ok st1 :=
  lsImport_again st st1 pkg h

/-- … and so does an `%import` of the same package anywhere later in the same load, whatever was read in between
    (sections, keys, other `%import`s, `%include`d resources with their own `%import`s): the schema, the values read so
    far and the handlers are untouched -/
theorem C12_import_again_later (env : Env) (fuel : Nat) (active : List Str) (url : Option Str) (lines : List Str) (n : Nat)
    (st : LS) (ps0 ps : PS LS) (pkg : Str) (h : lsImport st pkg = .ok ps0.ctx)
    (hrun : runLines fuel env loaderCtx active url lines n ps0 = .ok ps) :
    lsImport ps.ctx pkg = .ok { ps.ctx with privateSchema := true } :=
  lsImport_again_later env fuel active url lines n st ps0 ps pkg h hrun

/-- **An imported implementer is an implementer from then on.**  After a successful `%import` of a component not seen
    before, every type `c` of the component declared `implements="a"` — `a` an abstract type the schema already had,
    written in its canonical (lower-case) spelling — is recorded among the implementers of `a` -/
theorem C12_import_adds_implementers (st st1 : LS) (pkg url : Str) (types : List (Str × TypeEntry))
    (impls : List (Str × Str)) (hp : st.pkgs pkg = .component url types impls)
    (hnew : st.schema.components.contains url = false) (himp : lsImport st pkg = .ok st1)
    (c a : Str) (hmem : (c, a) ∈ impls) (hc : c ∈ types.map (·.1))
    (hla : lower a = a) (habs : isAbstract st.schema a = true) :
    isSubtype st1.schema a c = true := by
  obtain ⟨te, hte, rfl⟩ := List.mem_map.mp hc
  exact (lsImport_defines_and_registers st st1 pkg url types impls hp hnew himp te.1 a te.2 hmem hte hla habs).1

/-- the same when the abstract type `a` is defined by the component itself, before `c` -/
theorem C12_import_adds_implementers_of_own_abstract (st st1 : LS) (pkg url : Str) (impls : List (Str × Str))
    (p1 p2 p3 : List (Str × TypeEntry)) (c a n : Str) (subs : List Str) (e : TypeEntry)
    (hp : st.pkgs pkg = .component url (p1 ++ (a, .abstract_ n subs) :: (p2 ++ (c, e) :: p3)) impls)
    (hnew : st.schema.components.contains url = false) (himp : lsImport st pkg = .ok st1)
    (hmem : (c, a) ∈ impls) (hla : lower a = a) :
    isSubtype st1.schema a c = true := by
  obtain ⟨sch, hfold, rfl⟩ := lsImport_ok_new st st1 pkg url _ impls hp hnew himp
  rw [isSubtype_iff_mem]
  have hfold' : ((p1 ++ (a, TypeEntry.abstract_ n subs) :: p2) ++ (c, e) :: p3).foldlM (addStep impls)
      { st.schema with components := st.schema.components ++ [url] } = .ok sch := by
    rw [List.append_assoc, List.cons_append]; exact hfold
  refine fold_registers impls c a hla hmem _ p3 e _ sch hfold' ?_
  intro sc1 h1
  exact fold_defines_abstract impls a n subs hla p1 p2 _ sc1 h1

/-- the component's concrete types are known types from then on -/
theorem C12_import_adds_types (st st1 : LS) (pkg url : Str) (types : List (Str × TypeEntry))
    (impls : List (Str × Str)) (hp : st.pkgs pkg = .component url types impls)
    (hnew : st.schema.components.contains url = false) (himp : lsImport st pkg = .ok st1)
    (c : Str) (tc : SType) (hc : (c, .concrete tc) ∈ types) (hlc : lower c = c) :
    st1.schema.gettype c = some (.concrete tc) := by
  obtain ⟨sch, hfold, rfl⟩ := lsImport_ok_new st st1 pkg url types impls hp hnew himp
  obtain ⟨pre, post, rfl⟩ := List.append_of_mem hc
  exact fold_defines impls c tc hlc pre post _ sch hfold

/-- **… and nothing else is added** to the abstract types the schema had: an implementer recorded after the import was
    recorded before, or is a type of the component that the component declares as implementing this abstract type.
    The concrete types the schema had are unchanged, as are its top level and handler. -/
theorem C12_import_adds_only_declared (st st1 : LS) (pkg url : Str) (types : List (Str × TypeEntry))
    (impls : List (Str × Str)) (hp : st.pkgs pkg = .component url types impls)
    (hnew : st.schema.components.contains url = false) (himp : lsImport st pkg = .ok st1) :
    (∀ a y, isAbstract st.schema a = true → isSubtype st1.schema a y = true →
        isSubtype st.schema a y = true ∨ (y ∈ types.map (·.1) ∧ (y, lower a) ∈ impls)) ∧
    (∀ a y, isAbstract st.schema a = true → isSubtype st.schema a y = true → isSubtype st1.schema a y = true) ∧
    (∀ x t, st.schema.gettype x = some (.concrete t) → st1.schema.gettype x = some (.concrete t)) ∧
    st1.schema.top = st.schema.top ∧ st1.schema.handler = st.schema.handler := by
  have hext := lsImport_ext st st1 pkg url types impls hp hnew himp
  refine ⟨?_, ?_, fun x t h => hext.conc x t h, hext.top, hext.handler⟩
  · intro a y ha hy
    rw [isSubtype_iff_mem] at hy
    rcases hext.only a y ha hy with h | h
    · exact .inl ((isSubtype_iff_mem _ _ _).mpr h)
    · exact .inr h
  · intro a y ha hy
    rw [isSubtype_iff_mem] at hy ⊢
    exact hext.mono a y ha hy

/-- **`%import` is refused for names that are not importable packages providing a component**: the four refusal
    classes give configuration errors (SchemaError for an illegal name, SchemaResourceError for the rest) -/
theorem C12_import_refused (st : LS) (pkg : Str) :
    (st.pkgs pkg = .illegalName → ∃ e, lsImport st pkg = .error (.cfg e) ∧ e.kind = .schema) ∧
    (st.pkgs pkg = .notImportable → ∃ e, lsImport st pkg = .error (.cfg e) ∧ e.kind = .schemaResource) ∧
    (st.pkgs pkg = .notPackage → ∃ e, lsImport st pkg = .error (.cfg e) ∧ e.kind = .schemaResource) ∧
    (st.pkgs pkg = .noComponent → ∃ e, lsImport st pkg = .error (.cfg e) ∧ e.kind = .schemaResource) := by
  refine ⟨?_, ?_, ?_, ?_⟩ <;> intro h <;> unfold lsImport <;> rw [h] <;> exact ⟨_, rfl, rfl⟩

/-- conversely only a package providing a component is imported, and the only other way an `%import` fails is a
    component that redefines a type: every failure of `%import` is a configuration error -/
theorem C12_import_refused_iff (st : LS) (pkg : Str) :
    ((∃ st', lsImport st pkg = .ok st') ∨ (∃ e, lsImport st pkg = .error (.cfg e))) ∧
    ((∃ st', lsImport st pkg = .ok st') → ∃ url types impls, st.pkgs pkg = .component url types impls) := by
  cases hp : st.pkgs pkg with
  | component url types impls =>
    refine ⟨?_, fun _ => ⟨url, types, impls, rfl⟩⟩
    rw [lsImport_component st pkg url types impls hp]
    split
    · exact .inl ⟨_, rfl⟩
    · cases hf : types.foldlM (addStep impls) { st.schema with components := st.schema.components ++ [url] } with
      | ok sch => exact .inl ⟨_, rfl⟩
      | error f =>
        right
        rw [fold_error impls types _ f hf]
        exact ⟨_, rfl⟩
  | notImportable => unfold lsImport; rw [hp]; exact ⟨.inr ⟨_, rfl⟩, fun ⟨_, h⟩ => by cases h⟩
  | notPackage => unfold lsImport; rw [hp]; exact ⟨.inr ⟨_, rfl⟩, fun ⟨_, h⟩ => by cases h⟩
  | noComponent => unfold lsImport; rw [hp]; exact ⟨.inr ⟨_, rfl⟩, fun ⟨_, h⟩ => by cases h⟩
  | illegalName => unfold lsImport; rw [hp]; exact ⟨.inr ⟨_, rfl⟩, fun ⟨_, h⟩ => by cases h⟩

/-- a component that defines a type name the load's schema already has is refused (SchemaError) -/
theorem C12_import_redefinition_refused (st : LS) (pkg url : Str) (types : List (Str × TypeEntry))
    (impls : List (Str × Str)) (hp : st.pkgs pkg = .component url types impls)
    (hnew : st.schema.components.contains url = false)
    (hclash : ∃ te ∈ types, te.1 ∈ st.schema.types.map (·.1)) :
    lsImport st pkg = .error (.cfg { kind := .schema, tag := "type name cannot be redefined" }) := by
  rw [lsImport_component st pkg url types impls hp, hnew]
  simp only [Bool.false_eq_true, if_false]
  rw [fold_clash_fails impls types { st.schema with components := st.schema.components ++ [url] } hclash]
  rfl

/-- **An `%import` is visible only from its line onward.**  Take any accepted text `A ++ [l] ++ B` where the part `A`
    before the header line `l = <ty nm>` has no `%import` line (nor have the resources it can `%include`).  Then the
    header was judged by the schema the load STARTED with — `ty` is a concrete type of that schema and one of that
    schema's slots takes it — whatever `%import` lines follow in `B`. -/
theorem C12_import_visible_only_after (env : Env)
    (hres : ∀ u ls, env.res u = some ls → ∀ l ∈ ls, NoImportLine l)
    (fuel : Nat) (active : List Str) (url : Option Str) (A B : List Str) (l : Str) (n : Nat) (st st' : PS LS)
    (hA : ∀ x ∈ A, NoImportLine x) (ty : Str) (nm : Option Str) (e : Bool)
    (hs : lineShape (strip l) = .open_ ty nm e)
    (h : parseLines fuel env loaderCtx active url (A ++ l :: B) n st = .ok st') :
    ∃ st1 parent below t ci, runLines fuel env loaderCtx active url A n st = .ok st1 ∧
      st1.ctx.stack = parent :: below ∧ st.ctx.schema.gettype ty = some (.concrete t) ∧
      getsectioninfo st.ctx.schema parent.ty (t.name.getD []) nm = .ok ci ∧ isAllowedName ci nm = true :=
  header_before_import env hres fuel active url A B l n st st' hA ty nm e hs h

/-- in particular a type that only a LATER `%import` would provide cannot be used: the text is rejected -/
theorem C12_use_before_import_rejected (env : Env)
    (hres : ∀ u ls, env.res u = some ls → ∀ l ∈ ls, NoImportLine l)
    (fuel : Nat) (active : List Str) (url : Option Str) (A B : List Str) (l : Str) (n : Nat) (st : PS LS)
    (hA : ∀ x ∈ A, NoImportLine x) (ty : Str) (nm : Option Str) (e : Bool)
    (hs : lineShape (strip l) = .open_ ty nm e) (hunknown : st.ctx.schema.gettype ty = none) :
    ∀ st', parseLines fuel env loaderCtx active url (A ++ l :: B) n st ≠ .ok st' := by
  intro st' h
  obtain ⟨_, _, _, _, _, _, _, hg, _⟩ := header_before_import env hres fuel active url A B l n st st' hA ty nm e hs h
  rw [hunknown] at hg
  cases hg

/-- **… and from its line onward it IS visible.**  Before the `%import` the type `c` is unknown and its header refused;
    right after a successful `%import` of a component defining `c` with `implements="a"`, the header `<c nm>` is admitted
    by a `*`/`+` slot of type `a` of the section the loader is in. -/
theorem C12_imported_implementer_admitted (st st1 : LS) (pkg url : Str) (types : List (Str × TypeEntry))
    (impls : List (Str × Str)) (hp : st.pkgs pkg = .component url types impls)
    (hnew : st.schema.components.contains url = false) (himp : lsImport st pkg = .ok st1)
    (c a : Str) (tc : SType) (hmem : (c, a) ∈ impls) (hc : (c, .concrete tc) ∈ types) (hcanon : tc.name = some c)
    (hlc : lower c = c) (hla : lower a = a) (habs : isAbstract st.schema a = true)
    (hunknown : st.schema.gettype c = none)
    (nm : Option Str) (parent : Matcher) (below : List Matcher) (si : SectInfo) (pre post : List (Option Str × Info))
    (hs : st.stack = parent :: below) (hb : parent.bag = none)
    (hOK : Conf.stypeOK st.schema parent.ty = true)
    (hch : parent.ty.children = pre ++ (none, .sect si) :: post) (hty : si.ty = a)
    (hpre : ∀ c' ∈ pre, Conf.claims st1.schema c nm c' = false)
    (hname : isAllowedName si nm = true) (hun : (nm.isSome || allowUnnamed si) = true) :
    lsStart st c nm = .error (.cfg { kind := .schema, tag := "unknown type name" }) ∧
    lsStart st1 c nm = .ok { st1 with stack := newMatcher tc nm none :: parent :: below } := by
  refine ⟨lsStart_unknown_refused st c nm parent below hs hunknown, ?_⟩
  obtain ⟨hsub, hdef⟩ := lsImport_defines_and_registers st st1 pkg url types impls hp hnew himp c a _ hmem hc hla habs
  obtain ⟨hstack, _, _, _, _⟩ := lsImport_frame st st1 pkg himp
  exact lsStart_admitted_unnamed st1 c nm parent below tc si pre post (by rw [hstack, hs]) hb (hdef tc rfl hlc) hcanon hch
    (fun c' hc' => stypeOK_shape _ _ hOK c' (by rw [hch]; exact List.mem_append_left _ hc')) hpre (by rw [hty]; exact hsub)
    hname hun

/-- **Counter-fact (known findings C13-implementers-leak / C12-import-leak-accepts).**  "`%import` extends the vocabulary
    of that load only" does NOT hold for the implementer tables, in the model as in ZConfig: after loading the one-line
    text `%import p`, the APPLICATION's schema (`schemaAfter`) records the imported type `leak` as an implementer of its
    abstract type `ab` — which it did not before the load — so a later load against the same schema object would find
    `ab`'s slot open to a type named `leak`. -/
theorem C12_import_this_load_only_counterexample :
    ∃ r, load Ex.conv Ex.env Ex.pkgs Ex.schema none ["%import p".toList] [] = .ok r ∧
      isSubtype Ex.schema "ab".toList "leak".toList = false ∧
      isSubtype r.schemaAfter "ab".toList "leak".toList = true := by
  obtain ⟨r, hr, hs⟩ := Ex.load_import_p
  exact ⟨r, hr, by decide, by rw [hs]; decide⟩

/-- whole loads, closed: with package `p` providing `leak` (which implements `ab`) and a schema whose top level has a `*`
    slot of type `ab`, the text `%import p` / `<leak/>` is ACCEPTED and yields the section in the slot's attribute … -/
theorem C12_example_import_then_use :
    ∃ r, load Ex.conv Ex.env Ex.pkgs Ex.schema none ["%import p".toList, "<leak/>".toList] [] = .ok r ∧
      r.value = .sect [] none [("s".toList, .list [.sect "leak".toList none []])] :=
  Ex.load_import_then_use

/-- … and the same two lines in the other order are REJECTED at line 1: `leak` is not a known type yet -/
theorem C12_example_use_then_import :
    load Ex.conv Ex.env Ex.pkgs Ex.schema none ["<leak/>".toList, "%import p".toList] [] =
      .error (.cfg { kind := .syntax, line := some 1, url := none, tag := "start:unknown type name" }) :=
  Ex.load_use_then_import

/-! ### closed instances (the hypotheses above are satisfiable; the statements are not vacuous) -/

/-- the example schemas are well-formed -/
example : Conf.schemaOK Ex.schema = true ∧ Conf.schemaOK Ex.schema' = true ∧ Conf.schemaOK Ex.schema2 = true ∧
    Conf.schemaOK Ex.schema3 = true := by decide

/-- schema2 = abstract `ab` implemented by `impl`; `ext` extends `impl` without `implements`; the top level has a `*` slot
    and a slot named `fx`, both of type `ab`.  `<impl>` goes to the `*` slot (instance of
    `C12_unnamed_slot_admits_implementer`); `<ext>` is claimed by no child and refused. -/
example : getsectioninfo Ex.schema2 Ex.top2 "impl".toList none = .ok Ex.slot :=
  C12_unnamed_slot_admits_implementer Ex.schema2 Ex.top2 (by decide) "impl".toList none Ex.slot []
    [(some "fx".toList, .sect Ex.fixedSlot)] rfl (fun _ h => by cases h) (by decide) (by decide)
example : getsectioninfo Ex.schema2 Ex.top2 "ext".toList none = .error (plainErr "no matching section defined") :=
  go_none_claims Ex.schema2 "ext".toList none Ex.top2.children (stypeOK_shape Ex.schema2 Ex.top2 (by decide)) (by decide)
/-- under the fixed name (schema3: only the `fx` slot; instances of `C12_fixed_name_slot_exact`): `<impl fx>` is admitted
    and `<ext fx>` refused -/
example : getsectioninfo Ex.schema3 Ex.top3 "impl".toList (some "fx".toList) = .ok Ex.fixedSlot := by
  rw [C12_fixed_name_slot_exact Ex.schema3 Ex.top3 (by decide) "impl".toList "fx".toList Ex.fixedSlot [] [] rfl
    (fun _ h => by cases h) (by decide)]
  rw [show isSubtype Ex.schema3 Ex.fixedSlot.ty "impl".toList = true by decide, if_pos rfl]
example : getsectioninfo Ex.schema3 Ex.top3 "ext".toList (some "fx".toList) =
    .error (plainErr "section type not allowed for name") := by
  rw [C12_fixed_name_slot_exact Ex.schema3 Ex.top3 (by decide) "ext".toList "fx".toList Ex.fixedSlot [] [] rfl
    (fun _ h => by cases h) (by decide)]
  rw [show isSubtype Ex.schema3 Ex.fixedSlot.ty "ext".toList = false by decide]
  rfl
/-- `C12_slot_admits_iff` for schema2: `ext` is a known concrete type and no abstract slot takes it -/
example : ¬ (getsectioninfo Ex.schema2 Ex.schema2.top "ext".toList none = .ok Ex.slot ∧
    isAbstract Ex.schema2 Ex.slot.ty = true) := by
  rw [C12_slot_admits_iff Ex.schema2 (by decide) Ex.schema2.top (.inl rfl) "ext".toList Ex.ext rfl none Ex.slot]
  intro ⟨_, c, _, _, hm⟩
  revert hm
  decide

/-- use before / after `%import p` (package `p` provides `leak`, which implements `ab`): refused, then admitted
    — an instance of `C12_imported_implementer_admitted`, all of whose hypotheses hold here -/
example : lsStart Ex.st0 "leak".toList none = .error (.cfg { kind := .schema, tag := "unknown type name" }) ∧
    lsStart Ex.st1 "leak".toList none =
      .ok { Ex.st1 with stack := newMatcher Ex.leak none none :: newMatcher Ex.top none none :: [] } :=
  C12_imported_implementer_admitted Ex.st0 Ex.st1 "p".toList "u".toList [("leak".toList, .concrete Ex.leak)]
    [("leak".toList, "ab".toList)] rfl (by decide) Ex.import_p "leak".toList "ab".toList Ex.leak
    (List.Mem.head _) (List.Mem.head _) rfl (by decide) (by decide) (by decide) (by decide)
    none (newMatcher Ex.top none none) [] Ex.slot [] [] rfl rfl (by decide) rfl rfl (fun _ h => by cases h)
    (by decide) (by decide)
example : lsImport Ex.st1 "p".toList = .ok Ex.st1 := C12_import_twice Ex.st0 Ex.st1 "p".toList Ex.import_p
example : isSubtype Ex.st0.schema "ab".toList "leak".toList = false ∧ isSubtype Ex.st1.schema "ab".toList "leak".toList = true := by
  decide
/-- `C12_use_before_import_rejected` at work: `<leak/>` on line 1 and `%import p` on line 2 is rejected -/
example : ∀ st', parseLines 64 Ex.env loaderCtx [] none ["<leak/>".toList, "%import p".toList] 0
    { ctx := Ex.st0, stack := [], defs := [] } ≠ .ok st' :=
  C12_use_before_import_rejected Ex.env (fun _ _ h => by cases h) 64 [] none [] ["%import p".toList] "<leak/>".toList 0
    { ctx := Ex.st0, stack := [], defs := [] } (fun _ h => by cases h) "leak".toList none true
    (shape_of_classify _ (by decide) (.open_ "leak".toList none true) (by simp) (by decide)) rfl
/-- the refusal classes -/
example : (∃ e, lsImport Ex.st0 "bad name".toList = .error (.cfg e) ∧ e.kind = .schema) ∧
    (∃ e, lsImport Ex.st0 "os".toList = .error (.cfg e) ∧ e.kind = .schemaResource) ∧
    (∃ e, lsImport Ex.st0 "os.path".toList = .error (.cfg e) ∧ e.kind = .schemaResource) ∧
    (∃ e, lsImport Ex.st0 "nosuch".toList = .error (.cfg e) ∧ e.kind = .schemaResource) :=
  ⟨⟨_, rfl, rfl⟩, ⟨_, rfl, rfl⟩, ⟨_, rfl, rfl⟩, ⟨_, rfl, rfl⟩⟩

/-! ### texts WITH `%import` lines against the declarative "conforms with imports" (`ZCV/Spec/ConformsImport.lean`) -/

open ZCV.Conf in
/-- **The spec's `extend` is what `%import` does.**  `lsImport` succeeds iff `extend` is defined on the load's current
    schema and the package, and the load then continues with exactly the schema `extend` gives; nothing else of the
    load's state changes (but the "private copy" flag). -/
theorem C12_extend_eq_lsImport (st : LS) (pkg : Str) :
    (lsImport st pkg).toOption =
      (extend st.schema (st.pkgs pkg)).map fun sch => { st with schema := sch, privateSchema := true } :=
  lsImport_toOption st pkg

open ZCV.Conf in
/-- **Accepted ⇔ conforms, with `%import`s, on trees.**  Top-level items (sections and keys of any size and depth,
    `%import`s anywhere between them) whose headers are spelled as the parser spells them (`lowTops`), imports that
    keep the schema of the load well-formed (`importsOK`: `schemaOK` at the start and after each successful
    `%import`): the tree-driven loader returns a configuration iff the items conform in the sense of `conformsI` —
    every `%import` succeeds; every top-level section, with everything in it, conforms to the schema in force AT ITS
    POSITION; the top-level container is complete against the fully extended schema. -/
theorem C12_accept_iff_conformsI (conv : Conv) (pkgs : Str → Pkg) (s : Schema) (tops : List TopItem)
    (hok : importsOK pkgs s tops = true) (hl : lowTops tops = true) :
    (∃ r, loadTops conv pkgs s tops = .ok r) ↔ conformsI conv s pkgs tops = true := by
  have h := loadTops_eq_denoteI conv pkgs s tops hok hl
  unfold conformsI
  rw [← h]
  cases loadTops conv pkgs s tops with
  | ok r => simp
  | error e => simp

open ZCV.Conf in
/-- … and the configuration returned is `denoteI`; the schema the load ends with is the fully extended one -/
theorem C12_value_eq_denoteI (conv : Conv) (pkgs : Str → Pkg) (s : Schema) (tops : List TopItem)
    (hok : importsOK pkgs s tops = true) (hl : lowTops tops = true) (v : Val) (sA : Schema)
    (h : loadTops conv pkgs s tops = .ok (v, sA)) :
    denoteI conv s pkgs tops = some v ∧ schemaAt s pkgs tops tops.length = some sA := by
  have h1 := loadTops_eq_denoteI conv pkgs s tops hok hl
  rw [h] at h1
  exact ⟨h1.symm, by rw [schemaAt_length]; exact loadTops_schema conv pkgs s tops hok hl v sA h⟩

open ZCV.Conf in
/-- **`conformsI` in one schema** ("from the importing line onward", made explicit): the items conform iff every
    `%import` succeeds, every section header — at any depth — names a type KNOWN to the schema in force at the position
    of its top-level item (`knownAt`), and the text without its `%import` lines conforms (`conforms` of C01) to the
    fully extended schema.  The value is then `denote` (C02) against that schema. -/
theorem C12_denoteI_eq_final (conv : Conv) (pkgs : Str → Pkg) (s : Schema) (tops : List TopItem)
    (hok : importsOK pkgs s tops = true) (hl : lowTops tops = true) :
    denoteI conv s pkgs tops =
      (extendBy pkgs s tops).bind fun sF =>
        if knownAt pkgs s tops then denote conv sF (itemsOf tops) else none :=
  denoteI_eq_final conv pkgs s tops hok hl

open ZCV.Conf in
/-- the same as an equivalence -/
theorem C12_conformsI_iff_final (conv : Conv) (pkgs : Str → Pkg) (s : Schema) (tops : List TopItem)
    (hok : importsOK pkgs s tops = true) (hl : lowTops tops = true) :
    conformsI conv s pkgs tops = true ↔
      ∃ sF, extendBy pkgs s tops = some sF ∧ knownAt pkgs s tops = true ∧ conforms conv sF (itemsOf tops) = true := by
  unfold conformsI conforms
  rw [denoteI_eq_final conv pkgs s tops hok hl]
  cases extendBy pkgs s tops with
  | none => simp
  | some sF =>
    simp only [Option.bind_some, Option.some.injEq, exists_eq_left']
    cases knownAt pkgs s tops <;> simp

open ZCV.Conf in
/-- **Use before import, position by position.**  In conforming items, the `k`-th top-level item is a section (or key)
    all of whose headers name types of `schemaAt … k`, the schema extended by the `%import`s among the first `k`
    items only: a type that a LATER `%import` provides cannot be used. -/
theorem C12_type_known_at_position (conv : Conv) (pkgs : Str → Pkg) (s : Schema) (tops : List TopItem)
    (hok : importsOK pkgs s tops = true) (hl : lowTops tops = true) (hc : conformsI conv s pkgs tops = true)
    (k : Nat) (i : Item) (hk : tops[k]? = some (.item i)) :
    ∃ sk, schemaAt s pkgs tops k = some sk ∧ knownItem sk i = true := by
  obtain ⟨_, _, hkn, _⟩ := (C12_conformsI_iff_final conv pkgs s tops hok hl).mp hc
  exact knownAt_pos pkgs tops s hkn k i hk

open ZCV.Conf in
/-- **Accepted ⇔ conforms, for configuration TEXT with `%import` lines.**  For every text of any length (lines,
    `%define`s, `%include`s of any depth, `%import`s here and in the included resources — through the parser model with
    its generated patterns), loaded without overrides, such that
    * no `%import` is met while a section is open (`importsAtTop`; the code allows that, the spec does not cover it), and
    * the imports of the text keep the schema of the load well-formed (`importsOK`, which includes `schemaOK s`):

    the loader returns a configuration iff the parser accepts the text and its top-level items conform (`conformsI`). -/
theorem C12_text_accept_iff_conformsI (conv : Conv) (env : Env) (pkgs : Str → Pkg) (s : Schema) (url : Option Str)
    (lines : List Str) (htop : importsAtTop env url lines)
    (hok : ∀ tops, treeOfI env url lines = .ok tops → importsOK pkgs s tops = true) :
    (∃ r, load conv env pkgs s url lines [] = .ok r) ↔
      ∃ tops, treeOfI env url lines = .ok tops ∧ conformsI conv s pkgs tops = true := by
  have h := load_eq_denoteI conv env pkgs s url lines htop hok
  unfold conformsI
  constructor
  · rintro ⟨r, hr⟩
    rw [hr] at h
    cases ht : treeOfI env url lines with
    | error e => rw [ht] at h; simp at h
    | ok tops =>
      rw [ht] at h
      simp only [Cfg.toOption_ok, Option.map_some, Option.bind_some] at h
      exact ⟨tops, rfl, by rw [← h]; rfl⟩
  · rintro ⟨tops, ht, hc⟩
    rw [ht] at h
    simp only [Cfg.toOption_ok, Option.bind_some] at h
    cases hl : load conv env pkgs s url lines [] with
    | ok r => exact ⟨r, rfl⟩
    | error e =>
      rw [hl] at h
      simp only [Cfg.toOption_error, Option.map_none] at h
      rw [← h] at hc
      cases hc

open ZCV.Conf in
/-- **… and the value is `denoteI`** of the top-level items of the text; the schema the load ends with (reported as
    `schemaAfter`) is the schema extended by all the `%import`s of the text -/
theorem C12_text_value_eq_denoteI (conv : Conv) (env : Env) (pkgs : Str → Pkg) (s : Schema) (url : Option Str)
    (lines : List Str) (r : LoadResult) (htop : importsAtTop env url lines)
    (hok : ∀ tops, treeOfI env url lines = .ok tops → importsOK pkgs s tops = true)
    (h : load conv env pkgs s url lines [] = .ok r) :
    ∃ tops, treeOfI env url lines = .ok tops ∧ denoteI conv s pkgs tops = some r.value ∧
      schemaAt s pkgs tops tops.length = some r.schemaAfter := by
  have e := load_eq_final conv env pkgs s url lines htop hok
  have e' := load_eq_denoteI conv env pkgs s url lines htop hok
  rw [h] at e e'
  cases ht : treeOfI env url lines with
  | error x => rw [ht] at e'; simp at e'
  | ok tops =>
    rw [ht] at e e'
    simp only [Cfg.toOption_ok, Option.map_some, Option.bind_some] at e e'
    refine ⟨tops, rfl, e'.symm, ?_⟩
    rw [schemaAt_length]
    cases he : extendBy pkgs s tops with
    | none => rw [he] at e; cases e
    | some sF =>
      rw [he] at e
      simp only [Option.bind_some] at e
      split at e
      · cases hd : denote conv sF (itemsOf tops) with
        | none => rw [hd] at e; cases e
        | some v =>
          rw [hd] at e
          simp only [Option.map_some, Option.some.injEq, Prod.mk.injEq] at e
          rw [e.2]
      · cases e

open ZCV.Conf in
/-- **The text-level theorem in one schema.**  Same hypotheses: the text is accepted iff the parser accepts it, all its
    `%import`s succeed, every section header names a type known at its position, and the text without its `%import`
    lines conforms — in the sense of C01 — to the fully extended schema. -/
theorem C12_text_accept_iff_final (conv : Conv) (env : Env) (pkgs : Str → Pkg) (s : Schema) (url : Option Str)
    (lines : List Str) (htop : importsAtTop env url lines)
    (hok : ∀ tops, treeOfI env url lines = .ok tops → importsOK pkgs s tops = true) :
    (∃ r, load conv env pkgs s url lines [] = .ok r) ↔
      ∃ tops sF, treeOfI env url lines = .ok tops ∧ extendBy pkgs s tops = some sF ∧ knownAt pkgs s tops = true ∧
        conforms conv sF (itemsOf tops) = true := by
  rw [C12_text_accept_iff_conformsI conv env pkgs s url lines htop hok]
  constructor
  · rintro ⟨tops, ht, hc⟩
    obtain ⟨sF, h1, h2, h3⟩ := (C12_conformsI_iff_final conv pkgs s tops (hok tops ht)
      (treeOfI_low env url lines tops ht)).mp hc
    exact ⟨tops, sF, ht, h1, h2, h3⟩
  · rintro ⟨tops, sF, ht, h1, h2, h3⟩
    exact ⟨tops, ht, (C12_conformsI_iff_final conv pkgs s tops (hok tops ht)
      (treeOfI_low env url lines tops ht)).mpr ⟨sF, h1, h2, h3⟩⟩

open ZCV.Conf in
/-- **Imports first.**  A text whose top level is `%import`s followed by import-free items is loaded exactly as the
    import-free rest is loaded (`loadTree`, the loader of C01 / C02) against the schema extended by the imports:
    same acceptance, same configuration. -/
theorem C12_imports_first (conv : Conv) (env : Env) (pkgs : Str → Pkg) (s : Schema) (url : Option Str)
    (lines : List Str) (imps : List Str) (its : List Item) (htop : importsAtTop env url lines)
    (hok : importsOK pkgs s (imps.map .imp ++ its.map .item) = true)
    (htree : treeOfI env url lines = .ok (imps.map .imp ++ its.map .item)) :
    (load conv env pkgs s url lines []).toOption.map (·.value) =
      (extendBy pkgs s (imps.map .imp)).bind fun s' => (loadTree conv s' its).toOption := by
  have hl := treeOfI_low env url lines _ htree
  obtain ⟨h1, _, h3, _⟩ := first_shape pkgs its imps s
  rw [h3] at hl
  rw [load_eq_denoteI conv env pkgs s url lines htop (fun tops ht => by rw [htree] at ht; cases ht; exact hok), htree]
  simp only [Cfg.toOption_ok, Option.bind_some]
  rw [denoteI_imports_first conv pkgs s imps its hok hl]
  cases he : extendBy pkgs s (imps.map .imp) with
  | none => rfl
  | some s' =>
    have hs' : schemaOK s' = true := importsOK_final pkgs _ s s' hok (by rw [h1]; exact he)
    simp only [Option.bind_some]
    rw [loadTree_eq_denote conv s' its hs' (tyCanon_of_low s' hs' its hl)]

open ZCV.Conf in
/-- in particular a text WITHOUT `%import` conforms in the new sense iff it conforms in the sense of C01, with the
    same value: `denoteI` extends `denote` -/
theorem C12_denoteI_import_free (conv : Conv) (pkgs : Str → Pkg) (s : Schema) (its : List Item)
    (hs : schemaOK s = true) (hl : lowItems its = true) :
    denoteI conv s pkgs (its.map .item) = denote conv s its := by
  have hok : ∀ (its : List Item), importsOK pkgs s (its.map .item) = true := by
    intro its
    induction its with
    | nil => exact hs
    | cons i r ih => rw [List.map_cons, importsOK]; exact ih
  have := denoteI_imports_first conv pkgs s [] its (by simpa using hok its) hl
  simpa [extendBy] using this

/-- **Use before import is rejected, at text level.**  Any text `A ++ [l] ++ B` (loaded without overrides) where the
    part `A` before the header line `l = <ty …>` has no `%import` line (nor have the resources it can `%include`) and
    `ty` is not a type of the application's schema: the load is rejected, whatever `%import` lines follow in `B` —
    including one that would provide `ty`. -/
theorem C12_header_before_import_rejected_text (conv : Conv) (env : Env) (pkgs : Str → Pkg) (s : Schema)
    (url : Option Str) (A B : List Str) (l : Str)
    (hres : ∀ u ls, env.res u = some ls → ∀ l ∈ ls, NoImportLine l)
    (hA : ∀ x ∈ A, NoImportLine x) (ty : Str) (nm : Option Str) (e : Bool)
    (hs : lineShape (strip l) = .open_ ty nm e) (hunknown : s.gettype ty = none) :
    ∀ r, load conv env pkgs s url (A ++ l :: B) [] ≠ .ok r := by
  intro r h
  rw [Conf.load_nil_eq] at h
  obtain ⟨ps, hps, _⟩ := bind_ok_inv h
  exact C12_use_before_import_rejected env hres 64 (Conf.activeOf url) url A B l 0
    { ctx := Conf.loadSt0 conv pkgs s, stack := [], defs := [] } hA ty nm e hs hunknown ps hps

open ZCV.Conf in
/-- the hypothesis `importsOK` follows from a text-independent one: the schema stays well-formed under every sequence
    of importable packages -/
theorem C12_importsOK_of_closed (pkgs : Str → Pkg) (s : Schema) (tops : List TopItem)
    (h : ∀ (ps : List Str) (sc : Schema), extendBy pkgs s (ps.map .imp) = some sc → schemaOK sc = true) :
    importsOK pkgs s tops = true :=
  importsOK_of_closed pkgs tops s h

open ZCV.Conf in
/-- **`schemaOK` is preserved by `%import`** of a component whose own types are well-formed with respect to the schema
    the import produces (`compOK`: each type stored under its own name, children well-shaped, slot types known — what the
    schema loader guarantees of a component it has parsed) -/
theorem C12_schemaOK_after_import (s s' : Schema) (url : Str) (types : List (Str × TypeEntry)) (impls : List (Str × Str))
    (hs : schemaOK s = true) (he : extend s (.component url types impls) = some s') (hc : compOK s' types = true) :
    schemaOK s' = true :=
  schemaOK_extend s s' url types impls hs he hc

open ZCV.Conf in
/-- … hence the hypothesis `importsOK` of the text-level theorems follows from `schemaOK s` and `compOK` of each component
    the text imports (`compsOK`, decidable) -/
theorem C12_importsOK_of_components (pkgs : Str → Pkg) (s : Schema) (tops : List TopItem)
    (hs : schemaOK s = true) (hc : compsOK pkgs s tops = true) : importsOK pkgs s tops = true :=
  importsOK_of_compsOK pkgs tops s hs hc

open ZCV.Conf in
/-- **The new tree builder extends the old one.**  On a text without `%import` lines (here and in what it can include)
    `treeOfI` accepts iff `treeOf` (C01 / C02) does, delivers the same items, and meets no `%import` inside a section. -/
theorem C12_treeOfI_import_free (env : Env) (url : Option Str) (lines : List Str)
    (hni : ∀ l ∈ lines, NoImportLine l) (hres : ∀ u ls, env.res u = some ls → ∀ l ∈ ls, NoImportLine l) :
    (treeOfI env url lines).toOption = (treeOf env url lines).toOption.map (List.map .item) ∧
      importsAtTop env url lines :=
  treeOfI_import_free env url lines hni hres

open ZCV.Conf in
/-- … so for import-free texts the right-hand side of `C12_text_accept_iff_conformsI` is the right-hand side of
    `C01_text_accept_iff_conforms`: the new theorem specialises to the old one -/
theorem C12_conformsI_import_free_text (conv : Conv) (env : Env) (pkgs : Str → Pkg) (s : Schema) (url : Option Str)
    (lines : List Str) (hs : schemaOK s = true)
    (hni : ∀ l ∈ lines, NoImportLine l) (hres : ∀ u ls, env.res u = some ls → ∀ l ∈ ls, NoImportLine l) :
    (∃ tops, treeOfI env url lines = .ok tops ∧ conformsI conv s pkgs tops = true) ↔
      ∃ items, treeOf env url lines = .ok items ∧ conforms conv s items = true := by
  have h := (treeOfI_import_free env url lines hni hres).1
  constructor
  · rintro ⟨tops, ht, hc⟩
    rw [ht] at h
    cases hT : treeOf env url lines with
    | error e => rw [hT] at h; cases h
    | ok items =>
      rw [hT] at h
      simp only [Cfg.toOption_ok, Option.map_some, Option.some.injEq] at h
      subst h
      have hl := treeOfI_low env url lines _ ht
      rw [(items_shape pkgs s items).2.2.2] at hl
      refine ⟨items, rfl, ?_⟩
      unfold conformsI at hc
      rw [C12_denoteI_import_free conv pkgs s items hs hl] at hc
      exact hc
  · rintro ⟨items, hT, hc⟩
    rw [hT] at h
    simp only [Cfg.toOption_ok, Option.map_some] at h
    rw [Cfg.toOption_eq_some] at h
    have hl := treeOfI_low env url lines _ h
    rw [(items_shape pkgs s items).2.2.2] at hl
    refine ⟨_, h, ?_⟩
    unfold conformsI
    rw [C12_denoteI_import_free conv pkgs s items hs hl]
    exact hc

open ZCV.Conf in
/-- **Counter-fact: `pkgWF` is not enough.**  The hypothesis on the imported components cannot be weakened to `pkgWF`
    (the well-formedness that suffices for "no internal error", C07): with a well-formed schema and a `pkgWF` component
    whose type `box` stores a section child under the EMPTY key (the schema loader never produces that; `schemaOK` /
    `compOK` exclude it), the items `%import p` / `<box>` `<leak/>` `</box>` are ACCEPTED by the loader —
    `getsectioninfo` treats the empty key as "no key" — whereas they do not conform: `conformsI` (like `conforms`)
    lets a child with a key claim only headers carrying that key. -/
theorem C12_pkgWF_not_enough :
    (∀ n, pkgWF (Ex.pkgsW n) = true) ∧ schemaOK Ex.schema = true ∧ lowTops Ex.topsW = true ∧
    (∃ r, loadTops Ex.conv Ex.pkgsW Ex.schema Ex.topsW = .ok r) ∧
    conformsI Ex.conv Ex.schema Ex.pkgsW Ex.topsW = false ∧ importsOK Ex.pkgsW Ex.schema Ex.topsW = false :=
  Ex.witness_pkgWF

/-! closed instances of the text-level theorems: `%import p` / `<leak/>` in both orders -/

/-- the hypotheses of `C12_text_accept_iff_conformsI` hold for the two-line text `%import p` / `<leak/>`, its top-level
    items are `[imp p, <leak/>]`, they conform, and so the theorem ACCEPTS the text … -/
example : ∃ r, load Ex.conv Ex.env Ex.pkgs Ex.schema none Ex.linesIU [] = .ok r :=
  (C12_text_accept_iff_conformsI Ex.conv Ex.env Ex.pkgs Ex.schema none Ex.linesIU Ex.atTop_IU Ex.ok_IU).mpr
    ⟨Ex.topsIU, Ex.tree_IU, Ex.conformsI_IU⟩
/-- `importsOK` of that text through `C12_importsOK_of_components` -/
example : Conf.importsOK Ex.pkgs Ex.schema Ex.topsIU = true :=
  C12_importsOK_of_components Ex.pkgs Ex.schema Ex.topsIU (by decide) Ex.compsOK_IU
/-- … and REJECTS the same two lines in the other order: the items `[<leak/>, imp p]` do not conform -/
example : ¬ ∃ r, load Ex.conv Ex.env Ex.pkgs Ex.schema none Ex.linesUI [] = .ok r := by
  rw [C12_text_accept_iff_conformsI Ex.conv Ex.env Ex.pkgs Ex.schema none Ex.linesUI Ex.atTop_UI Ex.ok_UI]
  rintro ⟨tops, ht, hc⟩
  rw [Ex.tree_UI] at ht
  cases ht
  rw [Ex.conformsI_UI] at hc
  cases hc
/-- the value of the accepted text is `denoteI`: the section in the slot's attribute -/
example : Conf.denoteI Ex.conv Ex.schema Ex.pkgs Ex.topsIU =
    some (.sect [] none [("s".toList, .list [.sect "leak".toList none []])]) := by rfl
/-- `C12_header_before_import_rejected_text` at work on the second text -/
example : ∀ r, load Ex.conv Ex.env Ex.pkgs Ex.schema none ([] ++ "<leak/>".toList :: ["%import p".toList]) [] ≠ .ok r :=
  C12_header_before_import_rejected_text Ex.conv Ex.env Ex.pkgs Ex.schema none [] _ _ (fun _ _ h => by cases h)
    (fun _ h => by cases h) "leak".toList none true Ex.shape_leak rfl

/-! ## abstract slots after a history, with the FAITHFUL history function (ZCV/Model/History.lean)

"`%import` extends the vocabulary of that load only": for the TYPE table and the component marks this holds across loads
(`C12_history_keeps_vocabulary`); for the implementer tables it does not (known findings C13-implementers-leak /
C12-import-leak-accepts), and what a slot admits after a history is stated exactly (`C12_slot_after_history_admits_iff`). -/

/-- **The vocabulary of the application's schema object survives every history**: whatever the loads imported – and
    whether they succeeded or not – the schema object offers the same type names, the same concrete types and the same
    components to the next load as it did to the first. -/
theorem C12_history_keeps_vocabulary (conv : Conv) (env : Env) (pkgs : Str → Pkg) (s : Schema) (hist : List LoadReq) :
    let s' := (runHistoryApp conv env pkgs s hist).2
    s'.types.map (·.1) = s.types.map (·.1) ∧ s'.components = s.components ∧
      (∀ x, s'.gettype x = none ↔ s.gettype x = none) ∧
      (∀ x t, s'.gettype x = some (.concrete t) ↔ s.gettype x = some (.concrete t)) := by
  intro s'
  have hs : s' = s.withImplementers (historyRegs conv env pkgs s hist) := runHistoryApp_schema conv env pkgs hist s
  rw [hs]
  refine ⟨withImplementers_keys _ _, withImplementers_components _ _, ?_, fun x t => gettype_concrete_withImplementers _ _ x t⟩
  intro x
  rw [gettype_none_iff_keys, gettype_none_iff_keys, withImplementers_keys]

/-- **What an abstract slot admits after a history, exactly.**  After any history on one schema object, the type `ty` counts
    as an implementer of `a` (`isSubtype`, which is what `getsectioninfo` asks: `C12_slot_admits_iff`) iff it was listed in
    the schema, or `a` is an abstract type of the schema and some load of the history made the `addsubtype` call
    (`ty`, key of `a`) – i.e. (`C13_implementers_only_grow`) a component some load imported declares `ty implements a`. -/
theorem C12_slot_after_history_admits_iff (conv : Conv) (env : Env) (pkgs : Str → Pkg) (s : Schema) (hist : List LoadReq)
    (a ty : Str) :
    isSubtype (runHistoryApp conv env pkgs s hist).2 a ty = true ↔
      ty ∈ Conf.implementers s a ∨ (isAbstract s a = true ∧ (ty, lower a) ∈ historyRegs conv env pkgs s hist) := by
  rw [isSubtype_iff_mem, runHistoryApp_schema]
  exact mem_implementers_withImplementers s _ a ty

/-- in particular a history without leak leaves every slot as it was -/
theorem C12_slot_after_history_unchanged (conv : Conv) (env : Env) (pkgs : Str → Pkg) (s : Schema) (hist : List LoadReq)
    (h : (runHistoryApp conv env pkgs s hist).2 = s) (a ty : Str) :
    isSubtype (runHistoryApp conv env pkgs s hist).2 a ty = isSubtype s a ty := by rw [h]

/-- **Counter-fact restated for the faithful history (known findings C13-implementers-leak / C12-import-leak-accepts).**
    After the one-load history `%import p` the APPLICATION's schema object counts `leak` as an implementer of `ab`, which
    it did not before – while the type `leak` itself is not in its vocabulary. -/
theorem C12_faithful_import_this_load_only_counterexample :
    isSubtype Ex.schema "ab".toList "leak".toList = false ∧
      isSubtype (runHistoryApp Ex.conv Ex.env Ex.pkgs Ex.schema [HEx.qP]).2 "ab".toList "leak".toList = true ∧
      (runHistoryApp Ex.conv Ex.env Ex.pkgs Ex.schema [HEx.qP]).2.gettype "leak".toList = none := by
  have hs : (runHistoryApp Ex.conv Ex.env Ex.pkgs Ex.schema [HEx.qP]).2 = HEx.schemaL := by
    rw [runHistoryApp_cons, HEx.appAfterLoad_p]; rfl
  rw [hs]
  exact ⟨by decide, by decide, by decide⟩

/-- **The two-load witness (known finding C12-import-leak-accepts), in the faithful history.**  Package `p` defines
    `leak implements ab`; package `q` defines a type of the same name that implements nothing.  History: `%import p`; then
    `%import q` / `<leak/>`.  On the used schema object the second load is ACCEPTED – `q`'s `leak` sits in `ab`'s slot –
    although the same load on a fresh schema object is REJECTED at line 2 ("no matching section defined"). -/
theorem C12_leak_admits_non_implementer :
    (∃ r1 r2, (runHistoryApp Ex.conv Ex.env HEx.pkgsH Ex.schema [HEx.qP, HEx.qTwin]).1 = [.ok r1, .ok r2] ∧
      r2.value = .sect [] none [("s".toList, .list [.sect "leak".toList none []])]) ∧
    load Ex.conv Ex.env HEx.pkgsH Ex.schema HEx.qTwin.url HEx.qTwin.lines HEx.qTwin.specs =
      .error (synErr none 2 "start:no matching section defined") := by
  obtain ⟨r1, hr1⟩ := HEx.load_pH
  obtain ⟨r2, hr2, hv⟩ := HEx.load_twin_used
  refine ⟨⟨r1, r2, ?_, hv⟩, HEx.load_twin_fresh⟩
  rw [runHistoryApp_cons, runHistoryApp_cons, HEx.appAfterLoad_pH]
  simp only [HEx.qP, HEx.qTwin, hr1, hr2]
  rfl

/-- `C12_slot_after_history_admits_iff` at work: the right-hand side holds through the call (`leak`, `ab`) of the history -/
example : isAbstract Ex.schema "ab".toList = true ∧
    ("leak".toList, lower "ab".toList) ∈ historyRegs Ex.conv Ex.env Ex.pkgs Ex.schema [HEx.qP] := by
  unfold historyRegs
  rw [show HEx.qP = ⟨none, ["%import p".toList], []⟩ from rfl, historyStops_cons, HEx.loadStop_p]
  exact ⟨by decide, by decide⟩

/-- `C12_history_keeps_vocabulary` at work on a history that DOES change the tables -/
example : ((runHistoryApp Ex.conv Ex.env Ex.pkgs Ex.schema [HEx.qP]).2).types.map (·.1) = ["ab".toList] ∧
    (runHistoryApp Ex.conv Ex.env Ex.pkgs Ex.schema [HEx.qP]).2 ≠ Ex.schema := by
  have hs : (runHistoryApp Ex.conv Ex.env Ex.pkgs Ex.schema [HEx.qP]).2 = HEx.schemaL := by
    rw [runHistoryApp_cons, HEx.appAfterLoad_p]; rfl
  rw [hs]
  refine ⟨rfl, ?_⟩
  intro h
  have : Conf.implementers HEx.schemaL "ab".toList = Conf.implementers Ex.schema "ab".toList := by rw [h]
  exact absurd this (by decide)

end ZCV.Props.C12
