import ZCV.Lemmas.Define
namespace ZCV.Props.C05
open ZCV ZCV.Cfg

/-- `%define n v` is accepted exactly when: n (lower-cased) is a legal name, v expands using the definitions read so
    far, and n is either new or already has exactly that expanded value; the mapping then holds the expanded value
    under the lower-cased name (write-once, case-insensitive, expand-once). -/
theorem C05_define_ok_iff (env : Env) (url : Option Str) (line : Nat) (rest p0 : Str) (more : List Str)
    (defs defs' : List (Str × Str)) (hs : splitWS1 rest = p0 :: more) :
    define env url line rest defs = .ok defs' ↔
      ∃ v, replace env defs url line (defValue more) = .ok v ∧
        Subst.isname (lower p0) = true ∧
        (lookupDef defs (lower p0) = none ∨ lookupDef defs (lower p0) = some v) ∧
        defs' = setDef defs (lower p0) v := by
  unfold define
  rw [hs]
  simp only
  generalize (defValue more) = raw
  cases hr : replace env defs url line raw with
  | error e =>
    constructor
    · intro h
      cases hl : lookupDef defs (lower p0) with
      | none =>
        simp only [hl, bind, Except.bind, pure, Except.pure] at h
        split at h <;> simp_all
      | some cur => simp [hl, bind, Except.bind] at h
    · rintro ⟨v, hv, _⟩; simp at hv
  | ok v =>
    constructor
    · intro h
      refine ⟨v, rfl, ?_⟩
      cases hl : lookupDef defs (lower p0) with
      | none =>
        simp only [hl, bind, Except.bind, pure, Except.pure] at h
        by_cases hn : Subst.isname (lower p0) = true
        · simp [hn] at h; exact ⟨hn, Or.inl rfl, h.symm⟩
        · simp [hn, throw, throwThe, MonadExceptOf.throw] at h
      | some cur =>
        simp only [hl, bind, Except.bind, pure, Except.pure] at h
        by_cases hc : cur = v
        · subst hc
          by_cases hn : Subst.isname (lower p0) = true
          · simp [hn] at h; exact ⟨hn, Or.inr rfl, h.symm⟩
          · simp [hn, throw, throwThe, MonadExceptOf.throw] at h
        · simp [hc, throw, throwThe, MonadExceptOf.throw] at h
    · rintro ⟨v', hv', hn, hlk, hd⟩
      have : v' = v := by simpa using hv'.symm
      subst this; subst hd
      rcases hlk with hl | hl
      · simp [hl, bind, Except.bind, pure, Except.pure, hn]
      · simp [hl, bind, Except.bind, pure, Except.pure, hn]

/-- after an accepted `%define`, the name resolves to the expanded value and every other name is untouched -/
theorem C05_define_effect (env : Env) (url : Option Str) (line : Nat) (rest p0 : Str) (more : List Str)
    (defs defs' : List (Str × Str)) (hs : splitWS1 rest = p0 :: more)
    (h : define env url line rest defs = .ok defs') :
    (∃ v, replace env defs url line (defValue more) = .ok v ∧
        lookupDef defs' (lower p0) = some v) ∧
    (∀ k, (lower p0 == k) = false → lookupDef defs' k = lookupDef defs k) := by
  obtain ⟨v, hv, _, _, hd⟩ := (C05_define_ok_iff env url line rest p0 more defs defs' hs).mp h
  subst hd
  exact ⟨⟨v, hv, lookupDef_setDef_same _ _ _⟩, fun k hk => lookupDef_setDef_other _ _ _ _ hk⟩

/-- write-once: an accepted re-definition leaves the value as it was -/
theorem C05_redefine_keeps_value (env : Env) (url : Option Str) (line : Nat) (rest p0 : Str) (more : List Str)
    (defs defs' : List (Str × Str)) (cur : Str)
    (hs : splitWS1 rest = p0 :: more) (hc : lookupDef defs (lower p0) = some cur)
    (h : define env url line rest defs = .ok defs') :
    lookupDef defs' (lower p0) = some cur := by
  obtain ⟨v, _, _, hlk, hd⟩ := (C05_define_ok_iff env url line rest p0 more defs defs' hs).mp h
  subst hd
  rcases hlk with hl | hl
  · rw [hc] at hl; cases hl
  · rw [hc] at hl; cases hl; exact lookupDef_setDef_same _ _ _

end ZCV.Props.C05
