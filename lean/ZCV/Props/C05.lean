import ZCV.Lemmas.Define
import ZCV.Lemmas.DefinesFold
import ZCV.Lemmas.DefinesLoad
namespace ZCV.Props.C05
open ZCV ZCV.Cfg ZCV.Conf

/-- `%define n v` is accepted exactly when: n (lower-cased) is a legal name, v expands using the definitions read so
    far, and n is either new or already has exactly that expanded value; the mapping then holds the expanded value
    under the lower-cased name (write-once, case-insensitive, expand-once). -/
theorem C05_define_ok_iff (env : Env) (url : Option Str) (line : Nat) (rest p0 : Str) (more : List Str)
    (defs defs' : List (Str × Str)) (hs : splitWS1 rest = p0 :: more) :
    define env url line rest defs = .ok defs' ↔
      ∃ v, replace env defs url line (defValue more) = .ok v ∧
        Subst.isname (lower p0) = true ∧
        (lookupDef defs (lower p0) = none ∨ lookupDef defs (lower p0) = some v) ∧
        defs' = setDef defs (lower p0) v := by
  unfold define
  rw [hs]
  simp only
  generalize (defValue more) = raw
  cases hr : replace env defs url line raw with
  | error e =>
    constructor
    · intro h
      cases hl : lookupDef defs (lower p0) with
      | none =>
        simp only [hl, bind, Except.bind, pure, Except.pure] at h
        split at h <;> simp_all
      | some cur => simp [hl, bind, Except.bind] at h
    · rintro ⟨v, hv, _⟩; simp at hv
  | ok v =>
    constructor
    · intro h
      refine ⟨v, rfl, ?_⟩
      cases hl : lookupDef defs (lower p0) with
      | none =>
        simp only [hl, bind, Except.bind, pure, Except.pure] at h
        by_cases hn : Subst.isname (lower p0) = true
        · simp [hn] at h; exact ⟨hn, Or.inl rfl, h.symm⟩
        · simp [hn, throw, throwThe, MonadExceptOf.throw] at h
      | some cur =>
        simp only [hl, bind, Except.bind, pure, Except.pure] at h
        by_cases hc : cur = v
        · subst hc
          by_cases hn : Subst.isname (lower p0) = true
          · simp [hn] at h; exact ⟨hn, Or.inr rfl, h.symm⟩
          · simp [hn, throw, throwThe, MonadExceptOf.throw] at h
        · simp [hc, throw, throwThe, MonadExceptOf.throw] at h
    · rintro ⟨v', hv', hn, hlk, hd⟩
      have : v' = v := by simpa using hv'.symm
      subst this; subst hd
      rcases hlk with hl | hl
      · simp [hl, bind, Except.bind, pure, Except.pure, hn]
      · simp [hl, bind, Except.bind, pure, Except.pure, hn]

/-- after an accepted `%define`, the name resolves to the expanded value and every other name is untouched -/
theorem C05_define_effect (env : Env) (url : Option Str) (line : Nat) (rest p0 : Str) (more : List Str)
    (defs defs' : List (Str × Str)) (hs : splitWS1 rest = p0 :: more)
    (h : define env url line rest defs = .ok defs') :
    (∃ v, replace env defs url line (defValue more) = .ok v ∧
        lookupDef defs' (lower p0) = some v) ∧
    (∀ k, (lower p0 == k) = false → lookupDef defs' k = lookupDef defs k) := by
  obtain ⟨v, hv, _, _, hd⟩ := (C05_define_ok_iff env url line rest p0 more defs defs' hs).mp h
  subst hd
  exact ⟨⟨v, hv, lookupDef_setDef_same _ _ _⟩, fun k hk => lookupDef_setDef_other _ _ _ _ hk⟩

/-- write-once: an accepted re-definition leaves the value as it was -/
theorem C05_redefine_keeps_value (env : Env) (url : Option Str) (line : Nat) (rest p0 : Str) (more : List Str)
    (defs defs' : List (Str × Str)) (cur : Str)
    (hs : splitWS1 rest = p0 :: more) (hc : lookupDef defs (lower p0) = some cur)
    (h : define env url line rest defs = .ok defs') :
    lookupDef defs' (lower p0) = some cur := by
  obtain ⟨v, _, _, hlk, hd⟩ := (C05_define_ok_iff env url line rest p0 more defs defs' hs).mp h
  subst hd
  rcases hlk with hl | hl
  · rw [hc] at hl; cases hl
  · rw [hc] at hl; cases hl; exact lookupDef_setDef_same _ _ _

/-! ## The namespace over whole texts (spec: `ZCV.DefSpec`, written from the statement) -/

/-- `%define name value` does exactly what the statement says (`DefSpec.defineStep`): the name is lower-cased and must be
    a legal substitution name, the value is expanded once with the definitions read so far, and the name must be new or
    already hold exactly that expanded value; every rejection is the documented exception at this line (syntax error for
    an illegal name or a conflicting redefinition, replacement / substitution-syntax error for the value). -/
theorem C05_define_eq_spec (env : Env) (url : Option Str) (line : Nat) (rest p0 : Str) (more : List Str)
    (defs : List (Str × Str)) (hs : splitWS1 rest = p0 :: more) (hl : DefSpec.Legal defs) :
    define env url line rest defs = liftE url line (DefSpec.defineStep env.getenv defs p0 (defValue more)) :=
  define_eq_spec env url line rest p0 more defs hs hl

/-- the spec's side condition is no restriction: the empty mapping satisfies it and every accepted definition keeps it -/
theorem C05_legal_invariant (env : Str → Option Str) (d d' : DefSpec.Defs) (n raw : Str) (hl : DefSpec.Legal d)
    (h : DefSpec.defineStep env d n raw = .ok d') : DefSpec.Legal d' ∧ DefSpec.Legal [] :=
  ⟨defineStep_legal env d d' n raw hl h, legal_nil⟩

/-- **The mapping after a whole text is the spec's fold over its `%define` lines, in reading order** — for every context
    the parser can drive (schema loader, schemaless, recorder …), whatever sections, key lines, `%import`s, blank and
    comment lines stand between the definitions (the text itself contains no `%include`; see
    `C05_shared_with_includes` for those). -/
theorem C05_defines_fold {σ} (fuel : Nat) (env : Env) (c : PCtx σ) (active : List Str) (url : Option Str)
    (lines : List Str) (n : Nat) (st st' : PS σ) (hni : NoInclude lines) (hl : DefSpec.Legal st.defs)
    (h : parseLines fuel env c active url lines n st = .ok st') :
    DefSpec.defineFold env.getenv (defLinesOf lines) st.defs = .ok st'.defs :=
  parse_defs_fold fuel env c active url lines n st st' hni hl h

/-- **A text of `%define` lines, key lines and blank/comment lines is read exactly as the spec's `run` says**: same final
    mapping, every key's value expanded with the definitions read before it (the recorder logs what reaches the
    application), and on rejection the documented kind of error at the line the spec names. -/
theorem C05_text_eq_spec (fuel : Nat) (env : Env) (active : List Str) (url : Option Str)
    (lines : List Str) (steps : List DefSpec.Step) (n : Nat) (st : PS (List Ev0))
    (hf : Reads lines steps) (hl : DefSpec.Legal st.defs) (hstack : st.stack = []) :
    parseLines fuel env rec0 active url lines n st =
      match DefSpec.run env.getenv n steps st.defs with
      | .ok (d, vs) => .ok { st with ctx := st.ctx ++ vs.map (fun kv => Ev0.value kv.1 kv.2), defs := d }
      | .error (i, e) => .error (failOf url i e) :=
  parse_rec0_spec fuel env active url lines steps n st hf hl hstack

/-- the mapping component of the spec's `run` is the fold over the `%define` lines alone -/
theorem C05_run_defs (env : Str → Option Str) (steps : List DefSpec.Step) (n : Nat) (d d' : DefSpec.Defs)
    (vs : List (Str × Str)) (h : DefSpec.run env n steps d = .ok (d', vs)) :
    DefSpec.defineFold env (DefSpec.definesOf steps) d = .ok d' :=
  run_defs env steps n d d' vs h

/-- **A reference sees only the definitions read before it.**  For any context and any text `A ++ [key line] ++ B`
    (`A` accepted, free of `%include`): the mapping at the key line is the spec's fold over the `%define` lines of `A`;
    the value handed to the context is the expansion under that mapping; if the expansion fails (e.g. the name is
    defined only in `B`) the whole text is rejected with the documented error at that line — `B` plays no role. -/
theorem C05_use_sees_only_earlier {σ} (fuel : Nat) (env : Env) (c : PCtx σ) (active : List Str) (url : Option Str)
    (A B : List Str) (l key raw : Str) (n : Nat) (st stA : PS σ)
    (hA : runLines fuel env c active url A n st = .ok stA) (hni : NoInclude A) (hl : DefSpec.Legal st.defs)
    (hshape : lineShape (strip l) = .kv key raw) :
    DefSpec.defineFold env.getenv (defLinesOf A) st.defs = .ok stA.defs ∧
    (∀ e, DefSpec.expand env.getenv stA.defs raw = .error e →
      parseLines fuel env c active url (A ++ l :: B) n st = .error (failOf url (n + A.length + 1) e)) ∧
    (∀ v, DefSpec.expand env.getenv stA.defs raw = .ok v →
      parseLines fuel env c active url (A ++ l :: B) n st =
        (kvCore c url (n + A.length + 1) key v stA >>= fun s => parseLines fuel env c active url B (n + A.length + 1) s)) := by
  refine ⟨(run_defs_fold fuel env c active url A n st stA hni hl hA).1, ?_, ?_⟩
  · intro e he
    rw [use_after_prefix fuel env c active url A B l key raw n st stA hA hshape, he]
    rfl
  · intro v hv
    rw [use_after_prefix fuel env c active url A B l key raw n st stA hA hshape, hv]
    rfl

/-- in particular: `key $x` before any definition of `x` is a replacement error at that line, even if `x` is defined
    on the very next line -/
theorem C05_later_definition_not_seen {σ} (fuel : Nat) (env : Env) (c : PCtx σ) (active : List Str) (url : Option Str)
    (A B : List Str) (l key x : Str) (n : Nat) (st stA : PS σ)
    (hA : runLines fuel env c active url A n st = .ok stA)
    (hshape : lineShape (strip l) = .kv key ('$' :: x)) (hx : SubstSpec.isnameSpec x = true)
    (hundef : DefSpec.get stA.defs (lower x) = none) :
    parseLines fuel env c active url (A ++ l :: B) n st =
      .error (.cfg { kind := .replacement, line := some ((n + A.length + 1 : Nat) : Int), url := url, tag := "replacement" }) := by
  rw [use_after_prefix fuel env c active url A B l key _ n st stA hA hshape, expand_ref_missing _ _ x hx hundef]
  rfl

/-- **Case-insensitive names**: `%define N v` and `%define n v` have the same effect (and the same failure) whenever
    `N` and `n` agree after lower-casing. -/
theorem C05_case_insensitive (env : Env) (url : Option Str) (line : Nat) (rest rest' n n' : Str) (more : List Str)
    (defs : List (Str × Str)) (hs : splitWS1 rest = n :: more) (hs' : splitWS1 rest' = n' :: more)
    (hc : lower n' = lower n) :
    define env url line rest' defs = define env url line rest defs := by
  unfold define
  rw [hs, hs']
  simp only [hc]

/-- the same on the spec side -/
theorem C05_case_insensitive_spec (env : Str → Option Str) (d : DefSpec.Defs) (n n' raw : Str) (hc : lower n' = lower n) :
    DefSpec.defineStep env d n' raw = DefSpec.defineStep env d n raw := by
  unfold DefSpec.defineStep
  simp only [hc]

/-- **Case-insensitive references**: changing the letter case of `$name` / `${name}` references in a value (or directive
    argument) changes neither its expansion nor whether it expands (`DefSpec.RefCase`: everything but the case of such
    references is kept; `$(ENV)` references are case-sensitive and are not varied). -/
theorem C05_reference_case_insensitive (env : Env) (defs : List (Str × Str)) (url : Option Str) (line : Nat) (s s' : Str)
    (h : DefSpec.RefCase s s') :
    (replace env defs url line s').toOption = (replace env defs url line s).toOption := by
  rw [replace_eq_expand, replace_eq_expand]
  unfold DefSpec.expand SubstSpec.substituteSpec
  have := SubstSpec.spec_refCase (DefSpec.get defs) env.getenv h s s'
  cases h1 : SubstSpec.spec (DefSpec.get defs) env.getenv s s <;>
    cases h2 : SubstSpec.spec (DefSpec.get defs) env.getenv s' s' <;> simp_all [liftE]

/-- **One namespace shared with included resources**: at an `%include` line (after an accepted prefix `A`), the included
    resource is read with the includer's CURRENT mapping — the same one, not a copy of an earlier state and not an empty
    one — and the rest of the includer is read with the mapping the included resource leaves behind. -/
theorem C05_shared_with_includes {σ} (fuel : Nat) (env : Env) (c : PCtx σ) (active : List Str) (url : Option Str)
    (A B F : List Str) (inc arg a u : Str) (n : Nat) (st stA : PS σ)
    (hA : runLines (fuel + 1) env c active url A n st = .ok stA)
    (hshape : lineShape (strip inc) = .include_ arg)
    (hci : c.canInclude = true)
    (harg : replace env stA.defs url (n + A.length + 1) (strip arg) = .ok a)
    (hres : env.resolve url a = .url u)
    (hfile : env.res u = some F)
    (hact : u ∉ active) :
    parseLines (fuel + 1) env c active url (A ++ inc :: B) n st =
      (parseLines fuel env c (u :: active) (some u) F 0 { ctx := stA.ctx, stack := [], defs := stA.defs } >>= fun sub =>
        parseLines (fuel + 1) env c active url B (n + A.length + 1) { stA with ctx := sub.ctx, defs := sub.defs }) :=
  include_after_prefix fuel env c active url A B F inc arg a u n st stA hA hshape hci harg hres hfile hact

/-- … so a name defined inside an included resource (with no `%include` of its own) is visible after the `%include`
    line, and the mapping there is the spec's fold over the includer's earlier definitions followed by the included
    resource's definitions -/
theorem C05_include_defs_fold {σ} (fuel : Nat) (env : Env) (c : PCtx σ) (active : List Str) (url : Option Str)
    (A F : List Str) (u : Str) (n : Nat) (st stA sub : PS σ)
    (hA : runLines (fuel + 1) env c active url A n st = .ok stA) (hniA : NoInclude A) (hniF : NoInclude F)
    (hl : DefSpec.Legal st.defs)
    (hF : parseLines fuel env c (u :: active) (some u) F 0 { ctx := stA.ctx, stack := [], defs := stA.defs } = .ok sub) :
    DefSpec.defineFold env.getenv (defLinesOf A ++ defLinesOf F) st.defs = .ok sub.defs := by
  obtain ⟨h1, hl1⟩ := run_defs_fold (fuel + 1) env c active url A n st stA hniA hl hA
  have h2 := parse_defs_fold fuel env c (u :: active) (some u) F 0 { ctx := stA.ctx, stack := [], defs := stA.defs } sub hniF hl1 hF
  exact defineFold_append _ _ _ _ _ h1 ▸ h2

/-- **Definitions never carry over from one load to the next.**  `load` takes no mapping as input and returns none
    (`LoadResult` has no such component); it starts its parser from the EMPTY mapping: a text whose first reference
    comes before any `%define` (the lines `A` before it hold no `%define` and no `%include`) is never accepted, no
    matter what was loaded before. -/
theorem C05_fresh_per_load (conv : Conv) (env : Env) (pkgs : Str → Pkg) (schema : Schema) (url : Option Str)
    (A B : List Str) (l key raw : Str) (specs : List Str) (e : DefSpec.Err)
    (hni : NoInclude A) (hnd : defLinesOf A = [])
    (hshape : lineShape (strip l) = .kv key raw)
    (hmiss : DefSpec.expand env.getenv [] raw = .error e) :
    ∀ r, load conv env pkgs schema url (A ++ l :: B) specs ≠ .ok r := by
  intro r h
  rw [load_eq_gen] at h
  obtain ⟨ov, _, h⟩ := bind_ok_inv h
  obtain ⟨bag, _, h⟩ := bind_ok_inv h
  obtain ⟨ps, hps, _⟩ := bind_ok_inv h
  rw [parseLines_append] at hps
  obtain ⟨stA, hA, hrest⟩ := bind_ok_inv hps
  have hd := (run_defs_fold 64 env loaderCtx _ url A 0 _ stA hni legal_nil hA).1
  rw [hnd] at hd
  simp only [DefSpec.defineFold] at hd
  rw [parseLines, stepLine_kv _ _ _ _ _ _ _ _ _ _ hshape, replace_eq_expand] at hrest
  have : stA.defs = [] := by injection hd with hd; exact hd.symm
  rw [this, hmiss] at hrest
  cases hrest

/-- the exact outcome when the reference is on the first line (no command-line overrides) -/
theorem C05_fresh_per_load_error (conv : Conv) (env : Env) (pkgs : Str → Pkg) (schema : Schema) (url : Option Str)
    (B : List Str) (l key x : Str)
    (hshape : lineShape (strip l) = .kv key ('$' :: x)) (hx : SubstSpec.isnameSpec x = true) :
    load conv env pkgs schema url (l :: B) [] =
      .error (.cfg { kind := .replacement, line := some 1, url := url, tag := "replacement" }) := by
  rw [load_nil_eq, parseLines, stepLine_kv _ _ _ _ _ _ _ _ _ _ hshape, replace_eq_expand,
    expand_ref_missing _ _ x hx (by rfl)]
  rfl

/-! ### the hypotheses are satisfiable: concrete texts -/

/-- `%define A 1` / `k $a` / comment line is a text the fold theorems speak about -/
example : Reads ["%define A 1".toList, "k $a".toList, "  # comment".toList]
    [.define "A".toList "1".toList, .use "k".toList "$a".toList, .blank] :=
  .cons (stepOf_define (line := "%define A 1".toList) (a := "A 1".toList) (p0 := "A".toList) (more := ["1".toList])
      (by decide) (by decide +kernel) (by decide +kernel))
    (.cons (stepOf_kv (line := "k $a".toList) (k := "k".toList) (v := "$a".toList) (by decide) (by decide +kernel))
      (.cons (stepOf_skip (line := "  # comment".toList) (by decide) (by decide +kernel)) .nil))

/-- … and the spec reads it as: `a ↦ 1`, and `k` receives `1` (name and reference differ in case) -/
example : DefSpec.run (fun _ => none) 0
    [.define "A".toList "1".toList, .use "k".toList "$a".toList, .blank] [] =
      .ok ([("a".toList, "1".toList)], [("k".toList, "1".toList)]) := by
  have h1 : DefSpec.defineStep (fun _ => none) [] "A".toList "1".toList = .ok [("a".toList, "1".toList)] := by
    have : DefSpec.expand (fun _ => none) [] "1".toList = .ok "1".toList := by
      unfold DefSpec.expand SubstSpec.substituteSpec
      rw [show "1".toList = ['1'] from rfl, SubstSpec.spec_lit _ _ _ _ _ (by decide), SubstSpec.spec_nil]; rfl
    unfold DefSpec.defineStep
    rw [this]; rfl
  have h2 : DefSpec.expand (fun _ => none) [("a".toList, "1".toList)] "$a".toList = .ok "1".toList := by
    unfold DefSpec.expand SubstSpec.substituteSpec
    rw [show "$a".toList = '$' :: 'a' :: [] from rfl,
      SubstSpec.spec_bare _ _ _ 'a' [] ['a'] [] (by decide) (by decide) (by decide) (by decide +kernel)]
    rw [show DefSpec.get [("a".toList, "1".toList)] (lower ['a']) = some "1".toList from by decide +kernel]
    simp only [SubstSpec.spec_nil]; rfl
  simp only [DefSpec.run, h1, h2]

/-- `k $a` followed by `%define a 1`: rejected at line 1 with a replacement error, for every context -/
example {σ} (fuel : Nat) (env : Env) (c : PCtx σ) (active : List Str) (url : Option Str) (ctx : σ) :
    parseLines fuel env c active url ([] ++ "k $a".toList :: ["%define a 1".toList]) 0 { ctx := ctx, stack := [], defs := [] } =
      .error (.cfg { kind := .replacement, line := some ((0 + 0 + 1 : Nat) : Int), url := url, tag := "replacement" }) :=
  C05_later_definition_not_seen fuel env c active url [] _ "k $a".toList "k".toList "a".toList 0
    { ctx := ctx, stack := [], defs := [] } _ rfl
    (shape_of_classify_kv (line := "k $a".toList) (by decide) (by decide +kernel)) (by decide) rfl

end ZCV.Props.C05
